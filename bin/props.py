"""Per-property configuration of the checks (what to prove-check, which
drivers to run, how non-triviality is judged)."""

QUEUE_RULE = ("queue: seeded random Push/Pop histories (2..40 ops + drain) over 1..3 tags (priority 0..2, all four orders, chunk 1..6 or whole, "
              "last-delay 0/3600 s), 1..4 groups incl. names that are prefixes of each other and groups without a tag; files arriving late and older, "
              "equal timestamps, young files inside the delay (for C12 also: a 1 s delay that ELAPSES in real time between two Pops, no Push in between), "
              "pre-allocated placeholders, resumed files with own predecessor; 3/4 of the cases push each "
              "name once (proved domain), 1/4 re-push pending names (finding domain); every Pop of the real queue is compared with the model and judged by "
              "the oracles on the agreed pre-state; non-trivial = >=2 groups served or >=4 chunks; distinct = distinct input lines")


def race_suite(oracles):
    return dict(name="stagerace", pkg="./stage/", test="TestVerifStageRace", min_lines=10, timeout_quick=600, oracles=oracles, diffs=[],
                env_quick={"VERIF_RACE_SWAP": 4, "VERIF_RACE_STORM": 30}, env_thorough={"VERIF_RACE_SWAP": 24, "VERIF_RACE_STORM": 600})

RACE_RULE = (" stagerace (no model run, oracles on facts): the real Stage with concurrent connections: (swap) a 24..64 MiB file arrives in two parts, and "
             "as soon as the validator has the staged file open (seen in /proc/self/fd) a second, tiny version of the same name - intact or corrupted in "
             "transit - arrives on another connection; (storm) 2..11 files in predecessor chains, every part (1 in 5 twice) sent by 1..6 goroutines in a "
             "random order; at quiescence: every delivered file has the announced content of one version and the hash of its last log record, nothing is "
             "logged twice or before its predecessor, every complete file is delivered; (ready) a restart on a stage that holds a complete, unvalidated "
             "16..40 MiB file: from the moment the gate keeper answers 'ready' again no recovered file may still be unvalidated; (late) a duplicate of a file's "
             "first part - intact or damaged - stalls before its first byte while the file completes on another connection and is delivered or held; "
             "then the stalled body arrives: what is delivered / held must still be the announced content; (hold) a fresh file is held for a predecessor "
             "that was delivered 3 / 6 / 9 days ago and is known from the receive log only (receiver restarted): whenever the held file's own timer is "
             "pending it is fired at once; the file must come out after a bounded number of re-examinations, and a held file without a pending timer is stuck.")

STAGE_RULE = ("stage: seeded operation sequences against a real Stage on a temp directory with the real log.FileIO: 1..4 files (1..24 bytes, nested names, renames, "
              "predecessor chains; profiles: plain protocol, new versions of a name, corruption (flipped bytes, short/failing readers, wrong announced hash, "
              "overwritten staged bodies), cleaning with aged partials, cycles / self / never-arriving predecessors), parts in 1..4 slices in order or shuffled, "
              "duplicates and late retransmissions, requests of 1..3 parts (Prepare then Receive), status / received / partials queries, CleanNow, restarts "
              "(Stop+New+Recover) at quiescence; after every completing Receive the driver waits for quiescence; snapshots (stage listing with MD5, companions, "
              "final directory with MD5, log records) and every return value are compared with the model; plus the corpus of finding witnesses; "
              "non-trivial = something was staged or delivered; distinct = distinct input lines")
STAGE_NOTE = ("Trusted: Coq kernel (no axioms; MD5 is a Section variable, collision-freeness an explicit premise where used), extraction, OCaml/Go harness "
              "(OCaml Digest = MD5 passed as the hash argument). Modelled by hand: stage/local.go and companion.go as a sequential state machine with an object "
              "heap (cache, wait lists, channels hold object ids) and an explicit settle function for the validator/finalize goroutines. Not modelled: real "
              "goroutine interleavings (explored by the concurrent suite), narrowing log-search windows and the 10 s retry timer of isFileReady (the model "
              "looks at the whole log; C03d-type changes to that timer are met by the e2e and stage liveness oracles only), exporter/dispatcher, power-loss "
              "durability. cleanCache ageing IS modelled (ops 'clean cache' and 'd seconds pass').")
STAGE_SUITE = dict(name="stage", pkg="./stage/", test="TestVerifStage", min_lines=200, timeout_quick=900, confirm=True)

E2E_RULE = ("e2e: the real client.Broker with the real store.Local, cache.JSON, queue.Tagged, payload.Bin and sent-log against a real stage.Stage + receive log "
            "through an in-process transport that injects faults per request (206 at part i, cut before/after part i, lost answer, receiver unavailable, "
            "corrupted part) and per poll (error, not-found); seeded scenarios of 1..5 files (1..150 bytes, groups, nested names), 1..3 threads, payload 20..100 "
            "bytes, chunk <= payload, delete on/off; profiles: plain, faults, stop (graceful/now at a random interface-event index incl. right after start), "
            "crash (sender frozen at a random interface-event index incl. its cache writes, new Broker on the persisted cache), reuse (a name used again after "
            "release), mutate (file rewritten while queued), swap (replaced by a same-size version with an mtime 400 ms later in the same second, right after its "
            "last byte was received and before the answer returns, scanner slowed to 400 ms), stophash (an immediate stop while the k-th of 30..60 files is opened for hashing: more hash batches than the workers' channel holds), stopfail (one-shot run in which every file fails validation and the first poll "
            "answer takes 1.3 s: more failed verdicts than the retry channel holds, hand-off channels full at shutdown), refail (one file's first byte is damaged on the way the first 2..4 times it is sent: it fails validation again and again before the line is clean), vanish (a queued file disappears), eligible (young/hidden/ignored/lock/not-included files beside eligible ones); facts are computed "
            "from the recorded interface events; non-trivial = at least two requests; distinct = distinct scenario lines")
E2E_NOTE = ("Trusted: Coq kernel (no axioms), harness (the in-process transport stands in for http.Client/http.Server; wrappers around Store and the sent-log "
            "record events). The theorems are about decision functions of the sender model (poll handling, restart plan, scan predicate, send loop); the "
            "goroutine pipeline, channels and timers are NOT modelled: they are explored by the scenario runs and judged by oracles on facts (partial).")

def e2e_suite(profiles, oracles, n=None):
    env = {"VERIF_E2E_PROFILES": profiles}
    d = dict(name="e2e", pkg="./client/", test="TestVerifE2E", min_lines=min(8, n or 10), timeout_quick=900, oracles=oracles, diffs=[], confirm="e2e",
             env_quick=dict(env, VERIF_E2E_N=n or 10), env_thorough=dict(env, VERIF_E2E_N=(n or 10) * 10))
    return d

CACHE_SUITE = dict(name="cache", pkg="./cache/", test="TestVerifCache", min_lines=200,
                   oracles=["cache_entry_is_not_the_version_added", "cache_entry_lost_store_data", "confirmation_carried_over_to_another_version",
                            "restart_finds_other_than_persisted"], diffs=["cache"],
                   env_quick={"VERIF_N": 400}, env_thorough={"VERIF_N": 20000})
CACHE_RULE = (" cache: seeded operation sequences of 4..17 operations on the REAL cache.JSON in a temp directory (5 names; Add of a new version, of the version "
              "added last, or of that version with ONE field changed - size +1, mtime +1 ns, hash, the store's link data -; Done, Reset, Remove, Persist, and "
              "restarts = a new NewJSON on the same directory); the whole cache is dumped after every operation and compared with the model (Model/Cache.v); "
              "non-trivial = the sequence contains a Done or a restart; distinct = distinct sequences")

HTTP_RULE = ("http: a real serverApp behind the real Serve mux on 127.0.0.1: systematically every route (data, data-recovery, validate, partials, static GET, "
             "static DELETE) x 13 source values (valid, unknown, empty, '..', '.', '../..', 'good/..', other case, metacharacters, NUL) x allow-list on/off x "
             "key list on/off x key {none, right, wrong}; every name of a 19-element traversal list (parent segments, absolute, a/../.., repeated and mixed "
             "separators, percent-encoding, 300-byte names) in the name / predecessor / rename field of every route with separator header '', '/', '\\'; plus "
             "seeded requests built from up to 3 traversal fragments; after each request the whole sandbox tree incl. files outside the configured directories "
             "is compared with the snapshot before; static GET / DELETE also against a receiver WITHOUT a serve directory (working directory = the receiver's home, "
             "source names final / stage / logs / serve / mid / '.', a delivered file of another source present): nothing may be served; after every request "
             "the poll answers an authorised sender of source good gets about a file that failed validation and a file held for its predecessor (state kept in "
             "memory only) are compared with those before; non-trivial = unauthorised or dotted input; distinct = distinct input lines")

PROPS = {
    "C09": dict(
        coq="Properties/C09.v",
        suites=[
            dict(name="ranges", pkg="./stage/", test="TestVerifRanges", min_lines=1000),
            dict(STAGE_SUITE, oracles=["companion_claims_unwritten", "counted_part_not_on_record"], diffs=["companions", "received", "scan", "receive"]),
            race_suite(["complete_file_not_delivered", "acknowledged_part_not_on_record"]),
        ],
        rule=("ranges: every history of <=3 (thorough: <=4) ranges over the grid 0..5 (0..6) with every query range, "
              "plus seeded random histories of <=12 parts at scales 16..2^62 shaped as tilings with identical "
              "retransmissions and a minority of overlapping/empty/inverted parts; a case is non-trivial when it has "
              ">=2 parts two of which touch, overlap or coincide; distinct = distinct input lines"),
        level_text=("Proof: Coq theorems over the executable model of addCompanionPart / companionPartExists / isCompanionComplete, for "
                    "all records, parts and histories (complete=>covered and 'claims only acknowledged bytes' unrestricted; exactness, "
                    "sortedness and exists-soundness on the disjoint-or-identical discipline; the two overlap cases refuted with witnesses = known findings). "
                    "The answer to 'how many of these parts did you receive' is proved to be the leading run of parts on record (it stops at the first "
                    "part that is not), a part counting only when the companion of exactly that version records the range or the file is known as that "
                    "version in a state other than failed; every Received query of the stage histories is judged by that (counted_part_not_on_record). "
                    "The model is tied to the code by an exhaustive small-scope + seeded differential run of the real functions on every check."),
        level_note=("Trusted: Coq kernel (no axioms; Closed under the global context), extraction (ExtrOcamlBasic), the OCaml/Go harness. "
                    "Modelled by hand, tied by correspondence: stage/companion.go range functions, stage/local.go Received / partReceived. Not modelled: int64 overflow, file-system durability."),
        technique="Coq proof (induction over part histories) + extracted-model differential testing of the real Go functions",
        assumptions=[
            "int64 wrap-around is not modelled (offsets are unbounded Z)",
            "durability of os.WriteFile+rename of the companion against power loss is not modelled",
        ],
    ),
    "C11": dict(
        coq="Properties/C11.v",
        suites=[
            dict(name="chunk", pkg="./client/", test="TestVerifChunk", min_lines=1000),
            dict(name="queue", pkg="./queue/", test="TestVerifQueue", min_lines=1000,
                 oracles=["chunk_not_contiguous_with_allocation", "emits_allocated_file"], diffs=["pop-slice", "pop-send"]),
            dict(name="send", pkg="./client/", test="TestVerifSend", min_lines=500,
                 oracles=["part_forwarded_twice", "forwarded_differs_from_reported_head"], diffs=[]),
            # "every byte of every file is transmitted exactly once": what the encoder puts on the wire for a part is that
            # part's byte range - also for several, not adjacent ranges of one file in one payload (a resumed file)
            dict(name="wire", pkg="./payload/", test="TestVerifWire", min_lines=800, timeout_quick=600,
                 oracles=["part_got_bytes_of_another_part"], diffs=["encoder-body"],
                 env_quick={"VERIF_N": 250}, env_thorough={"VERIF_N": 4000}),
        ],
        rule=QUEUE_RULE + (" wire (the encoder's bytes per part, see C13) ") + (" chunk: exhaustive size 1..24 x chunk 1..9 x payload 10..32 (thorough 40x12x45) for one new file, payload sizes 1..9 sampled, "
              "every sorted disjoint record of <=3 ranges over 0..8 (thorough 0..11) x chunk {1,3,20}, plus seeded random cases of 1..3 files "
              "(new or resumed with shuffled records; exact multiples / one more / one less of chunk and payload; values up to 2^51); "
              "drives the real queue.Tagged, recover(), recoverFile, binnable, startBin, payload.Bin; non-trivial = a file split into several "
              "chunks, several payloads or a payload with several parts; distinct = distinct input lines"),
        level_text=("Proof: Coq theorems for all sizes, chunk sizes, payload sizes, missing-range sets and chunk/flush interleavings: chunks tile the file "
                    "or exactly the missing ranges, the resumption plan is the exact complement of a disjoint record, parts tile chunks, nothing is "
                    "dropped and no payload exceeds capacity+slack when the slack is >= 1; two refutations (zero slack, overlapping record) are "
                    "known findings. Tied to the code by exhaustive small-scope + seeded differential runs of the real queue/recover/binner/Bin."),
        level_note=("Trusted: Coq kernel (no axioms), extraction, OCaml/Go harness. Modelled by hand: queue.sortedFile.allocate, client.recoverFile, "
                    "recover()'s missing computation, binnable, startBin loop, payload.Bin Add/IsFull/Split. Assumed: offsets < 2^53 (Bin.Add goes "
                    "through float64; validated numerically, not proved), fluff = cap/10 (validated by the differential run), no int64 overflow."),
        technique="Coq proof (fuelled recursion + invariants over chunk/flush event lists) + extracted-model differential testing",
        assumptions=[
            "all offsets and sizes below 2^53: payload.Bin.Add computes min() in float64; beyond 2^53 the real code cuts parts off by one (observed, outside the modelled domain)",
            "int64(float64(cap)*0.1) = cap/10 for cap < 2^53 (validated by the differential run, not proved)",
            "the 1 s idle flush of the binner is modelled as a nondeterministic flush event between chunks",
        ],
    ),
    "C10": dict(
        coq="Properties/C10.v",
        suites=[
            dict(name="queue", pkg="./queue/", test="TestVerifQueue", min_lines=1000,
                 oracles=["emits_unknown_file", "emits_allocated_file", "not_least_in_order", "not_next_in_arrival_order",
                          "names_itself", "wrong_predecessor", "prev_chain_lost_on_repush"],
                 diffs=["pop-file", "pop-slice", "pop-prev", "pop-send", "pop-nil"]),
        ],
        rule=QUEUE_RULE,
        level_text=("Proof: Coq theorems over the executable model of queue.Tagged for all Push/Pop histories: pending lists stay sorted in the "
                    "tag's order, every emitted chunk belongs to the least pending file (first arrived for unordered tags), the announced predecessor "
                    "is exactly: none for unordered tags / the resumed file's own / the most recently completed-or-skipped file of the group, never "
                    "the file itself, completed strictly earlier (acyclicity); the chain invariant is proved over all histories with benign pushes and "
                    "refuted (witness) for a re-push of the only pending file = known finding. Tied to the real queue by seeded differential histories."),
        level_note=("Trusted: Coq kernel (no axioms), extraction, OCaml/Go harness. Modelled by hand: queue.Tagged Push/Pop/addFile/removeFile/"
                    "delayGroup/addGroup with the linked chain as kept++files. Assumed: sort.Search returns the first index whose predicate holds on a "
                    "sorted slice (library spec, exercised by the differential run); time.Since is replaced by an explicit 'now'."),
        technique="Coq proof (invariants over Push/Pop histories) + extracted-model differential testing of the real queue",
        assumptions=["sort.Search specification (first true index on monotone predicates)",
                     "file times/sizes of queued objects do not mutate while queued",
                     "the grouper/tagger functions are deterministic (inputs of the model)"],
    ),
    "C12": dict(
        coq="Properties/C12.v",
        suites=[
            dict(name="queue", pkg="./queue/", test="TestVerifQueue", min_lines=1000,
                 oracles=["priority_inversion", "round_robin_bypassed", "idle_while_ready"],
                 diffs=["pop-group", "pop-nil"],
                 env_quick={"VERIF_QUEUE_WAIT": 6}, env_thorough={"VERIF_QUEUE_WAIT": 40}),
        ],
        rule=QUEUE_RULE,
        level_text=("Proof: Coq theorems for all histories: the group list stays sorted by priority, Pop serves the first ready group in list order, "
                    "hence never a lower-priority group while a higher one is ready, is never idle while a group is ready, and passes over a group whose "
                    "only file is inside the last-file delay. The rotation clause (bounded bypass among equal priorities) is evaluated as an extracted-state "
                    "oracle on every implementation trace and is the part of the statement not yet closed by a theorem (see DESIGN)."),
        level_note=("Trusted: Coq kernel (no axioms), extraction, harness. Modelled by hand: queue.Tagged group list, delayGroup, addGroup, Pop loop. "
                    "Partial: round-robin bounded bypass is checked on traces (model state + oracle), not proved."),
        technique="Coq proof (priority-sortedness invariant, first-ready lemma) + extracted-model differential testing + rotation oracle",
        assumptions=["time.Since replaced by explicit 'now' (driver keeps ages far from the delay threshold)"],
    ),
    "C18": dict(
        coq="Properties/C18.v",
        suites=[dict(name="log", pkg="./log/", test="TestVerifLog", min_lines=500)],
        rule=("log: seeded cases: 1..4 day files (today, yesterday, up to 65 days back incl. month boundaries) written by the real FileIO.Received/"
              "Sent (day files moved to their dates), names from a prefix/suffix/substring-closed alphabet (a, ab, bc, abc, dir/abc.dat, names equal to "
              "hashes, spaces, unicode; 1/12 of the cases with ':' in names = finding domain), same name logged again with another hash, rename targets "
              "that look like hashes; 2..9 look-ups per case (written and unwritten names, with/without hash; windows: same day, across midnight, wide, "
              "reversed, empty, not touching) + Parse over the whole range; plus concurrent-writer runs (8 goroutines x 60 records); non-trivial = a case "
              "with both positive and negative answers; every third case runs in a fixed zone 12 h from UTC, on the side where the local calendar date "
              "differs from the UTC date at the time of the run; distinct = distinct input lines"),
        level_text=("Proof: Coq theorems over the model of the log format and the day walk: a record answers a look-up iff its name field equals the "
                    "name (and its hash field the hash), every touched day is visited for forward/reversed windows, the whole-log look-up is exact, "
                    "Parse returns every field as written (for ':'-free fields); refuted with a witness for names containing ':' (format limitation = "
                    "known finding). The model describes the code after the 'fix:' commit 88c8cb3; tied to it by the differential run of the real FileIO."),
        level_note=("Trusted: Coq kernel (no axioms), extraction, harness. Modelled by hand: log/local.go search/each/eachLine/Parse/line formats. "
                    "Library code assumed: strconv, bufio.Scanner (lines < 64 KiB), fmt. Time zone: the harness sets TZ=UTC and switches time.Local to UTC-12 / UTC+12 for a third of the cases (a fixed zone shifts the time axis "
                    "of the model; DST days are not modelled). "
                    "Concurrent writers: serialised by the logger goroutine - exercised (whole lines, multiset equal), not proved."),
        technique="Coq proof (split/join, prefix exactness, day-walk induction) + extracted-model differential testing of the real log code",
        assumptions=["TZ=UTC; local-time DST days (23/25 h) not modelled", "times are whole seconds; zero time.Time arguments not generated",
                     "writers are serialised by the logger goroutine (explored by concurrent runs)"],
    ),
    "C01": dict(
        coq="Properties/C01.v",
        suites=[dict(STAGE_SUITE, oracles=["delivered_content_not_validated"],
                     diffs=["finals", "log", "stage-files", "status", "receive"]),
                race_suite(["delivered_content_not_validated", "stalled_duplicate_wrote_into_settled_file"]),
                # the last step of a delivery: the validated file is put away by fileutil.Move (rename, or copy + remove across file systems)
                dict(name="move", pkg="./fileutil/", test="TestVerifMove", min_lines=100,
                     oracles=["file_put_away_differs_from_the_validated_bytes", "moved_file_left_behind"], diffs=["move-failed"])],
        rule=STAGE_RULE + RACE_RULE + (" move: the real fileutil.Move within one file system, across file systems (/dev/shm, when it is another device) and "
              "fileutil.Copy on files of 13 sizes around the 8 KiB copy block x {random, zero tail from a block boundary, zero block in the middle, all zeros, "
              "zero head}: the destination is byte-identical to the source and the source is gone (implementation-only oracles)"),
        level_text=("Proof: invariant over ALL receiver histories (any part order/grouping, duplicates, corruption in transit, overwritten partials, queries, "
                    "cleaning, timers, restarts at quiescence) in which each name is announced with one hash: every file in the final directory hashes to the "
                    "announced hash of its name and that hash is in its log record (C01_delivered_valid_on_D, byte-identity under collision-freeness); "
                    "unconditional step theorems: validation checks the hash, a mismatch is reported failed and delivers nothing; refuted outside D with the "
                    "stale-waiter witness (known finding). Tied to the code by the operation-sequence differential run of the real Stage."),
        level_note=STAGE_NOTE,
        technique="Coq proof (5-clause invariant preserved by all 11 operations incl. settle/recover, induction over histories) + operation-sequence differential testing",
        assumptions=["restarts happen at quiescence in this suite (crash points between durable steps: C06)",
                     "md5 collision-freeness is a premise of the byte-identity corollary only"],
    ),
    "C04": dict(
        coq="Properties/C04.v",
        suites=[dict(STAGE_SUITE, oracles=["delivered_before_predecessor"], diffs=["finals", "log", "status"]),
                race_suite(["delivered_before_predecessor", "complete_file_not_delivered"]),
                dict(name="queue", pkg="./queue/", test="TestVerifQueue", min_lines=1000,
                     oracles=["wrong_predecessor", "names_itself"], diffs=["pop-prev"])],
        rule=STAGE_RULE + RACE_RULE + " " + QUEUE_RULE,
        level_text=("Proof (step level): the finalize handler logs/delivers a file only if its predecessor reference is empty, itself, found in the log, or "
                    "known delivered; otherwise the validated file is parked (held_is_waiting); delivery is one log record then the move. The history-level "
                    "ordering of the receive log is evaluated as an oracle on every implementation trace (cycles cleared by the cleaner exempt); end-to-end "
                    "composition with C10 is argued in DESIGN, not yet a theorem; the sender's half - which predecessor a file is announced with - is C10's "
                    "model, and its suite (queue) runs here too, since the receiver can only order what it is told."),
        level_note=STAGE_NOTE,
        technique="Coq proof (step theorems on the finalize handler) + operation-sequence differential testing + log-order oracle",
        assumptions=["predecessor identity is the name; log look-ups are modelled over the whole log"],
    ),
    "C05": dict(
        coq="Properties/C05.v",
        suites=[dict(STAGE_SUITE, oracles=["logged_twice", "logged_twice_after_record_aged_out", "logged_twice_single_version", "delivered_version_not_recognised", "delivered_version_not_recognised_single_version", "superseded_version_not_recognised"], diffs=["finals", "log", "received", "status", "stage-files"]),
                race_suite(["logged_twice"]),
                dict(name="redeliver", pkg="./http/", test="TestVerifRedeliver", min_lines=40, timeout_quick=600,
                     oracles=["not_delivered_in_the_first_place", "delivered_version_logged_again_after_restart", "delivered_version_not_recognised_after_restart",
                              "delivered_version_logged_again"],
                     diffs=["retransmission-status"])],
        rule=STAGE_RULE + RACE_RULE + (" redeliver: the REAL http Client (Transmit / RecoverTransmission) -> Server (handleValidate, routeData, routeDataRecovery, "
              "payload.NewDecoder) -> stage.Stage -> log.FileIO over loopback, 6 time zones (UTC, -11, -8, -3, +9, +13 h) x file time of day (21:00, 03:00, 12:00 "
              "local) x 1 / 3 days ago x {announced by a data-recovery request, sent whole}: a file is delivered, its log record moved to ten minutes after the "
              "file time, the receiver restarted (a new Stage on the same directories), and the same version retransmitted: it must be answered 'held' and "
              "logged exactly once (implementation-only oracles)"),
        level_text=("Proof (step level): a finalisation appends at most one record and changes the final directory only together with it. The history-level "
                    "'exactly once' statement is evaluated as an oracle on every trace (no (name,hash) logged twice); it is refuted by the faithful model when a "
                    "failed other version of the name replaced the in-memory record of a delivery (known finding C05-F1)."),
        level_note=STAGE_NOTE,
        technique="Coq proof (step theorem) + operation-sequence differential testing + once-only oracle",
        assumptions=["cache ageing (cleanCache) is not exercised in the quick tier"],
    ),
    "C20": dict(
        coq="Properties/C20.v",
        suites=[dict(STAGE_SUITE, oracles=["clean_removed_undelivered_partial", "clean_removed_undelivered_companion", "clean_removed_validated_data", "clean_removed_partial_of_running_transfer"],
                     diffs=["stage-files", "companions"]),
                dict(name="prune", pkg="./stage/", test="TestVerifPrune", min_lines=100,
                     oracles=["prune_removed_file", "prune_removed_young_directory", "prune_removed_non_empty_directory"],
                     diffs=["prune-left"]),
                dict(name="prunehttp", pkg="./main/", test="TestVerifPruneHTTP", min_lines=40,
                     oracles=["prune_removed_file", "prune_removed_young_directory", "prune_removed_non_empty_directory"],
                     diffs=["prune-left"])],
        rule=STAGE_RULE + (" prunehttp: the same through the real serverApp: PUT /prune?block&minage=3600&source=... on the internal port, trees under the "
                           "source's stage and final directories (incl. a directory emptied a moment ago), compared with the model's prune. prune: the real Stage.Prune(1h) on generated directory trees (up to 10 entries, depth <= 5, files and directories, each old (3 h) or "
                           "young (2 min), ages set bottom-up with Chtimes, under the stage root or the final directory, root old in 1/6 of the cases) plus directed "
                           "trees (young parent of old empty children, collapsing old chains, file at the bottom of an old chain); the surviving paths are compared "
                           "with the model's prune; non-trivial = at least three entries; distinct = distinct trees"),
        level_text=("Proof: cleanStrays (after fix d299eeb) never touches .full/.wait bodies, delivered files, log or cache, only removes partials/companions, "
                    "and removes a partial only when it is old AND the cache knows the file beyond 'received' with the companion's hash (or no companion) or "
                    "the log has a record of that name and hash. Tied to the code by the differential run with aged partials and CleanNow at random points. "
                    "Prune (Model/Prune.v): for every tree, what goes is a directory older than minAge whose entries were all directories removed by the same "
                    "run; files, young directories and every directory holding something that stays are kept, and nothing that stays loses its parent."),
        level_note=STAGE_NOTE,
        technique="Coq proof (case analysis of clean_stray; induction over the directory tree for prune) + operation-sequence and directory-tree differential testing + removal oracles",
        assumptions=["file and directory ages are set with Chtimes, bottom-up, after the tree is built", "Prune is modelled on the tree as it is when Prune starts (no concurrent writer during the walk)"],
    ),
    "C06": dict(
        coq="Properties/C06.v",
        suites=[dict(name="crash", pkg="./stage/", test="TestVerifCrash", min_lines=30, timeout_quick=900, confirm="crashpoints",
                     oracles=["validated_file_lost_or_misnamed_after_crash", "record_claims_bytes_not_held_after_crash",
                              "delivered_under_lock_name_after_crash", "not_delivered_after_crash_and_resume", "redelivered_after_crash",
                              "delivered_content_not_validated", "companion_claims_unwritten", "validated_held_file_lost",
                              "held_file_left_behind_although_predecessor_delivered"]),
                dict(STAGE_SUITE, oracles=["delivered_content_not_validated", "positive_status_for_another_version", "validated_held_file_lost",
                                            "held_file_left_behind_although_predecessor_delivered"], diffs=["finals", "log"])],
        rule=("crash: for each of 10 (thorough 80) seeded protocol scenarios (1..3 files, 1..3 parts each, shuffled, chains, renames) EVERY durable step "
              "of the whole run - every os.Rename/Remove/Create/WriteFile/MkdirAll in stage/, fileutil/, log/ and every log append, intercepted by generated "
              "instrumentation - is enumerated as a crash point: the world is frozen there, the directory tree copied (crash image), a fresh Stage started "
              "on the copy, Recover run, and the sender-side resumption (partials listing -> missing ranges -> re-send -> poll) played; the image is loaded "
              "into the model and post-recovery / final snapshots and every answer are compared; non-trivial = something was staged or delivered in the "
              "image; distinct = distinct (scenario, crash index) lines"),
        level_text=("Proof + fault enumeration: theorem: from ANY durable state that satisfies the integrity invariant, every continuation (Recover, "
                    "re-validation, finalisation, resumed reception) keeps it - nothing unvalidated is delivered after a crash; Recover's scan loses no log "
                    "record, validated or complete body, and finishes an interrupted move (fix c24e975). That the images at EVERY durable step satisfy the "
                    "invariant and that the model's recovery is the code's is established by enumerating all crash points of generated runs (the model's "
                    "operations are atomic; the micro-steps are the implementation's own)."),
        level_note=STAGE_NOTE + " Crash points are the implementation's file-system mutations (regex-instrumented copies of the sources, regenerated on every run); data writes into the .part file are not separate crash points; power-loss reordering is not modelled.",
        technique="Coq proof (crash-closed invariant, recovery lemmas) + exhaustive crash-point enumeration with model comparison",
        assumptions=["process death only: completed system calls are durable, no reordering", "one crash per run in the quick tier"],
    ),
    "C08": dict(
        coq="Properties/C08.v",
        suites=[dict(name="send", pkg="./client/", test="TestVerifSend", min_lines=500),
                e2e_suite("ooo,faults", ["logged_sent_before_all_bytes_acknowledged", "part_counted_as_held_not_on_record"], n=12),
                dict(name="track", pkg="./client/", test="TestVerifTrack", min_lines=200,
                     oracles=["logged_sent_before_all_bytes_acknowledged", "polled_before_all_bytes_acknowledged"], diffs=["tracker-logged", "tracker-handed"],
                     env_quick={"VERIF_N": 300}, env_thorough={"VERIF_N": 10000}),
                race_suite(["acknowledged_part_not_on_record", "complete_file_not_delivered"]),
                dict(name="chunk", pkg="./client/", test="TestVerifChunk", min_lines=1000, oracles=["send_size_is_not_the_bytes_to_send"], diffs=[])],
        rule=("send: the real startSend / handleSendError / payload.Bin.Split / Remove against a scripted network: exhaustively every failure position of every "
              "payload of 1..5 parts x {partial-content answer with count k, error without count + recovery request answering k after 0..2 failed recovery "
              "requests}, plus seeded scripts of up to 4 consecutive failures on payloads of 1..7 parts with files changing between attempts; the parts of "
              "every Transmit call and of every group forwarded to the tracker are compared with the model; non-trivial = at least two requests; distinct = "
              "distinct input lines. track: the REAL Broker.startTrack goroutine is fed generated sequences of forwarded payloads (parts of 1..4 files - some "
              "resumed, some never completed, some with parts of another version of the name - in any order and grouping); its sent-log calls and hand-overs to "
              "the poller are compared with Model/Tracker.v. " + E2E_RULE + RACE_RULE),
        level_text=("Proof: for every sequence of failures, reported counts, failed recovery requests and file changes the send loop accounts for every part "
                    "exactly once (forwarded / dropped as changed / still to send) - nothing skipped, abandoned or counted twice; what counts as sent is exactly "
                    "the leading k parts the receiver reported and the next request carries exactly the remainder (theorems over the model of startSend + "
                    "handleSendError after fix 3574b5d). Tied to the code by exhaustive + seeded differential runs of the real loop. The tracker part of the "
                    "statement: for every sequence of forwarded payloads a file is written to the sent log / handed to the poller only when the bytes "
                    "acknowledged for that version add up to its send size, and disjoint ranges adding up to the size cover every byte (Model/Tracker.v, "
                    "tied to the real startTrack by suite track)."),
        level_note=("Trusted: Coq kernel (no axioms), extraction, harness. Modelled by hand: client.startSend, handleSendError, Bin.Split/Remove, the changed-file "
                    "filter. The network and receiver are an adversarial event list; that the reported count equals what the receiver recorded is the "
                    "receiver's side (C09: Received / 206 count). Several sender threads: each runs this loop on its own payload (no shared state but the channels)."),
        technique="Coq proof (permutation invariant of the send loop over adversarial event lists) + exhaustive/seeded differential testing of the real loop",
        assumptions=["part identities within a payload are distinct (one part per chunk)", "ErrorBackoff sleeping is not modelled"],
    ),
    "C02": dict(
        coq="Properties/C02.v",
        suites=[e2e_suite("plain,faults,reuse,mutate,crash,swap,swapfail,pollnone", ["deleted_without_validated_copy", "source_gone_receiver_lacks_it", "released_without_positive_answer"], n=9),
                dict(name="finish", pkg="./client/", test="TestVerifFinish", min_lines=400,
                     oracles=["entry_confirmed_by_answer_about_another_version", "source_removed_without_confirmation_of_that_version"],
                     diffs=["finish-done", "finish-removed", "finish-retry"]),
                dict(STAGE_SUITE, oracles=["positive_status_without_copy", "positive_status_for_another_version"], diffs=["status"]),
                dict(CACHE_SUITE, oracles=["confirmation_carried_over_to_another_version"])],
        rule=E2E_RULE + " | " + STAGE_RULE,
        level_text=("Proof (decision level) + trace oracles: the sender releases a file only on a positive poll answer, in the poll loop and at restart; the "
                    "receiver answers positively only for validated / finalized / logged entries and negatively for failed, received, unknown ones. That every "
                    "Store.Remove happens while the receiver durably holds a validated copy with the SAME content hash is checked at the instant of each "
                    "deletion in end-to-end runs with faults, restarts, re-used names and files rewritten while queued (after fix 2749a0b)."),
        level_note=E2E_NOTE + " Known limit: the poll is keyed by name and start time only, so a recovery poll can be answered on the strength of an older version of the name (documented finding C02-F2, not reproduced by the generated scenarios).",
        technique="Coq proof (release decision theorems, receiver status theorem) + end-to-end trace oracles at every deletion",
        assumptions=["check-then-delete of a source file is not atomic (a file replaced in the microseconds between the check and the unlink is out of scope)"],
    ),
    "C07": dict(
        coq="Properties/C07.v",
        suites=[e2e_suite("crash,crashfail,crashgone", ["sent_log_record_repeated_after_restart", "resent_bytes_receiver_reported_held", "not_delivered_after_sender_restart", "deleted_without_validated_copy", "source_gone_receiver_lacks_it", "released_without_positive_answer"], n=14),
                dict(name="chunk", pkg="./client/", test="TestVerifChunk", min_lines=1000, oracles=["chunks_not_tiling_missing"], diffs=["left", "left-kind", "chunks"]),
                e2e_suite("reuse", ["deleted_without_validated_copy", "source_gone_receiver_lacks_it"], n=9),
                CACHE_SUITE,
                # "the ordering chain continues from the files handled before the crash": recover() pushes the files the receiver
                # holds completely as fully allocated placeholders; what the queue announces for the files behind them
                dict(name="queue", pkg="./queue/", test="TestVerifQueue", min_lines=1000,
                     oracles=["wrong_predecessor", "names_itself"], diffs=["pop-prev"]),
                # the question "what do you hold of my files?" itself: the real http Client.Recover + stage.ReadCompanions against
                # the real server in front of a real stage that is ready / not ready (503) / refuses the key (403)
                dict(name="partials", pkg="./http/", test="TestVerifPartials", min_lines=12,
                     oracles=["refused_partials_request_read_as_nothing_held", "partials_listing_differs_from_what_is_staged"],
                     diffs=["partials-request-failed"])],
        rule=E2E_RULE + CACHE_RULE + " " + QUEUE_RULE + (" partials: the real http Client.Recover with stage.ReadCompanions against the real "
              "Server.handleValidate + routePartials in front of a real Stage holding 0..3 partly received files, the stage ready / not ready (503) / the key "
              "refused (403): a refused request is an error, a served one lists exactly what is staged"),
        level_text=("Proof (plan level) + crash enumeration: the restart plan re-sends ranges only for an unconfirmed, unchanged, partly received file and "
                    "exactly the complement of what the receiver lists (missing_complement); an unconfirmed file is never skipped or marked done; nothing is "
                    "finished at restart without a positive answer. Sender crashes are injected at random interface-event indexes (all wrappers and cache "
                    "writes frozen), a new Broker runs on the persisted cache, and the run must deliver everything without re-sending a byte the receiver "
                    "listed as held and without an unconfirmed deletion."),
        level_note=E2E_NOTE,
        technique="Coq proof (restart-plan decision theorems + complement theorem) + sender-crash injection with trace oracles",
        assumptions=["crash = all interface calls and cache writes of the old instance stop; the old goroutines are abandoned"],
    ),
    "C17": dict(
        coq="Properties/C17.v",
        suites=[dict(name="scan", pkg="./client/", test="TestVerifScan", min_lines=300, timeout_quick=600,
                     env_quick={"VERIF_N": 700}, env_thorough={"VERIF_N": 20000}),
                e2e_suite("eligible,reuse,mutate,plain,swap,mutateyoung", ["ineligible_file_sent_or_deleted", "version_sent_before_its_minimum_age", "delivered_mixture_of_versions", "not_delivered_within_bound", "source_gone_receiver_lacks_it"]),
                e2e_suite("crash", ["resent_bytes_receiver_reported_held"], n=8),
                CACHE_SUITE],
        rule=CACHE_RULE + (" scan: the REAL store.Local.Scan + Broker.includeScannedFile + Broker.scan (hashing, cache.JSON) on generated trees (15 names: nested, hidden "
              "files and directories, ignored, lock, included / not included, a name with a space, a symbolic link) x minimum age {0, 10 s, 60 s} x hidden on/off x "
              "include list on/off; histories of 4..18 operations: create anew (rename over the name), rewrite in place, append, touch forwards and BACKWARDS, "
              "replace by a same-size file with an older / newer / identical mtime, remove, disable marker on/off, cache entry confirmed, a cache-age interval "
              "passes (the next scan begins with the cache clean-up), scan; ages stay 3 s clear of the minimum-age "
              "boundary; 40 directed histories first; every scan's returned (name, size, mtime) set is compared with the model and the hash with the content on "
              "disk; non-trivial = at least two scans; distinct = distinct input lines. " + E2E_RULE),
        level_text=("Proof: a scan returns a file iff all eligibility conditions hold and it is new or changed; over every history of scans (trees, clocks and "
                    "the disable marker changing arbitrarily in between) a scan returns exactly the eligible files whose (size, mtime) differs - in either "
                    "direction - from the version of that name returned last, and a returned file left unchanged is not returned again; the periodic cache clean-up forgets "
                    "exactly the names whose file is gone and is invisible to the scan it precedes. The history model is run "
                    "against the real scanner + cache on generated histories. End-to-end: real store.Local scans of generated trees (young, hidden, ignored, lock, not-included files), re-used names and files "
                    "rewritten while queued: ineligible files are never transmitted or deleted, every eligible (last) version is delivered, and a delivered "
                    "file is never a mixture of versions."),
        level_note=E2E_NOTE + " Regexp matching and symlink resolution are library / OS behaviour (inputs of the predicate); the dangling-symlink scan abort found while reading the code is documented in DESIGN (not generated).",
        technique="Coq proof (scan predicate iff-theorem) + end-to-end runs on generated directory trees",
        assumptions=["pattern matching verdicts are inputs of the model"],
    ),
    "C03": dict(
        coq="Properties/C03.v",
        suites=[e2e_suite("plain,faults,eligible,pollnone", ["not_delivered_within_bound", "pipeline_never_drains_after_vanished_file", "staging_area_not_empty_at_the_end"], n=12),
                e2e_suite("mutate,vanish", ["not_delivered_within_bound", "not_confirmed_after_rewrite_in_flight", "pipeline_never_drains_after_vanished_file"], n=8),
                e2e_suite("crashfail,crash", ["not_delivered_after_sender_restart"], n=6),
                e2e_suite("ring", ["not_delivered_within_bound"], n=3),
                e2e_suite("refail", ["not_delivered_within_bound", "staging_area_not_empty_at_the_end"], n=6),
                race_suite(["held_file_never_released_although_predecessor_logged", "complete_file_not_delivered"]),
                dict(STAGE_SUITE, oracles=["positive_status_without_copy"], diffs=["status"])],
        rule=E2E_RULE + RACE_RULE + " " + STAGE_RULE,
        level_text=("Partial. Proof: through any failure sequence the send loop loses no part and drains completely once a request succeeds; negative or missing "
                    "poll answers always lead to another attempt. Exploration: fault scripts (all request-failure kinds, corruption, poll failures) followed by "
                    "a failure-free period must end with every eligible file delivered, confirmed, released, the staging area empty and the sender stopped, "
                    "within a wall-clock bound. Real scheduling, channels and timers are explored, not proved."),
        level_note=E2E_NOTE,
        technique="Coq proof (send-loop drain + retry decision) + bounded-time end-to-end liveness runs after fault scripts",
        assumptions=["the receiver's periodic cleaner runs (compressed to 1.5 s in the harness): it is what breaks predecessor cycles", "bound: 12 s per phase"],
    ),
    "C16": dict(
        coq="Properties/C16.v",
        suites=[e2e_suite("stop", ["stop_now_did_not_terminate", "stop_now_not_prompt", "graceful_stop_did_not_terminate", "graceful_stop_left_work_undone", "confirmed_left_unrecorded_at_exit"], n=24),
                e2e_suite("plain,faults,vanish", ["pipeline_never_drains_after_vanished_file"], n=8),
                e2e_suite("stopfail,stopretry,stopjam,stopburst,stophash", ["graceful_stop_did_not_terminate", "stop_now_did_not_terminate", "stop_now_not_prompt", "graceful_stop_left_delivered_files_unpolled"], n=5),
                dict(CACHE_SUITE, oracles=["restart_finds_other_than_persisted"])],
        rule=E2E_RULE + CACHE_RULE,
        level_text=("Partial. Proof: every poll verdict resolves the file and only confirmed files are recorded done. Exploration: both kinds of stop injected at "
                    "random interface-event indexes (incl. immediately after start = one-shot run), with and without request failures: the sender must exit "
                    "(now: within 4 s; graceful: after delivering and confirming everything found). The shutdown order of the goroutine pipeline is explored, "
                    "not proved."),
        level_note=E2E_NOTE,
        technique="Coq proof (verdict resolution) + stop injection at interface-event indexes with termination oracles",
        assumptions=["bounds: 4 s for an immediate stop, 12 s for a graceful one"],
    ),
    "C19": dict(
        coq="Properties/C19.v",
        suites=[dict(name="conf", pkg=".", test="TestVerifConf", min_lines=1000),
                dict(name="tags", pkg="./main/", test="TestVerifTags", min_lines=100, timeout_quick=600,
                     env_quick={"VERIF_N": 150, "VERIF_INHERIT_N": 60, "VERIF_IGNORE_N": 60}, env_thorough={"VERIF_N": 3000, "VERIF_INHERIT_N": 1500, "VERIF_IGNORE_N": 1500}),
                e2e_suite("reuse", ["deleted_before_delete_delay"], n=9)],
        rule=("conf: seeded documents generated from the schema: 1..3 sources each with threads / min-age / compress / poll-attempts / out-dir / target "
              "(key, quic-enable-datagrams, http3-port) / stat-payload / include-hidden / error-backoff / include / ignore and 0..3 tags (priority, order, "
              "chunk-size, last-delay, delete), every option omitted / explicitly zero-or-false / given; rendered as YAML or JSON (50/50), parsed by the real "
              "ClientConf unmarshalling, then json.Marshal'ed and parsed again (as main/controlled.go does); effective values of every source and tag before and "
              "after re-encoding are compared with the model; 2/3 of the documents avoid what the language cannot express (finding domain in the rest); "
              "non-trivial = at least two sources; distinct = distinct input lines. tags: the REAL clientApp.init() on generated tag lists (0..4 pattern "
              "tags from 13 patterns: anchored, unanchored literals, character classes, end anchors; methods http / none) x 5 group-by patterns; for 12..13 "
              "names each (fragments joined by '/', extensions, the pattern texts themselves) the tag handed to broker and queue is compared with the "
              "model's first-match rule (regexp verdicts computed with the library directly); lines GI: senders of 2..4 sources, bin-size omitted / given, tag list "
              "omitted (= the predecessor's tag objects) / given with and without chunk-size, the real init() of every source in configuration order, then the "
              "first chunk of a 64 MiB file popped from each source's real queue for each tag vs. the model's chunk table"),
        level_text=("Proof: omitted options inherit the predecessor's (the default tag's) value, given values are never overridden, an explicit false is kept for "
                    "the options that carry a marker (stat-payload, error-backoff, delete), re-encoding is a fixed point of the effective configuration when "
                    "'%f' preserves error-backoff, a file gets the first pattern tag matching its group, and a source that gives a bin-size chunks every tag with a chunk-size written for a "
                    "tag or with its own bin-size - never another source's; refuted with witnesses (known findings) for options "
                    "without a marker (include-hidden false, explicit zero of plain options, target booleans), the empty-include quirk and the 7th decimal of "
                    "error-backoff. Tied to the real unmarshalling / marshalling / propagate code by differential runs over generated YAML and JSON documents."),
        level_note=("Trusted: Coq kernel (no axioms), extraction, harness. Modelled by hand: ClientConf.propagate, reflectutil.CopyStruct/IsZero (0 = zero value), "
                    "SourceConf/TagConf applyAux + MarshalJSON markers, tagger/grouper. YAML/JSON lexing, regexp, units/duration parsing are library code. The "
                    "wiring of tags into the running sender (main/client.go init) is exercised by the tags suite (tagger, grouper, queue tags and chunk sizes); "
                    "the delete decision of a running sender by the e2e profile reuse."),
        technique="Coq proof (field-wise inheritance, marker semantics, re-encode fixpoint, first-match tagger) + differential testing of the real conf code",
        assumptions=["an option whose value is the type's zero value is 'omitted' unless it carries an is-set marker (stated in the theorems)"],
    ),
    "C14": dict(
        coq="Properties/C14.v",
        suites=[dict(name="http", pkg="./main/", test="TestVerifHTTP", min_lines=500, timeout_quick=900,
                     oracles=["touched_file_outside_configured_directories", "touched_file_of_another_source", "disclosed_file_of_another_source", "served_without_a_serve_directory"],
                     diffs=["escaping-name-not-refused", "local-name-refused", "static-served-unsafe-path"])],
        rule=HTTP_RULE,
        level_text=("Proof: every name accepted by the routes' guard (filepath.IsLocal and not the directory itself) resolves, by the lexical Clean+Join the "
                    "stage applies, to root ++ cleaned-name - so it has the per-source root as a prefix - for all roots and names; escaping, absolute and empty "
                    "names are refused; plain names are accepted. Tied to the code end to end: a real serverApp (real standardValidator, source mangling, "
                    "payload.NewDecoder, stage) behind the real Serve mux on 127.0.0.1; every field of every route filled from a traversal grammar; the whole "
                    "sandbox tree (incl. files outside the configured directories) compared before/after every request."),
        level_note=("Trusted: Coq kernel (no axioms), extraction, harness (OCaml glue re-implements strings.Split + filepath.Join for the separator header; "
                    "path.Clean is the model's clean_rel/clean_abs). Library code: filepath.IsLocal / Clean (modelled lexically), net/http mux path cleaning and "
                    "redirects, os.Root in the static route. Symlinks planted inside the roots by other means are out of scope."),
        technique="Coq proof (lexical path cleaning, locality => prefix) + end-to-end traversal grammar over all routes with before/after tree comparison",
        assumptions=["Linux path separator; the per-source root itself contains no dot segments (it is filepath.Join'ed from configured directories)"],
    ),
    "C15": dict(
        coq="Properties/C15.v",
        suites=[dict(name="http", pkg="./main/", test="TestVerifHTTP", min_lines=500, timeout_quick=900,
                     oracles=["refused_request_had_effect", "unauthorised_request_processed", "refused_request_changed_what_authorised_sender_is_told",
                              "request_changed_what_sender_is_told_about_other_files"],
                     diffs=["refusal-code", "partials-status"]),
                dict(race_suite(["ready_before_recovery_finished"]), env_quick={"VERIF_RACE_SWAP": 0, "VERIF_RACE_STORM": 8, "VERIF_RACE_READY": 4},
                     env_thorough={"VERIF_RACE_SWAP": 0, "VERIF_RACE_STORM": 8, "VERIF_RACE_READY": 40}, min_lines=8),
                dict(name="recovery", pkg="./main/", test="TestVerifRecovery", min_lines=4, timeout_quick=300,
                     oracles=["served_while_recovering", "not_served_after_recovery", "unauthorised_not_refused_after_recovery"], diffs=[])],
        rule=HTTP_RULE,
        level_text=("Proof: the validation decision is exactly: source named and safe, gate keeper ready, source on the list (with the allowed character set) "
                    "when a list is configured, key on the key list when configured; otherwise 400 / 503 / 403 in that order and the wrapped route is not "
                    "entered. Tied to the code end to end: all routes x source / key values (wrong, empty, other case, separators, metacharacters, dot "
                    "segments, another source's key) x allow-list variants through the real Serve mux; a refused request must change nothing in the whole "
                    "sandbox tree, and the status must be the model's."),
        level_note=("Trusted as C14. The 'still recovering => 503' branch is a theorem about the decision function; that stage.New starts READY and main/server.go "
                    "runs Recover in a goroutine (so the first microseconds after start-up are not covered by the 503) is a documented window, not exercised."),
        technique="Coq proof (decision iff-theorem, refusal-code theorem) + end-to-end enumeration of routes x credentials with no-effect oracle",
        assumptions=["the request validator is main.standardValidator (not the database-backed one)"],
    ),
    "C13": dict(
        coq="Properties/C13.v",
        suites=[dict(name="wire", pkg="./payload/", test="TestVerifWire", min_lines=800, timeout_quick=600,
                     env_quick={"VERIF_N": 250}, env_thorough={"VERIF_N": 4000}),
                dict(name="wirehttp", pkg="./http/", test="TestVerifWireHTTP", min_lines=200, timeout_quick=600,
                     env_quick={"VERIF_N": 120}, env_thorough={"VERIF_N": 2500}),
                # behind the decoder: a part the receiver does not need (a file it already has) must not shift the stream
                dict(name="redeliver", pkg="./http/", test="TestVerifRedeliver", min_lines=40, timeout_quick=600,
                     oracles=["part_behind_a_retransmitted_file_got_other_bytes"], diffs=[])],
        rule=("wire: the REAL Bin.Add / EncodeHeader / Encoder.Read and NewDecoder / Decoder.Next / PartDecoder.Read in memory: seeded payloads of 1..5 (1 in 12: "
              "6..35) parts; names, rename targets and predecessors of 1..4 segments from a 44-symbol alphabet (ASCII, space, 2/3/4-byte UTF-8, quote, backslash, "
              "<, >, &, control characters incl. \\b \\f, DEL, U+2028/9, U+FFFF, literal '\\u0041'), in the '/' and the '\\' convention and without a separator "
              "header; times incl. negative seconds, year 9999, nanoseconds 0 / 1 / 999999999; whole files and slices at the start, middle and end, offsets "
              "beyond 2^33; part lengths 1..40, 200..4200, 30000..80000; encoder / stream / consumer buffers 1 B..100 kB independently; every payload also "
              "with the wire cut at 6..8 points (inside the header, at the header/body boundary, inside and between parts, one byte short) and, 1 in 4, with "
              "an announced header length that is too small / too large; header bytes, encoder output and every decoded part are compared with the model. "
              "wirehttp: the REAL Client.Transmit (gzip levels -1, 0, 1..9) against the REAL Server.handleValidate + routeData + payload.NewDecoder over a "
              "loopback TCP connection, the gate keeper recording what routeData hands over; each payload also 3 times as a raw request cut short after k "
              "bytes of the (compressed) body with separator header '/' or '\\'; uncompressed requests are compared with the model exactly, compressed and "
              "cut ones by oracle (never 200 unless complete; every part only ever holds a prefix of its own bytes); plus groups of 2..3 payloads sent AT THE "
              "SAME TIME through one Client at every level (every member's header is out before any body; bodies one after the other), each member "
              "judged like a single request; non-trivial = at least two parts, a cut "
              "or compression; distinct = distinct input lines"),
        level_text=("Proof: the header (Go's JSON string escaping at byte level, decimal integers, the sec+nsec time format) decodes to exactly the descriptors "
                    "encoded, for all byte strings and all integers within +-10^19; the operational reader (PartDecoder.Read under any chunking and any "
                    "consumer buffer) cuts the stream exactly at the announced lengths; so the whole payload round-trips for any number and length of parts and "
                    "both separator conventions; every truncation inside the header is refused and every truncation inside the body reports the complete "
                    "parts unchanged and flags the one short part, which holds a strict prefix of its own bytes. Tied to the code in memory (header bytes "
                    "compared byte for byte) and over real HTTP requests."),
        level_note=("Trusted: Coq kernel (no axioms), extraction, harness. Library code, not modelled: compress/gzip, net/http, encoding/json beyond the sender's own "
                    "output (key order / case-insensitive keys / white space in foreign headers), UTF-8 validation (names that are not valid UTF-8 are "
                    "replaced by U+FFFD by encoding/json: outside the property's quantifier, see DESIGN). filepath.Join / Clean are modelled lexically "
                    "(Model/Auth.v clean_rel / clean_abs). The rename target is a template result of the sender's configuration and is deliberately not "
                    "separator-translated by the code; the model follows the code."),
        technique="Coq proof (codec round-trip by induction, reader refinement to a cut-at-lengths spec, truncation theorems) + byte-exact differential runs in memory and over loopback HTTP",
        assumptions=["names are valid UTF-8", "integers within +-10^19 (covers int64)", "the consumer reads each part to its end (io.Copy in Stage.Receive) before asking for the next"],
    ),
}
PROPS["C19"]["rule"] += " " + E2E_RULE + " (here: profile reuse with its delayed-deletion variant - the tag has a delete-delay of 8 s: no file may be deleted younger than that)"
PROPS["C06"]["rule"] += " " + STAGE_RULE + " (here: the histories with restarts - what was staged when the receiver stopped: held files beside a newer version's partial or failed complete body, parts announcing different predecessors, stalled partials)"
