"""Per-property configuration of the checks (what to prove-check, which
drivers to run, how non-triviality is judged)."""

PROPS = {
    "C09": dict(
        coq="Properties/C09.v",
        suites=[
            dict(name="ranges", pkg="./stage/", test="TestVerifRanges", min_lines=1000),
        ],
        rule=("ranges: every history of <=3 (thorough: <=4) ranges over the grid 0..5 (0..6) with every query range, "
              "plus seeded random histories of <=12 parts at scales 16..2^62 shaped as tilings with identical "
              "retransmissions and a minority of overlapping/empty/inverted parts; a case is non-trivial when it has "
              ">=2 parts two of which touch, overlap or coincide; distinct = distinct input lines"),
        level_text=("Proof: Coq theorems over the executable model of addCompanionPart / companionPartExists / isCompanionComplete, for "
                    "all records, parts and histories (complete=>covered and 'claims only acknowledged bytes' unrestricted; exactness, "
                    "sortedness and exists-soundness on the disjoint-or-identical discipline; the two overlap cases refuted with witnesses = known findings). "
                    "The model is tied to the code by an exhaustive small-scope + seeded differential run of the real functions on every check."),
        level_note=("Trusted: Coq kernel (no axioms; Closed under the global context), extraction (ExtrOcamlBasic), the OCaml/Go harness. "
                    "Modelled by hand, tied by correspondence: stage/companion.go range functions. Not modelled: int64 overflow, file-system durability."),
        technique="Coq proof (induction over part histories) + extracted-model differential testing of the real Go functions",
        assumptions=[
            "int64 wrap-around is not modelled (offsets are unbounded Z)",
            "durability of os.WriteFile+rename of the companion against power loss is not modelled",
        ],
    ),
}
