#!/usr/bin/env python3
"""Shared machinery of the /verif checks.

One run of a property check:
  1. proof step     - full `make` of the Coq development, audit of the sources
                      (no Admitted / Axiom / ...), re-check of Properties/<id>.v
                      with its Print Assumptions output parsed.
  2. build step     - extraction + OCaml driver, overlay file for `go test`.
  3. corpus step    - replays/<id>/*.in (minimised earlier failures, witnesses of
                      known findings) run first.
  4. correspondence - Go drivers run the REAL code from /repo's working tree on
                      generated inputs; `modelrun` replays them in the extracted
                      model and compares projected observables.
  5. oracle step    - extracted decidable form of the theorem's conclusion is
                      evaluated on what the implementation did.
  6. decision, 7. evidence.
"""
import fcntl
import hashlib
import json
import os
import re
import shutil
import subprocess
import sys
import time

VERIF = os.path.dirname(os.path.dirname(os.path.abspath(__file__)))
REPO = os.environ.get("VERIF_REPO", "/repo")
COQ = os.path.join(VERIF, "coq")
BUILD = os.path.join(VERIF, "build")
OVERLAY_SRC = os.path.join(VERIF, "harness", "overlay")
GOENV = dict(os.environ, GOFLAGS="-mod=mod", GOPROXY="off", CGO_ENABLED="0")
for k in ("http_proxy", "https_proxy", "HTTP_PROXY", "HTTPS_PROXY", "all_proxy", "ALL_PROXY"):
    GOENV.pop(k, None)
GOENV["NO_PROXY"] = "*"
GOENV["TZ"] = "UTC"

FORBIDDEN = re.compile(
    r"\b(Admitted|admit|Axiom|Axioms|Parameter|Parameters|Conjecture|Admit Obligations|"
    r"Unset Guard Checking|Unset Positivity Checking|Unset Universe Checking|bypass_check|"
    r"native_compute)\b|-type-in-type|-impredicative-set")

# axioms of the standard library that a theorem may depend on (none expected)
ALLOWED_AXIOMS = set()

TRUSTED_BASE = [
    "Coq 8.16.1 kernel incl. the vm_compute machine (no native_compute)",
    "no axioms: every property theorem prints 'Closed under the global context'",
    "extraction: ExtrOcamlBasic only (bool, option, list, prod, unit, sumbool); Z/positive stay inductive; no Extract Constant",
    "OCaml 4.13.1 + zarith (decimal parsing only), ocaml/modelrun.ml (trace parsing, comparison glue)",
    "Go drivers under harness/overlay injected with `go test -overlay`, their generators",
    "hand-written model: the named Go functions are restated in Gallina; the tie is the differential run above",
]


def log(*a):
    print(*a, file=sys.stderr, flush=True)


def sh(cmd, cwd=None, env=None, timeout=None, check=False):
    p = subprocess.run(cmd, cwd=cwd, env=env, timeout=timeout, shell=isinstance(cmd, str),
                       stdout=subprocess.PIPE, stderr=subprocess.STDOUT, text=True, errors="replace")
    if check and p.returncode != 0:
        raise RuntimeError("command failed: %s\n%s" % (cmd, p.stdout[-4000:]))
    return p.returncode, p.stdout


class Lock:
    def __init__(self, name):
        os.makedirs(BUILD, exist_ok=True)
        self.path = os.path.join(BUILD, name)

    def __enter__(self):
        self.f = open(self.path, "w")
        fcntl.flock(self.f, fcntl.LOCK_EX)
        return self

    def __exit__(self, *a):
        fcntl.flock(self.f, fcntl.LOCK_UN)
        self.f.close()


# --------------------------------------------------------------------------
# step 1 + 2: build
def coq_sources():
    out = []
    for d, _, fs in os.walk(COQ):
        if "extracted" in d:
            continue
        for f in fs:
            if f.endswith(".v"):
                out.append(os.path.join(d, f))
    return sorted(out)


def audit_sources():
    """grep the development for anything that would weaken a proof."""
    bad = []
    for p in coq_sources():
        txt = open(p).read()
        # strip comments (non-nested is enough for a conservative grep: we also
        # look inside comments-free text only to avoid false hits on prose)
        stripped = re.sub(r"\(\*.*?\*\)", " ", txt, flags=re.S)
        for m in FORBIDDEN.finditer(stripped):
            bad.append("%s: %s" % (os.path.relpath(p, VERIF), m.group(0)))
    return bad


def build_all(clean=False):
    """make the Coq project, extract, compile modelrun. Returns (ok, log)."""
    with Lock("build.lock"):
        if clean:
            sh("git clean -fdxq coq build/ocaml 2>/dev/null || true", cwd=VERIF)
        if not os.path.exists(os.path.join(COQ, "Makefile")) or \
                os.path.getmtime(os.path.join(COQ, "_CoqProject")) > os.path.getmtime(os.path.join(COQ, "Makefile")):
            sh("coq_makefile -f _CoqProject -o Makefile", cwd=COQ, check=True)
        rc, out = sh("timeout 3000 make -j16", cwd=COQ)
        if rc != 0:
            return False, out
        # extraction, only when a model is newer than the extracted code
        ext = os.path.join(COQ, "extracted")
        os.makedirs(ext, exist_ok=True)
        ocdir = os.path.join(BUILD, "ocaml")
        os.makedirs(ocdir, exist_ok=True)
        exe = os.path.join(ocdir, "modelrun")
        srcs = [p for p in coq_sources() if "/Model/" in p or p.endswith("Extract.v")]
        srcs.append(os.path.join(VERIF, "ocaml", "modelrun.ml"))
        newest = max(os.path.getmtime(p) for p in srcs)
        if not os.path.exists(exe) or os.path.getmtime(exe) < newest:
            rc, o2 = sh("timeout 600 coqc -Q .. STS ../Extract.v", cwd=ext)
            out += o2
            if rc != 0:
                return False, out
            for f in ("model.ml", "model.mli"):
                shutil.copy(os.path.join(ext, f), ocdir)
            shutil.copy(os.path.join(VERIF, "ocaml", "modelrun.ml"), ocdir)
            rc, o3 = sh("ocamlfind ocamlopt -O3 -w -a -package zarith,str -linkpkg model.mli model.ml modelrun.ml -o modelrun.tmp && mv modelrun.tmp modelrun",
                        cwd=ocdir)
            out += o3
            if rc != 0:
                return False, out
        return True, out


def proof_step(prop_file):
    """Re-check Properties/<id>.v and parse its Print Assumptions output.
    returns dict(obligations, discharged, theorems=[(name, status)], log)"""
    src = open(os.path.join(COQ, prop_file)).read()
    wanted = re.findall(r"^Print Assumptions\s+(\w+)\.", src, flags=re.M)
    stated = re.findall(r"^(?:Theorem|Lemma|Corollary|Example)\s+(\w+)", src, flags=re.M)
    rc, out = sh("timeout 900 coqc -Q . STS %s" % prop_file, cwd=COQ)
    res = dict(obligations=len(stated), discharged=0, theorems=[], log=out[-3000:], rc=rc)
    if rc != 0:
        return res
    # split the output into one block per Print Assumptions, in order
    blocks = re.split(r"(?=Closed under the global context|Axioms:)", out)
    blocks = [b for b in blocks if b.startswith("Closed under") or b.startswith("Axioms:")]
    for i, name in enumerate(wanted):
        if i >= len(blocks):
            res["theorems"].append((name, "no output"))
            continue
        b = blocks[i]
        if b.startswith("Closed under"):
            res["theorems"].append((name, "closed"))
            res["discharged"] += 1
        else:
            axs = re.findall(r"^(\S+)\s*:", b, flags=re.M)
            axs = [a for a in axs if a != "Axioms"]
            if all(a in ALLOWED_AXIOMS for a in axs):
                res["theorems"].append((name, "axioms:" + ",".join(axs)))
                res["discharged"] += 1
            else:
                res["theorems"].append((name, "FORBIDDEN axioms:" + ",".join(axs)))
    missing = [t for t in stated if t not in wanted]
    for t in missing:
        res["theorems"].append((t, "no Print Assumptions"))
    return res


INSTR_PKGS = ["stage", "fileutil", "log", "cache"]
INSTR_CALLS = ["Rename", "Remove", "Create", "WriteFile", "MkdirAll"]


def instrument_sources():
    """Crash-point instrumentation (C06/C07): copies of the non-test sources of the
    packages that write the durable state, with every mutating os call redirected
    to zzverif/verifos. Regenerated from /repo's current tree on every run."""
    out = {}
    dst_root = os.path.join(BUILD, "instr")
    shutil.rmtree(dst_root, ignore_errors=True)
    for pkg in INSTR_PKGS:
        d = os.path.join(REPO, pkg)
        if not os.path.isdir(d):
            continue
        for f in sorted(os.listdir(d)):
            if not f.endswith(".go") or f.endswith("_test.go"):
                continue
            src = open(os.path.join(d, f)).read()
            new = src
            for c in INSTR_CALLS:
                new = re.sub(r"\bos\.%s\(" % c, "verifos.%s(" % c, new)
            if pkg == "log":
                # the log append itself is a durable step
                new = re.sub(r"(\n\s*)(rf\.logger\.Println\()", lambda m: m.group(1) + 'verifos.Point("logappend", rf.path); ' + m.group(2), new)
            if new == src:
                continue
            imp = '\t"github.com/arm-doe/sts/zzverif/verifos"\n'
            if "import (" in new:
                new = new.replace("import (\n", "import (\n" + imp, 1)
            else:
                new = re.sub(r"(package \w+\n)", r'\1\nimport "github.com/arm-doe/sts/zzverif/verifos"\n', new, 1)
            if re.search(r'^\s*"os"\s*$', new, flags=re.M) and not re.search(r"\bos\.", new.split(")", 1)[1] if "import (" in new else new):
                new += "\nvar _ = os.Getpid\n"
            os.makedirs(os.path.join(dst_root, pkg), exist_ok=True)
            dp = os.path.join(dst_root, pkg, f)
            open(dp, "w").write(new)
            out[os.path.join(d, f)] = dp
    return out


def write_overlay():
    rep = {}
    try:
        rep.update(instrument_sources())
    except Exception as e:  # instrumentation is best effort; the crash suite then reports a driver failure
        log("instrumentation failed:", e)
    for d, _, fs in os.walk(OVERLAY_SRC):
        for f in fs:
            p = os.path.join(d, f)
            rel = os.path.relpath(p, OVERLAY_SRC)
            rep[os.path.join(REPO, rel)] = p
    os.makedirs(BUILD, exist_ok=True)
    path = os.path.join(BUILD, "overlay.json")
    tmp = path + ".%d" % os.getpid()
    json.dump({"Replace": rep}, open(tmp, "w"), indent=1)
    os.replace(tmp, path)
    return path


# --------------------------------------------------------------------------
# step 3-5: run a suite
class SuiteResult:
    def __init__(self, name):
        self.name = name
        self.lines = 0
        self.agree = 0
        self.diff_D = []       # (lineno, input, detail, cls)
        self.diff_F_info = []  # diffs on F with all oracles passing (a repair is not an alarm)
        self.oracle_U = []     # (lineno, input, oracle names)
        self.oracle_P = {}     # oracle name -> [(lineno, input)]
        self.malformed = []
        self.classes = {}
        self.nontrivial_hashes = set()
        self.samples = []
        self.driver_log = ""
        self.driver_rc = 0
        self.wall = 0.0
        self.extra = {}
        self.not_comparable = 0


def input_part(line):
    i = line.find(" = ")
    if i < 0:
        i = line.find(" =")
    return line if i < 0 else line[:i]


def run_go_driver(suite, trace, env_extra, timeout):
    env = dict(GOENV)
    env.update({k: str(v) for k, v in env_extra.items()})
    env["VERIF_OUT"] = trace
    ov = write_overlay()
    cmd = ["go", "test", "-overlay=" + ov, "-run", "^" + suite["test"] + "$", "-count=1", "-vet=off",
           "-timeout", "%ds" % timeout, suite["pkg"]]
    if suite.get("race"):
        cmd.insert(2, "-race")
        env["CGO_ENABLED"] = "1"
    try:
        rc, out = sh(cmd, cwd=REPO, env=env, timeout=timeout + 120)
    except subprocess.TimeoutExpired:
        return 124, "driver timed out"
    return rc, out


def run_suite(suite, tier, seed, tag, replay_in=None, extra_env=None):
    """Run one driver + modelrun; returns SuiteResult."""
    t0 = time.time()
    res = SuiteResult(suite["name"])
    tmpdir = os.path.join(BUILD, "tmp", "%s-%s-%d" % (tag, suite["name"], os.getpid()))
    shutil.rmtree(tmpdir, ignore_errors=True)
    os.makedirs(tmpdir)
    trace = os.path.join(tmpdir, "trace")
    env = {"VERIF_SEED": seed, "VERIF_TIER": tier, "VERIF_TMP": tmpdir}
    env.update(suite.get("env_" + tier, {}))
    if extra_env:
        env.update(extra_env)
    if replay_in:
        env["VERIF_REPLAY_IN"] = replay_in
    timeout = suite.get("timeout_" + tier, 600 if tier == "quick" else 3000)
    rc, out = run_go_driver(suite, trace, env, timeout)
    res.driver_rc, res.driver_log = rc, out[-6000:]
    if rc != 0 and ("panic:" in out or "fatal error:" in out) and suite["name"] == "e2e" and not replay_in:
        # the process under test died: run the scenarios again one at a time, so that the marker
        # left behind names the scenario during which it dies
        for f in os.listdir(tmpdir):
            if f.startswith("running-"):
                os.remove(os.path.join(tmpdir, f))
        env1 = dict(env, VERIF_E2E_PAR=1)
        rc1, out1 = run_go_driver(suite, trace, env1, timeout * 3)
        left = sorted(f for f in os.listdir(tmpdir) if f.startswith("running-"))
        if rc1 != 0 and len(left) == 1 and ("panic:" in out1 or "fatal error:" in out1):
            i = out1.find("panic:")
            if i < 0:
                i = out1.find("fatal error:")
            res.extra["crashed_case"] = open(os.path.join(tmpdir, left[0])).read().strip()
            res.extra["crash_log"] = out1[i:i + 3000]
    if (rc != 0 or not os.path.exists(trace)) and not res.extra.get("crashed_case") and suite["name"] != "e2e":
        # a driver that dies (or is killed) is run once more before it counts: a failure that does not
        # repeat has no failing input to show, and a compile error or a panic the code under test causes
        # for some generated input repeats. The first log is kept for diagnosis.
        try:
            with open(os.path.join(BUILD, "driver-failed-once-%s-%s.log" % (tag, suite["name"])), "w") as fh:
                fh.write(out[-20000:])
        except OSError:
            pass
        try:
            os.remove(trace)
        except OSError:
            pass
        rc, out = run_go_driver(suite, trace, env, timeout)
        if rc == 0 and os.path.exists(trace):
            res.extra["driver_retried"] = True
        res.driver_rc, res.driver_log = rc, out[-6000:]
    if rc != 0 or not os.path.exists(trace):
        res.wall = time.time() - t0
        shutil.rmtree(tmpdir, ignore_errors=True)
        return res
    rc, verdicts = sh([os.path.join(BUILD, "ocaml", "modelrun"), trace], timeout=3000)
    if rc != 0:
        res.driver_rc, res.driver_log = 99, "modelrun failed: " + verdicts[-2000:]
        res.wall = time.time() - t0
        shutil.rmtree(tmpdir, ignore_errors=True)
        return res
    lines = open(trace, errors="replace").read().split("\n")
    for v in verdicts.split("\n"):
        if not v:
            continue
        f = v.split("\t")
        if len(f) < 5:
            continue
        k = int(f[0])
        line = lines[k - 1]
        if k >= 2 and lines[k - 2].startswith("# crash "):
            res.extra.setdefault("ids", {})[k] = lines[k - 2][len("# crash "):].strip()
        status, oracles, nontriv, cls = f[1], f[2], f[3] == "1", f[4]
        model_fails = len(f) > 5 and f[5] == "1"
        only_o = suite.get("oracles")
        only_d = suite.get("diffs")
        res.lines += 1
        res.classes[cls] = res.classes.get(cls, 0) + 1
        inp = input_part(line)
        if nontriv:
            res.nontrivial_hashes.add(hashlib.sha1(inp.encode()).hexdigest())
        if len(res.samples) < 3 and nontriv:
            res.samples.append({"suite": suite["name"], "input": inp[:400], "verdict": status, "oracles": oracles, "class": cls})
        ofails = [] if oracles == "-" else oracles.split(",")
        if only_o is not None:
            ofails = [o for o in ofails if o[:-2] in only_o]
        not_comparable = False
        if only_d is not None and status.startswith("DIFF:") and not status.startswith("DIFF:malformed"):
            kinds = [d.split("@")[0] for d in status[5:].split(",")]
            if not any(k in only_d for k in kinds):
                # the first divergence concerns another property's observables: the model
                # comparison of this case belongs to that property's check; what the
                # implementation did is still judged by THIS property's oracles below
                not_comparable = True
        unpred = [o[:-2] for o in ofails if o.endswith(":U")]
        pred = [o[:-2] for o in ofails if o.endswith(":P")]
        if unpred:
            # end-to-end traces carry the interface events of a run that needs attention as
            # comment lines "# <scenario-id> ..." : keep them with the flagged line
            toks = line.split(" ")
            if len(toks) > 1 and toks[0] == "E":
                evs = [l for l in lines if l.startswith("# %s " % toks[1])]
                if evs:
                    res.extra.setdefault("events", {})[k] = evs[:400]
            res.oracle_U.append((k, line, unpred))
        for o in pred:
            res.oracle_P.setdefault(o, []).append((k, line))
        if not_comparable:
            res.not_comparable += 1
            continue
        if status == "AGREE":
            res.agree += 1
        elif status.startswith("DIFF:malformed"):
            res.malformed.append((k, line, status))
        else:
            if cls.startswith("F") and not ofails and model_fails:
                # outside the proved domain the model predicts a known failure that the
                # implementation does not show: a repaired finding is not an alarm
                res.diff_F_info.append((k, line, status, cls))
            else:
                res.diff_D.append((k, line, status, cls))
    res.wall = time.time() - t0
    if not os.environ.get("VERIF_KEEP_TMP"):
        shutil.rmtree(tmpdir, ignore_errors=True)
    return res


# --------------------------------------------------------------------------
def load_known():
    p = os.path.join(VERIF, "known_findings.json")
    if not os.path.exists(p):
        return []
    return json.load(open(p)).get("findings", [])


def save_replay(prop, kind, payload):
    d = os.path.join(VERIF, "replays", prop)
    os.makedirs(d, exist_ok=True)
    h = hashlib.sha1(json.dumps(payload, sort_keys=True).encode()).hexdigest()[:12]
    path = os.path.join(d, "%s-%s.json" % (kind, h))
    json.dump(payload, open(path, "w"), indent=1)
    return path


def write_evidence(prop, ev):
    d = os.path.join(VERIF, "evidence")
    os.makedirs(d, exist_ok=True)
    path = os.path.join(d, prop + ".json")
    tmp = path + ".tmp%d" % os.getpid()
    json.dump(ev, open(tmp, "w"), indent=1)
    os.replace(tmp, path)
