// Package gen is injected into the sts module through `go test -overlay`
// (it does not exist under /repo). It holds the deterministic PRNG and small
// helpers shared by all white-box verification drivers.
package gen

import (
	"bufio"
	"fmt"
	"os"
	"strconv"
	"strings"
)

// Rand is splitmix64; every random choice of a driver derives from one state.
type Rand struct{ s uint64 }

func New(seed uint64) *Rand { return &Rand{s: seed} }

// Sub derives an independent stream for case number i.
func (r *Rand) Sub(i uint64) *Rand {
	x := New(r.s ^ (i+1)*0x9E3779B97F4A7C15)
	x.U64()
	return x
}

func (r *Rand) U64() uint64 {
	r.s += 0x9E3779B97F4A7C15
	z := r.s
	z = (z ^ (z >> 30)) * 0xBF58476D1CE4E5B9
	z = (z ^ (z >> 27)) * 0x94D049BB133111EB
	return z ^ (z >> 31)
}

// Intn returns a value in [0,n).
func (r *Rand) Intn(n int) int {
	if n <= 0 {
		return 0
	}
	return int(r.U64() % uint64(n))
}

// I64n returns a value in [0,n).
func (r *Rand) I64n(n int64) int64 {
	if n <= 0 {
		return 0
	}
	return int64(r.U64() % uint64(n))
}

func (r *Rand) Bool() bool { return r.U64()&1 == 1 }

// Chance returns true with probability num/den.
func (r *Rand) Chance(num, den int) bool { return r.Intn(den) < num }

// Env helpers ---------------------------------------------------------------

func Seed() uint64 {
	if v, err := strconv.ParseUint(os.Getenv("VERIF_SEED"), 10, 64); err == nil {
		return v
	}
	return 1
}

func Thorough() bool { return os.Getenv("VERIF_TIER") == "thorough" }

func EnvInt(name string, def int) int {
	if v, err := strconv.Atoi(os.Getenv(name)); err == nil {
		return v
	}
	return def
}

// Out opens the trace file named by VERIF_OUT ("" => caller should skip).
func Out() (*bufio.Writer, func(), bool) {
	p := os.Getenv("VERIF_OUT")
	if p == "" {
		return nil, nil, false
	}
	f, err := os.Create(p)
	if err != nil {
		panic(err)
	}
	w := bufio.NewWriterSize(f, 1<<20)
	return w, func() { w.Flush(); f.Close() }, true
}

// Replay returns the lines of the file named by VERIF_REPLAY_IN (inputs to
// run again instead of generating), or nil.
func Replay() []string {
	p := os.Getenv("VERIF_REPLAY_IN")
	if p == "" {
		return nil
	}
	b, err := os.ReadFile(p)
	if err != nil {
		panic(err)
	}
	var out []string
	for _, l := range strings.Split(string(b), "\n") {
		l = strings.TrimSpace(l)
		if l != "" && !strings.HasPrefix(l, "#") {
			out = append(out, l)
		}
	}
	return out
}

// Hex encodes a string as a token without spaces ("-" for empty).
func Hex(s string) string {
	if s == "" {
		return "-"
	}
	return fmt.Sprintf("%x", s)
}

// Ints parses a whitespace separated list of integers (non-integers skipped).
func Ints(fields []string) []int64 {
	var out []int64
	for _, f := range fields {
		if v, err := strconv.ParseInt(f, 10, 64); err == nil {
			out = append(out, v)
		}
	}
	return out
}

// Unhex is the inverse of Hex.
func Unhex(s string) string {
	if s == "-" {
		return ""
	}
	b := make([]byte, len(s)/2)
	for i := range b {
		v, _ := strconv.ParseUint(s[2*i:2*i+2], 16, 8)
		b[i] = byte(v)
	}
	return string(b)
}
