// Package verifos is injected through `go test -overlay` (it does not exist
// under /repo). The instrumented copies of stage/, fileutil/, log/ and cache/
// call these shims instead of the os functions that mutate the file system, so
// that every durable step is a numbered crash point, whatever the code looks
// like after an edit. Without an armed controller the shims are pass-throughs.
package verifos

import (
	"io/fs"
	"os"
	"strings"
	"sync"
)

// Controller arms crash points for all paths under Prefix.
type Controller struct {
	Prefix  string
	Target  int // crash at the Target-th mutation (1-based); 0 = only count
	Count   int
	Frozen  bool
	Trace   []string
	OnCrash func() // called once, with the world frozen
	Crashed chan bool
}

var (
	mu    sync.Mutex
	ctls  []*Controller
	block = make(chan bool) // never closed: frozen goroutines park here
)

func Arm(c *Controller) {
	mu.Lock()
	defer mu.Unlock()
	c.Crashed = make(chan bool, 1)
	ctls = append(ctls, c)
}

func Disarm(c *Controller) {
	mu.Lock()
	defer mu.Unlock()
	for i, x := range ctls {
		if x == c {
			ctls = append(ctls[:i], ctls[i+1:]...)
			return
		}
	}
}

func find(path string) *Controller {
	for _, c := range ctls {
		if strings.HasPrefix(path, c.Prefix) {
			return c
		}
	}
	return nil
}

// hit is called BEFORE the mutation is performed.
func hit(kind, path string) {
	mu.Lock()
	c := find(path)
	if c == nil {
		mu.Unlock()
		return
	}
	if c.Frozen {
		mu.Unlock()
		<-block
	}
	c.Count++
	c.Trace = append(c.Trace, kind+" "+strings.TrimPrefix(path, c.Prefix))
	if c.Target > 0 && c.Count == c.Target {
		c.Frozen = true
		mu.Unlock()
		if c.OnCrash != nil {
			c.OnCrash()
		}
		c.Crashed <- true
		<-block
	}
	mu.Unlock()
}

// Point marks a durable step that is not a plain os call (e.g. a log append).
func Point(kind, path string) { hit(kind, path) }

func Rename(oldpath, newpath string) error {
	hit("rename", oldpath)
	return os.Rename(oldpath, newpath)
}

func Remove(name string) error {
	hit("remove", name)
	return os.Remove(name)
}

func Create(name string) (*os.File, error) {
	hit("create", name)
	return os.Create(name)
}

func WriteFile(name string, data []byte, perm fs.FileMode) error {
	hit("writefile", name)
	return os.WriteFile(name, data, perm)
}

func MkdirAll(path string, perm fs.FileMode) error {
	// creating directories that already exist is not a durable step
	if _, err := os.Stat(path); err == nil {
		return nil
	}
	hit("mkdirall", path)
	return os.MkdirAll(path, perm)
}
