package main

// End-to-end driver for the receiver's HTTP routes (C14, C15). Injected with
// -overlay into package main so that the REAL serverApp.init (standardValidator,
// the "--" mangling of source names, payload.NewDecoder, stage.New) and the REAL
// http.Server.Serve mux are used, on 127.0.0.1. The sandbox directory has an
// "inner" part (stage, final, logs, serve) and files OUTSIDE of it; after every
// request the whole tree is compared with the snapshot before it.
//
// line: H route srcsv keysv source key name prev renamed sep exists = status outside_changed changed foreign_changed disclosed

import (
	"bytes"
	"crypto/md5"
	"encoding/json"
	"fmt"
	"io"
	"net"
	nethttp "net/http"
	"net/url"
	"os"
	"path/filepath"
	"sort"
	"strings"
	"testing"
	"time"

	"github.com/arm-doe/sts"
	"github.com/arm-doe/sts/zzverif/gen"
)

func vhSnapshot(root, skip string) map[string]string {
	m := map[string]string{}
	filepath.Walk(root, func(p string, info os.FileInfo, err error) error {
		if err != nil {
			return nil
		}
		if strings.HasPrefix(p, skip) {
			return nil
		}
		rel, _ := filepath.Rel(root, p)
		if info.IsDir() {
			m[rel+"/"] = "dir"
			return nil
		}
		b, _ := os.ReadFile(p)
		m[rel] = fmt.Sprintf("%x", md5.Sum(b))
		return nil
	})
	return m
}

func vhDiff(a, b map[string]string) []string {
	var out []string
	for k, v := range a {
		if b[k] != v {
			out = append(out, k)
		}
	}
	for k := range b {
		if _, ok := a[k]; !ok {
			out = append(out, k)
		}
	}
	sort.Strings(out)
	return out
}

type vhCase struct {
	route                                        string
	srcsv, keysv                                 int
	source, key, name, prev, renamed, sep string
}

func TestVerifHTTP(t *testing.T) {
	w, done, ok := gen.Out()
	if !ok {
		t.Skip("VERIF_OUT not set")
	}
	defer done()
	tmp := os.Getenv("VERIF_TMP")
	if tmp == "" {
		tmp = t.TempDir()
	}
	root := filepath.Join(tmp, "sandbox")
	os.RemoveAll(root)
	defer os.RemoveAll(root)
	inner := filepath.Join(root, "mid", "inner")
	dirs := &sts.ServerDirs{
		LogMsg: filepath.Join(inner, "logs", "msg"), LogIn: filepath.Join(inner, "logs", "in"),
		Stage: filepath.Join(inner, "stage"), Final: filepath.Join(inner, "final"), Serve: filepath.Join(inner, "serve"),
	}
	for _, d := range []string{dirs.LogMsg, dirs.LogIn, dirs.Stage, dirs.Final, dirs.Serve} {
		os.MkdirAll(d, 0o755)
	}
	// things an escaping request could hit
	os.WriteFile(filepath.Join(root, "outside.txt"), []byte("outside"), 0o644)
	os.WriteFile(filepath.Join(root, "mid", "sibling.txt"), []byte("sibling"), 0o644)
	os.MkdirAll(filepath.Join(inner, "serve", "good", "sub"), 0o755)
	os.WriteFile(filepath.Join(inner, "serve", "good", "file.txt"), []byte("served"), 0o644)
	os.WriteFile(filepath.Join(inner, "serve", "good", "sub", "deep.txt"), []byte("deep"), 0o644)
	os.MkdirAll(filepath.Join(inner, "serve", "other"), 0o755)
	os.WriteFile(filepath.Join(inner, "serve", "other", "secret.txt"), []byte("secret"), 0o644)

	ln, err := net.Listen("tcp", "127.0.0.1:0")
	if err != nil {
		t.Fatal(err)
	}
	port := ln.Addr().(*net.TCPAddr).Port
	ln.Close()
	a := &serverApp{conf: &sts.ServerConf{Dirs: dirs, Server: &sts.HTTPServer{Host: "127.0.0.1", Port: port}}}
	if err := a.init(); err != nil {
		t.Fatal(err)
	}
	stop := make(chan bool)
	doneCh := make(chan bool, 1)
	go a.server.Serve(stop, doneCh)
	base := fmt.Sprintf("http://127.0.0.1:%d", port)
	for i := 0; i < 200; i++ {
		if c, err := net.Dial("tcp", fmt.Sprintf("127.0.0.1:%d", port)); err == nil {
			c.Close()
			break
		}
		time.Sleep(10 * time.Millisecond)
	}
	client := &nethttp.Client{Timeout: 5 * time.Second,
		CheckRedirect: func(*nethttp.Request, []*nethttp.Request) error { return nethttp.ErrUseLastResponse }}

	srcLists := [][]string{nil, {"good", "oth/er"}, {"site.alpha", "b1/c2", "good"}, {"final", "good"}}
	// a receiver WITHOUT a serve directory (dirs.serve has no default) serves nothing; the process's
	// working directory is the receiver's home (the parent of stage, final, logs), as when it is started there
	if wd, err := os.Getwd(); err == nil {
		defer os.Chdir(wd)
	}
	os.Chdir(inner)
	keyLists := [][]string{nil, {"k1", "k2"}}

	// ---- what an authorised sender is told (C15): source "good" has a file that failed validation
	// (answer 1) and one that is validated and held for a predecessor that never comes (answer 3) - both
	// known from the receiver's memory only. Every later request, refused or not, leaves the answers alone.
	putProbe := func(name, prev string, good bool) {
		content := []byte("probe-content-" + name)
		h := fmt.Sprintf("%x", md5.Sum(content))
		if !good {
			h = fmt.Sprintf("%x", md5.Sum([]byte("something else")))
		}
		meta, _ := json.Marshal([]map[string]interface{}{{"n": name, "r": "", "p": prev, "f": h, "t": fmt.Sprintf("%d+0", time.Now().Unix()), "s": len(content), "b": 0, "e": len(content)}})
		req, _ := nethttp.NewRequest("PUT", base+"/data", bytes.NewReader(append(append([]byte{}, meta...), content...)))
		req.Header.Set("X-STS-MetaLen", fmt.Sprint(len(meta)))
		req.Header.Set("X-STS-SrcName", "good")
		req.Header.Set("X-STS-Key", "k1")
		if resp, err := client.Do(req); err == nil {
			io.Copy(io.Discard, resp.Body)
			resp.Body.Close()
		}
	}
	told := func() string {
		b, _ := json.Marshal([]map[string]interface{}{{"n": "probe/failed.dat", "t": time.Now().Unix()}, {"n": "probe/held.dat", "t": time.Now().Unix()}})
		req, _ := nethttp.NewRequest("POST", base+"/validate", bytes.NewReader(b))
		req.Header.Set("X-STS-SrcName", "good")
		req.Header.Set("X-STS-Key", "k1")
		resp, err := client.Do(req)
		if err != nil {
			return "error"
		}
		defer resp.Body.Close()
		body, _ := io.ReadAll(resp.Body)
		return fmt.Sprintf("%d %s", resp.StatusCode, body)
	}
	setProbes := func() string {
		a.conf.Sources, a.conf.Keys = nil, nil
		putProbe("probe/failed.dat", "", false)
		putProbe("probe/held.dat", "probe/never.dat", true)
		var t string
		for i := 0; i < 100; i++ {
			t = told()
			if strings.Contains(t, ":1") && strings.Contains(t, ":3") {
				break
			}
			time.Sleep(10 * time.Millisecond)
		}
		return t
	}
	toldBefore := setProbes()
	if !(strings.Contains(toldBefore, ":1") && strings.Contains(toldBefore, ":3")) {
		t.Fatalf("probe files not in the expected states: %s", toldBefore)
	}

	caseSeq := 0
	run := func(c vhCase) {
		a.conf.Sources = srcLists[c.srcsv]
		a.conf.Keys = keyLists[c.keysv]
		noServe := c.route == "sgetn" || c.route == "sdeln"
		a.server.ServeDir = dirs.Serve
		if noServe {
			a.server.ServeDir = ""
			// something delivered for another source
			os.MkdirAll(filepath.Join(dirs.Final, "alpha"), 0o755)
			os.WriteFile(filepath.Join(dirs.Final, "alpha", "data.txt"), []byte("delivered-alpha"), 0o644)
		}
		before := vhSnapshot(root, dirs.LogMsg)
		// every request carries a version of its own: the receiver remembers what it delivered under a
		// name, and an identical retransmission would be discarded instead of being put away
		caseSeq++
		content := []byte(fmt.Sprintf("payload-%07d", caseSeq))
		var req *nethttp.Request
		exists := 0
		switch c.route {
		case "data", "recovery", "data2", "data3":
			h := fmt.Sprintf("%x", md5.Sum(content))
			entries := []map[string]interface{}{{
				"n": c.name, "r": c.renamed, "p": c.prev, "f": h, "t": "1700000000+0", "s": len(content), "b": 0, "e": len(content)}}
			bodyData := content
			switch c.route {
			case "data2":
				// a complete, harmless file first; the fields under test ride on the SECOND header entry
				first := []byte("first-file")
				entries = []map[string]interface{}{
					{"n": "first.dat", "r": "", "p": "", "f": fmt.Sprintf("%x", md5.Sum(first)), "t": "1700000000+0", "s": len(first), "b": 0, "e": len(first)},
					entries[0]}
				bodyData = append(append([]byte{}, first...), content...)
			case "data3":
				// one file in two parts: only the LATER part's entry carries the predecessor / rename target under test
				half := len(content) / 2
				entries = []map[string]interface{}{
					{"n": c.name, "r": "", "p": "", "f": h, "t": "1700000000+0", "s": len(content), "b": 0, "e": half},
					{"n": c.name, "r": c.renamed, "p": c.prev, "f": h, "t": "1700000000+0", "s": len(content), "b": half, "e": len(content)}}
			}
			meta, _ := json.Marshal(entries)
			body := append([]byte{}, meta...)
			path := "/data"
			if c.route != "recovery" {
				body = append(body, bodyData...)
			} else {
				path = "/data-recovery"
			}
			req, _ = nethttp.NewRequest("PUT", base+path, bytes.NewReader(body))
			req.Header.Set("X-STS-MetaLen", fmt.Sprint(len(meta)))
		case "validate":
			b, _ := json.Marshal([]map[string]interface{}{{"n": c.name, "t": 1700000000}})
			req, _ = nethttp.NewRequest("POST", base+"/validate", bytes.NewReader(b))
		case "partials":
			req, _ = nethttp.NewRequest("GET", base+"/partials?v=1", nil)
		case "sget", "sdel", "sgetn", "sdeln":
			m := "GET"
			if c.route == "sdel" || c.route == "sdeln" {
				m = "DELETE"
			}
			u := &url.URL{Scheme: "http", Host: fmt.Sprintf("127.0.0.1:%d", port), Path: "/static/" + c.name}
			if strings.Contains(c.name, "%") {
				u = &url.URL{Scheme: "http", Host: u.Host, Opaque: "//" + u.Host + "/static/" + c.name}
			}
			req, _ = nethttp.NewRequest(m, u.String(), nil)
			if st, err := os.Stat(filepath.Join(dirs.Serve, c.source, c.name)); err == nil && c.source != "" && !noServe {
				exists = 1
				if st.IsDir() {
					exists = 2
				}
			}
		}
		if c.source != "" {
			req.Header.Set("X-STS-SrcName", c.source)
		}
		if c.key != "" {
			req.Header.Set("X-STS-Key", c.key)
		}
		if c.sep != "" {
			req.Header.Set("X-STS-Sep", c.sep)
		}
		status := -1
		var respBody []byte
		if resp, err := client.Do(req); err == nil {
			respBody, _ = io.ReadAll(resp.Body)
			resp.Body.Close()
			status = resp.StatusCode
		}
		if status == 200 && strings.HasPrefix(c.route, "data") {
			time.Sleep(40 * time.Millisecond) // validation / finalisation
		}
		after := vhSnapshot(root, dirs.LogMsg)
		changed := vhDiff(before, after)
		outside := 0
		innerRel, _ := filepath.Rel(root, inner)
		for _, p := range changed {
			if !strings.HasPrefix(p, innerRel+"/") {
				outside = 1
			}
		}
		ch := 0
		if len(changed) > 0 {
			ch = 1
		}
		// the directories that BELONG to the source the request names: <stage|final|serve|logs/in>/<mangled source>
		// - only when that is a proper single directory name
		seg := strings.ReplaceAll(c.source, "/", "--")
		properSeg := seg != "" && seg != "." && seg != ".." && !strings.ContainsAny(seg, "/\\\x00")
		own := func(rel string) bool {
			if !properSeg {
				return false
			}
			for _, d := range []string{"stage", "final", "serve", filepath.Join("logs", "in")} {
				if strings.HasPrefix(rel, filepath.Join(innerRel, d, seg)+"/") {
					return true
				}
			}
			return false
		}
		foreign := 0
		for _, p := range changed {
			if strings.HasPrefix(p, innerRel+"/") && !own(p) {
				foreign = 1
			}
		}
		// disclosure: the answer carries the content of a file that does not belong to that source
		disclosed := 0
		if status >= 200 && status < 300 {
			for rel, content := range map[string]string{
				filepath.Join(innerRel, "serve", "good", "file.txt"): "served", filepath.Join(innerRel, "serve", "good", "sub", "deep.txt"): "deep",
				filepath.Join(innerRel, "serve", "other", "secret.txt"): "secret", "outside.txt": "outside", filepath.Join("mid", "sibling.txt"): "sibling",
				filepath.Join(innerRel, "final", "alpha", "data.txt"): "delivered-alpha", filepath.Join(innerRel, "final", "alpha", "data.txt") + "#name": "data.txt"} {
				if bytes.Contains(respBody, []byte(content)) && !own(rel) {
					disclosed = 1
				}
			}
		}
		// what the authorised sender of source "good" is told now (asked with every list switched off)
		a.conf.Sources, a.conf.Keys = nil, nil
		toldNow := told()
		toldChanged := 0
		if toldNow != toldBefore {
			toldChanged = 1
		}
		fmt.Fprintf(w, "H %s %d %d %s %s %s %s %s %s %d = %d %d %d %d %d %d\n", c.route, c.srcsv, c.keysv, gen.Hex(c.source), gen.Hex(c.key),
			gen.Hex(c.name), gen.Hex(c.prev), gen.Hex(c.renamed), gen.Hex(c.sep), exists, status, outside, ch, foreign, disclosed, toldChanged)
		if toldChanged == 1 {
			toldBefore = setProbes()
		}
		if noServe {
			os.RemoveAll(filepath.Join(dirs.Final, "alpha"))
		}
		// put back what a legitimate request removed / delivered, so that cases stay independent
		if ch == 1 {
			os.RemoveAll(filepath.Join(inner, "stage"))
			os.RemoveAll(filepath.Join(inner, "final"))
			os.MkdirAll(dirs.Stage, 0o755)
			os.MkdirAll(dirs.Final, 0o755)
			os.WriteFile(filepath.Join(inner, "serve", "good", "file.txt"), []byte("served"), 0o644)
			os.WriteFile(filepath.Join(inner, "serve", "good", "sub", "deep.txt"), []byte("deep"), 0o644)
			os.WriteFile(filepath.Join(inner, "serve", "other", "secret.txt"), []byte("secret"), 0o644)
			os.WriteFile(filepath.Join(root, "outside.txt"), []byte("outside"), 0o644)
			os.WriteFile(filepath.Join(root, "mid", "sibling.txt"), []byte("sibling"), 0o644)
		}
	}

	frags := []string{"..", ".", "", "a", "b.dat", "sub", "file.txt", "%2e%2e", "..%2f", "x y"}
	names := []string{"a.dat", "d/e.dat", "../esc.dat", "../../outside.txt", "../../../escaped", "/abs/olute", "a/../../up", "a/../b", "./c", "a//b", "d/./e",
		"..", ".", "", "..\\..\\win", strings.Repeat("long/", 60) + "x", "sub/deep.txt", "file.txt", "%2e%2e/x"}
	sources := []string{"good", "oth/er", "bad", "", "..", ".", "../..", "good/..", "Good", "go.d", "good\x00", "a*b", "other", "final", "stage"}
	keys := []string{"", "k1", "k2", "K1", "wrong", "good"}
	routes := []string{"data", "recovery", "validate", "partials", "sget", "sdel"}

	// ---- systematic part: every route x every source x allow-list variants; every name in every field
	for _, rt := range routes {
		for _, src := range sources {
			for sv := 0; sv < 2; sv++ {
				for kv := 0; kv < 2; kv++ {
					for _, k := range []string{"", "k1", "wrong"} {
						run(vhCase{route: rt, srcsv: sv, keysv: kv, source: src, key: k, name: "file.txt"})
					}
				}
			}
		}
	}
	// no serve directory configured: nothing is served, whatever directory the source name happens to be
	// relative to the working directory
	for _, rt := range []string{"sgetn", "sdeln"} {
		for _, src := range []string{"final", "stage", "logs", "serve", "good", "alpha", "mid", "."} {
			for _, sv := range []int{0, 1, 3} {
				for _, n := range []string{"", "alpha/data.txt", "alpha", "data.txt", "file.txt", "good/file.txt", "in", "../final/alpha/data.txt"} {
					run(vhCase{route: rt, srcsv: sv, keysv: 1, source: src, key: "k1", name: n})
					if sv == 0 {
						run(vhCase{route: rt, srcsv: sv, keysv: 0, source: src, name: n})
					}
				}
			}
		}
	}
	// a configured source name with a dot in it, and its near misses
	for _, rt := range routes {
		for _, src := range []string{"site.alpha", "site-alpha", "sitexalpha", "site0alpha", "site_alpha", "siteXalpha", "site.alph", "b1/c2", "b1-c2", "b1/c", "good", "goo", "goodd"} {
			for _, k := range []string{"k1", "wrong"} {
				run(vhCase{route: rt, srcsv: 2, keysv: 1, source: src, key: k, name: "file.txt"})
			}
		}
	}
	for _, rt := range []string{"data", "recovery", "validate", "sget", "sdel", "data2", "data3"} {
		for _, n := range names {
			for _, sep := range []string{"", "/", "\\"} {
				run(vhCase{route: rt, srcsv: 1, keysv: 1, source: "good", key: "k1", name: n, sep: sep})
				if rt == "data" || rt == "recovery" || rt == "data2" || rt == "data3" {
					run(vhCase{route: rt, srcsv: 1, keysv: 1, source: "good", key: "k1", name: "ok.dat", prev: n, sep: sep})
					run(vhCase{route: rt, srcsv: 1, keysv: 1, source: "good", key: "k1", name: "ok.dat", renamed: n, sep: sep})
				}
			}
		}
	}
	// ---- seeded part: names built from up to 3 traversal fragments in random fields
	r0 := gen.New(gen.Seed() ^ 0xC14)
	N := gen.EnvInt("VERIF_HTTP_RANDOM", 500)
	if gen.Thorough() {
		N = gen.EnvInt("VERIF_HTTP_RANDOM", 6000)
	}
	mk := func(r *gen.Rand) string {
		k := 1 + r.Intn(3)
		var parts []string
		for i := 0; i < k; i++ {
			parts = append(parts, frags[r.Intn(len(frags))])
		}
		s := strings.Join(parts, "/")
		if r.Chance(1, 8) {
			s = "/" + s
		}
		return s
	}
	for c := 0; c < N; c++ {
		r := r0.Sub(uint64(c))
		rts := append([]string{"data2", "data3", "sgetn", "sdeln"}, routes...)
		cs := vhCase{route: rts[r.Intn(len(rts))], srcsv: r.Intn(4), keysv: r.Intn(2),
			source: sources[r.Intn(len(sources))], key: keys[r.Intn(len(keys))], name: mk(r)}
		if r.Chance(1, 3) {
			cs.prev = mk(r)
		}
		if r.Chance(1, 3) {
			cs.renamed = mk(r)
		}
		if r.Chance(1, 4) {
			cs.sep = []string{"/", "\\", ":"}[r.Intn(3)]
		}
		if r.Chance(1, 2) {
			cs.source, cs.key = "good", "k1"
		}
		run(cs)
	}
	stop <- true
	select {
	case <-doneCh:
	case <-time.After(5 * time.Second):
	}
}
