package main

// Driver for the on-demand prune route (C20, second clause, through the HTTP layer):
// the REAL serverApp; PUT /prune?block&minage=<seconds>&source=<name> on the internal
// port; generated directory trees under the source's stage and final directories.
// Same line format as the stage package's prune driver:
//   P nnodes {path isdir old}* = nleft {path}*

import (
	"fmt"
	"net"
	nethttp "net/http"
	"os"
	"path/filepath"
	"sort"
	"strings"
	"testing"
	"time"

	"github.com/arm-doe/sts"
	"github.com/arm-doe/sts/zzverif/gen"
)

type vpNode struct {
	path  string
	isDir bool
	old   bool
}

func TestVerifPruneHTTP(t *testing.T) {
	w, done, ok := gen.Out()
	if !ok {
		t.Skip("VERIF_OUT not set")
	}
	defer done()
	tmp := os.Getenv("VERIF_TMP")
	if tmp == "" {
		tmp = t.TempDir()
	}
	root := filepath.Join(tmp, "prunebox")
	os.RemoveAll(root)
	defer os.RemoveAll(root)
	dirs := &sts.ServerDirs{
		LogMsg: filepath.Join(root, "logs", "msg"), LogIn: filepath.Join(root, "logs", "in"),
		Stage: filepath.Join(root, "stage"), Final: filepath.Join(root, "final"), Serve: filepath.Join(root, "serve"),
	}
	for _, d := range []string{dirs.LogMsg, dirs.LogIn, dirs.Stage, dirs.Final, dirs.Serve} {
		os.MkdirAll(d, 0o755)
	}
	// two consecutive free ports: the internal routes listen on port+1
	port := 0
	for try := 0; try < 50 && port == 0; try++ {
		ln, err := net.Listen("tcp", "127.0.0.1:0")
		if err != nil {
			t.Fatal(err)
		}
		p := ln.Addr().(*net.TCPAddr).Port
		ln.Close()
		if ln2, err := net.Listen("tcp", fmt.Sprintf(":%d", p+1)); err == nil {
			ln2.Close()
			port = p
		}
	}
	a := &serverApp{conf: &sts.ServerConf{Dirs: dirs, Server: &sts.HTTPServer{Host: "127.0.0.1", Port: port}}}
	if err := a.init(); err != nil {
		t.Fatal(err)
	}
	stop := make(chan bool)
	doneCh := make(chan bool, 1)
	go a.server.Serve(stop, doneCh)
	for i := 0; i < 300; i++ {
		if c, err := net.Dial("tcp", fmt.Sprintf("127.0.0.1:%d", port+1)); err == nil {
			c.Close()
			break
		}
		time.Sleep(10 * time.Millisecond)
	}
	client := &nethttp.Client{Timeout: 10 * time.Second}
	b := func(x bool) int {
		if x {
			return 1
		}
		return 0
	}
	caseNo := 0
	run := func(nodes []vpNode, rootOld bool, useFinal bool, minage string) {
		caseNo++
		source := fmt.Sprintf("src%d", caseNo%3)
		base := filepath.Join(dirs.Stage, source)
		if useFinal {
			base = filepath.Join(dirs.Final, source)
		}
		os.RemoveAll(filepath.Join(dirs.Stage, source))
		os.RemoveAll(filepath.Join(dirs.Final, source))
		os.MkdirAll(filepath.Join(dirs.Stage, source), 0o755)
		os.MkdirAll(filepath.Join(dirs.Final, source), 0o755)
		for _, n := range nodes {
			p := filepath.Join(base, n.path)
			if n.isDir {
				os.MkdirAll(p, 0o755)
			} else {
				os.MkdirAll(filepath.Dir(p), 0o755)
				os.WriteFile(p, []byte("x"), 0o644)
			}
		}
		sorted := append([]vpNode{}, nodes...)
		sort.Slice(sorted, func(i, j int) bool { return strings.Count(sorted[i].path, "/") > strings.Count(sorted[j].path, "/") })
		oldT := time.Now().Add(-3 * time.Hour)
		youngT := time.Now().Add(-2 * time.Minute)
		for _, n := range sorted {
			tm := youngT
			if n.old {
				tm = oldT
			}
			os.Chtimes(filepath.Join(base, n.path), tm, tm)
		}
		if rootOld {
			os.Chtimes(base, oldT, oldT)
		} else {
			os.Chtimes(base, youngT, youngT)
		}
		var sb strings.Builder
		fmt.Fprintf(&sb, "P %d - 1 %d", len(nodes)+1, b(rootOld))
		for _, n := range nodes {
			fmt.Fprintf(&sb, " %s %d %d", gen.Hex(n.path), b(n.isDir), b(n.old))
		}
		req, _ := nethttp.NewRequest("PUT", fmt.Sprintf("http://127.0.0.1:%d/prune?block&minage=%s&source=%s", port+1, minage, source), nil)
		status := -1
		if resp, err := client.Do(req); err == nil {
			resp.Body.Close()
			status = resp.StatusCode
		}
		var left []string
		if _, err := os.Stat(base); err == nil {
			left = append(left, "-")
			filepath.Walk(base, func(p string, info os.FileInfo, err error) error {
				if err == nil && p != base {
					rel, _ := filepath.Rel(base, p)
					left = append(left, gen.Hex(rel))
				}
				return nil
			})
		}
		sort.Strings(left)
		if status != 200 {
			left = append(left, fmt.Sprintf("status-%d", status)) // (shows up as a difference)
		}
		fmt.Fprintf(&sb, " = %d %s\n", len(left), strings.Join(left, " "))
		w.WriteString(sb.String())
	}
	directed := [][]vpNode{
		{{"2024", true, false}, {"2024/01", true, true}},
		{{"a", true, true}, {"a/b", true, true}, {"a/b/c", true, true}},
		{{"a", true, true}, {"a/b", true, false}, {"a/c", true, true}},
		{{"day", true, false}},
		{{"day", true, false}, {"old", true, true}},
	}
	for _, d := range directed {
		for _, fin := range []bool{false, true} {
			run(d, false, fin, "3600")
		}
	}
	n := gen.EnvInt("VERIF_N", 60)
	r0 := gen.New(gen.Seed() ^ 0x9121F)
	segs := []string{"a", "b", "c", "d.e", "2024"}
	for i := 0; i < n; i++ {
		r := r0.Sub(uint64(i))
		have := map[string]bool{}
		var nodes []vpNode
		var ds []string
		for k := 0; k < 1+r.Intn(8); k++ {
			parent := ""
			if len(ds) > 0 && r.Chance(2, 3) {
				parent = ds[r.Intn(len(ds))]
			}
			p := segs[r.Intn(len(segs))]
			if parent != "" {
				p = parent + "/" + p
			}
			if strings.Count(p, "/") > 4 || have[p] {
				continue
			}
			have[p] = true
			isDir := r.Chance(4, 5)
			nodes = append(nodes, vpNode{p, isDir, r.Chance(2, 3)})
			if isDir {
				ds = append(ds, p)
			}
		}
		run(nodes, r.Chance(1, 6), r.Chance(1, 2), "3600")
	}
	stop <- true
	select {
	case <-doneCh:
	case <-time.After(5 * time.Second):
	}
}
