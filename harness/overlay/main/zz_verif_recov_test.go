package main

// Driver for "while a source's staging area is still recovering after a restart, its requests are
// answered 'unavailable' rather than processed" (C15, last sentence) through the REAL serverApp.init():
// the stage directory of a source holds a complete, unvalidated file whose body is a FIFO - Recover()
// blocks in its hash until the test writes to it - and authorised requests arrive meanwhile. Source names
// with and without a path separator (stage directories are named with "--" in place of it).
//
// line: HR source = during {status}*3 changed_during after_status wrong_key_status

import (
	"bytes"
	"crypto/md5"
	"encoding/json"
	"fmt"
	"net"
	nethttp "net/http"
	"os"
	"path/filepath"
	"strings"
	"syscall"
	"testing"
	"time"

	"github.com/arm-doe/sts"
	"github.com/arm-doe/sts/zzverif/gen"
)

func TestVerifRecovery(t *testing.T) {
	w, done, ok := gen.Out()
	if !ok {
		t.Skip("VERIF_OUT not set")
	}
	defer done()
	tmp := os.Getenv("VERIF_TMP")
	if tmp == "" {
		tmp = t.TempDir()
	}
	sources := []string{"good", "site/inst1", "a/b/c", "site.alpha", "x-y/z.1"}
	root := filepath.Join(tmp, "recovbox")
	os.RemoveAll(root)
	defer os.RemoveAll(root)
	dirs := &sts.ServerDirs{
		LogMsg: filepath.Join(root, "logs", "msg"), LogIn: filepath.Join(root, "logs", "in"),
		Stage: filepath.Join(root, "stage"), Final: filepath.Join(root, "final"), Serve: filepath.Join(root, "serve"),
	}
	for _, d := range []string{dirs.LogMsg, dirs.LogIn, dirs.Stage, dirs.Final, dirs.Serve} {
		os.MkdirAll(d, 0o755)
	}
	content := []byte("held while the receiver was down")
	hash := fmt.Sprintf("%x", md5.Sum(content))
	fifos := map[string]string{}
	for _, source := range sources {
		sdir := filepath.Join(dirs.Stage, strings.ReplaceAll(source, "/", "--"))
		os.MkdirAll(sdir, 0o755)
		cmp, _ := json.Marshal(map[string]interface{}{"path": "held.dat", "renamed": "", "prev": "", "size": len(content), "time": "1700000000+0", "hash": hash, "src": source,
			"parts": []map[string]int{{"b": 0, "e": len(content)}}})
		os.WriteFile(filepath.Join(sdir, "held.dat.cmp"), cmp, 0o644)
		fifo := filepath.Join(sdir, "held.dat.full")
		if err := syscall.Mkfifo(fifo, 0o644); err != nil {
			w.WriteString(fmt.Sprintf("HR %s = skipped\n", gen.Hex(source)))
			return
		}
		fifos[source] = fifo
	}
	ln, err := net.Listen("tcp", "127.0.0.1:0")
	if err != nil {
		t.Fatal(err)
	}
	port := ln.Addr().(*net.TCPAddr).Port
	ln.Close()
	a := &serverApp{conf: &sts.ServerConf{Dirs: dirs, Sources: sources, Keys: []string{"k1"}, Server: &sts.HTTPServer{Host: "127.0.0.1", Port: port}}}
	if err := a.init(); err != nil {
		t.Fatal(err)
	}
	stop := make(chan bool)
	doneCh := make(chan bool, 1)
	go a.server.Serve(stop, doneCh)
	base := fmt.Sprintf("http://127.0.0.1:%d", port)
	for i := 0; i < 300; i++ {
		if c, err := net.Dial("tcp", fmt.Sprintf("127.0.0.1:%d", port)); err == nil {
			c.Close()
			break
		}
		time.Sleep(10 * time.Millisecond)
	}
	client := &nethttp.Client{Timeout: 5 * time.Second}
	time.Sleep(80 * time.Millisecond) // every Recover() is inside the hash of its FIFO by now
	for _, source := range sources {
		do := func(method, path string, body []byte, key string, hdr map[string]string) int {
			req, _ := nethttp.NewRequest(method, base+path, bytes.NewReader(body))
			req.Header.Set("X-STS-SrcName", source)
			req.Header.Set("X-STS-Key", key)
			for k, v := range hdr {
				req.Header.Set(k, v)
			}
			resp, err := client.Do(req)
			if err != nil {
				return -1
			}
			resp.Body.Close()
			return resp.StatusCode
		}
		snap := func() string {
			var sb strings.Builder
			filepath.Walk(root, func(p string, info os.FileInfo, err error) error {
				if err == nil && !strings.HasPrefix(p, dirs.LogMsg) {
					rel, _ := filepath.Rel(root, p)
					sb.WriteString(rel + ";")
				}
				return nil
			})
			return sb.String()
		}
		before := snap()
		fresh := []byte("fresh-data-" + source)
		meta, _ := json.Marshal([]map[string]interface{}{{"n": "fresh.dat", "r": "", "p": "", "f": fmt.Sprintf("%x", md5.Sum(fresh)), "t": "1700000000+0", "s": len(fresh), "b": 0, "e": len(fresh)}})
		var during []int
		during = append(during, do("GET", "/partials?v=1", nil, "k1", nil))
		vb, _ := json.Marshal([]map[string]interface{}{{"n": "held.dat", "t": 1700000000}})
		during = append(during, do("POST", "/validate", vb, "k1", nil))
		during = append(during, do("PUT", "/data", append(append([]byte{}, meta...), fresh...), "k1", map[string]string{"X-STS-MetaLen": fmt.Sprint(len(meta))}))
		time.Sleep(60 * time.Millisecond)
		changed := 0
		if snap() != before {
			changed = 1
		}
		// let this source's recovery finish
		// (without blocking: if nobody reads the FIFO - this source's recovery has not even begun - give up
		// after three seconds and report what was seen)
		for i := 0; i < 150; i++ {
			if fd, err := syscall.Open(fifos[source], syscall.O_WRONLY|syscall.O_NONBLOCK, 0); err == nil {
				syscall.Write(fd, content)
				syscall.Close(fd)
				break
			}
			time.Sleep(20 * time.Millisecond)
		}
		after := -1
		for i := 0; i < 200; i++ {
			if after = do("GET", "/partials?v=1", nil, "k1", nil); after == 200 {
				break
			}
			time.Sleep(20 * time.Millisecond)
		}
		wrong := do("GET", "/partials?v=1", nil, "nope", nil)
		w.WriteString(fmt.Sprintf("HR %s = %d %d %d %d %d %d\n", gen.Hex(source), during[0], during[1], during[2], changed, after, wrong))
	}
	stop <- true
	select {
	case <-doneCh:
	case <-time.After(5 * time.Second):
	}
}
