package main

// Driver for "the running sender applies each tag's settings to exactly the matching
// files" (C19, last clause): the REAL clientApp.init() builds the tagger / grouper /
// name-to-tag closures from a parsed configuration; the tag the broker and the queue
// get for a file name is compared with the model's first-match rule, whose inputs -
// the verdicts of regexp.MatchString and of the group-by submatch - are computed here
// with the regexp library directly.
//
// line: G ntags {haspat}*ntags nnames {name group|- {m_name m_group is_name is_group}*ntags}*nnames = {tagindex|-1}*nnames
//   m_name / m_group: pattern i matches the name / its group; is_name / is_group: the text of pattern i equals it

import (
	"time"
	"fmt"
	"os"
	"path/filepath"
	"regexp"
	"strings"
	"testing"

	"github.com/arm-doe/sts"
	"github.com/arm-doe/sts/log"
	"github.com/arm-doe/sts/mock"
	"github.com/arm-doe/sts/store"
	"github.com/arm-doe/sts/zzverif/gen"

	yaml "gopkg.in/yaml.v2"
)

var vgPatterns = []string{`^info/`, `comlogs/`, `info`, `\.nc`, `raw/[a-z]+/`, `abc$`, `^g\.`, `site1`, `a`, `^site[0-9]+/raw`, `logs`, `x/y`, `DEFAULT2`}
var vgFrags = []string{"info", "comlogs", "raw", "abc", "site1", "site22", "g", "x", "y", "logs", "a", "nc", "other"}

func verifTagsCase(w interface{ WriteString(string) (int, error) }, tmp string, id int, pats []string, methods []string, groupBy string, names []string) {
	root := filepath.Join(tmp, fmt.Sprintf("tags%d", id))
	os.RemoveAll(root)
	defer os.RemoveAll(root)
	var sb strings.Builder
	fmt.Fprintf(&sb, "OUT:\n  dirs:\n    cache : %s\n    logs  : %s\n    out   : %s\n  sources:\n    - name    : demo\n      out-dir : %s\n      log-dir : %s\n      threads : 1\n",
		filepath.Join(root, "cache"), filepath.Join(root, "logs"), filepath.Join(root, "out"), filepath.Join(root, "out", "demo"), filepath.Join(root, "logs", "demo"))
	if groupBy != "" {
		fmt.Fprintf(&sb, "      group-by : '%s'\n", groupBy)
	}
	sb.WriteString("      target:\n        name      : tgt\n        http-host : localhost:1992\n      tags:\n        - pattern  : DEFAULT\n          priority : 0\n          order    : fifo\n          method   : http\n")
	for i, p := range pats {
		fmt.Fprintf(&sb, "        - pattern  : '%s'\n          priority : %d\n", p, i+1)
		if methods[i] != "" {
			fmt.Fprintf(&sb, "          method   : %s\n", methods[i])
		}
	}
	var conf sts.Conf
	if err := yaml.Unmarshal([]byte(sb.String()), &conf); err != nil {
		panic(err.Error() + "\n" + sb.String())
	}
	src := conf.Client.Sources[0]
	app := &clientApp{dirCache: filepath.Join(root, "cache"), conf: src}
	if err := app.init(); err != nil {
		panic(err)
	}
	defer app.destroy()
	gb := src.GroupBy
	var out strings.Builder
	fmt.Fprintf(&out, "G %d", len(src.Tags))
	for _, t := range src.Tags {
		if t.Pattern != nil {
			out.WriteString(" 1")
		} else {
			out.WriteString(" 0")
		}
	}
	fmt.Fprintf(&out, " %d", len(names))
	b := func(x bool) string {
		if x {
			return "1"
		}
		return "0"
	}
	for _, n := range names {
		group := ""
		if m := gb.FindStringSubmatch(n); len(m) > 1 && m[1] != "" && m[1] != n {
			group = m[1]
		}
		fmt.Fprintf(&out, " %s %s", gen.Hex(n), gen.Hex(group))
		for _, t := range src.Tags {
			if t.Pattern == nil {
				out.WriteString(" 0 0 0 0")
				continue
			}
			fmt.Fprintf(&out, " %s %s %s %s", b(t.Pattern.MatchString(n)), b(group != "" && t.Pattern.MatchString(group)),
				b(t.Pattern.String() == n), b(group != "" && t.Pattern.String() == group))
		}
	}
	out.WriteString(" =")
	for _, n := range names {
		got := app.broker.Conf.Tagger(n)
		idx := -1
		for i, t := range src.Tags {
			if t.Pattern != nil && t.Pattern.String() == got {
				idx = i
				break
			}
		}
		if got != "" && idx < 0 {
			idx = -2 // a tag name that is no pattern of the configuration
		}
		fmt.Fprintf(&out, " %d", idx)
	}
	out.WriteString("\n")
	w.WriteString(out.String())
}

// verifInheritCase: a sender with several sources; a later source may give no tags (it takes the tag
// list of the source before it - the same objects) and may give its own bin-size. Every source is
// initialised by the REAL clientApp.init(), in configuration order (as app.startClients() does), then a
// big file is pushed into each source's real queue for each tag and the first chunk is looked at.
//
// line: GI nsrc {bin ntags|-1 {chunk}*ntags}*nsrc = {ntags {firstchunk}*ntags}*nsrc      (sizes in bytes, 0 = omitted)
func verifInheritCase(w interface{ WriteString(string) (int, error) }, tmp string, id int, bins []int64, tags [][]int64) {
	root := filepath.Join(tmp, fmt.Sprintf("inh%d", id))
	os.RemoveAll(root)
	defer os.RemoveAll(root)
	pats := []string{"DEFAULT", "^t1/", "^t2/", "^t3/"}
	files := []string{"zz/f.dat", "t1/f.dat", "t2/f.dat", "t3/f.dat"}
	var sb strings.Builder
	fmt.Fprintf(&sb, "dirs:\n  cache : %s\n  logs  : %s\n  out   : %s\nsources:\n", filepath.Join(root, "cache"), filepath.Join(root, "logs"), filepath.Join(root, "out"))
	var line strings.Builder
	fmt.Fprintf(&line, "GI %d", len(bins))
	for i := range bins {
		fmt.Fprintf(&sb, "  - name    : s%d\n    out-dir : %s\n    log-dir : %s\n", i, filepath.Join(root, "out", fmt.Sprint("s", i)), filepath.Join(root, "logs", fmt.Sprint("s", i)))
		if i == 0 {
			sb.WriteString("    threads : 1\n    target:\n      name      : tgt\n      http-host : localhost:1992\n")
		}
		if bins[i] != 0 {
			fmt.Fprintf(&sb, "    bin-size : %dB\n", bins[i])
		}
		if tags[i] == nil {
			fmt.Fprintf(&line, " %d -1", bins[i])
			continue
		}
		fmt.Fprintf(&line, " %d %d", bins[i], len(tags[i]))
		sb.WriteString("    tags:\n")
		for j, c := range tags[i] {
			fmt.Fprintf(&sb, "      - pattern  : '%s'\n        priority : %d\n", pats[j], j)
			if j == 0 {
				sb.WriteString("        order    : fifo\n        method   : http\n")
			}
			if c != 0 {
				fmt.Fprintf(&sb, "        chunk-size : %dB\n", c)
			}
			fmt.Fprintf(&line, " %d", c)
		}
	}
	conf := &sts.ClientConf{}
	if err := yaml.Unmarshal([]byte(sb.String()), conf); err != nil {
		panic(err.Error() + "\n" + sb.String())
	}
	var apps []*clientApp
	for _, src := range conf.Sources {
		app := &clientApp{dirCache: filepath.Join(root, "cache"), conf: src}
		if err := app.init(); err != nil {
			panic(err)
		}
		defer app.destroy()
		apps = append(apps, app)
	}
	line.WriteString(" =")
	const big = 64 << 20
	for _, app := range apps {
		fmt.Fprintf(&line, " %d", len(app.conf.Tags))
		for j := range app.conf.Tags {
			q := app.broker.Conf.Queue
			q.Push([]sts.Hashed{&mock.File{Name: files[j], Size: big, Time: time.Now().Add(-time.Hour), Hash: "0123456789abcdef0123456789abcdef"}})
			first := int64(-1)
			if c := q.Pop(); c != nil {
				_, first = c.GetSlice()
			}
			for q.Pop() != nil {
			}
			fmt.Fprintf(&line, " %d", first)
		}
	}
	line.WriteString("\n")
	w.WriteString(line.String())
}

// verifIgnoreCase: a sender with several sources; a later source may give neither include nor ignore (it
// takes the preceding source's lists) and has its own or inherited tags, some with a method other than
// http (their patterns become ignore patterns of THAT source's store). Every source is initialised by the
// real clientApp.init(), in configuration order; then each source's store is asked what it includes / ignores.
//
// line: GN nsrc {-1 | ninc {id}* nign {id}*} {-1 | ntags {id nonhttp}*}*nsrc = {ninc {id}* nign {id}*}*nsrc
//   ids: 1..9 include / ignore patterns, 100 / 101 the standard ignores, 200.. tag patterns
func verifIgnoreCase(w interface{ WriteString(string) (int, error) }, tmp string, id int, incs, igns [][]int, tags [][][2]int) {
	root := filepath.Join(tmp, fmt.Sprintf("ign%d", id))
	os.RemoveAll(root)
	defer os.RemoveAll(root)
	pat := func(i int) string {
		switch {
		case i == 100:
			return `\.lck$`
		case i == 101:
			return `(?:^|/)\.disabled$`
		case i >= 200:
			return fmt.Sprintf("^t%d/", i)
		case i <= 2:
			return fmt.Sprintf("^i%d", i)
		}
		return fmt.Sprintf(`\.g%d$`, i)
	}
	ids := map[string]int{}
	for i := 1; i <= 9; i++ {
		ids[pat(i)] = i
	}
	ids[pat(100)], ids[pat(101)] = 100, 101
	var sb strings.Builder
	fmt.Fprintf(&sb, "dirs:\n  cache : %s\n  logs  : %s\n  out   : %s\nsources:\n", filepath.Join(root, "cache"), filepath.Join(root, "logs"), filepath.Join(root, "out"))
	var line strings.Builder
	fmt.Fprintf(&line, "GN %d", len(incs))
	list := func(l []int) string {
		var q []string
		for _, i := range l {
			q = append(q, "'"+pat(i)+"'")
		}
		return "[" + strings.Join(q, ", ") + "]"
	}
	for i := range incs {
		fmt.Fprintf(&sb, "  - name    : s%d\n    out-dir : %s\n    log-dir : %s\n", i, filepath.Join(root, "out", fmt.Sprint("s", i)), filepath.Join(root, "logs", fmt.Sprint("s", i)))
		if i == 0 {
			sb.WriteString("    threads : 1\n    target:\n      name      : tgt\n      http-host : localhost:1992\n")
		}
		if igns[i] == nil {
			line.WriteString(" -1")
		} else {
			if len(incs[i]) > 0 {
				fmt.Fprintf(&sb, "    include : %s\n", list(incs[i]))
			}
			fmt.Fprintf(&sb, "    ignore  : %s\n", list(igns[i]))
			fmt.Fprintf(&line, " %d", len(incs[i]))
			for _, x := range incs[i] {
				fmt.Fprintf(&line, " %d", x)
			}
			fmt.Fprintf(&line, " %d", len(igns[i]))
			for _, x := range igns[i] {
				fmt.Fprintf(&line, " %d", x)
			}
		}
		if tags[i] == nil {
			line.WriteString(" -1")
			continue
		}
		fmt.Fprintf(&line, " %d", len(tags[i]))
		sb.WriteString("    tags:\n      - pattern  : DEFAULT\n        priority : 0\n        order    : fifo\n        method   : http\n")
		for j, tg := range tags[i] {
			ids[pat(tg[0])] = tg[0]
			m := "http"
			if tg[1] == 1 {
				m = "none"
			}
			fmt.Fprintf(&sb, "      - pattern  : '%s'\n        priority : %d\n        method   : %s\n", pat(tg[0]), j+1, m)
			fmt.Fprintf(&line, " %d %d", tg[0], tg[1])
		}
	}
	conf := &sts.ClientConf{}
	if err := yaml.Unmarshal([]byte(sb.String()), conf); err != nil {
		panic(err.Error() + "\n" + sb.String())
	}
	var apps []*clientApp
	for _, src := range conf.Sources {
		app := &clientApp{dirCache: filepath.Join(root, "cache"), conf: src}
		if err := app.init(); err != nil {
			panic(err)
		}
		defer app.destroy()
		apps = append(apps, app)
	}
	line.WriteString(" =")
	for _, app := range apps {
		st := app.broker.Conf.Store.(*store.Local)
		fmt.Fprintf(&line, " %d", len(st.Include))
		for _, p := range st.Include {
			fmt.Fprintf(&line, " %d", ids[p.String()])
		}
		fmt.Fprintf(&line, " %d", len(st.Ignore))
		for _, p := range st.Ignore {
			fmt.Fprintf(&line, " %d", ids[p.String()])
		}
	}
	line.WriteString("\n")
	w.WriteString(line.String())
}

func TestVerifTags(t *testing.T) {
	w, done, ok := gen.Out()
	if !ok {
		t.Skip("VERIF_OUT not set")
	}
	defer done()
	log.InitExternal(&mock.Logger{DebugMode: false})
	tmp := os.Getenv("VERIF_TMP")
	if tmp == "" {
		tmp = t.TempDir()
	}
	// inheritance between the sources of one sender: tags and bin-size
	{
		sizes := []int64{0, 0, 64 << 10, 128 << 10, 1 << 20, 2 << 20}
		chunks := []int64{0, 0, 0, 32 << 10, 256 << 10}
		ni := gen.EnvInt("VERIF_INHERIT_N", 60)
		b0 := gen.New(gen.Seed() ^ 0x1A4E)
		for i := 0; i < ni; i++ {
			r := b0.Sub(uint64(i))
			ns := 2 + r.Intn(3)
			var bins []int64
			var tags [][]int64
			for k := 0; k < ns; k++ {
				bins = append(bins, sizes[r.Intn(len(sizes))])
				if k > 0 && r.Chance(1, 2) {
					tags = append(tags, nil)
					continue
				}
				var tl []int64
				for j := 0; j < 1+r.Intn(4); j++ {
					tl = append(tl, chunks[r.Intn(len(chunks))])
				}
				tags = append(tags, tl)
			}
			verifInheritCase(w, tmp, i, bins, tags)
		}
	}
	// what each source's store ignores: lists inherited between sources, non-http tags per source
	{
		ni := gen.EnvInt("VERIF_IGNORE_N", 60)
		b0 := gen.New(gen.Seed() ^ 0x16E0)
		for i := 0; i < ni; i++ {
			r := b0.Sub(uint64(i))
			ns := 2 + r.Intn(2)
			var incs, igns [][]int
			var tags [][][2]int
			for k := 0; k < ns; k++ {
				if k > 0 && r.Chance(1, 2) {
					incs, igns = append(incs, nil), append(igns, nil)
				} else {
					var inc, ign []int
					for j := 0; j < r.Intn(3); j++ {
						inc = append(inc, 1+j)
					}
					for j := 0; j < 1+r.Intn(5); j++ {
						ign = append(ign, 3+j)
					}
					incs, igns = append(incs, inc), append(igns, ign)
				}
				if k > 0 && r.Chance(1, 3) {
					tags = append(tags, nil)
					continue
				}
				tl := [][2]int{}
				for j := 0; j < 1+r.Intn(2); j++ {
					tl = append(tl, [2]int{200 + 10*k + j, r.Intn(2)})
				}
				tags = append(tags, tl)
			}
			if i < 8 {
				// directed: 5 or 9 patterns in the first source's lists (what Go's append leaves spare capacity
				// behind), the second source inherits the lists and has a non-http tag of its own
				incs, igns = [][]int{{1, 2}, nil}, [][]int{{3, 4, 5}, nil}
				if i%2 == 1 {
					igns[0] = []int{3, 4, 5, 6, 7, 8, 9}
				}
				tags = [][][2]int{{{200, 1 - i/4}}, {{210, 1}, {211, i / 2 % 2}}}
				if i >= 6 {
					incs, igns, tags = append(incs, nil), append(igns, nil), append(tags, [][2]int{{220, 1}})
				}
			}
			verifIgnoreCase(w, tmp, i, incs, igns, tags)
		}
	}
	n := gen.EnvInt("VERIF_N", 150)
	base := gen.New(gen.Seed() ^ 0x7A65)
	for i := 0; i < n; i++ {
		r := base.Sub(uint64(i))
		np := r.Intn(5)
		var pats, methods []string
		used := map[string]bool{}
		for len(pats) < np {
			p := vgPatterns[r.Intn(len(vgPatterns))]
			if used[p] {
				continue
			}
			used[p] = true
			if _, err := regexp.Compile(p); err != nil {
				continue
			}
			pats = append(pats, p)
			methods = append(methods, []string{"", "", "http", "none"}[r.Intn(4)])
		}
		groupBy := []string{"", "", `^(\w+)/`, `^([a-z]+)`, `^(.*)$`, `.`, `^[a-z]+`}[r.Intn(7)] // the last two have no capture group (a managed client gets ".")
		var names []string
		for j := 0; j < 12; j++ {
			k := 1 + r.Intn(3)
			var parts []string
			for x := 0; x < k; x++ {
				parts = append(parts, vgFrags[r.Intn(len(vgFrags))])
			}
			name := strings.Join(parts, "/")
			switch r.Intn(4) {
			case 0:
				name += ".nc"
			case 1:
				name += "/a.log"
			case 2:
				name = name + "." + vgFrags[r.Intn(len(vgFrags))]
			}
			names = append(names, name)
		}
		// the pattern texts themselves are names too (the grouper may return a tag name as group)
		if len(pats) > 0 && r.Chance(1, 2) {
			names = append(names, pats[r.Intn(len(pats))])
		}
		verifTagsCase(w, tmp, i, pats, methods, groupBy, names)
	}
}
