package main

// Driver for "the running sender applies each tag's settings to exactly the matching
// files" (C19, last clause): the REAL clientApp.init() builds the tagger / grouper /
// name-to-tag closures from a parsed configuration; the tag the broker and the queue
// get for a file name is compared with the model's first-match rule, whose inputs -
// the verdicts of regexp.MatchString and of the group-by submatch - are computed here
// with the regexp library directly.
//
// line: G ntags {haspat}*ntags nnames {name group|- {m_name m_group is_name is_group}*ntags}*nnames = {tagindex|-1}*nnames
//   m_name / m_group: pattern i matches the name / its group; is_name / is_group: the text of pattern i equals it

import (
	"fmt"
	"os"
	"path/filepath"
	"regexp"
	"strings"
	"testing"

	"github.com/arm-doe/sts"
	"github.com/arm-doe/sts/log"
	"github.com/arm-doe/sts/mock"
	"github.com/arm-doe/sts/zzverif/gen"

	yaml "gopkg.in/yaml.v2"
)

var vgPatterns = []string{`^info/`, `comlogs/`, `info`, `\.nc`, `raw/[a-z]+/`, `abc$`, `^g\.`, `site1`, `a`, `^site[0-9]+/raw`, `logs`, `x/y`, `DEFAULT2`}
var vgFrags = []string{"info", "comlogs", "raw", "abc", "site1", "site22", "g", "x", "y", "logs", "a", "nc", "other"}

func verifTagsCase(w interface{ WriteString(string) (int, error) }, tmp string, id int, pats []string, methods []string, groupBy string, names []string) {
	root := filepath.Join(tmp, fmt.Sprintf("tags%d", id))
	os.RemoveAll(root)
	defer os.RemoveAll(root)
	var sb strings.Builder
	fmt.Fprintf(&sb, "OUT:\n  dirs:\n    cache : %s\n    logs  : %s\n    out   : %s\n  sources:\n    - name    : demo\n      out-dir : %s\n      log-dir : %s\n      threads : 1\n",
		filepath.Join(root, "cache"), filepath.Join(root, "logs"), filepath.Join(root, "out"), filepath.Join(root, "out", "demo"), filepath.Join(root, "logs", "demo"))
	if groupBy != "" {
		fmt.Fprintf(&sb, "      group-by : '%s'\n", groupBy)
	}
	sb.WriteString("      target:\n        name      : tgt\n        http-host : localhost:1992\n      tags:\n        - pattern  : DEFAULT\n          priority : 0\n          order    : fifo\n          method   : http\n")
	for i, p := range pats {
		fmt.Fprintf(&sb, "        - pattern  : '%s'\n          priority : %d\n", p, i+1)
		if methods[i] != "" {
			fmt.Fprintf(&sb, "          method   : %s\n", methods[i])
		}
	}
	var conf sts.Conf
	if err := yaml.Unmarshal([]byte(sb.String()), &conf); err != nil {
		panic(err.Error() + "\n" + sb.String())
	}
	src := conf.Client.Sources[0]
	app := &clientApp{dirCache: filepath.Join(root, "cache"), conf: src}
	if err := app.init(); err != nil {
		panic(err)
	}
	defer app.destroy()
	gb := src.GroupBy
	var out strings.Builder
	fmt.Fprintf(&out, "G %d", len(src.Tags))
	for _, t := range src.Tags {
		if t.Pattern != nil {
			out.WriteString(" 1")
		} else {
			out.WriteString(" 0")
		}
	}
	fmt.Fprintf(&out, " %d", len(names))
	b := func(x bool) string {
		if x {
			return "1"
		}
		return "0"
	}
	for _, n := range names {
		group := ""
		if m := gb.FindStringSubmatch(n); len(m) > 1 && m[1] != "" && m[1] != n {
			group = m[1]
		}
		fmt.Fprintf(&out, " %s %s", gen.Hex(n), gen.Hex(group))
		for _, t := range src.Tags {
			if t.Pattern == nil {
				out.WriteString(" 0 0 0 0")
				continue
			}
			fmt.Fprintf(&out, " %s %s %s %s", b(t.Pattern.MatchString(n)), b(group != "" && t.Pattern.MatchString(group)),
				b(t.Pattern.String() == n), b(group != "" && t.Pattern.String() == group))
		}
	}
	out.WriteString(" =")
	for _, n := range names {
		got := app.broker.Conf.Tagger(n)
		idx := -1
		for i, t := range src.Tags {
			if t.Pattern != nil && t.Pattern.String() == got {
				idx = i
				break
			}
		}
		if got != "" && idx < 0 {
			idx = -2 // a tag name that is no pattern of the configuration
		}
		fmt.Fprintf(&out, " %d", idx)
	}
	out.WriteString("\n")
	w.WriteString(out.String())
}

func TestVerifTags(t *testing.T) {
	w, done, ok := gen.Out()
	if !ok {
		t.Skip("VERIF_OUT not set")
	}
	defer done()
	log.InitExternal(&mock.Logger{DebugMode: false})
	tmp := os.Getenv("VERIF_TMP")
	if tmp == "" {
		tmp = t.TempDir()
	}
	n := gen.EnvInt("VERIF_N", 150)
	base := gen.New(gen.Seed() ^ 0x7A65)
	for i := 0; i < n; i++ {
		r := base.Sub(uint64(i))
		np := r.Intn(5)
		var pats, methods []string
		used := map[string]bool{}
		for len(pats) < np {
			p := vgPatterns[r.Intn(len(vgPatterns))]
			if used[p] {
				continue
			}
			used[p] = true
			if _, err := regexp.Compile(p); err != nil {
				continue
			}
			pats = append(pats, p)
			methods = append(methods, []string{"", "", "http", "none"}[r.Intn(4)])
		}
		groupBy := []string{"", "", `^(\w+)/`, `^([a-z]+)`, `^(.*)$`, `.`, `^[a-z]+`}[r.Intn(7)] // the last two have no capture group (a managed client gets ".")
		var names []string
		for j := 0; j < 12; j++ {
			k := 1 + r.Intn(3)
			var parts []string
			for x := 0; x < k; x++ {
				parts = append(parts, vgFrags[r.Intn(len(vgFrags))])
			}
			name := strings.Join(parts, "/")
			switch r.Intn(4) {
			case 0:
				name += ".nc"
			case 1:
				name += "/a.log"
			case 2:
				name = name + "." + vgFrags[r.Intn(len(vgFrags))]
			}
			names = append(names, name)
		}
		// the pattern texts themselves are names too (the grouper may return a tag name as group)
		if len(pats) > 0 && r.Chance(1, 2) {
			names = append(names, pats[r.Intn(len(pats))])
		}
		verifTagsCase(w, tmp, i, pats, methods, groupBy, names)
	}
}
