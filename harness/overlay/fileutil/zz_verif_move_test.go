package fileutil

// Driver for the last step of a delivery (C01: what lands in the final directory is byte-identical to what
// was validated): the REAL fileutil.Move (rename, or - across file systems - copy + remove) and the REAL
// Copy on files of every shape: sizes around the copy block size, zero blocks at the start, in the middle
// and at the END, all zeros, random.
//
// line: MV size pattern mode = err dstsize same srcgone
//   pattern 0 random  1 zero tail from a block boundary  2 zero block in the middle  3 all zeros  4 zero head
//   mode    0 Move within one directory tree   1 Move across file systems (if there is one)   2 Copy

import (
	"bytes"
	"fmt"
	"os"
	"path/filepath"
	"syscall"
	"testing"

	"github.com/arm-doe/sts/zzverif/gen"
)

func vmContent(size, pattern int, r *gen.Rand) []byte {
	b := make([]byte, size)
	for i := range b {
		b[i] = byte(1 + r.Intn(255))
	}
	zero := func(lo, hi int) {
		for i := lo; i < hi && i < size; i++ {
			if i >= 0 {
				b[i] = 0
			}
		}
	}
	const blk = 8192
	switch pattern {
	case 1:
		zero((size/blk/2)*blk, size)
		if size <= blk {
			zero(0, size)
			if size > 0 {
				b[0] = 7
			}
			zero(1, size)
		}
	case 2:
		zero(blk, 2*blk)
	case 3:
		zero(0, size)
	case 4:
		zero(0, blk)
	}
	return b
}

func TestVerifMove(t *testing.T) {
	w, done, ok := gen.Out()
	if !ok {
		t.Skip("VERIF_OUT not set")
	}
	defer done()
	tmp := os.Getenv("VERIF_TMP")
	if tmp == "" {
		tmp = t.TempDir()
	}
	root := filepath.Join(tmp, "movebox")
	os.RemoveAll(root)
	os.MkdirAll(filepath.Join(root, "stage"), 0o755)
	os.MkdirAll(filepath.Join(root, "final", "sub"), 0o755)
	defer os.RemoveAll(root)
	// another file system, if this machine has one we can write to
	other := ""
	for _, cand := range []string{"/dev/shm", os.TempDir()} {
		var a, b syscall.Stat_t
		if syscall.Stat(cand, &a) == nil && syscall.Stat(root, &b) == nil && a.Dev != b.Dev {
			d := filepath.Join(cand, fmt.Sprintf("verif-move-%d", os.Getpid()))
			if os.MkdirAll(d, 0o755) == nil {
				other = d
				defer os.RemoveAll(d)
				break
			}
		}
	}
	r0 := gen.New(gen.Seed() ^ 0x30FE)
	sizes := []int{0, 1, 100, 8191, 8192, 8193, 16384, 20000, 24576, 25576, 40000, 65536, 70001}
	c := 0
	for _, size := range sizes {
		for pattern := 0; pattern < 5; pattern++ {
			for mode := 0; mode < 3; mode++ {
				c++
				r := r0.Sub(uint64(c))
				content := vmContent(size, pattern, r)
				src := filepath.Join(root, "stage", fmt.Sprintf("f%d.wait", c))
				os.WriteFile(src, content, 0o644)
				dst := filepath.Join(root, "final", "sub", fmt.Sprintf("f%d.dat", c))
				if mode == 1 {
					if other == "" {
						continue
					}
					dst = filepath.Join(other, fmt.Sprintf("f%d.dat", c))
				}
				var err error
				if mode == 2 {
					err = Copy(src, dst)
				} else {
					err = Move(src, dst)
				}
				e := 0
				if err != nil {
					e = 1
				}
				got, rerr := os.ReadFile(dst)
				same := 0
				if rerr == nil && bytes.Equal(got, content) {
					same = 1
				}
				gone := 0
				if _, serr := os.Stat(src); serr != nil {
					gone = 1
				}
				fmt.Fprintf(w, "MV %d %d %d = %d %d %d %d\n", size, pattern, mode, e, len(got), same, gone)
				os.Remove(src)
				os.Remove(dst)
			}
		}
	}
}
