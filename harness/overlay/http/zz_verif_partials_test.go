package http

// Driver for the sender's question "what do you hold of my files?" at start-up (C07: partly received files
// are completed by sending only byte ranges the receiver does not report holding): the REAL Client.Recover
// with the real stage.ReadCompanions against the REAL Server.handleValidate + routePartials in front of a
// real stage.Stage - ready, or not ready (inside its own recovery at start-up, or stopped: 503), or
// refusing the key (403). A refused request must come back as an ERROR (the sender then asks again), never
// as "nothing is held".
//
// line: RP mode nstaged = err nlisted bytes_listed
//   mode 0: ready   1: not ready (503)   2: wrong key (403)
//   nstaged: partly received files on the stage (each with its first `100 * (i+1)` bytes)

import (
	"bytes"
	"crypto/md5"
	"fmt"
	nethttp "net/http"
	"net/http/httptest"
	"net/url"
	"os"
	"path/filepath"
	"strconv"
	"testing"
	"time"

	"github.com/arm-doe/sts"
	"github.com/arm-doe/sts/log"
	"github.com/arm-doe/sts/marshal"
	"github.com/arm-doe/sts/mock"
	"github.com/arm-doe/sts/payload"
	"github.com/arm-doe/sts/stage"
	"github.com/arm-doe/sts/zzverif/gen"
)

type vpKeeper struct {
	*stage.Stage
	ready bool
}

func (k *vpKeeper) Ready() bool { return k.ready }

func TestVerifPartials(t *testing.T) {
	w, done, ok := gen.Out()
	if !ok {
		t.Skip("VERIF_OUT not set")
	}
	defer done()
	log.InitExternal(&mock.Logger{DebugMode: false})
	tmp := os.Getenv("VERIF_TMP")
	if tmp == "" {
		tmp = t.TempDir()
	}
	id := 0
	for mode := 0; mode < 3; mode++ {
		for nstaged := 0; nstaged < 4; nstaged++ {
			id++
			root := filepath.Join(tmp, fmt.Sprintf("rp%d", id))
			os.RemoveAll(root)
			stageDir, finalDir, logDir := filepath.Join(root, "stage"), filepath.Join(root, "final"), filepath.Join(root, "log")
			for _, d := range []string{stageDir, finalDir, logDir} {
				os.MkdirAll(d, 0o755)
			}
			st := stage.New("src", stageDir, finalDir, log.NewFileIO(logDir, nil, nil, true), nil, nil)
			// partly received files: the first part of each
			for i := 0; i < nstaged; i++ {
				content := make([]byte, 1000)
				for j := range content {
					content[j] = byte(i*7 + j)
				}
				n := int64(100 * (i + 1))
				f := &sts.Partial{Name: fmt.Sprintf("part/f%d.dat", i), Size: 1000, Hash: fmt.Sprintf("%x", md5.Sum(content)), Source: "src",
					Time: marshal.NanoTime{Time: time.Now().Add(-time.Hour)}, Parts: []*sts.ByteRange{{Beg: 0, End: n}}}
				st.Prepare([]sts.Binned{&vpBinned{f}})
				if err := st.Receive(f, bytes.NewReader(content[:n])); err != nil {
					t.Fatal(err)
				}
			}
			keeper := &vpKeeper{Stage: st, ready: mode != 1}
			s := &Server{GateKeepers: map[string]sts.GateKeeper{"src": keeper}, DecoderFactory: payload.NewDecoder,
				IsValid: func(source, key string) bool { return source == "src" && key == "k1" }}
			mux := nethttp.NewServeMux()
			mux.Handle("/partials", s.handleValidate(nethttp.HandlerFunc(s.routePartials)))
			srv := httptest.NewServer(mux)
			u, _ := url.Parse(srv.URL)
			port, _ := strconv.Atoi(u.Port())
			key := "k1"
			if mode == 2 {
				key = "wrong"
			}
			cl := &Client{SourceName: "src", TargetHost: u.Hostname(), TargetPort: port, TargetKey: key, Timeout: 10 * time.Second,
				Protocol: ProtocolHTTP1, PartialsDecoder: stage.ReadCompanions}
			ps, err := cl.Recover()
			e := 0
			if err != nil {
				e = 1
			}
			var listed int64
			for _, p := range ps {
				for _, r := range p.Parts {
					listed += r.End - r.Beg
				}
			}
			fmt.Fprintf(w, "RP %d %d = %d %d %d\n", mode, nstaged, e, len(ps), listed)
			cl.Destroy()
			srv.Close()
			st.Stop(true)
			os.RemoveAll(root)
		}
	}
}

type vpBinned struct{ p *sts.Partial }

func (b *vpBinned) GetName() string          { return b.p.Name }
func (b *vpBinned) GetRenamed() string       { return b.p.Renamed }
func (b *vpBinned) GetPrev() string          { return b.p.Prev }
func (b *vpBinned) GetFileTime() time.Time   { return b.p.Time.Time }
func (b *vpBinned) GetFileHash() string      { return b.p.Hash }
func (b *vpBinned) GetFileSize() int64       { return b.p.Size }
func (b *vpBinned) GetSendSize() int64       { return b.p.Size }
func (b *vpBinned) GetSlice() (int64, int64) { return b.p.Parts[0].Beg, b.p.Parts[0].End - b.p.Parts[0].Beg }
