package http

// Driver for the payload wire format (C13) over a REAL HTTP request on the
// loopback interface: the REAL Client.Transmit (header + Encoder through the pipe,
// gzip at every level) against the REAL Server.handleValidate + routeData with the
// REAL payload.NewDecoder; the gate keeper records what routeData hands to Receive.
// Truncated requests are written to a raw TCP connection (announced Content-Length
// = full length, then the write side is closed after `cut` bytes of the body).
//
// line: WH level sep nparts {name ren prev hash sec nsec size beg end data}*nparts cut
//       = httpstatus nrec {name ren prev hash sec nsec size beg end gotlen gotmd5 complete}*nrec
//   level  gzip level of the request body (0 = not compressed, -1 default, 1..9)
//   cut    -1 | number of bytes of the (possibly compressed) request body that arrive
//   httpstatus -1: no answer

import (
	"bufio"
	"bytes"
	"compress/gzip"
	"crypto/md5"
	"fmt"
	"io"
	"net"
	nethttp "net/http"
	"net/http/httptest"
	"net/url"
	"strconv"
	"strings"
	"sync"
	"testing"
	"time"

	"github.com/arm-doe/sts"
	"github.com/arm-doe/sts/log"
	"github.com/arm-doe/sts/mock"
	"github.com/arm-doe/sts/payload"
	"github.com/arm-doe/sts/zzverif/gen"
)

type whFile struct {
	name, ren, prev, hash string
	sec, nsec             int64
	size, beg, end        int64
	seed                  int
	alloc                 bool
}

func (f *whFile) GetPath() string              { return "/mem/" + f.name }
func (f *whFile) GetName() string              { return f.name }
func (f *whFile) GetSize() int64               { return f.size }
func (f *whFile) GetTime() time.Time           { return time.Unix(f.sec, f.nsec) }
func (f *whFile) GetMeta() []byte              { return nil }
func (f *whFile) GetHash() string              { return f.hash }
func (f *whFile) GetPrev() string              { return f.prev }
func (f *whFile) GetSlice() (int64, int64)     { return f.beg, f.end - f.beg }
func (f *whFile) GetSendSize() int64           { return f.size }
func (f *whFile) GetNextAlloc() (int64, int64) { return f.beg, f.end }
func (f *whFile) AddAlloc(int64)               { f.alloc = true }
func (f *whFile) IsAllocated() bool            { return f.alloc }

func whByte(seed int, i int64) byte { return byte(int64(seed)*131 + i*7 + i/251) }

type whReadable struct {
	f   *whFile
	pos int64
}

func (r *whReadable) Read(p []byte) (int, error) {
	if r.pos >= r.f.size {
		return 0, io.EOF
	}
	n := len(p)
	if int64(n) > r.f.size-r.pos {
		n = int(r.f.size - r.pos)
	}
	for i := 0; i < n; i++ {
		p[i] = whByte(r.f.seed, r.pos+int64(i))
	}
	r.pos += int64(n)
	return n, nil
}
func (r *whReadable) Seek(off int64, whence int) (int64, error) { r.pos = off; return off, nil }
func (r *whReadable) Close() error                               { return nil }

// whKeeper records what the data route hands over
type whKeeper struct {
	mu  sync.Mutex
	rec []string
}

func (k *whKeeper) Recover()                               {}
func (k *whKeeper) CleanNow()                              {}
func (k *whKeeper) Prune(time.Duration)                    {}
func (k *whKeeper) Ready() bool                            { return true }
func (k *whKeeper) Scan(string) ([]byte, error)            { return []byte("[]"), nil }
func (k *whKeeper) Prepare([]sts.Binned)                   {}
func (k *whKeeper) Received([]sts.Binned) int              { return 0 }
func (k *whKeeper) GetFileStatus(string, time.Time) int    { return sts.ConfirmNone }
func (k *whKeeper) Stop(bool)                              {}
func (k *whKeeper) Receive(f *sts.Partial, r io.Reader) error {
	var buf bytes.Buffer
	n, _ := io.Copy(&buf, r)
	beg, end := f.Parts[0].Beg, f.Parts[0].End
	complete := 0
	if n == end-beg {
		complete = 1
	}
	k.mu.Lock()
	k.rec = append(k.rec, fmt.Sprintf("%s %s %s %s %d %d %d %d %d %d %x %d", gen.Hex(f.Name), gen.Hex(f.Renamed), gen.Hex(f.Prev), gen.Hex(f.Hash),
		f.Time.Unix(), f.Time.Nanosecond(), f.Size, beg, end, n, md5.Sum(buf.Bytes()), complete))
	k.mu.Unlock()
	if complete == 0 {
		return fmt.Errorf("short part: %d of %d bytes", n, end-beg)
	}
	return nil
}

type whCase struct {
	level, sep int
	files      []*whFile
	cut        int
}

func whBin(c whCase) *payload.Bin { return whBinGated(c, nil) }

// whBinGated: gate (if any) is called when the encoder opens its first part - the header has been
// written by then, the body has not
func whBinGated(c whCase, gate func()) *payload.Bin {
	var once sync.Once
	opener := func(f sts.File) (sts.Readable, error) {
		if gate != nil {
			once.Do(gate)
		}
		return &whReadable{f: f.(*whFile)}, nil
	}
	renamer := func(f sts.File) string { return f.(*whFile).ren }
	bin := payload.NewBin(1<<40, opener, renamer).(*payload.Bin)
	for _, f := range c.files {
		f.alloc = false
		if !bin.Add(f) {
			panic("part not added")
		}
	}
	return bin
}

func verifWireHTTPCase(w *bufio.Writer, srv *httptest.Server, keeper *whKeeper, c whCase) {
	fmt.Fprintf(w, "WH %d %d %d", c.level, c.sep, len(c.files))
	for _, f := range c.files {
		fmt.Fprintf(w, " %s %s %s %s %d %d %d %d %d g%d", gen.Hex(f.name), gen.Hex(f.ren), gen.Hex(f.prev), gen.Hex(f.hash),
			f.sec, f.nsec, f.size, f.beg, f.end, f.seed)
	}
	fmt.Fprintf(w, " %d =", c.cut)
	keeper.mu.Lock()
	keeper.rec = nil
	keeper.mu.Unlock()
	u, _ := url.Parse(srv.URL)
	port, _ := strconv.Atoi(u.Port())
	status := -1
	if c.cut < 0 {
		// the real client
		cl := &Client{SourceName: "src", TargetHost: u.Hostname(), TargetPort: port, Compression: c.level, Timeout: 10 * time.Second, Protocol: ProtocolHTTP1}
		n, err := cl.Transmit(whBin(c))
		cl.Destroy()
		switch {
		case err == nil:
			status = 200
		case strings.Contains(err.Error(), "successful part"):
			status = 206
		case strings.Contains(err.Error(), "response code:"):
			fmt.Sscanf(err.Error()[strings.Index(err.Error(), "response code:")+len("response code:"):], "%d", &status)
		}
		_ = n
	} else {
		// the same bytes the client would send, cut short on a raw connection
		bin := whBin(c)
		meta, _ := bin.EncodeHeader()
		var body bytes.Buffer
		var out io.Writer = &body
		var gz *gzip.Writer
		if c.level != 0 {
			gz, _ = gzip.NewWriterLevel(&body, c.level)
			out = gz
		}
		out.Write(meta)
		io.Copy(out, bin.GetEncoder())
		if gz != nil {
			gz.Close()
		}
		full := body.Bytes()
		cut := c.cut
		if cut > len(full) {
			cut = len(full)
		}
		conn, err := net.Dial("tcp", u.Host)
		if err == nil {
			sep := "/"
			if c.sep == 92 {
				sep = "\\"
			}
			var hd strings.Builder
			fmt.Fprintf(&hd, "PUT /data?v=1 HTTP/1.1\r\nHost: %s\r\nContent-Length: %d\r\n%s: src\r\n%s: %d\r\n%s: %s\r\nConnection: close\r\n",
				u.Host, len(full), HeaderSourceName, HeaderMetaLen, len(meta), HeaderSep, sep)
			if gz != nil {
				hd.WriteString("Content-Encoding: gzip\r\n")
			}
			hd.WriteString("\r\n")
			conn.Write([]byte(hd.String()))
			conn.Write(full[:cut])
			conn.(*net.TCPConn).CloseWrite()
			conn.SetReadDeadline(time.Now().Add(5 * time.Second))
			if resp, err := nethttp.ReadResponse(bufio.NewReader(conn), nil); err == nil {
				status = resp.StatusCode
				resp.Body.Close()
			}
			conn.Close()
		}
	}
	// the handler has returned by the time the answer is complete; without an answer give it a moment
	if status == -1 {
		time.Sleep(100 * time.Millisecond)
	}
	keeper.mu.Lock()
	rec := append([]string{}, keeper.rec...)
	keeper.mu.Unlock()
	fmt.Fprintf(w, " %d %d", status, len(rec))
	for _, r := range rec {
		fmt.Fprintf(w, " %s", r)
	}
	fmt.Fprintln(w)
}

// verifWireHTTPGroup: the requests of one sender run CONCURRENTLY through ONE Client (main/client.go
// hands the one httpClient.Transmit to all sender threads): every member has written its header
// before any member writes a byte of its body. Each member is reported as an ordinary WH line; what
// the receiver was handed is attributed by the member's name prefix (part of the names in the line).
func verifWireHTTPGroup(w *bufio.Writer, srv *httptest.Server, keeper *whKeeper, cs []whCase) {
	keeper.mu.Lock()
	keeper.rec = nil
	keeper.mu.Unlock()
	u, _ := url.Parse(srv.URL)
	port, _ := strconv.Atoi(u.Port())
	cl := &Client{SourceName: "src", TargetHost: u.Hostname(), TargetPort: port, Compression: cs[0].level, Timeout: 10 * time.Second, Protocol: ProtocolHTTP1}
	// the first request sets the client up (init() is not synchronised: concurrent FIRST requests are
	// another matter than concurrent requests)
	warm := whCase{level: cs[0].level, sep: 47, cut: -1, files: []*whFile{{name: "warm/up", hash: fmt.Sprintf("%032x", 1), size: 3, beg: 0, end: 3, seed: 7}}}
	cl.Transmit(whBin(warm))
	var arrived sync.WaitGroup
	arrived.Add(len(cs))
	// every member has sent its header and stands before its first part; then the bodies go out one
	// member after the other (requests that overlap in time, not writes that race)
	release := make([]chan bool, len(cs))
	finished := make([]chan bool, len(cs))
	for i := range cs {
		release[i], finished[i] = make(chan bool), make(chan bool)
	}
	go func() {
		ch := make(chan bool)
		go func() { arrived.Wait(); close(ch) }()
		select {
		case <-ch:
		case <-time.After(2 * time.Second):
		}
		for i := range cs {
			close(release[i])
			select {
			case <-finished[i]:
			case <-time.After(3 * time.Second):
			}
		}
	}()
	status := make([]int, len(cs))
	var wg sync.WaitGroup
	for i := range cs {
		wg.Add(1)
		go func(i int) {
			defer wg.Done()
			defer close(finished[i])
			status[i] = -1
			_, err := cl.Transmit(whBinGated(cs[i], func() { arrived.Done(); <-release[i] }))
			switch {
			case err == nil:
				status[i] = 200
			case strings.Contains(err.Error(), "successful part"):
				status[i] = 206
			case strings.Contains(err.Error(), "response code:"):
				fmt.Sscanf(err.Error()[strings.Index(err.Error(), "response code:")+len("response code:"):], "%d", &status[i])
			}
		}(i)
		time.Sleep(2 * time.Millisecond)
	}
	wg.Wait()
	cl.Destroy()
	time.Sleep(20 * time.Millisecond)
	keeper.mu.Lock()
	rec := append([]string{}, keeper.rec...)
	keeper.mu.Unlock()
	for i, c := range cs {
		fmt.Fprintf(w, "WH %d %d %d", c.level, c.sep, len(c.files))
		for _, f := range c.files {
			fmt.Fprintf(w, " %s %s %s %s %d %d %d %d %d g%d", gen.Hex(f.name), gen.Hex(f.ren), gen.Hex(f.prev), gen.Hex(f.hash),
				f.sec, f.nsec, f.size, f.beg, f.end, f.seed)
		}
		fmt.Fprintf(w, " %d =", c.cut)
		var mine []string
		pre := gen.Hex(fmt.Sprintf("m%d/", i))
		for _, r := range rec {
			if strings.HasPrefix(r, pre) {
				mine = append(mine, r)
			}
		}
		fmt.Fprintf(w, " %d %d", status[i], len(mine))
		for _, r := range mine {
			fmt.Fprintf(w, " %s", r)
		}
		fmt.Fprintln(w)
	}
}

var whAlphabet = []string{"a", "b", "Z", "0", "_", "-", ".", " ", "é", "日", "\U0001F600", "\\", "\"", "<", ">", "&", "'", "\x01", "\n", "\t",
	" ", "\x7f", "+", ":", "%", "{", "]", ",", "u"}

func whName(r *gen.Rand) string {
	k := 1 + r.Intn(3)
	var segs []string
	for i := 0; i < k; i++ {
		n := 1 + r.Intn(5)
		var sb strings.Builder
		for j := 0; j < n; j++ {
			sb.WriteString(whAlphabet[r.Intn(len(whAlphabet))])
		}
		s := sb.String()
		if s == "." || s == ".." {
			s = "x" + s
		}
		segs = append(segs, s)
	}
	return strings.Join(segs, "/")
}

func whGen(r *gen.Rand) whCase {
	c := whCase{level: []int{0, -1, 1, 2, 3, 4, 5, 6, 7, 8, 9}[r.Intn(11)], sep: 47, cut: -1}
	np := 1 + r.Intn(5)
	for i := 0; i < np; i++ {
		f := &whFile{seed: 1 + r.Intn(250), name: whName(r)}
		if r.Chance(1, 3) {
			f.ren = whName(r)
		}
		if r.Chance(1, 2) {
			f.prev = whName(r)
		}
		f.hash = fmt.Sprintf("%032x", r.U64())
		f.sec = []int64{0, 1700000000, 1700000000 + int64(r.Intn(1e6)), -5}[r.Intn(4)]
		f.nsec = []int64{0, 1, 999999999, int64(r.Intn(1e9))}[r.Intn(4)]
		ln := int64(1 + r.Intn(60))
		if r.Chance(1, 6) {
			ln = int64(500 + r.Intn(6000))
		}
		if r.Chance(1, 25) && np <= 2 {
			ln = int64(40000 + r.Intn(40000))
		}
		switch r.Intn(3) {
		case 0:
			f.beg, f.end, f.size = 0, ln, ln
		case 1:
			f.beg = int64(1 + r.Intn(3000))
			f.end = f.beg + ln
			f.size = f.end + int64(r.Intn(100))
		default:
			f.beg, f.end, f.size = 0, ln, ln+int64(1+r.Intn(100))
		}
		c.files = append(c.files, f)
	}
	return c
}

func whParse(f []string) (whCase, bool) {
	atoi := func(s string) int { v, _ := strconv.Atoi(s); return v }
	atoi64 := func(s string) int64 { v, _ := strconv.ParseInt(s, 10, 64); return v }
	if len(f) < 4 {
		return whCase{}, false
	}
	c := whCase{level: atoi(f[1]), sep: atoi(f[2])}
	n := atoi(f[3])
	i := 4
	for k := 0; k < n; k++ {
		if i+10 > len(f) {
			return c, false
		}
		c.files = append(c.files, &whFile{name: gen.Unhex(f[i]), ren: gen.Unhex(f[i+1]), prev: gen.Unhex(f[i+2]), hash: gen.Unhex(f[i+3]),
			sec: atoi64(f[i+4]), nsec: atoi64(f[i+5]), size: atoi64(f[i+6]), beg: atoi64(f[i+7]), end: atoi64(f[i+8]), seed: atoi(strings.TrimPrefix(f[i+9], "g"))})
		i += 10
	}
	if i >= len(f) {
		return c, false
	}
	c.cut = atoi(f[i])
	return c, true
}

func TestVerifWireHTTP(t *testing.T) {
	w, done, ok := gen.Out()
	if !ok {
		t.Skip("VERIF_OUT not set")
	}
	defer done()
	log.InitExternal(&mock.Logger{DebugMode: false})
	keeper := &whKeeper{}
	s := &Server{GateKeepers: map[string]sts.GateKeeper{"src": keeper}, DecoderFactory: payload.NewDecoder,
		IsValid: func(source, key string) bool { return source == "src" }}
	mux := nethttp.NewServeMux()
	mux.Handle("/data", s.handleValidate(nethttp.HandlerFunc(s.routeData)))
	srv := httptest.NewServer(mux)
	defer srv.Close()
	if lines := gen.Replay(); lines != nil {
		for _, l := range lines {
			if c, ok := whParse(strings.Fields(l)); ok {
				verifWireHTTPCase(w, srv, keeper, c)
			}
		}
		return
	}
	// requests in flight at the same time through one Client (2..3 sender threads), every level
	ng := gen.EnvInt("VERIF_WH_GROUPS", 22)
	gbase := gen.New(gen.Seed() ^ 0xC13AA)
	for g := 0; g < ng; g++ {
		r := gbase.Sub(uint64(g))
		level := []int{0, -1, 1, 2, 3, 4, 5, 6, 7, 8, 9}[g%11]
		var cs []whCase
		for i := 0; i < 2+r.Intn(2); i++ {
			c := whGen(r)
			c.level = level
			for _, f := range c.files {
				f.name = fmt.Sprintf("m%d/", i) + f.name
			}
			cs = append(cs, c)
		}
		verifWireHTTPGroup(w, srv, keeper, cs)
	}
	n := gen.EnvInt("VERIF_N", 150)
	base := gen.New(gen.Seed() ^ 0xC13F)
	for i := 0; i < n; i++ {
		r := base.Sub(uint64(i))
		c := whGen(r)
		verifWireHTTPCase(w, srv, keeper, c)
		// truncated: a few cut points of the body as it travels
		bin := whBin(c)
		meta, _ := bin.EncodeHeader()
		total := len(meta)
		for _, f := range c.files {
			total += int(f.end - f.beg)
		}
		for k := 0; k < 3; k++ {
			cc := c
			cc.sep = []int{47, 92}[r.Intn(2)]
			if c.level == 0 {
				cc.cut = []int{r.Intn(len(meta)), len(meta), len(meta) + r.Intn(total-len(meta)), total - 1}[r.Intn(4)]
			} else {
				cc.cut = r.Intn(total/2 + 20)
			}
			verifWireHTTPCase(w, srv, keeper, cc)
		}
	}
}
