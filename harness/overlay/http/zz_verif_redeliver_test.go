package http

// Driver for "a version that was delivered is not delivered again" (C05) ACROSS the layers: the REAL
// Client.Transmit / RecoverTransmission -> REAL Server.handleValidate + routeData / routeDataRecovery with
// the REAL payload.NewDecoder -> REAL stage.Stage with the REAL log.FileIO, in several time zones.
//
// A file whose (sender-side) time is `days` days ago at `tod` o'clock LOCAL time is delivered; its receive
// log record is then moved to ten minutes after that file time (it was delivered that evening), the
// receiver restarts (a new Stage: it knows the delivery from its log only, and only when it reads the log
// back to that day), and the same version is retransmitted - announced by a data-recovery request
// (variant 0) or sent whole (variant 1).
//
// line: RD zone_seconds tod_hours days variant = first_status second_answer nrecords nfinal staged_left
//   second_answer: variant 0: parts the receiver says it holds (must be 1); variant 1: http status (200)
//   variant 2 (no restart): the delivered file again in front of a NEW file in one request; nfinal = the new
//   file arrived intact (C13: a part never gets a byte of its neighbour)

import (
	"crypto/md5"
	"fmt"
	"net/http/httptest"
	nethttp "net/http"
	"net/url"
	"os"
	"path/filepath"
	"strconv"
	"strings"
	"testing"
	"time"

	"github.com/arm-doe/sts"
	"github.com/arm-doe/sts/log"
	"github.com/arm-doe/sts/mock"
	"github.com/arm-doe/sts/payload"
	"github.com/arm-doe/sts/stage"
	"github.com/arm-doe/sts/zzverif/gen"
)

func vrdCountRecords(logDir, name, hash string) int {
	n := 0
	filepath.Walk(logDir, func(p string, info os.FileInfo, err error) error {
		if err == nil && !info.IsDir() {
			b, _ := os.ReadFile(p)
			for _, l := range strings.Split(string(b), "\n") {
				if strings.HasPrefix(l, name+":") && strings.Contains(l, ":"+hash+":") {
					n++
				}
			}
		}
		return nil
	})
	return n
}

// vrdMoveRecords: every record of the log gets the time stamp `at` and stands in the day file of that
// (local) date
func vrdMoveRecords(logDir string, at time.Time) {
	var lines []string
	var files []string
	filepath.Walk(logDir, func(p string, info os.FileInfo, err error) error {
		if err == nil && !info.IsDir() {
			files = append(files, p)
			b, _ := os.ReadFile(p)
			for _, l := range strings.Split(string(b), "\n") {
				f := strings.Split(l, ":")
				if len(f) < 5 {
					continue
				}
				f[len(f)-2] = fmt.Sprint(at.Unix())
				lines = append(lines, strings.Join(f, ":"))
			}
		}
		return nil
	})
	for _, p := range files {
		os.Remove(p)
	}
	lt := at.In(time.Local)
	p := filepath.Join(logDir, fmt.Sprintf("%04d%02d", lt.Year(), lt.Month()), fmt.Sprintf("%02d", lt.Day()))
	os.MkdirAll(filepath.Dir(p), 0o755)
	os.WriteFile(p, []byte(strings.Join(lines, "\n")+"\n"), 0o644)
}

func verifRedeliverCase(w interface{ WriteString(string) (int, error) }, tmp string, id int, zone, tod, days, variant int) {
	savedLocal := time.Local
	defer func() { time.Local = savedLocal }()
	time.Local = time.FixedZone(fmt.Sprintf("verif%+d", zone/3600), zone)
	root := filepath.Join(tmp, fmt.Sprintf("rd%d", id))
	os.RemoveAll(root)
	defer os.RemoveAll(root)
	stageDir, finalDir, logDir := filepath.Join(root, "stage"), filepath.Join(root, "final"), filepath.Join(root, "log")
	for _, d := range []string{stageDir, finalDir, logDir} {
		os.MkdirAll(d, 0o755)
	}
	now := time.Now().In(time.Local)
	fileTime := time.Date(now.Year(), now.Month(), now.Day(), tod, 0, 0, 0, time.Local).AddDate(0, 0, -days)
	if !fileTime.Before(now.Add(-2 * time.Hour)) {
		fileTime = fileTime.AddDate(0, 0, -1)
	}
	f := &whFile{name: "dir/again.dat", seed: 17 + id, size: 300, beg: 0, end: 300, sec: fileTime.Unix()}
	content := make([]byte, f.size)
	for i := range content {
		content[i] = whByte(f.seed, int64(i))
	}
	f.hash = fmt.Sprintf("%x", md5.Sum(content))
	c := whCase{level: 0, sep: 47, cut: -1, files: []*whFile{f}}

	logger := log.NewFileIO(logDir, nil, nil, true)
	st1 := stage.New("src", stageDir, finalDir, logger, nil, nil)
	s := &Server{GateKeepers: map[string]sts.GateKeeper{"src": st1}, DecoderFactory: payload.NewDecoder,
		IsValid: func(source, key string) bool { return source == "src" }}
	mux := nethttp.NewServeMux()
	mux.Handle("/data", s.handleValidate(nethttp.HandlerFunc(s.routeData)))
	mux.Handle("/data-recovery", s.handleValidate(nethttp.HandlerFunc(s.routeDataRecovery)))
	srv := httptest.NewServer(mux)
	defer srv.Close()
	u, _ := url.Parse(srv.URL)
	port, _ := strconv.Atoi(u.Port())
	cl := &Client{SourceName: "src", TargetHost: u.Hostname(), TargetPort: port, Compression: 0, Timeout: 10 * time.Second, Protocol: ProtocolHTTP1}
	defer cl.Destroy()
	status := func(err error) int {
		switch {
		case err == nil:
			return 200
		case strings.Contains(err.Error(), "successful part"):
			return 206
		case strings.Contains(err.Error(), "response code:"):
			v := -1
			fmt.Sscanf(err.Error()[strings.Index(err.Error(), "response code:")+len("response code:"):], "%d", &v)
			return v
		}
		return -1
	}
	// 1. the delivery
	_, err := cl.Transmit(whBin(c))
	first := status(err)
	final := filepath.Join(finalDir, f.name)
	for i := 0; i < 400; i++ {
		if _, err := os.Stat(final); err == nil && vrdCountRecords(logDir, f.name, f.hash) > 0 {
			break
		}
		time.Sleep(5 * time.Millisecond)
	}
	if variant == 2 {
		// the same version again IN FRONT OF a new file, in one request: the new file must arrive intact
		// (variant 2; no restart: the receiver knows the first file from its memory)
		g := &whFile{name: "dir/fresh.dat", seed: 91 + id, size: 200, beg: 0, end: 200, sec: fileTime.Unix()}
		gc := make([]byte, g.size)
		for i := range gc {
			gc[i] = whByte(g.seed, int64(i))
		}
		g.hash = fmt.Sprintf("%x", md5.Sum(gc))
		f2 := *f
		c2 := whCase{level: []int{0, 6}[id%2], sep: 47, cut: -1, files: []*whFile{&f2, g}}
		cl2 := &Client{SourceName: "src", TargetHost: u.Hostname(), TargetPort: port, Compression: c2.level, Timeout: 10 * time.Second, Protocol: ProtocolHTTP1}
		_, err := cl2.Transmit(whBin(c2))
		cl2.Destroy()
		second := status(err)
		gfinal := 0
		for i := 0; i < 100; i++ {
			if b, err := os.ReadFile(filepath.Join(finalDir, g.name)); err == nil && fmt.Sprintf("%x", md5.Sum(b)) == g.hash {
				gfinal = 1
				break
			}
			time.Sleep(5 * time.Millisecond)
		}
		w.WriteString(fmt.Sprintf("RD %d %d %d %d = %d %d %d %d %d\n", zone, tod, days, variant, first, second,
			vrdCountRecords(logDir, f.name, f.hash), gfinal, 0))
		st1.Stop(true)
		return
	}
	st1.Stop(true)
	// 2. it happened ten minutes after the file was written, `days` days ago
	vrdMoveRecords(logDir, fileTime.Add(10*time.Minute))
	// 3. the receiver restarts
	logger2 := log.NewFileIO(logDir, nil, nil, true)
	st2 := stage.New("src", stageDir, finalDir, logger2, nil, nil)
	st2.Recover()
	s.lock.Lock()
	s.GateKeepers["src"] = st2
	s.lock.Unlock()
	// 4. the same version again
	second := -1
	if variant == 0 {
		n, err := cl.RecoverTransmission(whBin(c))
		if err == nil {
			second = n
		}
	} else {
		_, err := cl.Transmit(whBin(c))
		second = status(err)
		time.Sleep(300 * time.Millisecond)
	}
	staged := 0
	filepath.Walk(stageDir, func(p string, info os.FileInfo, err error) error {
		if err == nil && !info.IsDir() {
			staged++
		}
		return nil
	})
	nfinal := 0
	if b, err := os.ReadFile(final); err == nil && fmt.Sprintf("%x", md5.Sum(b)) == f.hash {
		nfinal = 1
	}
	w.WriteString(fmt.Sprintf("RD %d %d %d %d = %d %d %d %d %d\n", zone, tod, days, variant, first, second,
		vrdCountRecords(logDir, f.name, f.hash), nfinal, staged))
	st2.Stop(true)
}

func TestVerifRedeliver(t *testing.T) {
	w, done, ok := gen.Out()
	if !ok {
		t.Skip("VERIF_OUT not set")
	}
	defer done()
	log.InitExternal(&mock.Logger{DebugMode: false})
	tmp := os.Getenv("VERIF_TMP")
	if tmp == "" {
		tmp = t.TempDir()
	}
	id := 0
	for _, zone := range []int{0, -8 * 3600, -3 * 3600, 9 * 3600, 13 * 3600, -11 * 3600} {
		for _, tod := range []int{21, 3, 12} {
			for _, days := range []int{3, 1} {
				for variant := 0; variant < 3; variant++ {
					if variant == 2 && zone != 0 {
						continue
					}
					id++
					verifRedeliverCase(w, tmp, id, zone, tod, days, variant)
				}
			}
		}
	}
}
