package stage

// Driver for Stage.Prune (C20: "removes only directories that are empty and old
// enough"): the REAL Prune on generated directory trees under the stage root and
// the final directory - nested directories of mixed ages, files, directories that
// become empty only because their old empty subdirectories go.
//
// line: P nnodes {path isdir old}*  =  nleft {path}*
//   path: segments joined by '/', hex; "-" is the root itself (always listed first)

import (
	"fmt"
	"os"
	"path/filepath"
	"sort"
	"strings"
	"testing"
	"time"

	"github.com/arm-doe/sts/log"
	"github.com/arm-doe/sts/mock"
	"github.com/arm-doe/sts/zzverif/gen"
)

type vpNode struct {
	path  string
	isDir bool
	old   bool
}

func verifPruneCase(w interface{ WriteString(string) (int, error) }, tmp string, id int, nodes []vpNode, rootOld bool, useFinal bool) {
	base := filepath.Join(tmp, fmt.Sprintf("prune%d", id))
	os.RemoveAll(base)
	defer os.RemoveAll(base)
	stageDir, finalDir, logDir := filepath.Join(base, "stage"), filepath.Join(base, "final"), filepath.Join(base, "log")
	os.MkdirAll(stageDir, 0o755)
	os.MkdirAll(finalDir, 0o755)
	root := stageDir
	if useFinal {
		root = finalDir
	}
	for _, n := range nodes {
		p := filepath.Join(root, n.path)
		if n.isDir {
			os.MkdirAll(p, 0o755)
		} else {
			os.MkdirAll(filepath.Dir(p), 0o755)
			os.WriteFile(p, []byte("x"), 0o644)
		}
	}
	// ages are set after everything exists (creating an entry touches its parent): deepest first
	sorted := append([]vpNode{}, nodes...)
	sort.Slice(sorted, func(i, j int) bool { return strings.Count(sorted[i].path, "/") > strings.Count(sorted[j].path, "/") })
	oldT := time.Now().Add(-3 * time.Hour)
	youngT := time.Now().Add(-2 * time.Minute)
	for _, n := range sorted {
		t := youngT
		if n.old {
			t = oldT
		}
		os.Chtimes(filepath.Join(root, n.path), t, t)
	}
	if rootOld {
		os.Chtimes(root, oldT, oldT)
	} else {
		os.Chtimes(root, youngT, youngT)
	}
	st := New("src", stageDir, finalDir, log.NewFileIO(logDir, nil, nil, false), nil, nil)
	defer st.Stop(true)
	b := func(x bool) int {
		if x {
			return 1
		}
		return 0
	}
	var sb strings.Builder
	fmt.Fprintf(&sb, "P %d - 1 %d", len(nodes)+1, b(rootOld))
	for _, n := range nodes {
		fmt.Fprintf(&sb, " %s %d %d", gen.Hex(n.path), b(n.isDir), b(n.old))
	}
	st.Prune(time.Hour)
	var left []string
	if _, err := os.Stat(root); err == nil {
		left = append(left, "-")
		filepath.Walk(root, func(p string, info os.FileInfo, err error) error {
			if err == nil && p != root {
				rel, _ := filepath.Rel(root, p)
				left = append(left, gen.Hex(rel))
			}
			return nil
		})
	}
	sort.Strings(left)
	fmt.Fprintf(&sb, " = %d %s\n", len(left), strings.Join(left, " "))
	w.WriteString(sb.String())
}

func TestVerifPrune(t *testing.T) {
	w, done, ok := gen.Out()
	if !ok {
		t.Skip("VERIF_OUT not set")
	}
	defer done()
	log.InitExternal(&mock.Logger{DebugMode: false})
	tmp := os.Getenv("VERIF_TMP")
	if tmp == "" {
		tmp = t.TempDir()
	}
	// directed: a young directory whose only entries are old empty directories; an old chain that
	// collapses; a file at the bottom of an old chain
	directed := [][]vpNode{
		{{"2024", true, false}, {"2024/01", true, true}},
		{{"a", true, true}, {"a/b", true, true}, {"a/b/c", true, true}},
		{{"a", true, true}, {"a/b", true, true}, {"a/b/f.dat", false, true}},
		{{"a", true, true}, {"a/b", true, false}, {"a/c", true, true}},
		{{"a", true, false}, {"a/b", true, true}, {"a/b/c", true, false}},
	}
	id := 0
	for _, d := range directed {
		for _, fin := range []bool{false, true} {
			id++
			verifPruneCase(w, tmp, id, d, false, fin)
		}
	}
	n := gen.EnvInt("VERIF_N", 300)
	base := gen.New(gen.Seed() ^ 0x9121E)
	segs := []string{"a", "b", "c", "d.e", "x y", "2024"}
	for i := 0; i < n; i++ {
		r := base.Sub(uint64(i))
		have := map[string]bool{}
		var nodes []vpNode
		var dirs []string
		add := func(p string, isDir, old bool) {
			if have[p] {
				return
			}
			have[p] = true
			nodes = append(nodes, vpNode{p, isDir, old})
			if isDir {
				dirs = append(dirs, p)
			}
		}
		for k := 0; k < 1+r.Intn(9); k++ {
			parent := ""
			if len(dirs) > 0 && r.Chance(2, 3) {
				parent = dirs[r.Intn(len(dirs))]
			}
			p := segs[r.Intn(len(segs))]
			if parent != "" {
				p = parent + "/" + p
			}
			if strings.Count(p, "/") > 4 {
				continue
			}
			add(p, r.Chance(4, 5), r.Chance(2, 3))
		}
		id++
		verifPruneCase(w, tmp, id, nodes, r.Chance(1, 6), r.Chance(1, 2))
	}
}
