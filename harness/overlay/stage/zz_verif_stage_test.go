package stage

// Kind-B driver for the receiver (C01 C04 C05 C06 C20 ...). Injected with
// -overlay. Every case runs an operation sequence against a REAL Stage on a
// temp directory with the REAL log.FileIO, waits for quiescence where the
// code works asynchronously, and records return values and directory / log
// snapshots.
//
// line: S NOW nops {op}*nops = {out}*nops
//   ops:  PR name size | RC name renamed prev size hash beg end time datahex rerr
//         ST | RQ k {name renamed prev hash beg end time}*k | SQ name sentoff
//         SC | CL | RS | AG name | TM name ext datahex | TF | AA seconds | CC
//   outs: PR,AG,TM,AA: "-" ; CC: ncache {name state}* ; RC: 0|1 ; RQ: n ; SQ: code ; SC: ncmp {cmp}* ;
//         ST,CL,RS,TF: snapshot = nstage {name ext size md5}* ncmp {cmp}* nfinal {name size md5}* nlog {name renamed hash size}*
//   cmp = name renamed prev size hash nparts {b e}*

import (
	"bufio"
	"bytes"
	"crypto/md5"
	"errors"
	"fmt"
	"io"
	"os"
	"path/filepath"
	"sort"
	"strings"
	"sync"
	"testing"
	"time"

	"github.com/arm-doe/sts"
	"github.com/arm-doe/sts/log"
	"github.com/arm-doe/sts/marshal"
	"github.com/arm-doe/sts/mock"
	"github.com/arm-doe/sts/zzverif/gen"
)

type vsPart struct {
	name, renamed, prev, hash string
	size, beg, end, time      int64
}

func (p *vsPart) GetName() string          { return p.name }
func (p *vsPart) GetRenamed() string       { return p.renamed }
func (p *vsPart) GetPrev() string          { return p.prev }
func (p *vsPart) GetFileTime() time.Time   { return time.Unix(p.time, 0) }
func (p *vsPart) GetFileHash() string      { return p.hash }
func (p *vsPart) GetFileSize() int64       { return p.size }
func (p *vsPart) GetSendSize() int64       { return p.size }
func (p *vsPart) GetSlice() (int64, int64) { return p.beg, p.end }

type vsOp struct {
	kind  string
	part  vsPart
	data  []byte
	rerr  bool
	parts []vsPart
	name  string
	num   int64
}

type errReader struct {
	r   io.Reader
	err error
}

func (e *errReader) Read(p []byte) (int, error) {
	n, err := e.r.Read(p)
	if err == io.EOF {
		return n, e.err
	}
	return n, err
}

func vsHex(b []byte) string {
	if len(b) == 0 {
		return "-"
	}
	return fmt.Sprintf("%x", b)
}

func vsMD5(b []byte) string { return fmt.Sprintf("%x", md5.Sum(b)) }

type vsEnv struct {
	heldReal                         chan *finalFile // the validators' real input while validation is held back (op VH)
	root, stageDir, finalDir, logDir string
	st                               *Stage
	logger                           *log.FileIO
}

func (e *vsEnv) newStage() {
	e.logger = log.NewFileIO(e.logDir, nil, nil, false)
	e.st = New("src", e.stageDir, e.finalDir, e.logger, nil, nil)
}

// settle waits until the stage shows no activity: both channels empty and an
// unchanged signature of cache states / wait lists / directories for a while
// vsOldestCmp: how far back the companions below dir reach (unix seconds; 0: there is none): the oldest
// modification time of a companion file, or the oldest (sender-side) time of a file a companion stands
// for - never in the future, at most a month back - whichever is earlier. Recover reads the receive log
// back to a day before that.
func vsOldestCmp(dir string) int64 {
	var oldest int64
	now := time.Now()
	filepath.Walk(dir, func(p string, info os.FileInfo, err error) error {
		if err == nil && !info.IsDir() && strings.HasSuffix(p, compExt) {
			if t := info.ModTime().Unix(); oldest == 0 || t < oldest {
				oldest = t
			}
			if c, err := readLocalCompanion(strings.TrimSuffix(p, compExt), ""); err == nil && c != nil && !c.Time.IsZero() {
				ft := c.Time.Time
				if ft.After(now) {
					ft = now
				}
				if m := now.Add(-30 * 24 * time.Hour); ft.Before(m) {
					ft = m
				}
				if ft.Unix() < oldest {
					oldest = ft.Unix()
				}
			}
		}
		return nil
	})
	return oldest
}

func (e *vsEnv) settle() {
	s := e.st
	last := ""
	stable := 0
	for i := 0; i < 4000; i++ {
		time.Sleep(1500 * time.Microsecond)
		if len(s.validateCh) > 0 || len(s.finalizeCh) > 0 {
			stable = 0
			continue
		}
		var sb strings.Builder
		s.cacheLock.RLock()
		keys := make([]string, 0, len(s.cache))
		for k := range s.cache {
			keys = append(keys, k)
		}
		sort.Strings(keys)
		for _, k := range keys {
			fmt.Fprintf(&sb, "%s=%d;", k, s.cache[k].state)
		}
		fmt.Fprintf(&sb, "|%d|", s.nPipe)
		s.cacheLock.RUnlock()
		s.waitLock.RLock()
		wk := make([]string, 0, len(s.wait))
		for k, v := range s.wait {
			wk = append(wk, fmt.Sprintf("%s:%d", k, len(v)))
		}
		sort.Strings(wk)
		sb.WriteString(strings.Join(wk, ","))
		s.waitLock.RUnlock()
		sb.WriteString(e.listing(false))
		sig := sb.String()
		if sig == last {
			stable++
		} else {
			stable = 0
			last = sig
		}
		if stable >= 6 {
			return
		}
	}
}

func (e *vsEnv) listing(withHash bool) string {
	var out []string
	filepath.Walk(e.stageDir, func(p string, info os.FileInfo, err error) error {
		if err != nil || info.IsDir() {
			return nil
		}
		rel, _ := filepath.Rel(e.stageDir, p)
		ext := filepath.Ext(rel)
		if ext == compExt || ext == ".lck" {
			// companions are listed separately; a <name>.cmp.lck left by a crash inside
			// WriteJSON is inert (overwritten by the next companion write)
			return nil
		}
		if withHash {
			b, _ := os.ReadFile(p)
			out = append(out, fmt.Sprintf("%s %s %d %s", gen.Hex(strings.TrimSuffix(rel, ext)), strings.TrimPrefix(ext, "."), len(b), vsMD5(b)))
		} else {
			out = append(out, fmt.Sprintf("%s:%d", rel, info.Size()))
		}
		return nil
	})
	sort.Strings(out)
	if withHash {
		return fmt.Sprintf("%d %s", len(out), strings.Join(out, " "))
	}
	return strings.Join(out, ",")
}

func vsCmpString(c *sts.Partial) string {
	var sb strings.Builder
	fmt.Fprintf(&sb, "%s %s %s %d %s %d", gen.Hex(c.Name), gen.Hex(c.Renamed), gen.Hex(c.Prev), c.Size, gen.Hex(c.Hash), len(c.Parts))
	for _, p := range c.Parts {
		fmt.Fprintf(&sb, " %d %d", p.Beg, p.End)
	}
	return sb.String()
}

func (e *vsEnv) companions() string {
	var out []string
	filepath.Walk(e.stageDir, func(p string, info os.FileInfo, err error) error {
		if err != nil || info.IsDir() || filepath.Ext(p) != compExt {
			return nil
		}
		rel, _ := filepath.Rel(e.stageDir, p)
		c, err := readLocalCompanion(p, strings.TrimSuffix(rel, compExt))
		if err != nil || c == nil {
			out = append(out, fmt.Sprintf("%s - - -1 - 0", gen.Hex(strings.TrimSuffix(rel, compExt))))
			return nil
		}
		out = append(out, vsCmpString(c))
		return nil
	})
	sort.Strings(out)
	return fmt.Sprintf("%d %s", len(out), strings.Join(out, " "))
}

func (e *vsEnv) snapshot() string {
	var fin []string
	filepath.Walk(e.finalDir, func(p string, info os.FileInfo, err error) error {
		if err != nil || info.IsDir() {
			return nil
		}
		rel, _ := filepath.Rel(e.finalDir, p)
		b, _ := os.ReadFile(p)
		fin = append(fin, fmt.Sprintf("%s %d %s", gen.Hex(rel), len(b), vsMD5(b)))
		return nil
	})
	sort.Strings(fin)
	var recs []string
	e.logger.Parse(func(name, renamed, hash string, size int64, t time.Time) bool {
		recs = append(recs, fmt.Sprintf("%s %s %s %d", gen.Hex(name), gen.Hex(renamed), gen.Hex(hash), size))
		return false
	}, time.Now().Add(-240*time.Hour), time.Now().Add(time.Hour))
	return fmt.Sprintf("%s %s %d %s %d %s", e.listing(true), e.companions(), len(fin), strings.Join(fin, " "), len(recs), strings.Join(recs, " "))
}

func verifStageCase(tmp string, caseNo int, ops []vsOp) string {
	var w strings.Builder
	root := filepath.Join(tmp, fmt.Sprintf("st%d", caseNo))
	os.RemoveAll(root)
	defer os.RemoveAll(root)
	e := &vsEnv{root: root, stageDir: filepath.Join(root, "stage"), finalDir: filepath.Join(root, "final"), logDir: filepath.Join(root, "log")}
	os.MkdirAll(e.stageDir, 0o755)
	os.MkdirAll(e.finalDir, 0o755)
	now := time.Now().Unix()
	fmt.Fprintf(&w, "S %d %d", now, len(ops))
	for _, op := range ops {
		switch op.kind {
		case "PR":
			fmt.Fprintf(&w, " PR %s %d", gen.Hex(op.part.name), op.part.size)
		case "RC":
			p := op.part
			r := 0
			if op.rerr {
				r = 1
			}
			fmt.Fprintf(&w, " RC %s %s %s %d %s %d %d %d %s %d", gen.Hex(p.name), gen.Hex(p.renamed), gen.Hex(p.prev), p.size, gen.Hex(p.hash), p.beg, p.end, p.time, vsHex(op.data), r)
		case "RQ":
			fmt.Fprintf(&w, " RQ %d", len(op.parts))
			for _, p := range op.parts {
				fmt.Fprintf(&w, " %s %s %s %s %d %d %d", gen.Hex(p.name), gen.Hex(p.renamed), gen.Hex(p.prev), gen.Hex(p.hash), p.beg, p.end, p.time)
			}
		case "VH", "VR":
			w.WriteString(" " + op.kind)
		case "SQ":
			fmt.Fprintf(&w, " SQ %s %d", gen.Hex(op.name), op.num)
		case "SV":
			fmt.Fprintf(&w, " SV %s %d %s", gen.Hex(op.name), op.num, gen.Hex(op.part.hash))
		case "AG":
			fmt.Fprintf(&w, " AG %s", gen.Hex(op.name))
		case "AA":
			fmt.Fprintf(&w, " AA %d", op.num)
		case "TM":
			fmt.Fprintf(&w, " TM %s %d %s", gen.Hex(op.name), op.num, vsHex(op.data))
		default:
			fmt.Fprintf(&w, " %s", op.kind)
		}
	}
	w.WriteString(" =")
	e.newStage()
	exts := []string{partExt, fullExt, waitExt}
	for _, op := range ops {
		switch op.kind {
		case "PR":
			p := op.part
			e.st.Prepare([]sts.Binned{&p})
			w.WriteString(" -")
		case "RC":
			p := op.part
			file := &sts.Partial{
				Name: p.name, Renamed: p.renamed, Prev: p.prev, Size: p.size,
				Time: marshal.NanoTime{Time: time.Unix(p.time, 0)}, Hash: p.hash, Source: "src",
				Parts: []*sts.ByteRange{{Beg: p.beg, End: p.end}},
			}
			var rd io.Reader = bytes.NewReader(op.data)
			if op.rerr {
				rd = &errReader{r: rd, err: errors.New("connection cut")}
			}
			objBefore := e.st.fromCache(filepath.Join(e.st.rootDir, p.name))
			queuedBefore := len(e.st.validateCh)
			if err := e.st.Receive(file, rd); err != nil {
				w.WriteString(" 0")
			} else {
				w.WriteString(" 1")
			}
			// asynchronous validation / finalisation is only started when the
			// partial was completed (renamed or removed): let it finish, so that
			// the sequential history is deterministic (interleavings with work
			// in flight are the subject of the concurrent suite)
			if _, err := os.Stat(filepath.Join(e.stageDir, p.name+partExt)); err != nil {
				if e.heldReal != nil {
					// validation is held back: wait only until the file stands in the validators' queue (it is put
					// there by a goroutine of its own; other files may be queued already)
					objAfter := e.st.fromCache(filepath.Join(e.st.rootDir, p.name))
					if objAfter != nil && objAfter != objBefore && objAfter.state == stateReceived {
						for i := 0; i < 4000 && len(e.st.validateCh) <= queuedBefore; i++ {
							time.Sleep(500 * time.Microsecond)
						}
					}
				} else {
					e.settle()
				}
			}
		case "VH":
			// the validators are busy (a backlog): from now on complete files queue up unvalidated
			e.settle()
			e.heldReal = e.st.validateCh
			e.st.validateCh = make(chan *finalFile, 100)
			w.WriteString(" -")
		case "VR":
			// ... and now they get to them
			if e.heldReal != nil {
				held := e.st.validateCh
				e.st.validateCh = e.heldReal
				e.heldReal = nil
				for len(held) > 0 {
					// one validator becomes free: the backlog is worked off in queue order, one file at a time
					f := <-held
					pending := e.st.getFileState(f.path) == stateReceived
					e.st.validateCh <- f
					// (the hash check of this one is over when the name is no longer "received")
					for i := 0; pending && i < 2000 && e.st.getFileState(f.path) == stateReceived; i++ {
						time.Sleep(time.Millisecond)
					}
					if len(held) > 0 {
						e.settle()
					}
				}
			}
			e.settle()
			w.WriteString(" " + e.snapshot())
		case "ST":
			e.settle()
			w.WriteString(" " + e.snapshot())
		case "RQ":
			var bs []sts.Binned
			for i := range op.parts {
				bs = append(bs, &op.parts[i])
			}
			fmt.Fprintf(&w, " %d", e.st.Received(bs))
		case "SQ":
			sent := time.Time{}
			if op.num != 0 {
				sent = time.Unix(now+op.num, 0)
			}
			fmt.Fprintf(&w, " %d", e.st.GetFileStatus(op.name, sent))
		case "SV":
			// the poll as the server makes it when the sender names the hash of the version it sent
			sent := time.Time{}
			if op.num != 0 {
				sent = time.Unix(now+op.num, 0)
			}
			fmt.Fprintf(&w, " %d", e.st.GetVersionStatus(op.name, op.part.hash, sent))
		case "SC":
			b, err := e.st.Scan("1")
			if err != nil {
				w.WriteString(" -1")
				break
			}
			cs, _ := ReadCompanions(bytes.NewReader(b))
			var out []string
			for _, c := range cs {
				out = append(out, vsCmpString(c))
			}
			sort.Strings(out)
			fmt.Fprintf(&w, " %d %s", len(out), strings.Join(out, " "))
		case "CL":
			e.st.CleanNow()
			e.settle()
			w.WriteString(" " + e.snapshot())
		case "RS":
			e.settle()
			e.st.Stop(true)
			if e.st.cleanTimeout != nil {
				e.st.cleanTimeout.Stop()
			}
			e.newStage()
			// (what Recover goes by when it reads the log back: the modification time of the oldest companion)
			oldest := vsOldestCmp(e.stageDir)
			e.st.Recover()
			e.settle()
			w.WriteString(fmt.Sprintf(" %d %s", oldest, e.snapshot()))
		case "TF":
			e.settle()
			e.st.cacheLock.RLock()
			var fire []*finalFile
			for _, f := range e.st.cache {
				fire = append(fire, f)
			}
			e.st.cacheLock.RUnlock()
			// also objects that are only referenced from wait lists
			e.st.waitLock.Lock()
			for _, fs := range e.st.wait {
				fire = append(fire, fs...)
			}
			seen := map[*finalFile]bool{}
			var timed []*finalFile
			for _, f := range fire {
				// only a PENDING timer can fire; stopping it here and calling what it would have called is
				// the firing (the field stays non-nil, as it does when a timer fires by itself)
				if !seen[f] && f.wait != nil {
					seen[f] = true
					if f.wait.Stop() {
						timed = append(timed, f)
					}
				}
			}
			e.st.waitLock.Unlock()
			sort.Slice(timed, func(i, j int) bool { return timed[i].name < timed[j].name })
			for _, f := range timed {
				e.st.finalizeQueue(f)
			}
			e.settle()
			w.WriteString(" " + e.snapshot())
		case "AG":
			// more than a day old, and at a LATER time of day than now (so that a range of days that
			// starts there and ends now does not end on a whole number of days); the companion ages
			// with the partial, as it does when a transfer stalls
			now := time.Now().UTC()
			midnight := time.Date(now.Year(), now.Month(), now.Day(), 0, 0, 0, 0, time.UTC).Add(24 * time.Hour)
			old := now.Add(-48 * time.Hour).Add(midnight.Sub(now) / 2)
			// (which of the two was written last stays as it is: a part cut off mid-stream leaves the partial
			// younger than its companion)
			oldCmp := old
			if pi, err := os.Stat(filepath.Join(e.stageDir, op.name+partExt)); err == nil {
				if ci, err := os.Stat(filepath.Join(e.stageDir, op.name+compExt)); err == nil {
					oldCmp = old.Add(ci.ModTime().Sub(pi.ModTime()))
				}
			}
			os.Chtimes(filepath.Join(e.stageDir, op.name+partExt), old, old)
			os.Chtimes(filepath.Join(e.stageDir, op.name+compExt), oldCmp, oldCmp)
			w.WriteString(" -")
		case "AA":
			// op.num seconds pass (a multiple of a day): everything the receiver remembers or has
			// written moves into the past - the in-memory cache and the receive log on disk
			e.settle()
			vsAgeAll(e, time.Duration(op.num)*time.Second)
			w.WriteString(" -")
		case "CC":
			e.settle()
			e.st.cleanCache()
			if os.Getenv("VERIF_DEBUG") != "" {
				fmt.Fprintln(os.Stderr, "DEBUG cacheTime after cleanCache:", e.st.cacheTime.Unix(), "now", time.Now().Unix())
			}
			e.st.cacheLock.RLock()
			var ents []string
			for _, f := range e.st.cache {
				ents = append(ents, fmt.Sprintf("%s %d", gen.Hex(f.name), f.state))
			}
			e.st.cacheLock.RUnlock()
			sort.Strings(ents)
			fmt.Fprintf(&w, " %d", len(ents))
			for _, x := range ents {
				w.WriteString(" " + x)
			}
		case "TM":
			p := filepath.Join(e.stageDir, op.name+exts[op.num])
			if _, err := os.Stat(p); err == nil {
				info, _ := os.Stat(p)
				os.WriteFile(p, op.data, 0o644)
				os.Chtimes(p, info.ModTime(), info.ModTime())
			}
			w.WriteString(" -")
		}
	}
	e.settle()
	if e.st.cleanTimeout != nil {
		e.st.cleanTimeout.Stop()
	}
	w.WriteString("\n")
	return w.String()
}

// vsAgeAll moves every time the receiver holds d into the past: cache entries, the
// cache start time, the batch times, and the records of the receive log (rewritten
// into the day files of their new dates, in the logger's own format)
func vsAgeAll(e *vsEnv, d time.Duration) {
	s := e.st
	s.cacheLock.Lock()
	for _, f := range s.cache {
		if !f.logged.IsZero() {
			f.logged = f.logged.Add(-d)
		}
		f.time = f.time.Add(-d)
	}
	if !s.cacheTime.IsZero() {
		s.cacheTime = s.cacheTime.Add(-d)
	}
	for i := range s.cacheTimes {
		s.cacheTimes[i] = s.cacheTimes[i].Add(-d)
	}
	s.cacheLock.Unlock()
	vsAgeLogDir(e.logDir, d)
}

// vsAgeLogDir: every record of the receive log below logDir is d older (time stamp and day file)
func vsAgeLogDir(logDir string, d time.Duration) {
	type rec struct {
		line string
		t    time.Time
	}
	var recs []rec
	var files []string
	filepath.Walk(logDir, func(p string, info os.FileInfo, err error) error {
		if err != nil || info.IsDir() {
			return nil
		}
		files = append(files, p)
		b, _ := os.ReadFile(p)
		for _, l := range strings.Split(string(b), "\n") {
			f := strings.Split(l, ":")
			if len(f) < 5 {
				continue
			}
			var ts int64
			fmt.Sscanf(f[len(f)-2], "%d", &ts)
			nt := time.Unix(ts, 0).Add(-d)
			f[len(f)-2] = fmt.Sprint(nt.Unix())
			recs = append(recs, rec{strings.Join(f, ":"), nt})
		}
		return nil
	})
	for _, p := range files {
		os.Remove(p)
	}
	sort.SliceStable(recs, func(i, j int) bool { return recs[i].t.Before(recs[j].t) })
	for _, r := range recs {
		p := filepath.Join(logDir, fmt.Sprintf("%04d%02d", r.t.Year(), r.t.Month()), fmt.Sprintf("%02d", r.t.Day()))
		os.MkdirAll(filepath.Dir(p), 0o755)
		fh, err := os.OpenFile(p, os.O_APPEND|os.O_CREATE|os.O_WRONLY, 0o644)
		if err != nil {
			panic(err)
		}
		fmt.Fprintln(fh, r.line)
		fh.Close()
	}
}

// ---- replay parsing -----------------------------------------------------------
func verifStageParse(l string) []vsOp {
	f := strings.Fields(l)
	i := 3
	num := func() int64 { var v int64; fmt.Sscan(f[i], &v); i++; return v }
	hexs := func() []byte {
		s := f[i]
		i++
		if s == "-" {
			return nil
		}
		var b []byte
		fmt.Sscanf(s, "%x", &b)
		return b
	}
	str := func() string { return string(hexs()) }
	var v int64
	fmt.Sscan(f[2], &v)
	nops := int(v)
	// a replay happens later than the generation of the line: announced file times move along
	var lineNow int64
	fmt.Sscan(f[1], &lineNow)
	delta := time.Now().Unix() - lineNow
	var ops []vsOp
	for k := 0; k < nops; k++ {
		kind := f[i]
		i++
		op := vsOp{kind: kind}
		switch kind {
		case "PR":
			op.part.name = str()
			op.part.size = num()
		case "RC":
			op.part = vsPart{name: str(), renamed: str(), prev: str()}
			op.part.size = num()
			op.part.hash = str()
			op.part.beg, op.part.end, op.part.time = num(), num(), num()
			op.part.time += delta
			op.data = hexs()
			op.rerr = num() == 1
		case "RQ":
			n := int(num())
			for j := 0; j < n; j++ {
				p := vsPart{name: str(), renamed: str(), prev: str(), hash: str()}
				p.beg, p.end, p.time = num(), num(), num()
				p.time += delta
				op.parts = append(op.parts, p)
			}
		case "SQ":
			op.name = str()
			op.num = num()
		case "SV":
			op.name = str()
			op.num = num()
			op.part.hash = str()
		case "AG":
			op.name = str()
		case "AA":
			op.num = num()
		case "TM":
			op.name = str()
			op.num = num()
			op.data = hexs()
		}
		ops = append(ops, op)
	}
	return ops
}

// ---- generator ------------------------------------------------------------------
type vsFile struct {
	name, renamed, prev string
	content             []byte
	hash                string
	time                int64
}

// directed scenarios: the state of a predecessor A when its successor B is
// validated (C04), and stale partials of files in every state when the cleaner
// runs, followed by a restart (C20)
func verifStageMatrix(r *gen.Rand) []vsOp {
	now := time.Now().Unix()
	mk := func(name, prev string, size int) vsFile {
		c := make([]byte, size)
		for j := range c {
			c[j] = byte(1 + r.Intn(250))
		}
		return vsFile{name: name, prev: prev, content: c, hash: vsMD5(c), time: now - int64(r.Intn(3000))}
	}
	names := [][3]string{{"g.1", "g.2", "g.3"}, {"a", "ab", "abc"}, {"d/a", "d/b", "d/e/c"}, {"x", "a/x", "x.x"}}[r.Intn(4)]
	A := mk(names[0], "", 2+r.Intn(8))
	B := mk(names[1], names[0], 2+r.Intn(8))
	C := mk(names[2], names[1], 2+r.Intn(8))
	if r.Chance(1, 3) {
		C.prev = A.name // two successors of one predecessor
	}
	var ops []vsOp
	ops = append(ops, vsOp{kind: "SQ", name: "warm/up", num: -3600})
	part := func(f vsFile, b, e int) vsPart {
		return vsPart{name: f.name, renamed: f.renamed, prev: f.prev, hash: f.hash, size: int64(len(f.content)), beg: int64(b), end: int64(e), time: f.time}
	}
	send := func(f vsFile, b, e int, corrupt bool) {
		d := append([]byte{}, f.content[b:e]...)
		if corrupt {
			d[0] ^= 0x5a
		}
		ops = append(ops, vsOp{kind: "PR", part: vsPart{name: f.name, size: int64(len(f.content))}})
		ops = append(ops, vsOp{kind: "RC", part: part(f, b, e), data: d})
	}
	whole := func(f vsFile, corrupt bool) {
		h := len(f.content) / 2
		if h > 0 && r.Chance(1, 2) {
			if r.Chance(1, 2) {
				send(f, h, len(f.content), false)
				send(f, 0, h, corrupt)
			} else {
				send(f, 0, h, corrupt)
				send(f, h, len(f.content), false)
			}
		} else {
			send(f, 0, len(f.content), corrupt)
		}
	}
	poll := func(fs ...vsFile) {
		for _, f := range fs {
			ops = append(ops, vsOp{kind: "SQ", name: f.name, num: -3600})
		}
	}
	cond := r.Intn(8)
	switch cond {
	case 0: // A never announced
	case 1: // A prepared only
		ops = append(ops, vsOp{kind: "PR", part: vsPart{name: A.name, size: int64(len(A.content))}})
	case 2: // A partly received
		send(A, 0, 1, false)
	case 3: // A complete but corrupted: fails validation
		whole(A, true)
	case 4: // A valid but itself held for a missing predecessor
		A.prev = "zz/missing"
		whole(A, false)
	case 5: // A delivered
		whole(A, false)
	case 6: // A delivered in an earlier run (known from the log only)
		whole(A, false)
		ops = append(ops, vsOp{kind: "ST"}, vsOp{kind: "RS"})
	case 7: // A failed, then the receiver restarted
		whole(A, true)
		ops = append(ops, vsOp{kind: "ST"}, vsOp{kind: "RS"})
	}
	ops = append(ops, vsOp{kind: "ST"})
	whole(B, false)
	ops = append(ops, vsOp{kind: "ST"})
	poll(A, B)
	if r.Chance(1, 2) {
		whole(C, false)
		ops = append(ops, vsOp{kind: "ST"})
		poll(C)
	}
	// stale late duplicate of the held / delivered B, cleaning, restart
	if r.Chance(1, 2) {
		send(B, 0, 1, false)
		ops = append(ops, vsOp{kind: "AG", name: B.name}, vsOp{kind: "CL"})
		if r.Chance(1, 2) {
			ops = append(ops, vsOp{kind: "RS"})
		}
		poll(A, B)
	} else if r.Chance(1, 3) {
		ops = append(ops, vsOp{kind: "CL"})
	}
	if r.Chance(1, 4) {
		ops = append(ops, vsOp{kind: "RS"})
	}
	// now A is (re)sent properly
	if cond != 5 && cond != 6 {
		if cond == 4 {
			A.prev = "zz/missing"
		}
		whole(A, false)
	}
	ops = append(ops, vsOp{kind: "ST"})
	poll(A, B, C)
	if cond == 4 && r.Chance(1, 2) {
		ops = append(ops, vsOp{kind: "CL"})
	}
	ops = append(ops, vsOp{kind: "SC"}, vsOp{kind: "ST"})
	return ops
}

// more directed scenarios: (a) the cleaner runs between Prepare and the first
// part of a NEW version of a name that was delivered before (C20); (b) a complete
// duplicate of a file that is validated and held for its predecessor arrives,
// then the receiver restarts, then the predecessor arrives (C06, C05)
// kind < 0: one of the scenarios at random; otherwise the scenario with that number (0 g, 1 f, 2 e, 3 d,
// 4 c, 5 a, 6 b, 7 h, 8 i, 9 j, 10 k, 11 l, 12 m, 13 n), variant selecting among its main alternatives - the first lines of every run go through
// all of them systematically
func verifStageMatrix2(r *gen.Rand, kind, variant int) []vsOp {
	sel := func(k, num, den int) bool {
		if kind >= 0 {
			return kind == k
		}
		return r.Chance(num, den)
	}
	pickN := func(n int) int {
		if kind >= 0 {
			return variant % n
		}
		return r.Intn(n)
	}
	now := time.Now().Unix()
	mk := func(name, prev string, size int) vsFile {
		c := make([]byte, size)
		for j := range c {
			c[j] = byte(1 + r.Intn(250))
		}
		return vsFile{name: name, prev: prev, content: c, hash: vsMD5(c), time: now - int64(r.Intn(3000))}
	}
	var ops []vsOp
	ops = append(ops, vsOp{kind: "SQ", name: "warm/up", num: -3600})
	part := func(f vsFile, b, e int) vsPart {
		return vsPart{name: f.name, renamed: f.renamed, prev: f.prev, hash: f.hash, size: int64(len(f.content)), beg: int64(b), end: int64(e), time: f.time}
	}
	prep := func(f vsFile) {
		ops = append(ops, vsOp{kind: "PR", part: vsPart{name: f.name, size: int64(len(f.content))}})
	}
	recv := func(f vsFile, b, e int) {
		ops = append(ops, vsOp{kind: "RC", part: part(f, b, e), data: append([]byte{}, f.content[b:e]...)})
	}
	whole := func(f vsFile) {
		prep(f)
		recv(f, 0, len(f.content))
	}
	names := [][2]string{{"site/data.bin", "site/next.bin"}, {"a", "b"}, {"g.1", "g.2"}, {"d/e/x", "d/y"}}[r.Intn(4)]
	if sel(17, 1, 18) {
		// (r) a file whose (sender-side) time lies more than a month back - archive data sent late - is
		// delivered; days later, after a restart, the same version comes again (variant 1: announced by a
		// data-recovery request first): the receiver reads its log back a month at most, which covers it
		F := mk(names[0], "", 4+r.Intn(8))
		F.time = now - 40*86400 - int64(r.Intn(3000))
		whole(F)
		ops = append(ops, vsOp{kind: "ST"}, vsOp{kind: "AA", num: 259200}, vsOp{kind: "RS"})
		F.time -= 259200
		if pickN(2) == 1 {
			ops = append(ops, vsOp{kind: "RQ", parts: []vsPart{part(F, 0, len(F.content))}})
		}
		whole(F)
		ops = append(ops, vsOp{kind: "ST"}, vsOp{kind: "SQ", name: F.name, num: -3600})
		return ops
	}
	if sel(16, 1, 17) {
		// (q) a NEW version of a name that was delivered before is on its way: one part is received and
		// recorded, the next one is cut off mid-stream (its bytes are in the partial, the companion was not
		// updated: the partial is now younger than its companion); the transfer stalls for more than a day,
		// the cleaner comes by (variant 1: after a restart), then the sender sends the missing part
		V1 := mk(names[0], "", 4+r.Intn(6))
		whole(V1)
		ops = append(ops, vsOp{kind: "ST"})
		V2 := mk(names[0], "", 9+r.Intn(6))
		a, b := len(V2.content)/3, 2*len(V2.content)/3
		prep(V2)
		recv(V2, 0, a)
		ops = append(ops, vsOp{kind: "RC", part: part(V2, a, b), data: append([]byte{}, V2.content[a:a+1]...), rerr: true})
		if pickN(2) == 1 {
			ops = append(ops, vsOp{kind: "RS"})
		}
		ops = append(ops, vsOp{kind: "AG", name: V2.name}, vsOp{kind: "CL"}, vsOp{kind: "SC"})
		prep(V2)
		recv(V2, a, b)
		recv(V2, b, len(V2.content))
		ops = append(ops, vsOp{kind: "ST"}, vsOp{kind: "SV", name: V2.name, num: -3600, part: vsPart{hash: V2.hash}})
		return ops
	}
	if sel(15, 1, 16) {
		// (p) the validators have a backlog; version A of a name arrives completely and waits for its hash
		// check; the source is rewritten and version B of the SAME name arrives completely too (its bytes
		// replace A's in the staged file) before A was looked at; then the validators work the queue off
		A := mk(names[0], "", 4+r.Intn(8))
		B := mk(names[0], "", 4+r.Intn(8))
		if pickN(2) == 1 {
			// same size
			B = mk(names[0], "", len(A.content))
		}
		ops = append(ops, vsOp{kind: "VH"})
		whole(A)
		prep(B)
		hb := len(B.content) / 2
		recv(B, 0, hb)
		recv(B, hb, len(B.content))
		ops = append(ops, vsOp{kind: "VR"}, vsOp{kind: "ST"},
			vsOp{kind: "SV", name: A.name, num: -3600, part: vsPart{hash: A.hash}},
			vsOp{kind: "SV", name: B.name, num: -3600, part: vsPart{hash: B.hash}})
		// told "failed" / "unknown", the sender sends B again
		whole(B)
		ops = append(ops, vsOp{kind: "ST"}, vsOp{kind: "SV", name: B.name, num: -3600, part: vsPart{hash: B.hash}})
		return ops
	}
	if sel(14, 1, 15) {
		// (o) ONE cleaning run meets two partials stalled for more than a day: a late duplicate of a version
		// that is known from the receive log only (rightly removed) and the first half of a file that was
		// never delivered (must stay) - the stray visited first (variant 0) or second (variant 1)
		stray, inflight := "a/delivered.dat", "b/inflight.dat"
		if pickN(2) == 1 {
			stray, inflight = "b/delivered.dat", "a/inflight.dat"
		}
		N1 := mk(stray, "", 4+r.Intn(6))
		whole(N1)
		ops = append(ops, vsOp{kind: "ST"}, vsOp{kind: "AA", num: 259200}, vsOp{kind: "RS"})
		prep(N1)
		recv(N1, 0, len(N1.content)/2)
		F := mk(inflight, "", 4+r.Intn(8))
		h := len(F.content) / 2
		prep(F)
		recv(F, 0, h)
		ops = append(ops, vsOp{kind: "AG", name: N1.name}, vsOp{kind: "AG", name: F.name}, vsOp{kind: "CL"}, vsOp{kind: "SC"})
		recv(F, h, len(F.content))
		ops = append(ops, vsOp{kind: "ST"}, vsOp{kind: "SQ", name: F.name, num: -3600})
		return ops
	}
	if sel(13, 1, 14) {
		// (n) a file is held for its predecessor; a NEW version of it arrives completely but damaged and fails
		// validation (its complete body and companion stay staged, no partial is left); the receiver
		// restarts; the predecessor arrives; the sender, told "failed", sends the new version again
		W := mk(names[0], "", 2+r.Intn(6))
		X1 := mk(names[1], names[0], 4+r.Intn(8))
		X2 := mk(names[1], names[0], 4+r.Intn(8))
		whole(X1)
		ops = append(ops, vsOp{kind: "ST"})
		bad := append([]byte{}, X2.content...)
		bad[len(bad)-1] ^= 0x5a
		h := len(X2.content) / 2
		prep(X2)
		ops = append(ops, vsOp{kind: "RC", part: part(X2, 0, h), data: bad[:h]})
		ops = append(ops, vsOp{kind: "RC", part: part(X2, h, len(X2.content)), data: bad[h:]})
		ops = append(ops, vsOp{kind: "ST"}, vsOp{kind: "RS"}, vsOp{kind: "ST"},
			vsOp{kind: "SV", name: X2.name, num: -3600, part: vsPart{hash: X2.hash}})
		whole(W)
		ops = append(ops, vsOp{kind: "ST"}, vsOp{kind: "SV", name: X2.name, num: -3600, part: vsPart{hash: X2.hash}})
		whole(X2)
		ops = append(ops, vsOp{kind: "ST"}, vsOp{kind: "SQ", name: X2.name, num: -3600})
		return ops
	}
	if sel(12, 1, 13) {
		// (m) the parts of one file announce different predecessors (the sender works it out per chunk): the
		// first names A (delivered), the completing one names B (not there yet): the file is held for B; the
		// receiver restarts; B arrives
		A := mk(names[0], "", 2+r.Intn(6))
		B := mk("q/late", "", 2+r.Intn(6))
		C := mk(names[1], names[0], 4+r.Intn(8))
		whole(A)
		ops = append(ops, vsOp{kind: "ST"})
		h := len(C.content) / 2
		prep(C)
		recv(C, 0, h)
		p2 := part(C, h, len(C.content))
		p2.prev = B.name
		ops = append(ops, vsOp{kind: "RC", part: p2, data: append([]byte{}, C.content[h:]...)}, vsOp{kind: "ST"},
			vsOp{kind: "SQ", name: C.name, num: -3600})
		if pickN(3) != 2 {
			ops = append(ops, vsOp{kind: "RS"}, vsOp{kind: "ST"})
		}
		ops = append(ops, vsOp{kind: "SQ", name: C.name, num: -3600})
		whole(B)
		ops = append(ops, vsOp{kind: "ST"}, vsOp{kind: "SQ", name: C.name, num: -3600})
		return ops
	}
	if sel(11, 1, 12) {
		// (l) version 1 of a name is held for predecessor P; version 2 of it - announced with ANOTHER
		// predecessor Q - arrives and validates (the staged body is version 2's now); P arrives: the
		// stale entry of version 1 is released; then Q arrives
		P := mk(names[0], "", 2+r.Intn(6))
		Q := mk("q/other", "", 2+r.Intn(6))
		V1 := mk(names[1], names[0], 4+r.Intn(8))
		V2 := mk(names[1], "q/other", 4+r.Intn(8))
		whole(V1)
		ops = append(ops, vsOp{kind: "ST"})
		whole(V2)
		ops = append(ops, vsOp{kind: "ST"})
		if pickN(2) == 0 {
			whole(P)
			ops = append(ops, vsOp{kind: "ST"}, vsOp{kind: "SV", name: V2.name, num: -3600, part: vsPart{hash: V2.hash}})
			whole(Q)
		} else {
			whole(Q)
			ops = append(ops, vsOp{kind: "ST"}, vsOp{kind: "SV", name: V2.name, num: -3600, part: vsPart{hash: V2.hash}})
			whole(P)
		}
		ops = append(ops, vsOp{kind: "ST"}, vsOp{kind: "SV", name: V2.name, num: -3600, part: vsPart{hash: V2.hash}})
		return ops
	}
	if sel(10, 1, 11) {
		// (k) a name whose old version is known from the receive log only: the cleaner rightly removes a
		// stalled late duplicate of that old version (a look-up in the log that says yes); then a NEW
		// version of the name stalls for more than a day and the cleaner comes by again
		N1 := mk(names[0], "", 4+r.Intn(6))
		whole(N1)
		ops = append(ops, vsOp{kind: "ST"}, vsOp{kind: "AA", num: 259200}, vsOp{kind: "RS"})
		// (the duplicate carries a recent file time: the receiver does not read its log back to the old
		// record when the part arrives, so the cleaner has to ask the log)
		prep(N1)
		recv(N1, 0, len(N1.content)/2)
		ops = append(ops, vsOp{kind: "AG", name: N1.name}, vsOp{kind: "CL"}, vsOp{kind: "SC"})
		N2 := mk(names[0], "", 4+r.Intn(8))
		h := len(N2.content) / 2
		prep(N2)
		recv(N2, 0, h)
		ops = append(ops, vsOp{kind: "AG", name: N2.name}, vsOp{kind: "CL"}, vsOp{kind: "SC"})
		recv(N2, h, len(N2.content))
		ops = append(ops, vsOp{kind: "ST"}, vsOp{kind: "SQ", name: N2.name, num: -3600})
		return ops
	}
	if sel(9, 1, 10) {
		// (j) a version delivered days ago is retransmitted in two parts, and the receiver restarts between
		// them: the staged partial survives, the in-memory record of the old delivery does not (it is in
		// the receive log); the completing part arrives as a fresh request
		F := mk(names[0], "", 4+r.Intn(10))
		h := len(F.content) / 2
		whole(F)
		ops = append(ops, vsOp{kind: "ST"}, vsOp{kind: "AA", num: 259200})
		F.time -= 259200
		prep(F)
		recv(F, 0, h)
		if pickN(2) == 0 {
			ops = append(ops, vsOp{kind: "RS"})
		} else {
			// ... or no restart: another day passes and the cache is cleaned (what the first half made the
			// receiver read back from its log has expired again) before the second half comes
			ops = append(ops, vsOp{kind: "AA", num: 86400}, vsOp{kind: "CC"})
			F.time -= 86400 // (the file is a day older too)
		}
		prep(F)
		recv(F, h, len(F.content))
		ops = append(ops, vsOp{kind: "ST"}, vsOp{kind: "SQ", name: F.name, num: -3600})
		return ops
	}
	if sel(8, 1, 9) {
		// (i) the validators have a backlog: a file is complete but not yet hash-checked when the sender
		// polls / asks about it; then validation runs (variant 0: the file had been damaged in transit)
		F := mk(names[0], "", 4+r.Intn(10))
		data := append([]byte{}, F.content...)
		if pickN(2) == 0 {
			data[0] ^= 0x5a
		}
		ops = append(ops, vsOp{kind: "VH"})
		prep(F)
		ops = append(ops, vsOp{kind: "RC", part: part(F, 0, len(F.content)), data: data},
			vsOp{kind: "SQ", name: F.name, num: -3600},
			vsOp{kind: "SV", name: F.name, num: -3600, part: vsPart{hash: F.hash}},
			vsOp{kind: "RQ", parts: []vsPart{part(F, 0, len(F.content))}},
			vsOp{kind: "VR"}, vsOp{kind: "SQ", name: F.name, num: -3600})
		whole(F)
		ops = append(ops, vsOp{kind: "ST"}, vsOp{kind: "SQ", name: F.name, num: -3600})
		return ops
	}
	if sel(7, 1, 8) {
		// (h) the cleaner meets a partial that has been stalled for more than a day and belongs to a
		// version that was NOT delivered: the re-send of a version that failed validation (variant 0),
		// or a new version of a name whose old version is known from the receive log (variant 1)
		F := mk(names[0], "", 4+r.Intn(10))
		h := len(F.content) / 2
		if pickN(2) == 0 {
			bad := append([]byte{}, F.content...)
			bad[0] ^= 0x5a
			prep(F)
			ops = append(ops, vsOp{kind: "RC", part: part(F, 0, len(F.content)), data: bad}, vsOp{kind: "ST"}, vsOp{kind: "SQ", name: F.name, num: -3600})
			prep(F)
			recv(F, 0, h)
		} else {
			whole(F)
			ops = append(ops, vsOp{kind: "ST"}, vsOp{kind: "RS"})
			if r.Chance(1, 2) {
				ops = append(ops, vsOp{kind: "SQ", name: F.name, num: -3600})
			}
			F2 := mk(names[0], "", 4+r.Intn(10))
			h = len(F2.content) / 2
			F = F2
			prep(F)
			recv(F, 0, h)
		}
		ops = append(ops, vsOp{kind: "AG", name: F.name}, vsOp{kind: "CL"}, vsOp{kind: "SC"})
		recv(F, h, len(F.content))
		ops = append(ops, vsOp{kind: "ST"}, vsOp{kind: "SQ", name: F.name, num: -3600})
		return ops
	}
	if sel(0, 1, 7) {
		// (g) a name delivered days ago is used again; the new version is live in the stage - held for
		// a predecessor that is not there yet, or failed validation and awaiting its re-send - when a
		// poll with an old send time makes the receiver read its log back past the OLD record of that
		// name; then the successor of the new version arrives
		Pold := mk(names[0], "", 3+r.Intn(6))
		whole(Pold)
		ops = append(ops, vsOp{kind: "ST"}, vsOp{kind: "AA", num: 259200}, vsOp{kind: "RS"})
		Q := mk("q/first", "", 2+r.Intn(4))
		P := mk(names[0], Q.name, 3+r.Intn(6))
		S := mk(names[1], P.name, 2+r.Intn(6))
		failed := r.Chance(1, 2)
		if failed {
			P.prev = ""
			bad := append([]byte{}, P.content...)
			bad[0] ^= 0x5a
			prep(P)
			ops = append(ops, vsOp{kind: "RC", part: part(P, 0, len(P.content)), data: bad}, vsOp{kind: "ST"})
		} else {
			whole(P)
			ops = append(ops, vsOp{kind: "ST"})
		}
		ops = append(ops, vsOp{kind: "SQ", name: P.name, num: -4 * 86400})
		whole(S)
		ops = append(ops, vsOp{kind: "ST"}, vsOp{kind: "SQ", name: S.name, num: -3600})
		if failed {
			whole(P)
		} else {
			whole(Q)
		}
		ops = append(ops, vsOp{kind: "ST"}, vsOp{kind: "SQ", name: S.name, num: -3600}, vsOp{kind: "SQ", name: P.name, num: -3600})
		return ops
	}
	if sel(1, 1, 6) {
		// (f) a validated file is held for its predecessor; the first part of a NEW version of the same
		// name arrives (the companion now describes the new version, the held body is the old one);
		// restart; the predecessor arrives
		A := mk(names[0], "", 2+r.Intn(8))
		B1 := mk(names[1], names[0], 4+r.Intn(8))
		B2 := mk(names[1], names[0], 4+r.Intn(8))
		if pickN(2) == 0 {
			B2 = mk(names[1], names[0], len(B1.content)) // a new version of exactly the same size
		}
		whole(B1)
		ops = append(ops, vsOp{kind: "ST"})
		prep(B2)
		recv(B2, 0, len(B2.content)/2)
		if pickN(3) != 2 {
			ops = append(ops, vsOp{kind: "RS"}, vsOp{kind: "ST"})
		}
		ops = append(ops, vsOp{kind: "SQ", name: B1.name, num: -3600},
			vsOp{kind: "SV", name: B2.name, num: -3600, part: vsPart{hash: B2.hash}},
			vsOp{kind: "SV", name: B1.name, num: -3600, part: vsPart{hash: B1.hash}})
		whole(A)
		ops = append(ops, vsOp{kind: "ST"}, vsOp{kind: "SQ", name: B1.name, num: -3600})
		if r.Chance(1, 2) {
			recv(B2, len(B2.content)/2, len(B2.content))
			ops = append(ops, vsOp{kind: "ST"}, vsOp{kind: "SQ", name: B1.name, num: -3600})
		}
		return ops
	}
	if sel(2, 1, 5) {
		// (e) a stalled partial from an earlier day (later time of day than now) survives a restart:
		// the range of log days read back starts there; what was delivered TODAY must still be known
		E := mk(names[0], "", 2+r.Intn(8))
		G := mk(names[1], "", 4+r.Intn(8))
		whole(E)
		ops = append(ops, vsOp{kind: "ST"})
		prep(G)
		recv(G, 0, len(G.content)/2)
		ops = append(ops, vsOp{kind: "AG", name: G.name}, vsOp{kind: "RS"})
		if r.Chance(1, 2) {
			ops = append(ops, vsOp{kind: "RQ", parts: []vsPart{part(E, 0, len(E.content))}})
		}
		if r.Chance(1, 2) {
			ops = append(ops, vsOp{kind: "SQ", name: E.name, num: -3600})
		}
		whole(E) // late retransmission of the delivered version
		ops = append(ops, vsOp{kind: "ST"})
		recv(G, len(G.content)/2, len(G.content))
		ops = append(ops, vsOp{kind: "ST"})
		return ops
	}
	if sel(3, 1, 4) {
		// (d) the staged partial is tampered with between two parts: grown by a tail, cut short,
		// zeroed - then the remaining parts arrive and the file is complete by the record
		F := mk(names[0], "", 4+r.Intn(12))
		h := len(F.content) / 2
		prep(F)
		first, second := [2]int{0, h}, [2]int{h, len(F.content)}
		if r.Chance(1, 2) {
			first, second = second, first
		}
		recv(F, first[0], first[1])
		var junk []byte
		switch pickN(4) {
		case 0:
			junk = append(append([]byte{}, F.content...), []byte("-tail")...)
		case 1:
			junk = append(make([]byte, len(F.content)), 7, 7, 7)
		case 2:
			junk = append([]byte{}, F.content[:h]...)
		case 3:
			junk = make([]byte, len(F.content))
		}
		ops = append(ops, vsOp{kind: "TM", name: F.name, num: 0, data: junk})
		recv(F, second[0], second[1])
		ops = append(ops, vsOp{kind: "ST"}, vsOp{kind: "SQ", name: F.name, num: -3600})
		if r.Chance(1, 2) {
			whole(F) // the sender's answer to "failed": the file again
			ops = append(ops, vsOp{kind: "ST"}, vsOp{kind: "SQ", name: F.name, num: -3600})
		}
		return ops
	}
	if sel(4, 1, 3) {
		// (c) two days pass after delivery, the cache ages out, then a late retransmission arrives:
		// the delivery is known from the log only
		E := mk(names[0], "", 2+r.Intn(8))
		F := mk(names[1], "", 2+r.Intn(8))
		E.time = now - 5000
		F.time = now + 50
		whole(E)
		ops = append(ops, vsOp{kind: "ST"})
		whole(F)
		ops = append(ops, vsOp{kind: "ST"}, vsOp{kind: "AA", num: 172800})
		E.time -= 172800
		F.time -= 172800
		if r.Chance(2, 3) {
			ops = append(ops, vsOp{kind: "RS"})
		}
		q := func(f vsFile) {
			ops = append(ops, vsOp{kind: "RQ", parts: []vsPart{part(f, 0, len(f.content))}})
		}
		if r.Chance(2, 3) {
			q(E) // pulls the old records into the cache
		}
		ops = append(ops, vsOp{kind: "CC"})
		if r.Chance(1, 3) {
			ops = append(ops, vsOp{kind: "SQ", name: F.name, num: -3600})
		}
		if r.Chance(2, 3) {
			q(F) // (otherwise the whole file simply arrives again, unannounced by any query)
		}
		whole(F)
		ops = append(ops, vsOp{kind: "ST"})
		if r.Chance(1, 2) {
			ops = append(ops, vsOp{kind: "CC"})
			if r.Chance(2, 3) {
				q(E)
			}
			whole(E)
			ops = append(ops, vsOp{kind: "ST"})
		}
		return ops
	}
	if sel(5, 1, 2) {
		// (a) new version of a delivered name, cleaner between Prepare and the parts
		v1 := mk(names[0], "", 2+r.Intn(10))
		v2 := mk(names[0], "", 2+r.Intn(10))
		whole(v1)
		ops = append(ops, vsOp{kind: "ST"})
		switch r.Intn(3) {
		case 1:
			ops = append(ops, vsOp{kind: "RS"}) // the delivered version is known from the log
		case 2:
			ops = append(ops, vsOp{kind: "RS"}, vsOp{kind: "SQ", name: v1.name, num: -3600})
		}
		if r.Chance(1, 3) {
			v2 = v1 // a late duplicate of the same version
		}
		prep(v2)
		ops = append(ops, vsOp{kind: "CL"})
		h := len(v2.content) / 2
		if h > 0 && r.Chance(1, 2) {
			recv(v2, 0, h)
			ops = append(ops, vsOp{kind: "CL"})
			recv(v2, h, len(v2.content))
		} else {
			recv(v2, 0, len(v2.content))
		}
		ops = append(ops, vsOp{kind: "ST"}, vsOp{kind: "SQ", name: v2.name, num: -3600},
			vsOp{kind: "SV", name: v1.name, num: -3600, part: vsPart{hash: v1.hash}},
			vsOp{kind: "SV", name: v2.name, num: -3600, part: vsPart{hash: v2.hash}},
			vsOp{kind: "CL"}, vsOp{kind: "ST"})
		return ops
	}
	// (b) duplicate of a held file, restart, predecessor arrives
	A := mk(names[0], "", 2+r.Intn(8))
	B := mk(names[1], names[0], 2+r.Intn(8))
	whole(B)
	ops = append(ops, vsOp{kind: "ST"}, vsOp{kind: "SQ", name: B.name, num: -3600})
	switch r.Intn(3) {
	case 0:
		whole(B) // complete duplicate in one part
	case 1:
		h := len(B.content) / 2
		prep(B)
		if h > 0 {
			recv(B, 0, h)
			recv(B, h, len(B.content))
		} else {
			recv(B, 0, len(B.content))
		}
	case 2:
		prep(B) // announced again, nothing sent
	}
	ops = append(ops, vsOp{kind: "ST"}, vsOp{kind: "SQ", name: B.name, num: -3600})
	if r.Chance(2, 3) {
		ops = append(ops, vsOp{kind: "RS"}, vsOp{kind: "ST"}, vsOp{kind: "SQ", name: B.name, num: -3600})
	}
	if r.Chance(1, 3) {
		ops = append(ops, vsOp{kind: "CL"})
	}
	whole(A)
	ops = append(ops, vsOp{kind: "ST"}, vsOp{kind: "SQ", name: A.name, num: -3600}, vsOp{kind: "SQ", name: B.name, num: -3600}, vsOp{kind: "SC"}, vsOp{kind: "ST"})
	return ops
}

func verifStageGen(r *gen.Rand) []vsOp {
	if r.Chance(1, 4) {
		if r.Chance(2, 5) {
			return verifStageMatrix2(r, -1, 0)
		}
		return verifStageMatrix(r)
	}
	now := time.Now().Unix()
	names := []string{"a", "b", "ab", "ba", "d/a", "d/b", "d/e/a", "c.x", "g.1", "g.2", "g.3"}
	nf := 1 + r.Intn(4)
	profile := r.Intn(10) // 0..5 plain protocol, 6 new versions, 7 corruption, 8 cleaning, 9 cycles / odd predecessors
	used := map[string]bool{}
	var files []vsFile
	for i := 0; i < nf; i++ {
		n := names[r.Intn(len(names))]
		if used[n] && profile != 6 {
			continue
		}
		used[n] = true
		size := 1 + r.Intn(24)
		c := make([]byte, size)
		for j := range c {
			c[j] = byte(1 + r.Intn(250))
		}
		f := vsFile{name: n, content: c, hash: vsMD5(c), time: now - int64(r.Intn(5000))}
		if r.Chance(1, 5) {
			f.renamed = "r/" + strings.ReplaceAll(n, "/", "_")
		}
		if len(files) > 0 && r.Chance(3, 5) {
			f.prev = files[len(files)-1].name
		}
		switch {
		case profile == 9 && r.Chance(1, 2):
			switch r.Intn(4) {
			case 0:
				f.prev = f.name // self reference
			case 1:
				f.prev = "never/arrives"
			case 2:
				if len(files) > 0 { // cycle: first file waits for this one
					files[0].prev = f.name
				}
			case 3:
				f.prev = names[r.Intn(len(names))]
			}
		}
		files = append(files, f)
	}
	var ops []vsOp
	// a first poll, as every running sender makes: it sets the receiver's cache
	// start time, so that predecessor look-ups in the log cover days, not the
	// whole calendar since year 0 (which keeps the finalize handler busy for
	// seconds and would make quiescence undetectable)
	ops = append(ops, vsOp{kind: "SQ", name: "warm/up", num: -3600})
	type sendUnit struct {
		f     vsFile
		parts [][2]int
	}
	mkParts := func(f vsFile) [][2]int {
		size := len(f.content)
		np := 1 + r.Intn(4)
		if np > size {
			np = size
		}
		cuts := []int{0, size}
		for len(cuts) < np+1 {
			c := 1 + r.Intn(size)
			dup := false
			for _, x := range cuts {
				if x == c {
					dup = true
				}
			}
			if !dup {
				cuts = append(cuts, c)
			}
			if size <= len(cuts)-1 {
				break
			}
		}
		sort.Ints(cuts)
		var ps [][2]int
		for i := 0; i+1 < len(cuts); i++ {
			ps = append(ps, [2]int{cuts[i], cuts[i+1]})
		}
		return ps
	}
	// the flat list of part transmissions
	type tx struct {
		f    vsFile
		b, e int
	}
	var txs []tx
	for _, f := range files {
		for _, p := range mkParts(f) {
			txs = append(txs, tx{f, p[0], p[1]})
		}
	}
	// arrival order: shuffle with some probability, else in order
	if r.Chance(1, 2) {
		for i := len(txs) - 1; i > 0; i-- {
			j := r.Intn(i + 1)
			txs[i], txs[j] = txs[j], txs[i]
		}
	}
	// duplicates / retransmissions
	nd := r.Intn(3)
	for i := 0; i < nd && len(txs) > 0; i++ {
		txs = append(txs, txs[r.Intn(len(txs))])
	}
	emitQueries := func() {
		switch r.Intn(7) {
		case 0:
			ops = append(ops, vsOp{kind: "SC"})
		case 1, 2:
			f := files[r.Intn(len(files))]
			sent := int64(-3600 * int64(1+r.Intn(3)))
			if r.Chance(1, 4) {
				sent = 0
			}
			if r.Chance(1, 2) {
				// the sender names the version it asks about: this one, or (1 in 4) one never announced
				h := f.hash
				if r.Chance(1, 4) {
					h = vsMD5([]byte("never announced"))
				}
				ops = append(ops, vsOp{kind: "SV", name: f.name, num: sent, part: vsPart{hash: h}})
			} else {
				ops = append(ops, vsOp{kind: "SQ", name: f.name, num: sent})
			}
		case 3:
			var ps []vsPart
			k := 1 + r.Intn(3)
			for i := 0; i < k && len(txs) > 0; i++ {
				t := txs[r.Intn(len(txs))]
				ps = append(ps, vsPart{name: t.f.name, renamed: t.f.renamed, prev: t.f.prev, hash: t.f.hash, size: int64(len(t.f.content)), beg: int64(t.b), end: int64(t.e), time: t.f.time})
			}
			ops = append(ops, vsOp{kind: "RQ", parts: ps})
		}
	}
	// group transmissions into requests of 1..3 parts
	i := 0
	for i < len(txs) {
		k := 1 + r.Intn(3)
		if i+k > len(txs) {
			k = len(txs) - i
		}
		req := txs[i : i+k]
		i += k
		for _, t := range req {
			ops = append(ops, vsOp{kind: "PR", part: vsPart{name: t.f.name, size: int64(len(t.f.content))}})
		}
		for _, t := range req {
			data := append([]byte{}, t.f.content[t.b:t.e]...)
			op := vsOp{kind: "RC", part: vsPart{name: t.f.name, renamed: t.f.renamed, prev: t.f.prev, hash: t.f.hash, size: int64(len(t.f.content)), beg: int64(t.b), end: int64(t.e), time: t.f.time}}
			if t.b > 0 && r.Chance(1, 12) {
				// the sender works out the predecessor per chunk: a later chunk of the same version may
				// announce another one (the file before it was dropped from the queue, or one was inserted)
				op.part.prev = []string{"", "q/other"}[r.Intn(2)]
			}
			if profile == 7 {
				switch r.Intn(8) {
				case 0: // byte flipped in transit
					data[r.Intn(len(data))] ^= 0x5a
				case 1: // reader delivers fewer bytes than announced
					data = data[:r.Intn(len(data))]
				case 2: // connection cut
					data = data[:r.Intn(len(data))]
					op.rerr = true
				case 3: // wrong announced hash: another file's, or none at all
					op.part.hash = vsMD5([]byte("other"))
					if r.Chance(1, 2) {
						op.part.hash = ""
					}
				}
			}
			op.data = data
			ops = append(ops, op)
			if op.rerr {
				break
			}
		}
		if r.Chance(2, 3) {
			ops = append(ops, vsOp{kind: "ST"})
		}
		if profile == 7 && r.Chance(1, 3) && len(files) > 0 {
			f := files[r.Intn(len(files))]
			// the staged body is overwritten: zeroed, grown by a tail, or cut short
			junk := make([]byte, len(f.content))
			switch r.Intn(4) {
			case 1:
				junk = append(append([]byte{}, f.content...), []byte("-tail")...)
			case 2:
				junk = append([]byte{}, f.content[:len(f.content)/2]...)
			case 3:
				junk = append(junk, 7, 7, 7)
			}
			ops = append(ops, vsOp{kind: "TM", name: f.name, num: int64(r.Intn(2)), data: junk})
		}
		if r.Chance(1, 3) {
			emitQueries()
		}
		if r.Chance(1, 10) {
			ops = append(ops, vsOp{kind: "RS"})
		}
		if profile == 8 && r.Chance(1, 3) {
			f := files[r.Intn(len(files))]
			ops = append(ops, vsOp{kind: "AG", name: f.name}, vsOp{kind: "CL"})
		}
		if profile == 9 && r.Chance(1, 4) {
			ops = append(ops, vsOp{kind: "CL"})
		}
	}
	ops = append(ops, vsOp{kind: "ST"})
	for k := 0; k < 1+r.Intn(3); k++ {
		emitQueries()
	}
	if profile == 9 {
		ops = append(ops, vsOp{kind: "ST"}, vsOp{kind: "CL"})
	}
	if r.Chance(1, 4) {
		ops = append(ops, vsOp{kind: "RS"})
		emitQueries()
	}
	// late duplicates after delivery
	if r.Chance(1, 3) && len(txs) > 0 {
		t := txs[r.Intn(len(txs))]
		ops = append(ops, vsOp{kind: "PR", part: vsPart{name: t.f.name, size: int64(len(t.f.content))}})
		ops = append(ops, vsOp{kind: "RC", part: vsPart{name: t.f.name, renamed: t.f.renamed, prev: t.f.prev, hash: t.f.hash, size: int64(len(t.f.content)), beg: int64(t.b), end: int64(t.e), time: t.f.time}, data: append([]byte{}, t.f.content[t.b:t.e]...)})
		ops = append(ops, vsOp{kind: "ST"})
		if profile == 8 {
			ops = append(ops, vsOp{kind: "AG", name: t.f.name}, vsOp{kind: "CL"})
		}
	}
	ops = append(ops, vsOp{kind: "ST"})
	return ops
}

func TestVerifStage(t *testing.T) {
	w, done, ok := gen.Out()
	if !ok {
		t.Skip("VERIF_OUT not set")
	}
	defer done()
	log.InitExternal(&mock.Logger{DebugMode: os.Getenv("VERIF_STAGE_DEBUG") != ""})
	tmp := os.Getenv("VERIF_TMP")
	if tmp == "" {
		tmp = t.TempDir()
	}
	var cases [][]vsOp
	if lines := gen.Replay(); lines != nil {
		for _, l := range lines {
			if strings.HasPrefix(l, "S ") {
				cases = append(cases, verifStageParse(l))
			}
		}
	} else {
		root := gen.New(gen.Seed() ^ 0x57A6E)
		N := gen.EnvInt("VERIF_STAGE_RANDOM", 400)
		if gen.Thorough() {
			N = gen.EnvInt("VERIF_STAGE_RANDOM", 5000)
		}
		for c := 0; c < N; c++ {
			if c < 180 {
				// every directed scenario 10 times, its main alternatives in turn
				cases = append(cases, verifStageMatrix2(root.Sub(uint64(c)), c%18, c/18))
				continue
			}
			cases = append(cases, verifStageGen(root.Sub(uint64(c))))
		}
	}
	out := make([]string, len(cases))
	var wg sync.WaitGroup
	sem := make(chan bool, gen.EnvInt("VERIF_STAGE_PAR", 12))
	for i := range cases {
		wg.Add(1)
		sem <- true
		go func(i int) {
			defer wg.Done()
			defer func() { <-sem }()
			out[i] = verifStageCase(tmp, i, cases[i])
		}(i)
	}
	wg.Wait()
	bw := bufio.NewWriter(w)
	for _, l := range out {
		bw.WriteString(l)
	}
	bw.Flush()
}
