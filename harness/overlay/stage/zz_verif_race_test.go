package stage

// Concurrency driver for the receiver (C01, C04, C05): the REAL Stage with parts
// arriving on several connections at once. There is no model run here - the
// interleaving is the runtime's - the facts of every run are judged by oracles.
//
// line: SR kind p1 p2 p3 = fact=value ...
//   kind swap  : a second version of a name arrives while the first one is being hashed
//                (p1 = MiB of version 1, p2 = 1: version 2 is corrupted in transit, p3 = 1: v2 was sent
//                only after the validator had the staged file open)
//   kind storm : p1 files (chains of predecessors), p2 connections, p3 = seed: every part of every file,
//                some twice, sent concurrently in a random order

import (
	"bufio"
	"bytes"
	"crypto/md5"
	"fmt"
	"io"
	"os"
	"path/filepath"
	"sort"
	"strings"
	"sync"
	"testing"
	"time"

	"github.com/arm-doe/sts"
	"github.com/arm-doe/sts/log"
	"github.com/arm-doe/sts/marshal"
	"github.com/arm-doe/sts/mock"
	"github.com/arm-doe/sts/zzverif/gen"
)

type vrEnv struct {
	root, stageDir, finalDir, logDir string
	st                               *Stage
	logger                           *log.FileIO
}

func vrNew(tmp, id string) *vrEnv {
	root := filepath.Join(tmp, "race"+id)
	os.RemoveAll(root)
	e := &vrEnv{root: root, stageDir: filepath.Join(root, "stage"), finalDir: filepath.Join(root, "final"), logDir: filepath.Join(root, "log")}
	os.MkdirAll(e.stageDir, 0o755)
	os.MkdirAll(e.finalDir, 0o755)
	e.logger = log.NewFileIO(e.logDir, nil, nil, false)
	e.st = New("src", e.stageDir, e.finalDir, e.logger, nil, nil)
	// a first poll, as every running sender makes: it sets the receiver's cache start time, so that
	// predecessor look-ups in the log cover days, not the whole calendar since year 1
	e.st.GetFileStatus("warm/up", time.Now().Add(-time.Hour))
	return e
}

func (e *vrEnv) send(name, prev, hash string, size int64, beg, end int64, data []byte) error {
	p := &vsPart{name: name, prev: prev, hash: hash, size: size, beg: beg, end: end, time: time.Now().Unix() - 100}
	e.st.Prepare([]sts.Binned{p})
	file := &sts.Partial{Name: name, Prev: prev, Size: size, Time: marshal.NanoTime{Time: time.Unix(p.time, 0)}, Hash: hash, Source: "src",
		Parts: []*sts.ByteRange{{Beg: beg, End: end}}}
	return e.st.Receive(file, &vrSlow{r: bytes.NewReader(data), n: len(data)/2 + 1})
}

// vrSlow hands out the body in two pieces with a short pause in between (a body that is
// still arriving while other connections make progress)
type vrSlow struct {
	r     *bytes.Reader
	n     int
	calls int
}

func (s *vrSlow) Read(p []byte) (int, error) {
	s.calls++
	if s.calls == 2 {
		time.Sleep(300 * time.Microsecond)
	}
	if len(p) > s.n {
		p = p[:s.n]
	}
	return s.r.Read(p)
}

// quiet waits until nothing moves any more
func (e *vrEnv) quiet() {
	last, stable := "", 0
	for i := 0; i < 6000 && stable < 40; i++ {
		time.Sleep(2 * time.Millisecond)
		var sb strings.Builder
		fmt.Fprintf(&sb, "%d %d|", len(e.st.validateCh), len(e.st.finalizeCh))
		filepath.Walk(e.root, func(p string, info os.FileInfo, err error) error {
			if err == nil && !info.IsDir() {
				fmt.Fprintf(&sb, "%s:%d;", p, info.Size())
			}
			return nil
		})
		if sb.String() == last {
			stable++
		} else {
			stable, last = 0, sb.String()
		}
	}
}

type vrRec struct {
	name, hash string
}

func (e *vrEnv) logRecords() []vrRec {
	var recs []vrRec
	e.logger.Parse(func(name, renamed, hash string, size int64, t time.Time) bool {
		recs = append(recs, vrRec{name, hash})
		return false
	}, time.Now().Add(-24*time.Hour), time.Now().Add(time.Hour))
	return recs
}

func vrMD5(b []byte) string { return fmt.Sprintf("%x", md5.Sum(b)) }

// fullOpen: does this process have <name>.full open (the validator is hashing it)?
func vrFullOpen(path string) bool {
	ents, err := os.ReadDir("/proc/self/fd")
	if err != nil {
		return false
	}
	for _, en := range ents {
		if l, err := os.Readlink("/proc/self/fd/" + en.Name()); err == nil && l == path {
			return true
		}
	}
	return false
}

func verifRaceSwap(w *bufio.Writer, tmp string, id string, mib int, corrupt bool) {
	e := vrNew(tmp, id)
	defer os.RemoveAll(e.root)
	defer e.st.Stop(true)
	name := "site/inst/data.bin"
	size := int64(mib) << 20
	v1 := make([]byte, size)
	for i := range v1 {
		v1[i] = byte(i*7 + i>>9)
	}
	h1 := vrMD5(v1)
	good := []byte("good-version-2")
	wire := append([]byte{}, good...)
	if corrupt {
		wire[0] ^= 0x5a
	}
	h2 := vrMD5(good)
	half := size / 2
	e.send(name, "", h1, size, half, size, v1[half:])
	e.send(name, "", h1, size, 0, half, v1[:half])
	// version 2 as soon as the validator works on version 1
	sawOpen := 0
	full := filepath.Join(e.stageDir, name+fullExt)
	for i := 0; i < 4000; i++ {
		if vrFullOpen(full) {
			sawOpen = 1
			break
		}
		time.Sleep(250 * time.Microsecond)
	}
	done := make(chan bool, 1)
	go func() {
		e.send(name, "", h2, int64(len(good)), 0, int64(len(good)), wire)
		done <- true
	}()
	select {
	case <-done:
	case <-time.After(20 * time.Second):
	}
	e.quiet()
	// facts
	finalMD5 := "-"
	if b, err := os.ReadFile(filepath.Join(e.finalDir, name)); err == nil {
		finalMD5 = vrMD5(b)
	}
	recs := e.logRecords()
	lastLogged := "-"
	for _, r := range recs {
		if r.name == name {
			lastLogged = r.hash
		}
	}
	status := e.st.GetFileStatus(name, time.Now().Add(-time.Hour))
	c := 0
	if corrupt {
		c = 1
	}
	fmt.Fprintf(w, "SR swap %d %d %d = final=%s logged=%s h1=%s h2=%s wire2=%s nrec=%d status=%d\n", mib, c, sawOpen,
		finalMD5, lastLogged, h1, h2, vrMD5(wire), len(recs), status)
}

func verifRaceStorm(w *bufio.Writer, tmp string, id string, nfiles, nconn int, seed uint64) {
	r := gen.New(seed)
	e := vrNew(tmp, id)
	defer os.RemoveAll(e.root)
	defer e.st.Stop(true)
	type file struct {
		name, prev, hash string
		data             []byte
	}
	var files []file
	groups := []string{"g", "h", "d/x"}
	lastOf := map[string]string{}
	for i := 0; i < nfiles; i++ {
		g := groups[r.Intn(len(groups))]
		name := fmt.Sprintf("%s.%02d", g, i)
		d := make([]byte, 1+r.Intn(600))
		for j := range d {
			d[j] = byte(1 + r.Intn(250))
		}
		f := file{name: name, hash: vrMD5(d), data: d}
		if r.Chance(3, 4) {
			f.prev = lastOf[g]
		}
		lastOf[g] = name
		files = append(files, f)
	}
	type tx struct {
		f        file
		beg, end int
	}
	var txs []tx
	for _, f := range files {
		np := 1 + r.Intn(4)
		if np > len(f.data) {
			np = len(f.data)
		}
		cuts := map[int]bool{0: true, len(f.data): true}
		for len(cuts) < np+1 {
			cuts[1+r.Intn(len(f.data))] = true
		}
		var cs []int
		for c := range cuts {
			cs = append(cs, c)
		}
		sort.Ints(cs)
		for i := 0; i+1 < len(cs); i++ {
			txs = append(txs, tx{f, cs[i], cs[i+1]})
			if r.Chance(1, 5) {
				txs = append(txs, tx{f, cs[i], cs[i+1]}) // a part sent twice
			}
		}
	}
	for i := len(txs) - 1; i > 0; i-- {
		j := r.Intn(i + 1)
		txs[i], txs[j] = txs[j], txs[i]
	}
	ch := make(chan tx, len(txs))
	for _, t := range txs {
		ch <- t
	}
	close(ch)
	var wg sync.WaitGroup
	for c := 0; c < nconn; c++ {
		wg.Add(1)
		go func() {
			defer wg.Done()
			for t := range ch {
				e.send(t.f.name, t.f.prev, t.f.hash, int64(len(t.f.data)), int64(t.beg), int64(t.end), t.f.data[t.beg:t.end])
			}
		}()
	}
	wg.Wait()
	e.quiet()
	e.st.CleanNow()
	e.quiet()
	// facts
	delivered, bad := 0, 0
	for _, f := range files {
		if b, err := os.ReadFile(filepath.Join(e.finalDir, f.name)); err == nil {
			delivered++
			if vrMD5(b) != f.hash {
				bad++
			}
		}
	}
	recs := e.logRecords()
	pos := map[string]int{}
	twice := 0
	for i, rc := range recs {
		if _, ok := pos[rc.name]; ok {
			twice++
		}
		pos[rc.name] = i
	}
	order := 0
	badlog := 0
	for _, f := range files {
		if p, ok := pos[f.name]; ok {
			if recs[p].hash != f.hash {
				badlog++
			}
			if f.prev != "" {
				if pp, ok := pos[f.prev]; ok && pp > p {
					order++
				}
			}
		}
	}
	staged := 0
	filepath.Walk(e.stageDir, func(p string, info os.FileInfo, err error) error {
		if err == nil && !info.IsDir() && filepath.Ext(p) != partExt && filepath.Ext(p) != compExt {
			staged++
		}
		return nil
	})
	fmt.Fprintf(w, "SR storm %d %d %d = files=%d delivered=%d bad_content=%d bad_log_hash=%d logged_twice=%d before_predecessor=%d held_left=%d nrec=%d\n",
		nfiles, nconn, seed, len(files), delivered, bad, badlog, twice, order, staged, len(recs))
}

// verifRaceReady: the receiver restarts on a stage that holds a completely received, not yet
// validated file; from the moment the gate keeper says "ready" again (requests are processed
// instead of answered 503) recovery must be over: no recovered file may still be unvalidated
func verifRaceReady(w *bufio.Writer, tmp string, id string, mib int) {
	root := filepath.Join(tmp, "race"+id)
	os.RemoveAll(root)
	defer os.RemoveAll(root)
	stageDir, finalDir, logDir := filepath.Join(root, "stage"), filepath.Join(root, "final"), filepath.Join(root, "log")
	os.MkdirAll(filepath.Join(stageDir, "d"), 0o755)
	os.MkdirAll(finalDir, 0o755)
	name := "d/big.bin"
	size := int64(mib) << 20
	data := make([]byte, size)
	for i := range data {
		data[i] = byte(i*11 + i>>7)
	}
	path := filepath.Join(stageDir, name)
	os.WriteFile(path+fullExt, data, 0o644)
	cmp := &sts.Partial{Name: name, Size: size, Hash: vrMD5(data), Source: "src",
		Time: marshal.NanoTime{Time: time.Now().Add(-time.Minute)}, Parts: []*sts.ByteRange{{Beg: 0, End: size}}}
	if err := writeCompanion(path, cmp); err != nil {
		panic(err)
	}
	logger := log.NewFileIO(logDir, nil, nil, false)
	st := New("src", stageDir, finalDir, logger, nil, nil)
	defer st.Stop(true)
	fin := make(chan bool, 1)
	go func() { st.Recover(); fin <- true }()
	// recovery has begun once the gate keeper says "not ready"
	began := false
	for i := 0; i < 20000 && !began; i++ {
		if !st.Ready() {
			began = true
		} else {
			time.Sleep(50 * time.Microsecond)
		}
	}
	fullAtReady, stateAtReady := 0, -2
	for i := 0; i < 400000; i++ {
		if st.Ready() {
			if _, err := os.Stat(path + fullExt); err == nil {
				fullAtReady = 1
			}
			stateAtReady = st.getFileState(path)
			break
		}
		time.Sleep(50 * time.Microsecond)
	}
	select {
	case <-fin:
	case <-time.After(20 * time.Second):
	}
	b := 0
	if began {
		b = 1
	}
	fmt.Fprintf(w, "SR ready %d 0 0 = began=%d full_at_ready=%d state_at_ready=%d\n", mib, b, fullAtReady, stateAtReady)
}

// vrGated delivers nothing until the gate opens (a connection that stalls right after the request
// was accepted), then its bytes
type vrGated struct {
	gate chan bool
	r    *bytes.Reader
	open bool
}

func (g *vrGated) Read(p []byte) (int, error) {
	if !g.open {
		<-g.gate
		g.open = true
	}
	return g.r.Read(p)
}

// kind late: a duplicate of the first part of a file stalls before its first byte (p2 = 1: and carries
// damaged bytes); meanwhile the file completes on another connection, is validated and put away (or held
// for a predecessor, p3 = 1); then the stalled connection comes back to life.
func verifRaceLate(w *bufio.Writer, tmp string, id string, size int, corrupt bool, held bool) {
	e := vrNew(tmp, id)
	defer os.RemoveAll(e.root)
	defer e.st.Stop(true)
	name, prev := "d/late.bin", ""
	if held {
		prev = "d/never.bin"
	}
	data := make([]byte, size)
	for i := range data {
		data[i] = byte(i*7 + 3)
	}
	hash := vrMD5(data)
	half := int64(size / 2)
	dup := append([]byte{}, data[:half]...)
	if corrupt {
		for i := range dup {
			dup[i] ^= 0x5a
		}
	}
	gate := make(chan bool)
	stalled := make(chan error, 1)
	mk := func(beg, end int64) *sts.Partial {
		return &sts.Partial{Name: name, Prev: prev, Size: int64(size), Time: marshal.NanoTime{Time: time.Now().Add(-100 * time.Second)}, Hash: hash, Source: "src",
			Parts: []*sts.ByteRange{{Beg: beg, End: end}}}
	}
	e.st.Prepare([]sts.Binned{&vsPart{name: name, prev: prev, hash: hash, size: int64(size), beg: 0, end: half}})
	go func() { stalled <- e.st.Receive(mk(0, half), &vrGated{gate: gate, r: bytes.NewReader(dup)}) }()
	time.Sleep(30 * time.Millisecond) // the stalled request is inside Receive, waiting for its body
	// the same file, complete, on another connection
	done2 := make(chan bool, 1)
	go func() {
		e.st.Receive(mk(0, half), bytes.NewReader(data[:half]))
		e.st.Receive(mk(half, int64(size)), bytes.NewReader(data[half:]))
		done2 <- true
	}()
	completed := 0
	select {
	case <-done2:
		completed = 1
	case <-time.After(1500 * time.Millisecond):
		// (a receiver that makes the completing part wait for the stalled one is fine too)
	}
	if completed == 1 {
		e.quiet()
	}
	close(gate) // the stalled connection delivers its bytes now
	select {
	case <-stalled:
	case <-time.After(5 * time.Second):
	}
	if completed == 0 {
		select {
		case <-done2:
		case <-time.After(5 * time.Second):
		}
	}
	e.quiet()
	// what is delivered / held under the name must be the announced content
	bad := 0
	where := "-"
	for _, p := range []string{filepath.Join(e.finalDir, name), filepath.Join(e.stageDir, name+waitExt)} {
		if b, err := os.ReadFile(p); err == nil {
			where = filepath.Base(p)
			if vrMD5(b) != hash {
				bad = 1
			}
		}
	}
	status := e.st.GetFileStatus(name, time.Now().Add(-time.Hour))
	b2i := func(x bool) int {
		if x {
			return 1
		}
		return 0
	}
	fmt.Fprintf(w, "SR late %d %d %d = completed_first=%d where=%s bad_content=%d status=%d\n", size, b2i(corrupt), b2i(held), completed, where, bad, status)
}

// kind hold: a file is held for a predecessor that was delivered p1 days ago and is known from the
// receive log only (receiver restarted since; the file is fresh, so each look into the log goes one
// day further back). The held file is re-examined by its own 10 s timer - here: whenever a timer is
// PENDING it is fired at once (simulated time). The file must come out after at most p1+3 firings;
// a held file with no pending timer is stuck for good.
func verifRaceHold(w *bufio.Writer, tmp string, id string, days int) {
	root := filepath.Join(tmp, "race"+id)
	os.RemoveAll(root)
	defer os.RemoveAll(root)
	e := &vsEnv{root: root, stageDir: filepath.Join(root, "stage"), finalDir: filepath.Join(root, "final"), logDir: filepath.Join(root, "log")}
	os.MkdirAll(e.stageDir, 0o755)
	os.MkdirAll(e.finalDir, 0o755)
	e.newStage()
	e.st.GetFileStatus("warm/up", time.Now().Add(-time.Hour))
	put := func(name, prev string, data []byte, when time.Time) {
		p := &vsPart{name: name, prev: prev, hash: vrMD5(data), size: int64(len(data)), beg: 0, end: int64(len(data)), time: when.Unix()}
		e.st.Prepare([]sts.Binned{p})
		file := &sts.Partial{Name: name, Prev: prev, Size: int64(len(data)), Time: marshal.NanoTime{Time: when}, Hash: p.hash, Source: "src",
			Parts: []*sts.ByteRange{{Beg: 0, End: int64(len(data))}}}
		e.st.Receive(file, bytes.NewReader(data))
	}
	put("ds/a1", "", []byte("first of the stream"), time.Now().Add(-time.Minute))
	e.settle()
	vsAgeAll(e, time.Duration(days)*24*time.Hour)
	e.st.Stop(true)
	if e.st.cleanTimeout != nil {
		e.st.cleanTimeout.Stop()
	}
	e.newStage()
	e.st.Recover()
	e.settle()
	defer e.st.Stop(true)
	put("ds/a2", "ds/a1", []byte("second of the stream"), time.Now())
	e.settle()
	delivered := func() bool {
		_, err := os.Stat(filepath.Join(e.finalDir, "ds/a2"))
		return err == nil
	}
	firings, stuck := 0, 0
	for i := 0; i < days+3 && !delivered(); i++ {
		// fire what is pending - and only that
		var timed []*finalFile
		e.st.waitLock.Lock()
		for _, fs := range e.st.wait {
			for _, f := range fs {
				// (a timer that has fired stays non-nil in the real run too: the field is left alone)
				if f.wait != nil && f.wait.Stop() {
					timed = append(timed, f)
				}
			}
		}
		e.st.waitLock.Unlock()
		if len(timed) == 0 {
			stuck = 1
			break
		}
		for _, f := range timed {
			firings++
			e.st.finalizeQueue(f)
		}
		e.settle()
	}
	d := 0
	if delivered() {
		d = 1
	}
	fmt.Fprintf(w, "SR hold %d 0 0 = delivered=%d firings=%d no_timer_pending=%d status=%d\n", days, d, firings, stuck,
		e.st.GetFileStatus("ds/a2", time.Now().Add(-time.Hour)))
}

// vrTwoStage delivers the first n bytes, signals, waits for the gate, then delivers the rest
type vrTwoStage struct {
	data    []byte
	pos, n  int
	reached chan bool
	gate    chan bool
	waited  bool
}

func (g *vrTwoStage) Read(p []byte) (int, error) {
	if g.pos >= len(g.data) {
		return 0, io.EOF
	}
	lim := len(g.data)
	if !g.waited {
		if g.pos >= g.n {
			g.reached <- true
			<-g.gate
			g.waited = true
		} else {
			lim = g.n
		}
	}
	k := copy(p, g.data[g.pos:lim])
	g.pos += k
	return k, nil
}

// vrCut delivers its bytes and then fails (connection reset)
type vrCut struct{ r *bytes.Reader }

func (c *vrCut) Read(p []byte) (int, error) {
	if n, _ := c.r.Read(p); n > 0 {
		return n, nil
	}
	return 0, fmt.Errorf("connection reset by peer")
}

// kind over: a file that fits in ONE part is in flight on two connections at once (a retransmission after
// a stall): the good request has streamed most of its bytes when the other copy - damaged, and cut after
// p2 bytes - writes over the beginning of the staged file and fails; then the good request completes.
// What is staged is damaged: it must fail validation, never be delivered.
func verifRaceOver(w *bufio.Writer, tmp string, id string, size, dmg int) {
	e := vrNew(tmp, id)
	defer os.RemoveAll(e.root)
	defer e.st.Stop(true)
	name := "d/over.bin"
	data := make([]byte, size)
	for i := range data {
		data[i] = byte(i*13 + 5)
	}
	hash := vrMD5(data)
	mk := func() *sts.Partial {
		return &sts.Partial{Name: name, Size: int64(size), Time: marshal.NanoTime{Time: time.Now().Add(-100 * time.Second)}, Hash: hash, Source: "src",
			Parts: []*sts.ByteRange{{Beg: 0, End: int64(size)}}}
	}
	p := &vsPart{name: name, hash: hash, size: int64(size), beg: 0, end: int64(size)}
	e.st.Prepare([]sts.Binned{p})
	good := &vrTwoStage{data: data, n: size * 3 / 4, reached: make(chan bool, 1), gate: make(chan bool)}
	doneA := make(chan error, 1)
	go func() { doneA <- e.st.Receive(mk(), good) }()
	select {
	case <-good.reached:
	case <-time.After(3 * time.Second):
	}
	bad := make([]byte, dmg)
	for i := range bad {
		bad[i] = data[i] ^ 0x5a
	}
	e.st.Prepare([]sts.Binned{p})
	errB := e.st.Receive(mk(), &vrCut{r: bytes.NewReader(bad)})
	close(good.gate)
	var errA error
	select {
	case errA = <-doneA:
	case <-time.After(5 * time.Second):
		errA = fmt.Errorf("timeout")
	}
	e.quiet()
	badContent := 0
	where := "-"
	for _, pth := range []string{filepath.Join(e.finalDir, name), filepath.Join(e.stageDir, name+waitExt)} {
		if b, err := os.ReadFile(pth); err == nil {
			where = filepath.Base(pth)
			if vrMD5(b) != hash {
				badContent = 1
			}
		}
	}
	b2i := func(x bool) int {
		if x {
			return 1
		}
		return 0
	}
	fmt.Fprintf(w, "SR over %d %d 0 = good_ok=%d cut_refused=%d where=%s bad_content=%d status=%d\n", size, dmg, b2i(errA == nil), b2i(errB != nil), where, badContent,
		e.st.GetFileStatus(name, time.Now().Add(-time.Hour)))
}

func TestVerifStageRace(t *testing.T) {
	wr, done, ok := gen.Out()
	if !ok {
		t.Skip("VERIF_OUT not set")
	}
	defer done()
	log.InitExternal(&mock.Logger{DebugMode: false})
	tmp := os.Getenv("VERIF_TMP")
	if tmp == "" {
		tmp = t.TempDir()
	}
	base := gen.New(gen.Seed() ^ 0x5ACE)
	nswap := gen.EnvInt("VERIF_RACE_SWAP", 4)
	for i := 0; i < nswap; i++ {
		verifRaceSwap(wr, tmp, fmt.Sprintf("s%d", i), []int{32, 48, 64, 24}[i%4], i%2 == 0)
	}
	for i := 0; i < gen.EnvInt("VERIF_RACE_READY", 3); i++ {
		verifRaceReady(wr, tmp, fmt.Sprintf("r%d", i), []int{24, 40, 16}[i%3])
	}
	for i := 0; i < gen.EnvInt("VERIF_RACE_LATE", 6); i++ {
		verifRaceLate(wr, tmp, fmt.Sprintf("l%d", i), 2000+i*4096, i%3 != 2, i%2 == 1)
	}
	for i := 0; i < gen.EnvInt("VERIF_RACE_OVER", 3); i++ {
		verifRaceOver(wr, tmp, fmt.Sprintf("o%d", i), []int{65536, 4000, 200000}[i%3], []int{100, 1, 3000}[i%3])
	}
	for i := 0; i < gen.EnvInt("VERIF_RACE_HOLD", 3); i++ {
		verifRaceHold(wr, tmp, fmt.Sprintf("h%d", i), []int{6, 3, 9}[i%3])
	}
	nstorm := gen.EnvInt("VERIF_RACE_STORM", 40)
	for i := 0; i < nstorm; i++ {
		r := base.Sub(uint64(i))
		verifRaceStorm(wr, tmp, fmt.Sprintf("t%d", i), 2+r.Intn(10), 1+r.Intn(6), r.U64())
	}
}
