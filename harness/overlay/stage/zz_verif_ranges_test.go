package stage

// White-box driver for the companion range bookkeeping (C09). Injected with
// `go test -overlay`; it runs the REAL addCompanionPart / isCompanionComplete /
// companionPartExists on generated histories and writes what they did.
//
// line:  R size n {b e}*n nq {qb qe}*nq = {len {pb pe}*len complete}*n {ans}*nq

import (
	"bufio"
	"fmt"
	"sort"
	"strings"
	"testing"

	"github.com/arm-doe/sts"
	"github.com/arm-doe/sts/zzverif/gen"
)

func verifRangesCase(w *bufio.Writer, size int64, parts [][2]int64, qs [][2]int64) {
	fmt.Fprintf(w, "R %d %d", size, len(parts))
	for _, p := range parts {
		fmt.Fprintf(w, " %d %d", p[0], p[1])
	}
	fmt.Fprintf(w, " %d", len(qs))
	for _, q := range qs {
		fmt.Fprintf(w, " %d %d", q[0], q[1])
	}
	fmt.Fprint(w, " =")
	cmp := &sts.Partial{Size: size}
	for _, p := range parts {
		addCompanionPart(cmp, p[0], p[1])
		fmt.Fprintf(w, " %d", len(cmp.Parts))
		for _, r := range cmp.Parts {
			fmt.Fprintf(w, " %d %d", r.Beg, r.End)
		}
		c := 0
		if isCompanionComplete(cmp) {
			c = 1
		}
		fmt.Fprintf(w, " %d", c)
	}
	for _, q := range qs {
		a := 0
		if companionPartExists(cmp, q[0], q[1]) {
			a = 1
		}
		fmt.Fprintf(w, " %d", a)
	}
	fmt.Fprintln(w)
}

func verifAllRanges(g int64, withEmpty bool) [][2]int64 {
	var rs [][2]int64
	for b := int64(0); b <= g; b++ {
		for e := b; e <= g; e++ {
			if e == b && !withEmpty {
				continue
			}
			rs = append(rs, [2]int64{b, e})
		}
	}
	return rs
}

func TestVerifRanges(t *testing.T) {
	w, done, ok := gen.Out()
	if !ok {
		t.Skip("VERIF_OUT not set")
	}
	defer done()

	if lines := gen.Replay(); lines != nil {
		for _, l := range lines {
			f := strings.Fields(l)
			if len(f) < 3 || f[0] != "R" {
				continue
			}
			v := gen.Ints(f[1:])
			size, n := v[0], int(v[1])
			var parts, qs [][2]int64
			for i := 0; i < n; i++ {
				parts = append(parts, [2]int64{v[2+2*i], v[3+2*i]})
			}
			nq := int(v[2+2*n])
			for i := 0; i < nq; i++ {
				qs = append(qs, [2]int64{v[3+2*n+2*i], v[4+2*n+2*i]})
			}
			verifRangesCase(w, size, parts, qs)
		}
		return
	}

	// ---- exhaustive small scope -------------------------------------------
	G := int64(gen.EnvInt("VERIF_RANGES_GRID", 5))
	K := gen.EnvInt("VERIF_RANGES_LEN", 3)
	if gen.Thorough() {
		G = int64(gen.EnvInt("VERIF_RANGES_GRID", 6))
		K = gen.EnvInt("VERIF_RANGES_LEN", 4)
	}
	rs := verifAllRanges(G, false)
	qs := verifAllRanges(G+1, true)
	var rec func(prefix [][2]int64)
	rec = func(prefix [][2]int64) {
		if len(prefix) > 0 {
			verifRangesCase(w, G, prefix, qs)
		}
		if len(prefix) == K {
			return
		}
		for _, r := range rs {
			rec(append(prefix[:len(prefix):len(prefix)], r))
		}
	}
	rec(nil)

	// ---- seeded random: large offsets, shaped towards the interesting cases
	root := gen.New(gen.Seed())
	N := gen.EnvInt("VERIF_RANGES_RANDOM", 20000)
	if gen.Thorough() {
		N = gen.EnvInt("VERIF_RANGES_RANDOM", 200000)
	}
	scales := []int64{16, 64, 1 << 20, 1 << 31, 1 << 40, 1 << 53, 1 << 62}
	for c := 0; c < N; c++ {
		r := root.Sub(uint64(c))
		scale := scales[r.Intn(len(scales))]
		size := 1 + r.I64n(scale)
		n := 1 + r.Intn(12)
		// cut points: a tiling of [0,size) so that adjacent / identical parts are likely
		ncut := 1 + r.Intn(8)
		cuts := []int64{0, size}
		for i := 0; i < ncut; i++ {
			cuts = append(cuts, r.I64n(size+1))
		}
		pick := func() int64 {
			if r.Chance(1, 12) {
				return r.I64n(size + 2)
			}
			return cuts[r.Intn(len(cuts))]
		}
		// 2 of 3 cases stay inside D: parts are tiles between neighbouring cut
		// points (any order) and identical retransmissions
		sorted := append([]int64(nil), cuts...)
		sort.Slice(sorted, func(i, j int) bool { return sorted[i] < sorted[j] })
		var tiles [][2]int64
		for i := 0; i+1 < len(sorted); i++ {
			if sorted[i] < sorted[i+1] {
				tiles = append(tiles, [2]int64{sorted[i], sorted[i+1]})
			}
		}
		inD := r.Chance(2, 3)
		var parts [][2]int64
		for i := 0; i < n; i++ {
			var b, e int64
			switch {
			case inD:
				tl := tiles[r.Intn(len(tiles))]
				b, e = tl[0], tl[1]
			case len(parts) > 0 && r.Chance(1, 6): // identical retransmission
				p := parts[r.Intn(len(parts))]
				b, e = p[0], p[1]
			default:
				b, e = pick(), pick()
				if b > e && !r.Chance(1, 40) { // mostly well-formed
					b, e = e, b
				}
				if b == e && !r.Chance(1, 40) {
					e = b + 1 + r.I64n(3)
				}
			}
			parts = append(parts, [2]int64{b, e})
		}
		nq := 1 + r.Intn(6)
		var q [][2]int64
		for i := 0; i < nq; i++ {
			if r.Chance(1, 2) && len(parts) > 0 {
				p := parts[r.Intn(len(parts))]
				q = append(q, p)
				continue
			}
			b, e := pick(), pick()
			if b > e && !r.Chance(1, 20) {
				b, e = e, b
			}
			q = append(q, [2]int64{b, e})
		}
		verifRangesCase(w, size, parts, q)
	}
}
