package stage

// Crash-point driver for the receiver (C06). Needs the instrumented sources
// (every mutating os call in stage/, fileutil/, log/ goes through
// zzverif/verifos). For each scenario the k-th durable step of the whole run is
// enumerated: the world is frozen there, the directory tree is copied (= the
// image a process death would leave), a fresh Stage is started on the copy,
// Recover runs, and the sender-side resumption (partials listing -> missing
// ranges -> re-send -> poll) is played.
//
// line: S NOW nops IM <image> RS {resume ops} ST = - <snapshot> ... (suite S format)
//   image = nann {name hash contenthex prev}*  nparts {name datahex}* nfull {..}* nwait {..}*
//           ncmp {cmp}* nfinal {name datahex}* nflck {name datahex}* nlog {name renamed hash size time}*

import (
	"crypto/md5"
	"fmt"
	"os"
	"os/exec"
	"path/filepath"
	"sort"
	"strings"
	"sync"
	"testing"
	"time"

	"github.com/arm-doe/sts"
	"github.com/arm-doe/sts/log"
	"github.com/arm-doe/sts/mock"
	"github.com/arm-doe/sts/zzverif/gen"
	"github.com/arm-doe/sts/zzverif/verifos"
)

type vcScenario struct {
	files []vsFile
	ops   []vsOp // pre-crash protocol run (PR / RC / ST only)
}

func vcGen(r *gen.Rand) vcScenario {
	now := time.Now().Unix()
	names := []string{"a", "b", "d/a", "d/e/c", "g.1", "g.2"}
	nf := 1 + r.Intn(3)
	used := map[string]bool{}
	var sc vcScenario
	for i := 0; i < nf; i++ {
		n := names[r.Intn(len(names))]
		if used[n] {
			continue
		}
		used[n] = true
		size := 1 + r.Intn(12)
		c := make([]byte, size)
		for j := range c {
			c[j] = byte(1 + r.Intn(250))
		}
		f := vsFile{name: n, content: c, hash: fmt.Sprintf("%x", md5.Sum(c)), time: now - int64(r.Intn(3000))}
		if r.Chance(1, 4) {
			f.renamed = "r/" + strings.ReplaceAll(n, "/", "_")
		}
		if len(sc.files) > 0 && r.Chance(1, 2) {
			f.prev = sc.files[len(sc.files)-1].name
		}
		sc.files = append(sc.files, f)
	}
	sc.ops = append(sc.ops, vsOp{kind: "SQ", name: "warm/up", num: -3600})
	type tx struct {
		f    vsFile
		b, e int
	}
	var txs []tx
	for _, f := range sc.files {
		size := len(f.content)
		np := 1 + r.Intn(3)
		if np > size {
			np = size
		}
		cuts := map[int]bool{0: true, size: true}
		for len(cuts) < np+1 {
			cuts[1+r.Intn(size)] = true
		}
		var cs []int
		for c := range cuts {
			cs = append(cs, c)
		}
		sort.Ints(cs)
		for i := 0; i+1 < len(cs); i++ {
			txs = append(txs, tx{f, cs[i], cs[i+1]})
		}
	}
	if r.Chance(1, 2) {
		for i := len(txs) - 1; i > 0; i-- {
			j := r.Intn(i + 1)
			txs[i], txs[j] = txs[j], txs[i]
		}
	}
	// sometimes a complete duplicate of one file follows its last part directly (a retransmission
	// after a lost answer), possibly while the file is held for a predecessor that has not arrived
	if r.Chance(1, 3) && len(sc.files) > 0 {
		f := sc.files[r.Intn(len(sc.files))]
		last := -1
		for i, t := range txs {
			if t.f.name == f.name {
				last = i
			}
		}
		if last >= 0 {
			dup := tx{f, 0, len(f.content)}
			txs = append(txs[:last+1], append([]tx{dup}, txs[last+1:]...)...)
		}
	}
	for _, t := range txs {
		sc.ops = append(sc.ops, vsOp{kind: "PR", part: vsPart{name: t.f.name, size: int64(len(t.f.content))}})
		sc.ops = append(sc.ops, vsOp{kind: "RC", part: vsPart{name: t.f.name, renamed: t.f.renamed, prev: t.f.prev, hash: t.f.hash,
			size: int64(len(t.f.content)), beg: int64(t.b), end: int64(t.e), time: t.f.time}, data: append([]byte{}, t.f.content[t.b:t.e]...)})
	}
	return sc
}

// run the pre-crash ops against env e; returns true if the crash point fired
func vcRunUntilCrash(e *vsEnv, ctl *verifos.Controller, ops []vsOp) bool {
	for _, op := range ops {
		done := make(chan bool, 1)
		go func(op vsOp) {
			switch op.kind {
			case "SQ":
				e.st.GetFileStatus(op.name, time.Now().Add(time.Duration(op.num)*time.Second))
			case "PR":
				p := op.part
				e.st.Prepare([]sts.Binned{&p})
			case "RC":
				p := op.part
				file := &sts.Partial{Name: p.name, Renamed: p.renamed, Prev: p.prev, Size: p.size, Hash: p.hash, Source: "src",
					Parts: []*sts.ByteRange{{Beg: p.beg, End: p.end}}}
				file.Time.Time = time.Unix(p.time, 0)
				e.st.Receive(file, strings.NewReader(string(op.data)))
				if _, err := os.Stat(filepath.Join(e.stageDir, p.name+partExt)); err != nil {
					e.settleOr(ctl.Crashed)
				}
			}
			done <- true
		}(op)
		select {
		case <-done:
		case <-ctl.Crashed:
			return true
		case <-time.After(20 * time.Second):
			return false
		}
	}
	// the asynchronous tail (validation / finalisation of the last file)
	fin := make(chan bool, 1)
	go func() { e.settleOr(ctl.Crashed); fin <- true }()
	select {
	case <-ctl.Crashed:
		return true
	case <-fin:
		select {
		case <-ctl.Crashed:
			return true
		default:
			return false
		}
	}
}

// settleOr is settle() that gives up when the crash fired
func (e *vsEnv) settleOr(crashed chan bool) {
	doneCh := make(chan bool, 1)
	go func() { e.settle(); doneCh <- true }()
	select {
	case <-doneCh:
	case <-time.After(30 * time.Second):
	}
}

func vcHexFile(p string) string {
	b, _ := os.ReadFile(p)
	return vsHex(b)
}

func vcImage(e *vsEnv, sc vcScenario) string {
	var sb strings.Builder
	fmt.Fprintf(&sb, "%d", len(sc.files))
	for _, f := range sc.files {
		fmt.Fprintf(&sb, " %s %s %s %s %s", gen.Hex(f.name), gen.Hex(f.hash), vsHex(f.content), gen.Hex(f.prev), gen.Hex(f.renamed))
	}
	byExt := map[string][]string{}
	filepath.Walk(e.stageDir, func(p string, info os.FileInfo, err error) error {
		if err != nil || info.IsDir() {
			return nil
		}
		rel, _ := filepath.Rel(e.stageDir, p)
		ext := filepath.Ext(rel)
		switch ext {
		case partExt, fullExt, waitExt:
			byExt[ext] = append(byExt[ext], fmt.Sprintf("%s %s", gen.Hex(strings.TrimSuffix(rel, ext)), vcHexFile(p)))
		}
		return nil
	})
	for _, ext := range []string{partExt, fullExt, waitExt} {
		sort.Strings(byExt[ext])
		fmt.Fprintf(&sb, " %d", len(byExt[ext]))
		for _, x := range byExt[ext] {
			sb.WriteString(" " + x)
		}
	}
	sb.WriteString(" " + e.companions())
	var fin, lck []string
	filepath.Walk(e.finalDir, func(p string, info os.FileInfo, err error) error {
		if err != nil || info.IsDir() {
			return nil
		}
		rel, _ := filepath.Rel(e.finalDir, p)
		if strings.HasSuffix(rel, ".lck") {
			lck = append(lck, fmt.Sprintf("%s %s", gen.Hex(strings.TrimSuffix(rel, ".lck")), vcHexFile(p)))
		} else {
			fin = append(fin, fmt.Sprintf("%s %s", gen.Hex(rel), vcHexFile(p)))
		}
		return nil
	})
	sort.Strings(fin)
	sort.Strings(lck)
	fmt.Fprintf(&sb, " %d", len(fin))
	for _, x := range fin {
		sb.WriteString(" " + x)
	}
	fmt.Fprintf(&sb, " %d", len(lck))
	for _, x := range lck {
		sb.WriteString(" " + x)
	}
	var recs []string
	e.logger.Parse(func(name, renamed, hash string, size int64, t time.Time) bool {
		recs = append(recs, fmt.Sprintf("%s %s %s %d %d", gen.Hex(name), gen.Hex(renamed), gen.Hex(hash), size, t.Unix()))
		return false
	}, time.Now().Add(-48*time.Hour), time.Now().Add(time.Hour))
	fmt.Fprintf(&sb, " %d", len(recs))
	for _, x := range recs {
		sb.WriteString(" " + x)
	}
	return sb.String()
}

// after Recover: what a restarted sender would do
func vcResumeOps(e *vsEnv, sc vcScenario) []vsOp {
	var ops []vsOp
	for _, f := range sc.files {
		target := f.name
		if f.renamed != "" {
			target = f.renamed
		}
		if _, err := os.Stat(filepath.Join(e.finalDir, target)); err == nil {
			ops = append(ops, vsOp{kind: "SQ", name: f.name, num: -3600})
			continue
		}
		// status first (the sender polls what it believes sent), then the missing ranges
		ops = append(ops, vsOp{kind: "SQ", name: f.name, num: -3600})
		var have [][2]int64
		if c, _ := readLocalCompanion(filepath.Join(e.stageDir, f.name), f.name); c != nil && c.Hash == f.hash {
			for _, p := range c.Parts {
				have = append(have, [2]int64{p.Beg, p.End})
			}
		}
		if _, err := os.Stat(filepath.Join(e.stageDir, f.name+waitExt)); err == nil {
			continue // validated and held: nothing to send
		}
		if _, err := os.Stat(filepath.Join(e.stageDir, f.name+fullExt)); err == nil {
			continue
		}
		sort.Slice(have, func(i, j int) bool { return have[i][0] < have[j][0] })
		beg := int64(0)
		var missing [][2]int64
		for _, h := range have {
			if h[0] > beg {
				missing = append(missing, [2]int64{beg, h[0]})
			}
			if h[1] > beg {
				beg = h[1]
			}
		}
		if beg < int64(len(f.content)) {
			missing = append(missing, [2]int64{beg, int64(len(f.content))})
		}
		for _, m := range missing {
			ops = append(ops, vsOp{kind: "PR", part: vsPart{name: f.name, size: int64(len(f.content))}})
			ops = append(ops, vsOp{kind: "RC", part: vsPart{name: f.name, renamed: f.renamed, prev: f.prev, hash: f.hash,
				size: int64(len(f.content)), beg: m[0], end: m[1], time: f.time}, data: append([]byte{}, f.content[m[0]:m[1]]...)})
		}
	}
	ops = append(ops, vsOp{kind: "ST"})
	for _, f := range sc.files {
		ops = append(ops, vsOp{kind: "SQ", name: f.name, num: -3600})
	}
	ops = append(ops, vsOp{kind: "SC"}, vsOp{kind: "ST"})
	return ops
}

func vcOne(tmp string, id string, sc vcScenario, k int) (string, int, []string) {
	root := filepath.Join(tmp, "cr"+id)
	img := filepath.Join(tmp, "im"+id)
	os.RemoveAll(root)
	os.RemoveAll(img)
	defer os.RemoveAll(root)
	defer os.RemoveAll(img)
	e := &vsEnv{root: root, stageDir: filepath.Join(root, "stage"), finalDir: filepath.Join(root, "final"), logDir: filepath.Join(root, "log")}
	os.MkdirAll(e.stageDir, 0o755)
	os.MkdirAll(e.finalDir, 0o755)
	ctl := &verifos.Controller{Prefix: root + string(os.PathSeparator), Target: k}
	ctl.OnCrash = func() {
		exec.Command("cp", "-a", root, img).Run()
	}
	verifos.Arm(ctl)
	defer verifos.Disarm(ctl)
	e.newStage()
	crashed := vcRunUntilCrash(e, ctl, sc.ops)
	if e.st.cleanTimeout != nil {
		e.st.cleanTimeout.Stop()
	}
	if k == 0 || !crashed {
		return "", ctl.Count, ctl.Trace
	}
	// ---- restart on the image -------------------------------------------------
	e2 := &vsEnv{root: img, stageDir: filepath.Join(img, "stage"), finalDir: filepath.Join(img, "final"), logDir: filepath.Join(img, "log")}
	os.MkdirAll(e2.stageDir, 0o755)
	os.MkdirAll(e2.finalDir, 0o755)
	// a retransmission of a version that is already in the receive log was on the stage when the process died
	dupInFlight := false
	{
		var logText strings.Builder
		filepath.Walk(e2.logDir, func(p string, info os.FileInfo, err error) error {
			if err == nil && !info.IsDir() {
				b, _ := os.ReadFile(p)
				logText.Write(b)
			}
			return nil
		})
		filepath.Walk(e2.stageDir, func(p string, info os.FileInfo, err error) error {
			if err == nil && !info.IsDir() && filepath.Ext(p) == compExt {
				if c, err := readLocalCompanion(strings.TrimSuffix(p, compExt), ""); err == nil && c != nil && c.Hash != "" &&
					strings.Contains(logText.String(), ":"+c.Hash+":") {
					dupInFlight = true
				}
			}
			return nil
		})
	}
	aged := k%3 == 0 || (dupInFlight && k%2 == 0)
	if dupInFlight && k%2 == 1 {
		// the retransmission came two days after the delivery, and the process died while it was on the stage:
		// the partials are fresh, the record of the delivery is two days old
		vsAgeLogDir(e2.logDir, 48*time.Hour)
		// (a consistent world: the file that was delivered two days ago was written before that)
		filepath.Walk(e2.stageDir, func(p string, info os.FileInfo, err error) error {
			if err == nil && !info.IsDir() && filepath.Ext(p) == compExt {
				if c, err := readLocalCompanion(strings.TrimSuffix(p, compExt), ""); err == nil && c != nil {
					c.Time.Time = c.Time.Add(-48 * time.Hour)
					writeCompanion(strings.TrimSuffix(p, compExt), c)
				}
			}
			return nil
		})
	} else if k%6 == 0 || (dupInFlight && k%2 == 0) {
		// ... and in every sixth (and in half of those with a retransmission in flight) the process died two
		// days ago: what it had logged dates from then too
		vsAgeLogDir(e2.logDir, 48*time.Hour)
	}
	e2.logger = log.NewFileIO(e2.logDir, nil, nil, false)
	if aged {
		// in every third crash image the unfinished transfers had been stalled for a while when the
		// process died: their partials and companions date from an earlier day, at a LATER time of day
		// than the restart (the range of log days read back at start-up begins there)
		nowT := time.Now().UTC()
		midnight := time.Date(nowT.Year(), nowT.Month(), nowT.Day(), 0, 0, 0, 0, time.UTC).Add(24 * time.Hour)
		old := nowT.Add(-48 * time.Hour).Add(midnight.Sub(nowT) / 2)
		filepath.Walk(e2.stageDir, func(p string, info os.FileInfo, err error) error {
			if err == nil && !info.IsDir() && (filepath.Ext(p) == compExt || filepath.Ext(p) == partExt) {
				os.Chtimes(p, old, old)
			}
			return nil
		})
	}
	image := vcImage(e2, sc)
	var w strings.Builder
	now := time.Now().Unix()
	e2.st = New("src", e2.stageDir, e2.finalDir, e2.logger, nil, nil)
	oldestCmp := vsOldestCmp(e2.stageDir)
	e2.st.Recover()
	e2.settle()
	snapRS := fmt.Sprintf("%d %s", oldestCmp, e2.snapshot())
	resume := vcResumeOps(e2, sc)
	fmt.Fprintf(&w, "S %d %d IM %s RS", now, 2+len(resume), image)
	var outs strings.Builder
	outs.WriteString(" - " + snapRS)
	for _, op := range resume {
		switch op.kind {
		case "PR":
			p := op.part
			fmt.Fprintf(&w, " PR %s %d", gen.Hex(p.name), p.size)
			e2.st.Prepare([]sts.Binned{&p})
			outs.WriteString(" -")
		case "RC":
			p := op.part
			fmt.Fprintf(&w, " RC %s %s %s %d %s %d %d %d %s 0", gen.Hex(p.name), gen.Hex(p.renamed), gen.Hex(p.prev), p.size, gen.Hex(p.hash), p.beg, p.end, p.time, vsHex(op.data))
			file := &sts.Partial{Name: p.name, Renamed: p.renamed, Prev: p.prev, Size: p.size, Hash: p.hash, Source: "src",
				Parts: []*sts.ByteRange{{Beg: p.beg, End: p.end}}}
			file.Time.Time = time.Unix(p.time, 0)
			if err := e2.st.Receive(file, strings.NewReader(string(op.data))); err != nil {
				outs.WriteString(" 0")
			} else {
				outs.WriteString(" 1")
			}
			if _, err := os.Stat(filepath.Join(e2.stageDir, p.name+partExt)); err != nil {
				e2.settle()
			}
		case "SQ":
			fmt.Fprintf(&w, " SQ %s %d", gen.Hex(op.name), op.num)
			fmt.Fprintf(&outs, " %d", e2.st.GetFileStatus(op.name, time.Unix(now+op.num, 0)))
		case "SC":
			w.WriteString(" SC")
			b, _ := e2.st.Scan("1")
			cs, _ := ReadCompanions(strings.NewReader(string(b)))
			var out []string
			for _, c := range cs {
				out = append(out, vsCmpString(c))
			}
			sort.Strings(out)
			fmt.Fprintf(&outs, " %d %s", len(out), strings.Join(out, " "))
		case "ST":
			w.WriteString(" ST")
			e2.settle()
			outs.WriteString(" " + e2.snapshot())
		}
	}
	if e2.st.cleanTimeout != nil {
		e2.st.cleanTimeout.Stop()
	}
	return w.String() + " =" + outs.String() + "\n", ctl.Count, ctl.Trace
}

func TestVerifCrash(t *testing.T) {
	w, done, ok := gen.Out()
	if !ok {
		t.Skip("VERIF_OUT not set")
	}
	defer done()
	log.InitExternal(&mock.Logger{DebugMode: false})
	tmp := os.Getenv("VERIF_TMP")
	if tmp == "" {
		tmp = t.TempDir()
	}
	root := gen.New(gen.Seed() ^ 0xC06)
	N := gen.EnvInt("VERIF_CRASH_SCENARIOS", 10)
	if gen.Thorough() {
		N = gen.EnvInt("VERIF_CRASH_SCENARIOS", 80)
	}
	var mu sync.Mutex
	var wg sync.WaitGroup
	sem := make(chan bool, gen.EnvInt("VERIF_CRASH_PAR", 8))
	kinds := map[string]int{}
	// VERIF_CRASH_ONLY="c:k c:k ..." : only these crash points (scenario index : durable step), for confirmation runs
	only := map[string]bool{}
	for _, x := range strings.Fields(os.Getenv("VERIF_CRASH_ONLY")) {
		only[x] = true
	}
	for c := 0; c < N; c++ {
		sc := vcGen(root.Sub(uint64(c)))
		total := 0
		if len(only) == 0 {
			var trace []string
			_, total, trace = vcOne(tmp, fmt.Sprintf("%d_0", c), sc, 0)
			for _, tr := range trace {
				kinds[strings.Fields(tr)[0]]++
			}
		} else {
			for x := range only {
				var cc, kk int
				if n, _ := fmt.Sscanf(x, "%d:%d", &cc, &kk); n == 2 && cc == c && kk > total {
					total = kk
				}
			}
			total -= 2
		}
		for k := 1; k <= total+2; k++ {
			if len(only) > 0 && !only[fmt.Sprintf("%d:%d", c, k)] {
				continue
			}
			wg.Add(1)
			sem <- true
			go func(c, k int) {
				defer wg.Done()
				defer func() { <-sem }()
				line, _, _ := vcOne(tmp, fmt.Sprintf("%d_%d", c, k), sc, k)
				if line != "" {
					mu.Lock()
					fmt.Fprintf(w, "# crash %d:%d\n", c, k)
					w.WriteString(line)
					mu.Unlock()
				}
			}(c, k)
		}
	}
	wg.Wait()
	var ks []string
	for k, n := range kinds {
		ks = append(ks, fmt.Sprintf("%s=%d", k, n))
	}
	sort.Strings(ks)
	fmt.Fprintf(w, "# crash-point kinds (dry runs): %s\n", strings.Join(ks, " "))
}
