package payload

// Driver for the payload wire format (C13), in memory: the REAL Bin.Add /
// EncodeHeader / Encoder.Read on the sending side and the REAL NewDecoder /
// Decoder.Next / PartDecoder.Read on the receiving side, connected by a byte
// stream that is cut at a chosen point, handed out in chunks of a chosen size,
// and announced with a chosen header length.
//
// line: W sep nparts {name ren prev hash sec nsec size beg end data}*nparts rb1 rb2 rb3 cut delta
//       = hdr bodylen bodymd5 status ndec {name ren prev hash sec nsec size beg end gotlen gotmd5 complete}*ndec
//   sep   0 | 47 | 92 : value of the separator header (none, '/', '\')
//   data  g<seed> : the bytes [beg,end) of the file are generated from the seed
//   rb1   buffer size used to read the Encoder; rb2 chunk size of the stream the
//         decoder reads; rb3 buffer size used to read each part
//   cut   -1 | number of bytes of the wire (header+body) that arrive
//   delta announced header length = len(header) + delta
//   status: ok | hdrerr | hang (NewDecoder did not return within 3 s)
// Strings are hex (gen.Hex).

import (
	"bufio"
	"bytes"
	"crypto/md5"
	"fmt"
	"io"
	"os"
	"strconv"
	"strings"
	"testing"
	"time"
	"unicode/utf8"

	"github.com/arm-doe/sts"
	"github.com/arm-doe/sts/log"
	"github.com/arm-doe/sts/mock"
	"github.com/arm-doe/sts/zzverif/gen"
)

type vwFile struct {
	name, ren, prev, hash string
	sec, nsec             int64
	size, beg, end        int64
	seed                  int
	alloc                 bool
}

func (f *vwFile) GetPath() string              { return "/mem/" + f.name }
func (f *vwFile) GetName() string              { return f.name }
func (f *vwFile) GetSize() int64               { return f.size }
func (f *vwFile) GetTime() time.Time           { return time.Unix(f.sec, f.nsec) }
func (f *vwFile) GetMeta() []byte              { return nil }
func (f *vwFile) GetHash() string              { return f.hash }
func (f *vwFile) GetPrev() string              { return f.prev }
func (f *vwFile) GetSlice() (int64, int64)     { return f.beg, f.end - f.beg }
func (f *vwFile) GetSendSize() int64           { return f.size }
func (f *vwFile) GetNextAlloc() (int64, int64) { return f.beg, f.end }
func (f *vwFile) AddAlloc(int64)               { f.alloc = true }
func (f *vwFile) IsAllocated() bool            { return f.alloc }

// VwByte is the content generator shared with the model-side glue.
func VwByte(seed int, i int64) byte { return byte(int64(seed)*131 + i*7 + i/251) }

type vwReadable struct {
	f   *vwFile
	pos int64
	max int // at most this many bytes per Read (a reader that returns short reads)
}

func (r *vwReadable) Read(p []byte) (int, error) {
	if r.pos >= r.f.size {
		return 0, io.EOF
	}
	n := len(p)
	if r.max > 0 && n > r.max {
		n = r.max
	}
	if int64(n) > r.f.size-r.pos {
		n = int(r.f.size - r.pos)
	}
	for i := 0; i < n; i++ {
		p[i] = VwByte(r.f.seed, r.pos+int64(i))
	}
	r.pos += int64(n)
	return n, nil
}
func (r *vwReadable) Seek(off int64, whence int) (int64, error) { r.pos = off; return off, nil }
func (r *vwReadable) Close() error                              { return nil }

// chunked hands out at most n bytes per Read
type vwChunked struct {
	r io.Reader
	n int
}

func (c *vwChunked) Read(p []byte) (int, error) {
	if len(p) > c.n {
		p = p[:c.n]
	}
	return c.r.Read(p)
}

func vwMD5(b []byte) string { return fmt.Sprintf("%x", md5.Sum(b)) }

type vwCase struct {
	sep           int
	files         []*vwFile
	rb1, rb2, rb3 int
	cut, delta    int
}

func verifWireCase(w *bufio.Writer, c vwCase) {
	verifWireCaseBin(w, c, nil)
}

// verifWireCaseBin: with a bin that has been used before (encoded, then changed by Remove / Split):
// c.files lists the parts the bin reports NOW, in its order
func verifWireCaseBin(w *bufio.Writer, c vwCase, used *Bin) {
	fmt.Fprintf(w, "W %d %d", c.sep, len(c.files))
	for _, f := range c.files {
		fmt.Fprintf(w, " %s %s %s %s %d %d %d %d %d g%d", gen.Hex(f.name), gen.Hex(f.ren), gen.Hex(f.prev), gen.Hex(f.hash),
			f.sec, f.nsec, f.size, f.beg, f.end, f.seed)
	}
	fmt.Fprintf(w, " %d %d %d %d %d =", c.rb1, c.rb2, c.rb3, c.cut, c.delta)
	// ---- sender ----
	opener := func(f sts.File) (sts.Readable, error) {
		return &vwReadable{f: f.(*vwFile), max: 1 + c.rb1/3}, nil
	}
	renamer := func(f sts.File) string { return f.(*vwFile).ren }
	bin := used
	if bin == nil {
		bin = NewBin(1<<40, opener, renamer).(*Bin)
		for _, f := range c.files {
			f.alloc = false
			if !bin.Add(f) {
				panic("part not added")
			}
		}
	}
	hdr, err := bin.EncodeHeader()
	if err != nil {
		panic(err)
	}
	enc := bin.GetEncoder()
	var body []byte
	buf := make([]byte, c.rb1)
	for {
		n, err := enc.Read(buf)
		body = append(body, buf[:n]...)
		if err != nil {
			break
		}
		if len(body) > 1<<26 {
			panic("encoder does not end")
		}
	}
	enc.Close()
	fmt.Fprintf(w, " %s %d %s", gen.Hex(string(hdr)), len(body), vwMD5(body))
	// ---- the wire ----
	wire := append(append([]byte{}, hdr...), body...)
	if c.cut >= 0 && c.cut < len(wire) {
		wire = wire[:c.cut]
	}
	sep := ""
	if c.sep != 0 {
		sep = string(rune(c.sep))
	}
	// ---- receiver ----
	type res struct {
		dec sts.PayloadDecoder
		err error
	}
	ch := make(chan res, 1)
	stream := &vwChunked{r: bytes.NewReader(wire), n: c.rb2}
	go func() {
		d, err := NewDecoder(len(hdr)+c.delta, sep, stream)
		ch <- res{d, err}
	}()
	var r res
	select {
	case r = <-ch:
	case <-time.After(3 * time.Second):
		fmt.Fprintf(w, " hang 0\n")
		return
	}
	if r.err != nil {
		fmt.Fprintf(w, " hdrerr 0\n")
		return
	}
	parts := r.dec.GetParts()
	var out []string
	for i := 0; ; i++ {
		next, eof := r.dec.Next()
		if eof {
			break
		}
		p := parts[i]
		beg, end := p.GetSlice()
		var got []byte
		pb := make([]byte, c.rb3)
		for {
			n, err := next.Read(pb)
			got = append(got, pb[:n]...)
			if err != nil {
				break
			}
			if n == 0 && end-beg > 0 && len(got) > 1<<26 {
				break
			}
		}
		complete := 0
		if int64(len(got)) == end-beg {
			complete = 1
		}
		out = append(out, fmt.Sprintf("%s %s %s %s %d %d %d %d %d %d %s %d", gen.Hex(p.GetName()), gen.Hex(p.GetRenamed()), gen.Hex(p.GetPrev()),
			gen.Hex(p.GetFileHash()), p.GetFileTime().Unix(), p.GetFileTime().Nanosecond(), p.GetFileSize(), beg, end, len(got), vwMD5(got), complete))
		if complete == 0 {
			break // the request ends at the first short part (Stage.Receive refuses it)
		}
	}
	fmt.Fprintf(w, " ok %d", len(out))
	for _, o := range out {
		fmt.Fprintf(w, " %s", o)
	}
	fmt.Fprintln(w)
}

var vwAlphabet = []string{"a", "b", "Z", "0", "_", "-", ".", " ", "é", "日", "本", "\U0001F600", "\\", "\"", "<", ">", "&", "'", "\x01", "\n", "\t", "\b", "\f", "\r",
	" ", " ", "\x7f", "+", ":", "%", "{", "}", "[", "]", ",", " ", "ࠀ", "￿", "ß", "\x1f", "=", "u", "\\u0041", "\\n"}

func vwSeg(r *gen.Rand) string {
	n := 1 + r.Intn(6)
	var sb strings.Builder
	for i := 0; i < n; i++ {
		sb.WriteString(vwAlphabet[r.Intn(len(vwAlphabet))])
	}
	s := sb.String()
	if s == "." || s == ".." {
		s = "x" + s
	}
	return s
}

// a name of 1..4 segments in the sender's convention; segments never contain the
// sender's separator nor '/'
func vwName(r *gen.Rand, sepc int) string {
	k := 1 + r.Intn(4)
	var segs []string
	for i := 0; i < k; i++ {
		s := vwSeg(r)
		s = strings.ReplaceAll(s, "/", "_")
		if sepc == 92 {
			s = strings.ReplaceAll(s, "\\", "_")
		}
		segs = append(segs, s)
	}
	sep := "/"
	if sepc == 92 {
		sep = "\\"
	}
	return strings.Join(segs, sep)
}

func vwGen(r *gen.Rand) vwCase {
	c := vwCase{sep: []int{47, 47, 92, 0}[r.Intn(4)], cut: -1}
	np := 1 + r.Intn(5)
	if r.Chance(1, 12) {
		np = 6 + r.Intn(30)
	}
	for i := 0; i < np; i++ {
		f := &vwFile{seed: 1 + r.Intn(250)}
		f.name = vwName(r, c.sep)
		if r.Chance(1, 3) {
			f.ren = vwName(r, 47)
		}
		if r.Chance(1, 2) {
			f.prev = vwName(r, c.sep)
		}
		f.hash = fmt.Sprintf("%032x", r.U64())
		f.sec = []int64{0, 1, 1700000000, 1700000000 + int64(r.Intn(1e6)), -5, 253402300799, -62135596800, 1 << 40}[r.Intn(8)]
		f.nsec = []int64{0, 1, 999999999, int64(r.Intn(1e9)), 100000000, 10}[r.Intn(6)]
		ln := int64(1 + r.Intn(40))
		switch r.Intn(12) {
		case 0:
			ln = 1
		case 1:
			ln = int64(200 + r.Intn(4000))
		case 2:
			if np <= 3 {
				ln = int64(30000 + r.Intn(50000)) // larger than io.Copy's buffer
			}
		}
		switch r.Intn(4) {
		case 0: // whole file
			f.beg, f.end, f.size = 0, ln, ln
		case 1: // slice at the start
			f.beg, f.end, f.size = 0, ln, ln+int64(1+r.Intn(1000))
		case 2: // slice in the middle
			f.beg = int64(1 + r.Intn(5000))
			f.end = f.beg + ln
			f.size = f.end + int64(1+r.Intn(1000))
		default: // slice at the end
			f.beg = int64(1 + r.Intn(5000))
			f.end = f.beg + ln
			f.size = f.end
		}
		if i > 0 && r.Chance(1, 4) {
			// another slice of the SAME file as the part before it, not adjacent to it (holes filled after an
			// interrupted transfer; parts swapped by Remove): same name, version and content, other range
			p := c.files[i-1]
			var nb, ne int64 = -1, -1
			if p.beg >= 2 && r.Chance(1, 2) {
				ne = 1 + int64(r.Intn(int(p.beg-1))) // ends before the previous part begins, with a gap
				nb = int64(r.Intn(int(ne)))
			} else if p.end+1 < p.size {
				nb = p.end + 1 + int64(r.Intn(int(p.size-p.end-1)))
				ne = nb + 1 + int64(r.Intn(int(p.size-nb)))
			}
			if nb >= 0 && ne > nb && ne <= p.size && ne-nb <= 5000 {
				cp := *p
				f = &cp
				f.alloc = false
				f.beg, f.end = nb, ne
			}
		}
		if r.Chance(1, 30) {
			f.beg += 1 << 33 // offsets beyond 32 bits
			f.end += 1 << 33
			f.size += 1 << 33
		}
		c.files = append(c.files, f)
	}
	sizes := []int{1, 2, 3, 7, 16, 64, 511, 512, 4096, 32768, 100000}
	c.rb1, c.rb2, c.rb3 = sizes[r.Intn(len(sizes))], sizes[r.Intn(len(sizes))], sizes[r.Intn(len(sizes))]
	for _, f := range c.files {
		if f.end-f.beg > 5000 {
			// the model's reader works in unary arithmetic: no byte-wise reads of large parts
			if c.rb2 < 511 {
				c.rb2 = 511
			}
			if c.rb3 < 511 {
				c.rb3 = 512
			}
		}
	}
	return c
}

func vwParse(f []string) (vwCase, bool) {
	// f[0] = "W"
	atoi := func(s string) int { v, _ := strconv.Atoi(s); return v }
	atoi64 := func(s string) int64 { v, _ := strconv.ParseInt(s, 10, 64); return v }
	if len(f) < 3 {
		return vwCase{}, false
	}
	c := vwCase{sep: atoi(f[1])}
	n := atoi(f[2])
	i := 3
	for k := 0; k < n; k++ {
		if i+10 > len(f) {
			return c, false
		}
		c.files = append(c.files, &vwFile{name: gen.Unhex(f[i]), ren: gen.Unhex(f[i+1]), prev: gen.Unhex(f[i+2]), hash: gen.Unhex(f[i+3]),
			sec: atoi64(f[i+4]), nsec: atoi64(f[i+5]), size: atoi64(f[i+6]), beg: atoi64(f[i+7]), end: atoi64(f[i+8]), seed: atoi(strings.TrimPrefix(f[i+9], "g"))})
		i += 10
	}
	if i+5 > len(f) {
		return c, false
	}
	c.rb1, c.rb2, c.rb3, c.cut, c.delta = atoi(f[i]), atoi(f[i+1]), atoi(f[i+2]), atoi(f[i+3]), atoi(f[i+4])
	return c, true
}

func TestVerifWire(t *testing.T) {
	w, done, ok := gen.Out()
	if !ok {
		t.Skip("VERIF_OUT not set")
	}
	defer done()
	log.InitExternal(&mock.Logger{DebugMode: false})
	_ = os.Getenv
	if lines := gen.Replay(); lines != nil {
		for _, l := range lines {
			if c, ok := vwParse(strings.Fields(l)); ok {
				verifWireCase(w, c)
			}
		}
		return
	}
	n := gen.EnvInt("VERIF_N", 400)
	base := gen.New(gen.Seed() ^ 0xC13)
	hangs := 0
	for i := 0; i < n; i++ {
		r := base.Sub(uint64(i))
		c := vwGen(r)
		for _, f := range c.files {
			if !utf8.ValidString(f.name + f.ren + f.prev) {
				panic("generator produced invalid UTF-8")
			}
		}
		verifWireCase(w, c) // the undisturbed round trip
		// the same payload object used again after the sender dropped a part (a file that changed or
		// vanished between attempts) or split off the acknowledged head: header and body of the retry
		// must describe the parts the payload holds NOW
		if len(c.files) >= 2 && r.Chance(1, 2) {
			opener := func(f sts.File) (sts.Readable, error) { return &vwReadable{f: f.(*vwFile), max: 1 + c.rb1/3}, nil }
			renamer := func(f sts.File) string { return f.(*vwFile).ren }
			bin := NewBin(1<<40, opener, renamer).(*Bin)
			for _, f := range c.files {
				f.alloc = false
				bin.Add(f)
			}
			bin.EncodeHeader() // first attempt / recovery request
			if e := bin.GetEncoder(); e != nil {
				io.Copy(io.Discard, e)
				e.Close()
			}
			var after *Bin
			if r.Chance(1, 2) {
				ps := bin.GetParts()
				bin.Remove(ps[r.Intn(len(ps))])
				after = bin
			} else {
				k := 1 + r.Intn(len(c.files)-1)
				tail := bin.Split(k)
				if r.Chance(1, 2) || tail == nil {
					after = bin
				} else {
					after = tail.(*Bin)
				}
			}
			cc := c
			cc.files = nil
			for _, p := range after.GetParts() {
				cc.files = append(cc.files, p.(*part).Binnable.(*vwFile))
			}
			if len(cc.files) > 0 {
				verifWireCaseBin(w, cc, after)
			}
		}
		// every case again with the wire cut: inside the header, at the header/body
		// boundary, inside / between parts, one byte short
		hdrLen := vwHeaderLen(c)
		total := hdrLen
		for _, f := range c.files {
			total += int(f.end - f.beg)
		}
		cuts := []int{0, 1 + r.Intn(hdrLen), hdrLen - 1, hdrLen, hdrLen + r.Intn(total-hdrLen+1), total - 1}
		first := hdrLen + int(c.files[0].end-c.files[0].beg)
		if first < total {
			cuts = append(cuts, first, first+1)
		}
		for _, k := range cuts {
			if k < 0 || k >= total {
				continue
			}
			cc := c
			cc.cut = k
			if k < hdrLen {
				hangs++
				if hangs > gen.EnvInt("VERIF_WIRE_HDRCUTS", 40) {
					continue // each costs 3 s on a tree where the decoder hangs
				}
			}
			verifWireCase(w, cc)
		}
		// the announced header length is wrong
		if r.Chance(1, 4) {
			cc := c
			cc.delta = -(1 + r.Intn(hdrLen-1))
			hangs++
			if hangs <= gen.EnvInt("VERIF_WIRE_HDRCUTS", 40) {
				verifWireCase(w, cc)
			}
		}
		if r.Chance(1, 4) && total > hdrLen {
			cc := c
			cc.delta = 1 + r.Intn(total-hdrLen)
			verifWireCase(w, cc)
		}
	}
}

func vwHeaderLen(c vwCase) int {
	bin := NewBin(1<<40, nil, func(f sts.File) string { return f.(*vwFile).ren }).(*Bin)
	for _, f := range c.files {
		f.alloc = false
		bin.Add(f)
	}
	h, _ := bin.EncodeHeader()
	return len(h)
}
