package client

// White-box driver for the send loop (C08): the REAL startSend /
// handleSendError / payload.Bin.Split / Remove against a scripted network.
//
// line: T nparts nev {X n ok | R n ok | C k ids..}*nev = nreq {len ids..}* nfwd {len ids..}*

import (
	"bufio"
	"encoding/json"
	"errors"
	"fmt"
	"strings"
	"sync"
	"testing"
	"time"

	"github.com/alecthomas/units"
	"github.com/arm-doe/sts"
	"github.com/arm-doe/sts/log"
	"github.com/arm-doe/sts/mock"
	"github.com/arm-doe/sts/payload"
	"github.com/arm-doe/sts/zzverif/gen"
)

type vtEv struct {
	kind string // X R C
	n    int
	ok   bool
	ids  []int
}

type vtSendable struct {
	vFile
}

func (s *vtSendable) GetPrev() string            { return "" }
func (s *vtSendable) GetSlice() (int64, int64)   { return 0, s.size }
func (s *vtSendable) GetSendSize() int64         { return s.size }

type vtStore struct {
	vStore
	changed map[string]bool
	mu      sync.Mutex
}

func (s *vtStore) Sync(f sts.File) (sts.File, error) {
	s.mu.Lock()
	defer s.mu.Unlock()
	if s.changed[f.GetName()] {
		return f, nil // "changed": a non-nil file
	}
	return nil, nil
}

func vtIDs(p sts.Payload) []int {
	var ids []int
	for _, part := range p.GetParts() {
		var id int
		fmt.Sscanf(part.GetName(), "p%d", &id)
		ids = append(ids, id)
	}
	return ids
}

func verifSendCase(w *bufio.Writer, nparts int, evs []vtEv) {
	fmt.Fprintf(w, "T %d %d", nparts, len(evs))
	for _, e := range evs {
		ok := 0
		if e.ok {
			ok = 1
		}
		switch e.kind {
		case "C":
			fmt.Fprintf(w, " C %d", len(e.ids))
			for _, id := range e.ids {
				fmt.Fprintf(w, " %d", id)
			}
		default:
			fmt.Fprintf(w, " %s %d %d", e.kind, e.n, ok)
		}
	}
	fmt.Fprint(w, " =")
	cache := &vCache{files: map[string]*vFile{}}
	store := &vtStore{changed: map[string]bool{}}
	bin := payload.NewBin(1<<30, store.GetOpener(), nil)
	for i := 0; i < nparts; i++ {
		name := fmt.Sprintf("p%d", i)
		vf := &vFile{name: name, size: int64(1 + i%3), time: time.Unix(1700000000, 0), hash: "h"}
		cache.files[name] = vf
		cache.order = append(cache.order, name)
		bin.Add(&binnable{Sendable: &vtSendable{*vf}})
	}
	var mu sync.Mutex
	var reqs, fwds [][]int
	hdrMismatch := 0
	// what goes out on the wire is the header (EncodeHeader) followed by the parts' bytes (GetParts): the
	// two must describe the same parts, on the first attempt and on every retry and recovery request
	checkHeader := func(p sts.Payload) {
		hdr, err := p.EncodeHeader()
		if err != nil {
			hdrMismatch++
			return
		}
		var ents []struct {
			N string `json:"n"`
		}
		if err := json.Unmarshal(hdr, &ents); err != nil {
			hdrMismatch++
			return
		}
		ids := vtIDs(p)
		same := len(ents) == len(ids)
		for i := 0; same && i < len(ents); i++ {
			same = ents[i].N == fmt.Sprintf("p%d", ids[i])
		}
		if !same {
			hdrMismatch++
		}
	}
	pos := 0
	next := func(kind string) (vtEv, bool) {
		for pos < len(evs) && evs[pos].kind == "C" {
			pos++ // "changed" events were applied to the store when the failing request was made
		}
		if pos < len(evs) && evs[pos].kind == kind {
			e := evs[pos]
			pos++
			return e, true
		}
		return vtEv{}, false
	}
	broker := &Broker{
		Conf: &Conf{
			Name: "verif", Store: store, Cache: cache, Threads: 1, PayloadSize: units.Base2Bytes(1 << 30),
			Transmitter: func(p sts.Payload) (int, error) {
				mu.Lock()
				defer mu.Unlock()
				reqs = append(reqs, vtIDs(p))
				checkHeader(p)
				e, ok := next("X")
				if !ok {
					return len(p.GetParts()), nil // script exhausted: succeed
				}
				// the "changed" set of the following C event applies to the check after this failure
				if pos < len(evs) {
					for j := pos; j < len(evs) && evs[j].kind != "X"; j++ {
						if evs[j].kind == "C" {
							store.mu.Lock()
							store.changed = map[string]bool{}
							for _, id := range evs[j].ids {
								store.changed[fmt.Sprintf("p%d", id)] = true
							}
							store.mu.Unlock()
							break
						}
					}
				}
				if e.ok {
					return e.n, nil
				}
				return e.n, errors.New("scripted send failure")
			},
			TxRecoverer: func(p sts.Payload) (int, error) {
				mu.Lock()
				defer mu.Unlock()
				checkHeader(p)
				e, ok := next("R")
				if !ok {
					return 0, nil
				}
				if e.ok {
					return e.n, nil
				}
				return 0, errors.New("scripted recovery failure")
			},
		},
		tagMap: map[string]*FileTag{},
	}
	broker.throughput = &throughputMonitor{}
	broker.chTransmit = make(chan sts.Payload, 1)
	broker.chTransmitted = make(chan sts.Payload, 64)
	broker.chStats = make(chan sts.Payload, 64)
	var wg sync.WaitGroup
	wg.Add(1)
	go broker.startSend(&wg)
	broker.chTransmit <- bin
	close(broker.chTransmit)
	wg.Wait()
	close(broker.chTransmitted)
	for p := range broker.chTransmitted {
		fwds = append(fwds, vtIDs(p))
	}
	// consume the C event the loop skipped through (the model consumes it explicitly)
	fmt.Fprintf(w, " %d", len(reqs))
	for _, r := range reqs {
		fmt.Fprintf(w, " %d", len(r))
		for _, id := range r {
			fmt.Fprintf(w, " %d", id)
		}
	}
	fmt.Fprintf(w, " %d", len(fwds))
	for _, r := range fwds {
		fmt.Fprintf(w, " %d", len(r))
		for _, id := range r {
			fmt.Fprintf(w, " %d", id)
		}
	}
	fmt.Fprintf(w, " H %d", hdrMismatch)
	fmt.Fprintln(w)
}

func TestVerifSend(t *testing.T) {
	w, done, ok := gen.Out()
	if !ok {
		t.Skip("VERIF_OUT not set")
	}
	defer done()
	log.InitExternal(&mock.Logger{DebugMode: false})
	if lines := gen.Replay(); lines != nil {
		for _, l := range lines {
			f := strings.Fields(l)
			if len(f) < 3 || f[0] != "T" {
				continue
			}
			i := 1
			num := func() int { var v int; fmt.Sscan(f[i], &v); i++; return v }
			np := num()
			ne := num()
			var evs []vtEv
			for k := 0; k < ne; k++ {
				kind := f[i]
				i++
				if kind == "C" {
					n := num()
					e := vtEv{kind: "C"}
					for j := 0; j < n; j++ {
						e.ids = append(e.ids, num())
					}
					evs = append(evs, e)
				} else {
					n := num()
					evs = append(evs, vtEv{kind: kind, n: n, ok: num() == 1})
				}
			}
			verifSendCase(w, np, evs)
		}
		return
	}
	// exhaustive: every failure position of every payload size 1..5, each failure kind
	for np := 1; np <= 5; np++ {
		for k := 0; k <= np+1; k++ {
			// 206 with k reported (k = 0 is "no count": the loop then asks the recovery route)
			if k > 0 {
				verifSendCase(w, np, []vtEv{{kind: "X", n: k}, {kind: "C"}, {kind: "X", n: np, ok: true}})
			}
			// error without count, recovery reports k (after 0..2 failed recovery requests)
			for rf := 0; rf <= 2; rf++ {
				evs := []vtEv{{kind: "X", n: 0}}
				for j := 0; j < rf; j++ {
					evs = append(evs, vtEv{kind: "R"})
				}
				evs = append(evs, vtEv{kind: "R", n: k, ok: true}, vtEv{kind: "C"}, vtEv{kind: "X", n: np, ok: true})
				verifSendCase(w, np, evs)
			}
		}
	}
	root := gen.New(gen.Seed() ^ 0xC08)
	N := gen.EnvInt("VERIF_SEND_RANDOM", 3000)
	if gen.Thorough() {
		N = gen.EnvInt("VERIF_SEND_RANDOM", 40000)
	}
	for c := 0; c < N; c++ {
		r := root.Sub(uint64(c))
		np := 1 + r.Intn(7)
		var evs []vtEv
		remaining := np
		for a := 0; a < r.Intn(5) && remaining > 0; a++ {
			k := r.Intn(remaining + 2)
			if r.Chance(1, 2) && k > 0 {
				evs = append(evs, vtEv{kind: "X", n: k})
			} else {
				evs = append(evs, vtEv{kind: "X", n: 0})
				for j := 0; j < r.Intn(3); j++ {
					evs = append(evs, vtEv{kind: "R"})
				}
				evs = append(evs, vtEv{kind: "R", n: k, ok: true})
			}
			ch := vtEv{kind: "C"}
			for j := 0; j < np; j++ {
				if r.Chance(1, 8) {
					ch.ids = append(ch.ids, j)
				}
			}
			evs = append(evs, ch)
			if k >= 1 && k < remaining {
				remaining -= k
			} else if k >= remaining {
				remaining = 0
			}
		}
		evs = append(evs, vtEv{kind: "X", n: np, ok: true})
		verifSendCase(w, np, evs)
	}
}
