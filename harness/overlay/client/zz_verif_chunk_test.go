package client

// White-box driver for chunking and payload packing (C11) and the resumption
// plan of recover() (C07, "missing" computation). Injected with -overlay.
// Runs the REAL queue.Tagged (allocate), recoverFile, broker.recover(),
// binnable, startBin and payload.Bin.
//
// line: K chunk cap nfiles {size nrec {b e}*nrec}*nfiles
//       = {nleft {b e}*nleft}*nfiles nchunks {fid off len send}*nchunks npayloads {nparts {fid beg end}*nparts}*npayloads
// nrec = -1: plain (new) file; nleft = -1: not a resumed file.

import (
	"bufio"
	"fmt"
	"strings"
	"sync"
	"testing"
	"time"

	"github.com/alecthomas/units"
	"github.com/arm-doe/sts"
	"github.com/arm-doe/sts/log"
	"github.com/arm-doe/sts/mock"
	"github.com/arm-doe/sts/payload"
	"github.com/arm-doe/sts/queue"
	"github.com/arm-doe/sts/zzverif/gen"
)

type vFile struct {
	name string
	size int64
	time time.Time
	hash string
	done bool
}

func (f *vFile) GetPath() string    { return "/nonexistent/" + f.name }
func (f *vFile) GetName() string    { return f.name }
func (f *vFile) GetSize() int64     { return f.size }
func (f *vFile) GetTime() time.Time { return f.time }
func (f *vFile) GetMeta() []byte    { return nil }
func (f *vFile) GetHash() string    { return f.hash }
func (f *vFile) IsDone() bool       { return f.done }

type vCache struct {
	files map[string]*vFile
	order []string
}

func (c *vCache) Iterate(f func(sts.Cached) bool) {
	for _, n := range c.order {
		if x, ok := c.files[n]; ok {
			if f(x) {
				return
			}
		}
	}
}
func (c *vCache) Get(k string) sts.Cached {
	if f, ok := c.files[k]; ok {
		return f
	}
	return nil
}
func (c *vCache) Add(sts.Hashed) {}
func (c *vCache) Done(k string, fn func(sts.Cached)) {
	if f, ok := c.files[k]; ok {
		f.done = true
		if fn != nil {
			fn(f)
		}
	}
}
func (c *vCache) Reset(string)   {}
func (c *vCache) Remove(string)  {}
func (c *vCache) Persist() error { return nil }

type vStore struct{}

func (vStore) Scan(func(sts.File) bool) ([]sts.File, time.Time, error) { return nil, time.Time{}, nil }
func (vStore) GetOpener() sts.Open {
	return func(sts.File) (sts.Readable, error) { return nil, fmt.Errorf("not opened in this driver") }
}
func (vStore) Remove(sts.File) error                { return nil }
func (vStore) Sync(sts.File) (sts.File, error)      { return nil, nil }
func (vStore) IsNotExist(error) bool                { return false }
func (vStore) ShouldIgnore(sts.File) bool           { return false }

type vFileSpec struct {
	size int64
	rec  [][2]int64 // nil = plain
}

func verifChunkCase(w *bufio.Writer, chunk, capacity int64, files []vFileSpec) {
	fmt.Fprintf(w, "K %d %d %d", chunk, capacity, len(files))
	for _, f := range files {
		if f.rec == nil {
			fmt.Fprintf(w, " %d -1", f.size)
			continue
		}
		fmt.Fprintf(w, " %d %d", f.size, len(f.rec))
		for _, r := range f.rec {
			fmt.Fprintf(w, " %d %d", r[0], r[1])
		}
	}
	fmt.Fprint(w, " =")

	base := time.Unix(1700000000, 0)
	cache := &vCache{files: map[string]*vFile{}}
	var partials []*sts.Partial
	ids := map[string]int{}
	var plain []sts.Hashed
	for i, f := range files {
		name := fmt.Sprintf("g.f%02d", i)
		ids[name] = i
		vf := &vFile{name: name, size: f.size, time: base.Add(time.Duration(i) * time.Second), hash: fmt.Sprintf("h%02d", i)}
		if f.rec != nil {
			cache.files[name] = vf
			cache.order = append(cache.order, name)
			p := &sts.Partial{Name: name, Size: f.size, Hash: vf.hash, Prev: ""}
			for _, r := range f.rec {
				p.Parts = append(p.Parts, &sts.ByteRange{Beg: r[0], End: r[1]})
			}
			partials = append(partials, p)
		} else {
			plain = append(plain, vf)
		}
	}
	broker := &Broker{
		Conf: &Conf{
			Name:         "verif",
			Store:        vStore{},
			Cache:        cache,
			Recoverer:    func() ([]*sts.Partial, error) { return partials, nil },
			Validator:    func(p []sts.Pollable) ([]sts.Polled, error) { return nil, nil },
			BuildPayload: payload.NewBin,
			Tagger:       func(string) string { return "" },
			Threads:      1,
			PayloadSize:  units.Base2Bytes(capacity),
			PollMaxCount: 1000,
		},
		tagMap: map[string]*FileTag{"": {Name: "", InOrder: true}},
	}
	send, err := broker.recover()
	if err != nil {
		panic(err)
	}
	// what recover() decided per file
	left := map[string][]*sts.ByteRange{}
	resumed := map[string]bool{}
	for _, s := range send {
		if rf, ok := s.(*recoverFile); ok && rf.left != nil {
			left[rf.GetName()] = rf.left
			resumed[rf.GetName()] = true
		}
	}
	for i, f := range files {
		name := fmt.Sprintf("g.f%02d", i)
		if f.rec == nil {
			fmt.Fprint(w, " -1")
			continue
		}
		l := left[name]
		fmt.Fprintf(w, " %d", len(l))
		for _, r := range l {
			fmt.Fprintf(w, " %d %d", r.Beg, r.End)
		}
	}

	q := queue.NewTagged(
		[]*queue.Tag{{Name: "", Order: sts.OrderFIFO, ChunkSize: chunk}},
		func(string) string { return "" },
		func(string) string { return "g" })
	q.Push(send)
	q.Push(plain)
	var chunks []sts.Sendable
	for guard := 0; guard < 100000; guard++ {
		c := q.Pop()
		if c == nil {
			break
		}
		chunks = append(chunks, c)
	}
	fmt.Fprintf(w, " %d", len(chunks))
	for _, c := range chunks {
		o, l := c.GetSlice()
		fmt.Fprintf(w, " %d %d %d %d", ids[c.GetName()], o, l, c.GetSendSize())
	}

	broker.chQueued = make(chan sts.Sendable, len(chunks)+1)
	broker.chTransmit = make(chan sts.Payload, 4)
	var wg sync.WaitGroup
	wg.Add(1)
	go broker.startBin(&wg)
	var payloads []sts.Payload
	done := make(chan bool)
	go func() {
		for p := range broker.chTransmit {
			payloads = append(payloads, p)
		}
		done <- true
	}()
	for _, c := range chunks {
		broker.chQueued <- c
	}
	close(broker.chQueued)
	wg.Wait()
	close(broker.chTransmit)
	<-done
	fmt.Fprintf(w, " %d", len(payloads))
	for _, p := range payloads {
		parts := p.GetParts()
		fmt.Fprintf(w, " %d", len(parts))
		for _, part := range parts {
			b, n := part.GetSlice()
			fmt.Fprintf(w, " %d %d %d", ids[part.GetName()], b, b+n)
		}
	}
	fmt.Fprintln(w)
}

func TestVerifChunk(t *testing.T) {
	w, done, ok := gen.Out()
	if !ok {
		t.Skip("VERIF_OUT not set")
	}
	defer done()
	log.InitExternal(&mock.Logger{DebugMode: false})

	if lines := gen.Replay(); lines != nil {
		for _, l := range lines {
			f := strings.Fields(l)
			if len(f) < 4 || f[0] != "K" {
				continue
			}
			v := gen.Ints(f[1:])
			chunk, capacity, n := v[0], v[1], int(v[2])
			k := 3
			var files []vFileSpec
			for i := 0; i < n; i++ {
				fs := vFileSpec{size: v[k]}
				nrec := int(v[k+1])
				k += 2
				if nrec >= 0 {
					fs.rec = [][2]int64{}
					for j := 0; j < nrec; j++ {
						fs.rec = append(fs.rec, [2]int64{v[k], v[k+1]})
						k += 2
					}
				}
				files = append(files, fs)
			}
			verifChunkCase(w, chunk, capacity, files)
		}
		return
	}

	// ---- exhaustive small scope: one plain file -------------------------------
	maxSize, maxChunk, maxCap := int64(24), int64(9), int64(32)
	if gen.Thorough() {
		maxSize, maxChunk, maxCap = 40, 12, 45
	}
	for size := int64(1); size <= maxSize; size++ {
		for chunk := int64(1); chunk <= maxChunk; chunk++ {
			for capacity := int64(10); capacity <= maxCap; capacity++ {
				verifChunkCase(w, chunk, capacity, []vFileSpec{{size: size}})
			}
		}
	}
	// capacities below 10 (slack rounds to 0): the finding domain, sampled
	for size := int64(1); size <= 12; size++ {
		for chunk := int64(1); chunk <= 6; chunk++ {
			for capacity := int64(1); capacity <= 9; capacity++ {
				verifChunkCase(w, chunk, capacity, []vFileSpec{{size: size}})
			}
		}
	}
	// ---- exhaustive: every sorted disjoint record of <=3 ranges over 0..8 -----
	G := int64(8)
	if gen.Thorough() {
		G = 11
	}
	var recs [][][2]int64
	var build func(lo int64, cur [][2]int64)
	build = func(lo int64, cur [][2]int64) {
		recs = append(recs, append([][2]int64{}, cur...))
		if len(cur) == 3 {
			return
		}
		for b := lo; b < G; b++ {
			for e := b + 1; e <= G; e++ {
				build(e, append(cur, [2]int64{b, e}))
			}
		}
	}
	build(0, nil)
	for _, rec := range recs {
		for _, chunk := range []int64{1, 3, 20} {
			// shuffled order of the record parts is what the receiver may list
			verifChunkCase(w, chunk, 10, []vFileSpec{{size: G, rec: rec}})
		}
	}

	// ---- seeded random: several files, large values --------------------------
	root := gen.New(gen.Seed() ^ 0xC11)
	N := gen.EnvInt("VERIF_CHUNK_RANDOM", 6000)
	if gen.Thorough() {
		N = gen.EnvInt("VERIF_CHUNK_RANDOM", 60000)
	}
	scales := []int64{50, 1000, 1 << 20, 1 << 31, 1 << 40, 1 << 48} // all offsets stay below 2^53 (float64 exact; see DESIGN C11)
	for c := 0; c < N; c++ {
		r := root.Sub(uint64(c))
		scale := scales[r.Intn(len(scales))]
		capacity := 10 + r.I64n(scale)
		chunk := 1 + r.I64n(scale)
		switch r.Intn(6) { // exact multiples, one more, one less
		case 0:
			chunk = capacity
		case 1:
			chunk = capacity + capacity/10
		case 2:
			chunk = capacity + capacity/10 + 1
		}
		// keep the number of chunks and payloads per file bounded
		unit := chunk
		if capacity < unit {
			unit = capacity
		}
		nf := 1 + r.Intn(3)
		var files []vFileSpec
		for i := 0; i < nf; i++ {
			mult := 1 + r.I64n(7)
			size := unit*mult + r.I64n(3) - 1
			if r.Chance(1, 3) {
				size = 1 + r.I64n(unit*6+1)
			}
			if size < 1 {
				size = 1
			}
			fs := vFileSpec{size: size}
			if r.Chance(1, 3) {
				// a record: tiling of [0,size) with some tiles held; listed in random order
				ncut := 1 + r.Intn(5)
				cuts := []int64{0, size}
				for j := 0; j < ncut; j++ {
					cuts = append(cuts, r.I64n(size+1))
				}
				for a := range cuts {
					for b := a + 1; b < len(cuts); b++ {
						if cuts[b] < cuts[a] {
							cuts[a], cuts[b] = cuts[b], cuts[a]
						}
					}
				}
				fs.rec = [][2]int64{}
				for j := 0; j+1 < len(cuts); j++ {
					if cuts[j] < cuts[j+1] && r.Chance(1, 2) {
						fs.rec = append(fs.rec, [2]int64{cuts[j], cuts[j+1]})
					}
				}
				for j := len(fs.rec) - 1; j > 0; j-- {
					k := r.Intn(j + 1)
					fs.rec[j], fs.rec[k] = fs.rec[k], fs.rec[j]
				}
				if r.Chance(1, 25) && len(fs.rec) > 0 { // outside D: an overlapping record
					x := fs.rec[r.Intn(len(fs.rec))]
					fs.rec = append(fs.rec, [2]int64{x[0] + (x[1]-x[0])/2, x[1] + 1})
				}
			}
			files = append(files, fs)
		}
		verifChunkCase(w, chunk, capacity, files)
	}
}
