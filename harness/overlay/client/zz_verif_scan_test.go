package client

// Driver for the scanner (C17): the REAL store.Local.Scan + Broker.includeScannedFile
// + Broker.scan (hashing, cache.JSON update) on generated directory trees and
// histories of files appearing, being rewritten, appended to, touched (forwards
// and backwards), replaced by rename and removed between scans.
//
// line: N minage_ms hidden hasinc nops {op}*  =  nscans {n {name size mtime_ms hashok}*n}*
//   ops:  W name size age_ms    write (create anew, by rename over the name) content of version v, mtime = T0-age
//         P name size age_ms    rewrite in place (truncate + write), mtime = T0-age
//         A name extra age_ms   append extra bytes, mtime = T0-age
//         T name age_ms         touch: only the mtime changes
//         R name                remove
//         L name target_size    symbolic link (absolute) to a file of that size outside the tree
//         D 0|1                 remove / create the disable marker
//         S                     scan
// mtime_ms in the output is relative to T0 (negative = older). Names are hex.

import (
	"bufio"
	"crypto/md5"
	"fmt"
	"os"
	"path/filepath"
	"regexp"
	"sort"
	"strconv"
	"strings"
	"testing"
	"time"

	"github.com/arm-doe/sts/cache"
	"github.com/arm-doe/sts/log"
	"github.com/arm-doe/sts/mock"
	"github.com/arm-doe/sts/store"
	"github.com/arm-doe/sts/zzverif/gen"
)

var vnPool = []string{
	"a.dat", "inc1", "d/inc2", "d/x.dat", ".hid", "d/.hd/f", "x.skip", "y.lck", "inc.skip",
	"d/.inc3", "e/f/g.dat", "inc4", "lnk", "d/e/.h/inc5", "z z.dat",
}

func vnContent(name string, version, size int) []byte {
	b := make([]byte, size)
	for i := range b {
		b[i] = byte(len(name)*7 + version*13 + i*3)
	}
	return b
}

func verifScanCase(w *bufio.Writer, tmp string, caseNo int, minAgeMs int, hidden, hasInc bool, ops []string) {
	root := filepath.Join(tmp, fmt.Sprintf("scan%d", caseNo))
	os.RemoveAll(root)
	defer os.RemoveAll(root)
	out := filepath.Join(root, "out")
	cdir := filepath.Join(root, "cache")
	ext := filepath.Join(root, "ext")
	for _, d := range []string{out, cdir, ext} {
		os.MkdirAll(d, 0o755)
	}
	st := &store.Local{Root: out, MinAge: time.Duration(minAgeMs) * time.Millisecond, IncludeHidden: hidden}
	if hasInc {
		st.Include = []*regexp.Regexp{regexp.MustCompile(`(^|/)inc`)}
	}
	st.Ignore = []*regexp.Regexp{regexp.MustCompile(`\.skip$`)}
	st.AddStandardIgnore()
	c, err := cache.NewJSON(cdir, out, "")
	if err != nil {
		panic(err)
	}
	b := &Broker{Conf: &Conf{Name: "verif", Store: st, Cache: c, Threads: 2, PayloadSize: 1024, CacheAge: time.Hour}}
	t0 := time.Now().Truncate(time.Millisecond)
	version := map[string]int{}
	content := map[string][]byte{}
	fmt.Fprintf(w, "N %d %d %d %d %s =", minAgeMs, b2i(hidden), b2i(hasInc), len(ops), strings.Join(ops, " "))
	var scans []string
	cleanNext := false
	for _, op := range ops {
		f := strings.Split(op, ",")
		name := ""
		if len(f) > 1 {
			name = gen.Unhex(f[1])
		}
		p := filepath.Join(out, name)
		at := func(i int) time.Time {
			ms, _ := strconv.Atoi(f[i])
			return t0.Add(-time.Duration(ms) * time.Millisecond)
		}
		switch f[0] {
		case "W", "P":
			size, _ := strconv.Atoi(f[2])
			version[name]++
			data := vnContent(name, version[name], size)
			os.MkdirAll(filepath.Dir(p), 0o755)
			if f[0] == "W" {
				tp := filepath.Join(root, "incoming.tmp")
				os.WriteFile(tp, data, 0o644)
				os.Chtimes(tp, at(3), at(3))
				os.Remove(p)
				if err := os.Rename(tp, p); err != nil {
					panic(err)
				}
			} else {
				os.Remove(p) // a symbolic link of that name is replaced, not followed
				os.WriteFile(p, data, 0o644)
				os.Chtimes(p, at(3), at(3))
			}
			content[name] = data
		case "A":
			extra, _ := strconv.Atoi(f[2])
			version[name]++
			add := vnContent(name, version[name], extra)
			fh, err := os.OpenFile(p, os.O_APPEND|os.O_WRONLY, 0o644)
			if err == nil {
				fh.Write(add)
				fh.Close()
				os.Chtimes(p, at(3), at(3))
				content[name] = append(append([]byte{}, content[name]...), add...)
			}
		case "T":
			os.Chtimes(p, at(2), at(2))
		case "R":
			os.Remove(p)
			delete(content, name)
		case "L":
			size, _ := strconv.Atoi(f[2])
			version[name]++
			data := vnContent(name, version[name], size)
			tgt := filepath.Join(ext, "target")
			os.WriteFile(tgt, data, 0o644)
			os.Chtimes(tgt, t0.Add(-time.Hour), t0.Add(-time.Hour))
			os.MkdirAll(filepath.Dir(p), 0o755)
			os.Remove(p)
			os.Symlink(tgt, p)
			content[name] = data
		case "D":
			m := filepath.Join(out, ".disabled")
			if f[1] == "31" { // hex of "1"
				os.WriteFile(m, []byte("x"), 0o644)
			} else {
				os.Remove(m)
			}
		case "M":
			// the version in the cache is confirmed (what finish() does after a positive answer)
			if c.Get(name) != nil {
				c.Done(name, nil)
			}
		case "G":
			// a cache-age interval has passed: the next scan begins with the cache clean-up
			// (time.Since(stuckSince) > CacheAge; every file of a case is older than stuckSince)
			cleanNext = true
		case "S":
			if cleanNext {
				b.Conf.CacheAge = time.Nanosecond
			}
			got := b.scan()
			b.Conf.CacheAge = time.Hour
			cleanNext = false
			var items []string
			for _, h := range got {
				hashok := 0
				if data, ok := content[h.GetName()]; ok && h.GetHash() == fmt.Sprintf("%x", md5.Sum(data)) {
					hashok = 1
				}
				items = append(items, fmt.Sprintf("%s %d %d %d", gen.Hex(h.GetName()), h.GetSize(), h.GetTime().Sub(t0).Milliseconds(), hashok))
			}
			sort.Strings(items)
			scans = append(scans, fmt.Sprintf("%d %s", len(items), strings.Join(items, " ")))
		}
	}
	fmt.Fprintf(w, " %d", len(scans))
	for _, s := range scans {
		fmt.Fprintf(w, " %s", strings.TrimSpace(s))
	}
	fmt.Fprintln(w)
}

func b2i(b bool) int {
	if b {
		return 1
	}
	return 0
}

func vnGen(r *gen.Rand, minAgeMs int) []string {
	var ops []string
	n := 4 + r.Intn(14)
	age := func() int {
		// clear of the boundary by 3 s on either side
		switch r.Intn(4) {
		case 0:
			if minAgeMs >= 6000 {
				return r.Intn(minAgeMs - 3000)
			}
			return minAgeMs + 3000 + r.Intn(5000)
		default:
			return minAgeMs + 3000 + r.Intn(100000)*7
		}
	}
	live := map[string]int{}
	lastAge := map[string]int{}
	names := func() []string {
		var l []string
		for k := range live {
			l = append(l, k)
		}
		sort.Strings(l)
		return l
	}
	for i := 0; i < n; i++ {
		l := names()
		k := r.Intn(12)
		switch {
		case k < 3 || len(l) == 0:
			name := vnPool[r.Intn(len(vnPool))]
			if name == "lnk" {
				if minAgeMs == 0 {
					size := 1 + r.Intn(40)
					ops = append(ops, fmt.Sprintf("L,%s,%d", gen.Hex(name), size))
					live[name] = size
				}
				continue
			}
			size := r.Intn(40)
			if r.Chance(1, 8) {
				size = 0
			}
			a := age()
			ops = append(ops, fmt.Sprintf("W,%s,%d,%d", gen.Hex(name), size, a))
			live[name], lastAge[name] = size, a
		case k < 5:
			ops = append(ops, "S")
		case k == 5:
			// replaced by a file of the same size: older, newer or identical mtime
			name := l[r.Intn(len(l))]
			if name == "lnk" {
				continue
			}
			a := lastAge[name]
			switch r.Intn(3) {
			case 0:
				a += 1 + r.Intn(50000)
			case 1:
				if a-minAgeMs > 3100 {
					a -= 1 + r.Intn(a-minAgeMs-3000)
				}
			}
			kind := "W"
			if r.Bool() {
				kind = "P"
			}
			ops = append(ops, fmt.Sprintf("%s,%s,%d,%d", kind, gen.Hex(name), live[name], a))
			lastAge[name] = a
		case k == 6:
			name := l[r.Intn(len(l))]
			if name == "lnk" {
				continue
			}
			a := lastAge[name]
			if r.Bool() {
				a += 1 + r.Intn(90000) // backwards in time
			} else if a-minAgeMs > 3100 {
				a -= 1 + r.Intn(a-minAgeMs-3000)
			}
			ops = append(ops, fmt.Sprintf("T,%s,%d", gen.Hex(name), a))
			lastAge[name] = a
		case k == 7:
			name := l[r.Intn(len(l))]
			if name == "lnk" {
				continue
			}
			extra := 1 + r.Intn(9)
			a := lastAge[name]
			if r.Bool() {
				a = age()
			}
			ops = append(ops, fmt.Sprintf("A,%s,%d,%d", gen.Hex(name), extra, a))
			live[name] += extra
			lastAge[name] = a
		case k == 8:
			name := l[r.Intn(len(l))]
			ops = append(ops, fmt.Sprintf("R,%s", gen.Hex(name)))
			delete(live, name)
		case k == 9 && r.Chance(1, 3):
			ops = append(ops, fmt.Sprintf("D,%s", gen.Hex(fmt.Sprint(r.Intn(2)))))
		case k == 10 && len(l) > 0:
			// the sender is told the receiver has the file: its cache entry is confirmed
			ops = append(ops, fmt.Sprintf("M,%s", gen.Hex(l[r.Intn(len(l))])))
			if r.Bool() {
				ops = append(ops, "G")
			}
			ops = append(ops, "S")
		default:
			if r.Chance(1, 3) {
				ops = append(ops, "G")
			}
			ops = append(ops, "S")
		}
	}
	if r.Chance(1, 3) {
		ops = append(ops, "G")
	}
	ops = append(ops, "S")
	return ops
}

func TestVerifScan(t *testing.T) {
	w, done, ok := gen.Out()
	if !ok {
		t.Skip("VERIF_OUT not set")
	}
	defer done()
	log.InitExternal(&mock.Logger{DebugMode: false})
	tmp := os.Getenv("VERIF_TMP")
	if tmp == "" {
		tmp = t.TempDir()
	}
	caseNo := 0
	if lines := gen.Replay(); lines != nil {
		for _, l := range lines {
			f := strings.Fields(l)
			if len(f) < 5 || f[0] != "N" {
				continue
			}
			minAge, _ := strconv.Atoi(f[1])
			nops, _ := strconv.Atoi(f[4])
			caseNo++
			verifScanCase(w, tmp, caseNo, minAge, f[2] == "1", f[3] == "1", f[5:5+nops])
		}
		return
	}
	// directed histories first (the shapes a random walk finds rarely)
	h := gen.Hex
	directed := [][]string{
		{"W," + h("a.dat") + ",8,7200000", "S", "S", "W," + h("a.dat") + ",8,10800000", "S", "T," + h("a.dat") + ",3600000", "S"},
		{"P," + h("inc1") + ",8,7200000", "S", "P," + h("inc1") + ",8,7200000", "S", "T," + h("inc1") + ",9000000", "S", "S"},
		{"W," + h("d/inc2") + ",5,50000", "S", "A," + h("d/inc2") + ",3,50000", "S", "R," + h("d/inc2"), "S", "W," + h("d/inc2") + ",8,50000", "S"},
		{"W," + h("inc4") + ",0,50000", "S", "A," + h("inc4") + ",1,50000", "S"},
		{"W," + h("inc1") + ",4,50000", "D," + h("1"), "S", "D," + h("0"), "S"},
		// cache-age intervals pass: a confirmed file that stays where it is (no delete option) and an
		// unconfirmed one are not sent again; one that went away is forgotten and sent when it is back
		{"W," + h("inc1") + ",6,7200000", "W," + h("d/inc2") + ",7,7200000", "S", "M," + h("inc1"), "G", "S", "G", "S",
			"R," + h("inc1"), "G", "S", "W," + h("inc1") + ",6,7200000", "S", "S"},
		{"W," + h("inc3") + ",6,7200000", "S", "M," + h("inc3"), "S", "G", "S", "A," + h("inc3") + ",2,3600000", "G", "S", "M," + h("inc3"), "G", "S"},
		{"W," + h("inc3") + ",6,7200000", "G", "S", "M," + h("inc3"), "R," + h("inc3"), "S", "W," + h("inc3") + ",6,7200000", "S", "G", "S"},
	}
	for _, minAge := range []int{0, 10000} {
		for _, hid := range []bool{false, true} {
			for _, inc := range []bool{false, true} {
				for _, d := range directed {
					caseNo++
					verifScanCase(w, tmp, caseNo, minAge, hid, inc, d)
				}
			}
		}
	}
	n := gen.EnvInt("VERIF_N", 300)
	base := gen.New(gen.Seed())
	for i := 0; i < n; i++ {
		r := base.Sub(uint64(i))
		minAge := []int{0, 0, 10000, 60000}[r.Intn(4)]
		caseNo++
		verifScanCase(w, tmp, caseNo, minAge, r.Chance(1, 3), r.Chance(1, 2), vnGen(r, minAge))
	}
}
