package client

// Driver for the sender's tracker (C08, second sentence): the REAL Broker.startTrack is fed
// sequences of forwarded payloads - parts of 1..4 files interleaved in any order, split
// over several payloads, parts of a newer version of a name arriving in the middle - and
// everything it writes to the sent log and hands to the poller is recorded.
//
// line: TK npayloads {nparts {name hash sendsize filesize offset len}*}* = nlogged {name hash}* nhanded {name hash sent size}*

import (
	"fmt"
	"io"
	"os"
	"sort"
	"strings"
	"sync"
	"testing"
	"time"

	"github.com/arm-doe/sts"
	"github.com/arm-doe/sts/log"
	"github.com/arm-doe/sts/mock"
	"github.com/arm-doe/sts/zzverif/gen"
)

type vtPart struct {
	name, hash              string
	send, size, off, length int64
}

func (p *vtPart) GetName() string          { return p.name }
func (p *vtPart) GetRenamed() string       { return "" }
func (p *vtPart) GetPrev() string          { return "" }
func (p *vtPart) GetFileTime() time.Time   { return time.Unix(1700000000, 0) }
func (p *vtPart) GetFileHash() string      { return p.hash }
func (p *vtPart) GetFileSize() int64       { return p.size }
func (p *vtPart) GetSendSize() int64       { return p.send }
func (p *vtPart) GetSlice() (int64, int64) { return p.off, p.length }

type vtPayload struct {
	parts []sts.Binned
	t0    time.Time
}

func (p *vtPayload) Add(sts.Binnable) bool         { return false }
func (p *vtPayload) Remove(sts.Binned)             {}
func (p *vtPayload) IsFull() bool                  { return true }
func (p *vtPayload) Split(int) sts.Payload         { return nil }
func (p *vtPayload) GetParts() []sts.Binned        { return p.parts }
func (p *vtPayload) EncodeHeader() ([]byte, error) { return nil, nil }
func (p *vtPayload) GetEncoder() io.ReadCloser     { return nil }
func (p *vtPayload) GetStarted() time.Time         { return p.t0 }
func (p *vtPayload) GetCompleted() time.Time       { return p.t0.Add(time.Millisecond) }
func (p *vtPayload) GetSize() int64 {
	var n int64
	for _, b := range p.parts {
		_, l := b.GetSlice()
		n += l
	}
	if n == 0 {
		n = 1
	}
	return n
}

type vtLog struct {
	mu  sync.Mutex
	out []string
}

func (l *vtLog) Sent(f sts.Sent) {
	l.mu.Lock()
	l.out = append(l.out, gen.Hex(f.GetName())+" "+gen.Hex(f.GetHash()))
	l.mu.Unlock()
}
func (l *vtLog) WasSent(string, string, time.Time, time.Time) bool { return false }

func verifTrackCase(w interface{ WriteString(string) (int, error) }, payloads [][]*vtPart) {
	lg := &vtLog{}
	b := &Broker{Conf: &Conf{Name: "verif", Logger: lg, Threads: 1}}
	b.chTransmitted = make(chan sts.Payload, len(payloads)+2)
	b.chValidate = make(chan sts.Pollable, 64)
	var wg sync.WaitGroup
	wg.Add(1)
	go b.startTrack(&wg)
	var sb strings.Builder
	fmt.Fprintf(&sb, "TK %d", len(payloads)+1)
	t0 := time.Unix(1700000100, 0)
	all := append([][]*vtPart{}, payloads...)
	// a last payload that completes a file of its own: once that file comes out at the other end,
	// everything before it has been processed
	all = append(all, []*vtPart{{name: "~sentinel", hash: "ffff", send: 1, size: 1, off: 0, length: 1}})
	for _, pl := range all {
		fmt.Fprintf(&sb, " %d", len(pl))
		var bs []sts.Binned
		for _, p := range pl {
			fmt.Fprintf(&sb, " %s %s %d %d %d %d", gen.Hex(p.name), gen.Hex(p.hash), p.send, p.size, p.off, p.length)
			bs = append(bs, p)
		}
		b.chTransmitted <- &vtPayload{parts: bs, t0: t0}
	}
	var handed []string
	deadline := time.After(10 * time.Second)
	seen := false
	for !seen {
		select {
		case f := <-b.chValidate:
			pf := f.(*progressFile)
			handed = append(handed, fmt.Sprintf("%s %s %d %d", gen.Hex(pf.name), gen.Hex(pf.hash), pf.sent, pf.size))
			if pf.name == "~sentinel" {
				seen = true
			}
		case <-deadline:
			seen = true
			handed = append(handed, "timeout - 0 0")
		}
	}
	// immediate stop, and wake the tracker up
	b.stopMux.Lock()
	b.stop = true
	b.stopGraceful = false
	b.stopMux.Unlock()
	close(b.chTransmitted)
	done := make(chan bool)
	go func() { wg.Wait(); done <- true }()
	select {
	case <-done:
	case <-time.After(5 * time.Second):
	}
	for len(b.chValidate) > 0 {
		pf := (<-b.chValidate).(*progressFile)
		handed = append(handed, fmt.Sprintf("%s %s %d %d", gen.Hex(pf.name), gen.Hex(pf.hash), pf.sent, pf.size))
	}
	sort.Strings(handed)
	lg.mu.Lock()
	fmt.Fprintf(&sb, " = %d %s %d %s\n", len(lg.out), strings.Join(lg.out, " "), len(handed), strings.Join(handed, " "))
	lg.mu.Unlock()
	w.WriteString(sb.String())
}

func TestVerifTrack(t *testing.T) {
	w, done, ok := gen.Out()
	if !ok {
		t.Skip("VERIF_OUT not set")
	}
	defer done()
	log.InitExternal(&mock.Logger{DebugMode: false})
	_ = os.Getenv
	N := gen.EnvInt("VERIF_N", 300)
	base := gen.New(gen.Seed() ^ 0x7AC4)
	names := []string{"a", "g.b", "d/c", "x y"}
	var mu sync.Mutex
	var wg sync.WaitGroup
	sem := make(chan bool, 16)
	outs := make([]string, N)
	for c := 0; c < N; c++ {
		r := base.Sub(uint64(c))
		// files: each cut into 1..5 parts
		type piece struct{ p *vtPart }
		var pieces []*vtPart
		nf := 1 + r.Intn(4)
		for i := 0; i < nf; i++ {
			size := int64(1 + r.Intn(60))
			send := size
			start := int64(0)
			if r.Chance(1, 5) && size > 2 {
				// a resumed file: only the tail is to be sent
				start = int64(1 + r.Intn(int(size)-1))
				send = size - start
			}
			name, hash := names[i], fmt.Sprintf("%02x%02x", i, r.Intn(3))
			k := 1 + r.Intn(5)
			off := start
			for j := 0; j < k && off < size; j++ {
				l := int64(1 + r.Intn(int(size-off)))
				if j == k-1 {
					l = size - off
				}
				pieces = append(pieces, &vtPart{name: name, hash: hash, send: send, size: size, off: off, length: l})
				off += l
			}
			if r.Chance(1, 6) {
				// the last part of this file is never acknowledged
				pieces = pieces[:len(pieces)-1]
			}
			if r.Chance(1, 6) {
				// parts of another version of the same name turn up as well
				pieces = append(pieces, &vtPart{name: name, hash: hash + "ff", send: size + 3, size: size + 3, off: 0, length: int64(1 + r.Intn(int(size)+3))})
			}
		}
		// any order (out-of-order acknowledgements), any grouping into payloads
		for i := len(pieces) - 1; i > 0; i-- {
			if r.Chance(1, 2) {
				j := r.Intn(i + 1)
				pieces[i], pieces[j] = pieces[j], pieces[i]
			}
		}
		var payloads [][]*vtPart
		for i := 0; i < len(pieces); {
			k := 1 + r.Intn(3)
			if i+k > len(pieces) {
				k = len(pieces) - i
			}
			payloads = append(payloads, pieces[i:i+k])
			i += k
		}
		wg.Add(1)
		sem <- true
		go func(c int, pls [][]*vtPart) {
			defer wg.Done()
			defer func() { <-sem }()
			var sb strings.Builder
			verifTrackCase(&sb, pls)
			mu.Lock()
			outs[c] = sb.String()
			mu.Unlock()
		}(c, payloads)
	}
	wg.Wait()
	for _, l := range outs {
		w.WriteString(l)
	}
}
