package client

// Driver for the sender's finish() (C02): what ONE poll answer does to the cache entry of
// the name and to the source file. The REAL Broker.finish with the real store.Local and
// cache.JSON on a temp directory; systematically every combination of
//   answer code {none, failed, passed, waiting}
//   hash of the cache entry {"" = a new version that could not be hashed yet, A, B}
//   hash the answer is about {"" = not given, A, B}
//   entry already confirmed {no, yes}
//   tag says delete {no, yes}
//   file on disk {is the cached version, changed since, gone}
//
// line: FI code cachedhash polledhash wasdone candelete disk = done exists retried

import (
	"fmt"
	"os"
	"path/filepath"
	"testing"
	"time"

	"github.com/arm-doe/sts"
	"github.com/arm-doe/sts/cache"
	"github.com/arm-doe/sts/log"
	"github.com/arm-doe/sts/mock"
	"github.com/arm-doe/sts/store"
	"github.com/arm-doe/sts/zzverif/gen"
)

type vfPollable struct {
	name, hash string
	size       int64
}

func (p *vfPollable) GetName() string       { return p.name }
func (p *vfPollable) GetSize() int64        { return p.size }
func (p *vfPollable) GetHash() string       { return p.hash }
func (p *vfPollable) TimeMs() int64         { return 5 }
func (p *vfPollable) GetPrev() string       { return "" }
func (p *vfPollable) GetStarted() time.Time { return time.Now().Add(-time.Second) }

type vfPolled struct {
	sts.Pollable
	code int
}

func (c *vfPolled) NotFound() bool { return c.code == sts.ConfirmNone }
func (c *vfPolled) Waiting() bool  { return c.code == sts.ConfirmWaiting }
func (c *vfPolled) Failed() bool   { return c.code == sts.ConfirmFailed }
func (c *vfPolled) Received() bool { return c.code == sts.ConfirmPassed }

func TestVerifFinish(t *testing.T) {
	w, done, ok := gen.Out()
	if !ok {
		t.Skip("VERIF_OUT not set")
	}
	defer done()
	log.InitExternal(&mock.Logger{DebugMode: false})
	tmp := os.Getenv("VERIF_TMP")
	if tmp == "" {
		tmp = t.TempDir()
	}
	hashes := []string{"", "aaaaaaaaaaaaaaaaaaaaaaaaaaaaaaaa", "bbbbbbbbbbbbbbbbbbbbbbbbbbbbbbbb"}
	caseNo := 0
	for _, code := range []int{sts.ConfirmNone, sts.ConfirmFailed, sts.ConfirmPassed, sts.ConfirmWaiting} {
		for ci, ch := range hashes {
			for pi, ph := range hashes {
				for _, wasDone := range []bool{false, true} {
					for _, del := range []bool{false, true} {
						for disk := 0; disk < 3; disk++ {
							caseNo++
							root := filepath.Join(tmp, fmt.Sprintf("fin%d", caseNo))
							os.RemoveAll(root)
							out := filepath.Join(root, "out")
							os.MkdirAll(out, 0o755)
							os.MkdirAll(filepath.Join(root, "cache"), 0o755)
							p := filepath.Join(out, "f.dat")
							os.WriteFile(p, []byte("version-one"), 0o644)
							old := time.Now().Add(-time.Hour).Truncate(time.Second)
							os.Chtimes(p, old, old)
							st := &store.Local{Root: out}
							st.AddStandardIgnore()
							c, err := cache.NewJSON(filepath.Join(root, "cache"), out, "")
							if err != nil {
								t.Fatal(err)
							}
							files, _, err := st.Scan(func(sts.File) bool { return true })
							if err != nil || len(files) != 1 {
								t.Fatalf("scan: %v %d", err, len(files))
							}
							c.Add(&hashFile{File: files[0], hash: ch})
							if wasDone {
								c.Done("f.dat", nil)
							}
							switch disk {
							case 1:
								os.WriteFile(p, []byte("version-two!"), 0o644)
							case 2:
								os.Remove(p)
							}
							b := &Broker{Conf: &Conf{Name: "verif", Store: st, Cache: c, Threads: 1, Tagger: func(string) string { return "" },
								Tags: []*FileTag{{Name: "", Delete: del}}}}
							b.tagMap = map[string]*FileTag{"": b.Conf.Tags[0]}
							b.cleanAll, b.cleanSome = del, del
							b.chRetry = make(chan sts.Polled, 4)
							b.finish(&vfPolled{Pollable: &vfPollable{name: "f.dat", hash: ph, size: 11}, code: code})
							doneNow, exists, retried := 0, 0, 0
							if e := c.Get("f.dat"); e != nil && e.IsDone() {
								doneNow = 1
							}
							if _, err := os.Stat(p); err == nil {
								exists = 1
							}
							if len(b.chRetry) > 0 {
								retried = 1
							}
							b2 := func(x bool) int {
								if x {
									return 1
								}
								return 0
							}
							fmt.Fprintf(w, "FI %d %d %d %d %d %d = %d %d %d\n", code, ci, pi, b2(wasDone), b2(del), disk, doneNow, exists, retried)
							os.RemoveAll(root)
						}
					}
				}
			}
		}
	}
}
