package client

// End-to-end driver (kind C): the REAL Broker with the real store.Local,
// cache.JSON, queue.Tagged, payload.Bin and sent-log, talking through an
// in-process fault-injecting transport to a REAL stage.Stage with the real
// receive log. Every interface event is recorded; the facts the properties
// talk about (what was deleted and whether the receiver held a validated copy
// at that instant, what was logged as sent and how many bytes were acknowledged
// then, what was transmitted, whether everything was delivered / released,
// how long a stop took, what a restarted sender transmitted again) are computed
// from the record and written as key=value facts.
//
// line: E id profile seed k=v ... = fact=v ...

import (
	"runtime"
	"bytes"
	"crypto/md5"
	"encoding/json"
	"errors"
	"fmt"
	"io"
	"os"
	"path/filepath"
	"regexp"
	"sort"
	"strings"
	"sync"
	"sync/atomic"
	"testing"
	"time"

	"github.com/alecthomas/units"
	"github.com/arm-doe/sts"
	"github.com/arm-doe/sts/cache"
	"github.com/arm-doe/sts/log"
	"github.com/arm-doe/sts/marshal"
	"github.com/arm-doe/sts/mock"
	"github.com/arm-doe/sts/payload"
	"github.com/arm-doe/sts/queue"
	"github.com/arm-doe/sts/stage"
	"github.com/arm-doe/sts/store"
	"github.com/arm-doe/sts/zzverif/gen"
	"github.com/arm-doe/sts/zzverif/verifos"
)

type veWire struct {
	name, renamed, prev, hash string
	size, beg, end            int64
	t                         time.Time
}

func (p *veWire) GetName() string          { return p.name }
func (p *veWire) GetRenamed() string       { return p.renamed }
func (p *veWire) GetPrev() string          { return p.prev }
func (p *veWire) GetFileTime() time.Time   { return p.t }
func (p *veWire) GetFileHash() string      { return p.hash }
func (p *veWire) GetFileSize() int64       { return p.size }
func (p *veWire) GetSendSize() int64       { return p.size }
func (p *veWire) GetSlice() (int64, int64) { return p.beg, p.end }

type veFault struct {
	kind string // none fail cutbefore cutafter lost unavail corrupt
	at   int
}

type veEvent struct {
	seq  int
	kind string
	name string
	info string
}

type veEnv struct {
	root, out, cacheDir, stageDir, finalDir, logIn, logOut string
	st                                                     *stage.Stage
	rlog                                                   *log.FileIO
	slog                                                   *log.FileIO

	mu                sync.Mutex
	events            []veEvent
	faults            []veFault // consumed one per Transmit call
	pollFault         []string  // per Validate call: "" | err | none (answer not-found for everything)
	txCalls           int
	acked             map[string]int64 // name|hash -> bytes acknowledged by successful answers
	sentBytes         map[string]int64 // name -> bytes put on the wire (incl. repeats)
	txRanges          map[string][][2]int64
	frozen            bool
	freezeAt          int // freeze (sender crash) when the event counter reaches this (0 = never)
	freezeAfterTx     int // > 0: freeze at the k-th event counted from the first "txret" (k = 1: at that answer)
	crashed           chan bool
	block             chan bool
	stopAt            int  // send the stop signal when the event counter reaches this (0 = at quiescence)
	stopAfterTx       int  // > 0: stop at the k-th event counted from the first answer to a data request
	stopAtPoll        bool // stop while the first poll answer is on its way back
	stopFn            func()
	stopSeen          func() bool
	badRemove         int
	removes           []string
	sentEarly         int
	vanished          int
	ctl               *verifos.Controller
	swapName          string
	swapSize          int64
	swapFn            func()
	versionOf         func(name, hash string) string
	failHeadOf        string
	failHeadN         int
	corruptOf         string // the first byte of this file is damaged on the way, the first corruptN times it is sent
	corruptN          int
	slowOpenAfterFail time.Duration
	minAge            time.Duration // the scanner's minimum age (a version younger than that must not be on the wire)
	youngSent         int
	stopAtOpen        int    // the stop request arrives while the k-th file is being opened (for hashing)
	failOpenOf        string // the next failOpenN opens of this file fail once failOpenArmed is set (unreadable for a moment)
	failOpenN         int
	failOpenArmed     int32
	failedSeen        map[string]bool
	freezeOnTxOf      string
	freezeOnPollOf    string
	burstMin          int
	delDelay          time.Duration
	earlyDelete       int
	sentLogged        map[string]int // sent-log records written per (name, hash), across a restart
	recoveryOvercount int
	jam               bool // the receiver refuses every request
}

func veMD5(b []byte) string { return fmt.Sprintf("%x", md5.Sum(b)) }

// ev records an interface event; it is also where a sender crash freezes the world
func (e *veEnv) ev(kind, name, info string) {
	e.mu.Lock()
	if e.frozen {
		e.mu.Unlock()
		<-e.block
	}
	e.events = append(e.events, veEvent{len(e.events) + 1, kind, name, info})
	n := len(e.events)
	if e.freezeAfterTx > 0 && kind == "txret" {
		// the crash point is given relative to the first answer that came back
		e.freezeAt = n + e.freezeAfterTx - 1
		e.freezeAfterTx = 0
	}
	if e.freezeOnTxOf != "" && kind == "tx" && strings.Contains(" "+info, " "+e.freezeOnTxOf+"[") {
		// the sender dies when it is about to send the first request for this file: the new
		// version is scanned, hashed and in the persisted cache, nothing of it is on the wire
		e.freezeAt = n
		e.freezeOnTxOf = ""
	}
	if e.freezeOnPollOf != "" && kind == "poll" && name == "ok" && strings.Contains(" "+info, " "+e.freezeOnPollOf+"=") {
		// the sender dies while the answer to the poll that covers this file is on its way back: the file
		// is sent, logged as sent, and not yet marked done
		e.freezeAt = n
		e.freezeOnPollOf = ""
	}
	if e.freezeAt > 0 && n == e.freezeAt {
		e.frozen = true
		if e.ctl != nil {
			e.ctl.Frozen = true
		}
		e.mu.Unlock()
		e.crashed <- true
		<-e.block
	}
	if e.stopAfterTx > 0 && kind == "txret" {
		e.stopAt = n + e.stopAfterTx - 1
		e.stopAfterTx = 0
	}
	if e.stopAtOpen > 0 && kind == "open" {
		e.stopAtOpen--
		if e.stopAtOpen == 0 {
			e.stopAt = n
		}
	}
	if e.stopAtPoll && kind == "poll" && name == "ok" {
		// the stop request arrives while the answer to a poll is on its way back
		e.stopAt = n
		e.stopAtPoll = false
	}
	stop := e.stopAt > 0 && n == e.stopAt && e.stopFn != nil
	fn := e.stopFn
	seen := e.stopSeen
	e.mu.Unlock()
	if stop {
		// the request is made here and the call that recorded this event returns only once the
		// sender has taken notice of it: the stop arrives DURING this interface call
		fn()
		if seen != nil {
			for i := 0; i < 200 && !seen(); i++ {
				time.Sleep(500 * time.Microsecond)
			}
		}
	}
}

// receiverHolds: does the receiver durably hold a validated copy with this hash?
// A validated file travels  <stage>/name.wait -> <final>/name.lck -> <final>/name
// (two renames inside fileutil.Move, after the log record was written); it is
// looked for at all three stations, a few times, because it may be between two.
func (e *veEnv) receiverHolds(name, hash string) bool {
	for attempt := 0; attempt < 25; attempt++ {
		if b, err := os.ReadFile(filepath.Join(e.stageDir, name+".wait")); err == nil && veMD5(b) == hash {
			return true
		}
		for _, p := range []string{filepath.Join(e.finalDir, name), filepath.Join(e.finalDir, name+".lck")} {
			if b, err := os.ReadFile(p); err == nil && veMD5(b) == hash {
				if e.rlog.WasReceived(name, hash, time.Now().Add(-24*time.Hour), time.Now().Add(time.Hour)) {
					return true
				}
			}
		}
		time.Sleep(2 * time.Millisecond)
	}
	return false
}

// ---- wrapped store ------------------------------------------------------------
type veStore struct {
	*store.Local
	e *veEnv
}

func (s *veStore) Scan(allow func(sts.File) bool) ([]sts.File, time.Time, error) {
	fs, t, err := s.Local.Scan(allow)
	var names []string
	for _, f := range fs {
		names = append(names, f.GetName())
	}
	sort.Strings(names)
	s.e.ev("scan", "", strings.Join(names, ","))
	return fs, t, err
}

// GetOpener: after a verdict "failed" was seen, re-reading that file takes a while (a large file
// being hashed again by a retry worker)
func (s *veStore) GetOpener() sts.Open {
	open := s.Local.GetOpener()
	return func(f sts.File) (sts.Readable, error) {
		s.e.mu.Lock()
		slow := s.e.slowOpenAfterFail > 0 && s.e.failedSeen[f.GetName()]
		d := s.e.slowOpenAfterFail
		failNow := false
		announce := s.e.stopAtOpen > 0
		if s.e.failOpenOf != "" && f.GetName() == s.e.failOpenOf && atomic.LoadInt32(&s.e.failOpenArmed) == 1 && s.e.failOpenN > 0 {
			s.e.failOpenN--
			failNow = true
		}
		s.e.mu.Unlock()
		if announce {
			s.e.ev("open", f.GetName(), "")
		}
		if failNow {
			s.e.ev("openfail", f.GetName(), "the file cannot be read at this moment")
			return nil, errors.New("open " + f.GetName() + ": permission denied (injected)")
		}
		if slow {
			time.Sleep(d)
		}
		return open(f)
	}
}

var veAsideSeq int64

type veAside struct {
	sts.File
	path string
}

func (a *veAside) GetPath() string { return a.path }

func (s *veStore) Remove(f sts.File) error {
	// capture atomically WHAT is being deleted: move it aside first (that is the
	// instant of the deletion), then look at it. The real Remove then acts on the
	// moved file only: whatever appears under the name AFTER that instant (a new
	// version written by the scenario) is not this deletion's business - the
	// wrapper must not stretch the microseconds between the sender's look at the
	// file and its removal into the milliseconds this bookkeeping takes.
	// (the rename is the first thing that happens here - no lock, no directory creation before it: the
	// sender has just looked at the file, and every microsecond added between that look and the removal
	// widens a window in which the scenario may put a new version under the name)
	aside := filepath.Join(s.e.root, "aside", fmt.Sprintf("%d-%s", atomic.AddInt64(&veAsideSeq, 1), strings.ReplaceAll(f.GetName(), "/", "_")))
	rerr := os.Rename(f.GetPath(), aside)
	h := ""
	held := false
	if rerr == nil {
		b, _ := os.ReadFile(aside)
		h = veMD5(b)
		held = s.e.receiverHolds(f.GetName(), h)
		// the tag's delete-delay: a file is deleted only once it is that old
		if s.e.delDelay > 0 {
			if info, err := os.Stat(aside); err == nil && time.Since(info.ModTime()) < s.e.delDelay {
				s.e.mu.Lock()
				s.e.earlyDelete++
				s.e.mu.Unlock()
			}
		}
	}
	ver := ""
	if s.e.versionOf != nil {
		ver = s.e.versionOf(f.GetName(), h)
	}
	dbg := ""
	if rerr == nil && !held {
		b, err := os.ReadFile(filepath.Join(s.e.finalDir, f.GetName()))
		dbg = fmt.Sprintf(" final(err=%v md5=%s) logged=%v", err, veMD5(b),
			s.e.rlog.WasReceived(f.GetName(), h, time.Now().Add(-24*time.Hour), time.Now().Add(time.Hour)))
	}
	s.e.ev("remove", f.GetName(), fmt.Sprintf("%s:%v:%s%s", h, held, ver, dbg))
	s.e.mu.Lock()
	s.e.removes = append(s.e.removes, f.GetName())
	if rerr == nil && !held {
		s.e.badRemove++
	}
	s.e.mu.Unlock()
	return s.Local.Remove(&veAside{File: f, path: aside})
}

// ---- sent log ---------------------------------------------------------------------
type veSentLog struct {
	*log.FileIO
	e *veEnv
}

func (l *veSentLog) Sent(f sts.Sent) {
	l.e.mu.Lock()
	got := l.e.acked[f.GetName()+"|"+f.GetHash()]
	if got < f.GetSize() {
		l.e.sentEarly++
	}
	l.e.mu.Unlock()
	l.e.ev("sentlog", f.GetName(), fmt.Sprintf("%d/%d", got, f.GetSize()))
	// (counted only here: a sender that "died" is frozen inside ev() and never writes the record)
	l.e.mu.Lock()
	if l.e.sentLogged == nil {
		l.e.sentLogged = map[string]int{}
	}
	l.e.sentLogged[f.GetName()+"|"+f.GetHash()]++
	l.e.mu.Unlock()
	l.FileIO.Sent(f)
}

// ---- transport ---------------------------------------------------------------------
func (e *veEnv) wire(p sts.Binned) *veWire {
	b, n := p.GetSlice()
	return &veWire{name: p.GetName(), renamed: p.GetRenamed(), prev: p.GetPrev(), hash: p.GetFileHash(),
		size: p.GetFileSize(), beg: b, end: b + n, t: p.GetFileTime()}
}

func (e *veEnv) transmit(p sts.Payload) (int, error) {
	e.mu.Lock()
	e.txCalls++
	f := veFault{kind: "none"}
	if len(e.faults) > 0 {
		f = e.faults[0]
		e.faults = e.faults[1:]
	}
	e.mu.Unlock()
	parts := p.GetParts()
	var desc []string
	for _, part := range parts {
		w := e.wire(part)
		desc = append(desc, fmt.Sprintf("%s[%d:%d]", w.name, w.beg, w.end))
	}
	if e.jam {
		f.kind = "unavail"
		time.Sleep(5 * time.Millisecond)
	}
	e.ev("tx", f.kind, strings.Join(desc, " "))
	if f.kind == "unavail" {
		e.ev("txret", "err", "unavailable")
		return 0, errors.New("503")
	}
	if e.failHeadOf != "" {
		// sticky fault: the request that carries the FIRST part of this file is refused a few times,
		// whichever connection sends it and whenever
		hit := false
		for _, part := range parts {
			if w := e.wire(part); w.name == e.failHeadOf && w.beg == 0 {
				hit = true
			}
		}
		e.mu.Lock()
		if hit && e.failHeadN > 0 {
			e.failHeadN--
			e.mu.Unlock()
			time.Sleep(15 * time.Millisecond)
			e.ev("txret", "err", "unavailable (head of "+e.failHeadOf+")")
			return 0, errors.New("503")
		}
		e.mu.Unlock()
	}
	if !e.st.Ready() {
		e.ev("txret", "err", "not ready")
		return 0, errors.New("503")
	}
	if f.kind == "swallow" {
		// something between sender and receiver answered 200 without passing the payload on
		enc := p.GetEncoder()
		for _, part := range parts {
			w := e.wire(part)
			buf := make([]byte, w.end-w.beg)
			io.ReadFull(enc, buf)
			e.mu.Lock()
			e.sentBytes[w.name] += w.end - w.beg
			e.mu.Unlock()
		}
		enc.Close()
		e.ackHead(parts, len(parts)) // the sender WAS told that everything arrived
		e.ev("txret", "ok", fmt.Sprintf("%d (swallowed)", len(parts)))
		return len(parts), nil
	}
	var binned []sts.Binned
	for _, part := range parts {
		binned = append(binned, e.wire(part))
	}
	e.st.Prepare(binned)
	enc := p.GetEncoder()
	defer enc.Close()
	recorded := 0
	for i, part := range parts {
		w := e.wire(part)
		if f.kind == "cutbefore" && f.at == i {
			e.ev("txret", "err", "cut before part")
			return 0, errors.New("connection cut")
		}
		buf := make([]byte, w.end-w.beg)
		if _, err := io.ReadFull(enc, buf); err != nil {
			e.mu.Lock()
			e.vanished++
			e.mu.Unlock()
			e.ev("txret", "err", "source read: "+err.Error())
			return i, errors.New("source read failed")
		}
		e.mu.Lock()
		if e.minAge > 0 && time.Since(w.t) < e.minAge-100*time.Millisecond {
			e.youngSent++
		}
		e.sentBytes[w.name] += w.end - w.beg
		e.txRanges[w.name] = append(e.txRanges[w.name], [2]int64{w.beg, w.end})
		e.mu.Unlock()
		if f.kind == "fail" && f.at == i {
			e.ackHead(parts, recorded)
			e.ev("txret", "partial", fmt.Sprint(i))
			return i, errors.New("206")
		}
		if f.kind == "corrupt" && f.at == i && len(buf) > 0 {
			buf[0] ^= 0x5a
		}
		if w.name == e.corruptOf && w.beg == 0 && len(buf) > 0 {
			e.mu.Lock()
			hit := e.corruptN > 0
			if hit {
				e.corruptN--
			}
			e.mu.Unlock()
			if hit {
				buf[0] ^= 0x33
				e.ev("corrupt", w.name, "first byte damaged on the way")
			}
		}
		file := &sts.Partial{Name: w.name, Renamed: w.renamed, Prev: w.prev, Size: w.size,
			Time: marshal.NanoTime{Time: w.t}, Hash: w.hash, Source: "src",
			Parts: []*sts.ByteRange{{Beg: w.beg, End: w.end}}}
		if err := e.st.Receive(file, bytes.NewReader(buf)); err != nil {
			e.ackHead(parts, recorded)
			e.ev("txret", "partial", fmt.Sprint(i))
			return i, errors.New("206")
		}
		recorded++
		if f.kind == "cutafter" && f.at == i {
			e.ev("txret", "err", "cut after part")
			return 0, errors.New("connection cut")
		}
	}
	if e.swapFn != nil {
		e.mu.Lock()
		fn := e.swapFn
		due := e.swapName != "" && e.sentBytes[e.swapName] >= e.swapSize
		if due {
			e.swapFn = nil
		}
		e.mu.Unlock()
		if due {
			fn() // the source is replaced between the last byte going out and the answer coming back
			e.ev("swap", e.swapName, "same size, mtime +400ms")
		}
	}
	if f.kind == "lost" {
		e.ev("txret", "err", "answer lost")
		return 0, errors.New("answer lost")
	}
	e.ackHead(parts, len(parts))
	e.ev("txret", "ok", fmt.Sprint(len(parts)))
	return len(parts), nil
}

// ackHead: the receiver acknowledged (answered for) the first k parts
func (e *veEnv) ackHead(parts []sts.Binned, k int) {
	e.mu.Lock()
	defer e.mu.Unlock()
	for i := 0; i < k && i < len(parts); i++ {
		_, n := parts[i].GetSlice()
		e.acked[parts[i].GetName()+"|"+parts[i].GetFileHash()] += n
	}
}

func (e *veEnv) txRecover(p sts.Payload) (int, error) {
	parts := p.GetParts()
	if !e.st.Ready() {
		return 0, errors.New("503")
	}
	// the data-recovery request as the HTTP layer makes it: the payload's real header, decoded by the
	// real decoder; the gate keeper is asked about the DECODED part descriptors
	var binned []sts.Binned
	if hdr, err := p.EncodeHeader(); err == nil {
		if dec, err := payload.NewDecoder(len(hdr), string(os.PathSeparator), bytes.NewReader(hdr)); err == nil {
			binned = dec.GetParts()
		}
	}
	if len(binned) != len(parts) {
		binned = nil
		for _, part := range parts {
			binned = append(binned, e.wire(part))
		}
	}
	n := e.st.Received(binned)
	// what the answer counts as held must be on the receiver's record (or complete / put away)
	for i := 0; i < n && i < len(parts); i++ {
		w := e.wire(parts[i])
		if !e.recordHas(w) {
			e.mu.Lock()
			e.recoveryOvercount++
			e.mu.Unlock()
			e.ev("overcount", w.name, fmt.Sprintf("[%d:%d) counted as held, not on record", w.beg, w.end))
		}
	}
	e.ackHead(parts, n)
	e.ev("txrec", "", fmt.Sprint(n))
	return n, nil
}

// recordHas: is this part on the receiver's record - in the companion of that version, or is the
// file complete (.full), held (.wait) or put away with that hash?
func (e *veEnv) recordHas(w *veWire) bool {
	for attempt := 0; attempt < 3; attempt++ {
		if b, err := os.ReadFile(filepath.Join(e.stageDir, w.name+".cmp")); err == nil {
			var c sts.Partial
			if json.Unmarshal(b, &c) == nil && c.Hash == w.hash {
				for _, r := range c.Parts {
					if r.Beg <= w.beg && w.end <= r.End {
						return true
					}
				}
			}
		}
		for _, ext := range []string{".full", ".wait"} {
			if b, err := os.ReadFile(filepath.Join(e.stageDir, w.name+ext)); err == nil && veMD5(b) == w.hash {
				return true
			}
		}
		for _, p := range []string{filepath.Join(e.finalDir, w.name), filepath.Join(e.finalDir, w.name+".lck")} {
			if b, err := os.ReadFile(p); err == nil && veMD5(b) == w.hash {
				return true
			}
		}
		if e.rlog.WasReceived(w.name, w.hash, time.Now().Add(-24*time.Hour), time.Now().Add(time.Hour)) {
			return true // delivered and logged (the consumer may have taken the file away)
		}
		time.Sleep(2 * time.Millisecond)
	}
	return false
}

type vePolled struct {
	sts.Pollable
	code int
}

func (c *vePolled) NotFound() bool { return c.code == sts.ConfirmNone }
func (c *vePolled) Waiting() bool  { return c.code == sts.ConfirmWaiting }
func (c *vePolled) Failed() bool   { return c.code == sts.ConfirmFailed }
func (c *vePolled) Received() bool { return c.code == sts.ConfirmPassed }

func (e *veEnv) validate(sent []sts.Pollable) ([]sts.Polled, error) {
	e.mu.Lock()
	pf := ""
	if len(e.pollFault) > 0 {
		pf = e.pollFault[0]
		e.pollFault = e.pollFault[1:]
	}
	if e.burstMin > 0 && len(sent) >= e.burstMin {
		// the first poll that covers this many files takes half a second and reports them all as failed
		// (the receiver had a bad moment): a burst of retries while the sender is busy sending
		e.burstMin = 0
		pf = "slowfail"
	}
	e.mu.Unlock()
	if pf == "slowfail" {
		time.Sleep(500 * time.Millisecond)
	}
	if pf == "slow" {
		time.Sleep(1300 * time.Millisecond) // the answer takes longer than the idle period of the retry workers
		if e.failOpenOf != "" {
			// ... and the unreadable file becomes readable shortly after the answer is in
			go func() { time.Sleep(150 * time.Millisecond); atomic.StoreInt32(&e.failOpenArmed, 0) }()
		}
	}
	if pf == "err" || !e.st.Ready() {
		e.ev("poll", "err", "")
		return nil, errors.New("poll failed")
	}
	var out []sts.Polled
	var desc []string
	for _, f := range sent {
		// as http.Client.Validate / Server.routeValidate do it: name, start time (whole seconds) and,
		// when the gate keeper can tell versions apart, the hash of the version that was sent
		var gk sts.GateKeeper = e.st
		code := -1
		if vgk, ok := gk.(interface {
			GetVersionStatus(relPath, hash string, sent time.Time) int
		}); ok && f.GetHash() != "" {
			code = vgk.GetVersionStatus(f.GetName(), f.GetHash(), time.Unix(f.GetStarted().Unix(), 0))
		} else {
			code = gk.GetFileStatus(f.GetName(), time.Unix(f.GetStarted().Unix(), 0))
		}
		if pf == "none" {
			code = sts.ConfirmNone
		}
		if pf == "slowfail" {
			code = sts.ConfirmFailed
		}
		out = append(out, &vePolled{Pollable: f, code: code})
		desc = append(desc, fmt.Sprintf("%s=%d", f.GetName(), code))
		if code == sts.ConfirmFailed {
			e.mu.Lock()
			if e.failedSeen == nil {
				e.failedSeen = map[string]bool{}
			}
			e.failedSeen[f.GetName()] = true
			e.mu.Unlock()
		}
	}
	e.ev("poll", "ok", strings.Join(desc, " "))
	return out, nil
}

func (e *veEnv) recoverer() ([]*sts.Partial, error) {
	if !e.st.Ready() {
		return nil, errors.New("503")
	}
	b, err := e.st.Scan("1")
	if err != nil {
		return nil, err
	}
	ps, err := stage.ReadCompanions(bytes.NewReader(b))
	var desc []string
	for _, p := range ps {
		desc = append(desc, p.Name)
	}
	e.ev("partials", "", strings.Join(desc, ","))
	return ps, err
}

// ---- scenario -------------------------------------------------------------------------
type veFileSpec struct {
	name     string
	size     int
	seedb    byte
	age      time.Duration
	eligible bool
	link     bool // the source entry is a symbolic link to a file kept elsewhere
}

type veScenario struct {
	id                string
	profile           string
	files             []veFileSpec
	del               bool
	threads           int
	payload           int64
	chunk             int64
	faults            []veFault
	pollFault         []string
	stopKind          string // "" (run until quiescent then graceful), graceful, now
	stopAt            int
	crashAt           int
	reuse             bool   // after the first delivery a file is created anew under a used name
	reuseFault        string // ... and the first request(s) carrying the new version are lost without a part count (data recovery)
	reuseFaultN       int
	stopAfterMs       int           // the stop request arrives this long after start (wall clock), whatever the sender is doing
	jam               bool          // the receiver refuses every request, for the whole run
	crashOnPollOf     string        // the sender dies while the poll answer covering this file is on its way back
	burstMin          int           // the first poll covering at least this many files is slow and answers "failed" for all of them
	pollInterval      time.Duration // (0 = 10 ms)
	pollMax           int           // (0 = 1..3 by scenario)
	reuseCrash        bool          // ... and the sender dies when it is about to send the new version (then restarts)
	mutate            string        // name of a file rewritten while queued
	stopAfterTx       int           // stop at the k-th interface event counted from the first answer to a data request
	stopAtPoll        bool          // stop while the first poll answer is on its way back
	crashAfterTx      int           // crash at the k-th interface event counted from the first answer to a data request
	slowOpenAfterFail time.Duration // re-reading a file whose validation failed takes this long
	failOpenN         int           // profile swapfail: the swapped-in version cannot be opened this many times
	stopAtOpen        int           // profile stophash: the stop request arrives while the k-th file is opened for hashing
	failHeadOf        string        // the request carrying the first part of this file is refused failHeadN times
	failHeadN         int
	corruptOf         string        // this file fails validation corruptN times in a row (damaged on the way), then goes through
	corruptN          int
	goneWhileDown     bool   // crash profiles: one unfinished source file is removed while the sender is down
	swap              string // name of a file replaced by a same-size version (mtime in the same second) right after its last byte was received
	scanDelay         time.Duration
	include           string
	ignore            string
	hidden            bool
	minAge            time.Duration
	delDelay          time.Duration // delete-delay of the tag (a confirmed file is deleted once it is this old)
}

func veContent(f veFileSpec, version int) []byte {
	n := f.size + version
	if version >= 100 {
		n = f.size // a different version of exactly the same size
	}
	b := make([]byte, n)
	for i := range b {
		b[i] = byte(int(f.seedb) + i*7 + version*13)
		if b[i] == 0 {
			b[i] = 1
		}
	}
	return b
}

// vePollMax: how many files go into one poll request (also at restart recovery): small, so that
// batches are split (derived from the scenario so that a scenario is reproducible)
func vePollMax(sc veScenario) int {
	if sc.pollMax > 0 {
		return sc.pollMax
	}
	return 1 + (len(sc.files)+sc.threads+int(sc.payload))%3
}

func units200(r *gen.Rand) int64 { return int64(150 + r.Intn(100)) }

func vePollInterval(sc veScenario) time.Duration {
	if sc.pollInterval > 0 {
		return sc.pollInterval
	}
	return 10 * time.Millisecond
}

func veScanDelay(sc veScenario) time.Duration {
	if sc.scanDelay > 0 {
		return sc.scanDelay
	}
	return 30 * time.Millisecond
}

func (e *veEnv) newBroker(sc veScenario) (*Broker, *veStore) {
	st := &store.Local{Root: e.out, MinAge: sc.minAge, IncludeHidden: sc.hidden}
	if sc.include != "" {
		st.Include = []*regexp.Regexp{regexp.MustCompile(sc.include)}
	}
	if sc.ignore != "" {
		st.Ignore = []*regexp.Regexp{regexp.MustCompile(sc.ignore)}
	}
	st.AddStandardIgnore()
	ws := &veStore{Local: st, e: e}
	c, err := cache.NewJSON(e.cacheDir, e.out, "")
	if err != nil {
		panic(err)
	}
	qtags := []*queue.Tag{{Name: "", Priority: 0, Order: sts.OrderFIFO, ChunkSize: sc.chunk}}
	grouper := func(name string) string {
		if i := strings.Index(name, "."); i > 0 {
			return name[:i]
		}
		return ""
	}
	tagger := func(string) string { return "" }
	e.slog = log.NewFileIO(e.logOut, nil, nil, false)
	b := &Broker{Conf: &Conf{
		Name: "verif", Store: ws, Cache: c, Queue: queue.NewTagged(qtags, tagger, grouper),
		Recoverer: e.recoverer, BuildPayload: payload.NewBin, Transmitter: e.transmit, TxRecoverer: e.txRecover,
		Validator: e.validate, Logger: &veSentLog{FileIO: e.slog, e: e}, Tagger: func(string) string { return "" },
		CacheAge: time.Hour, ScanDelay: veScanDelay(sc), Threads: sc.threads,
		PayloadSize: units.Base2Bytes(sc.payload), StatInterval: time.Hour,
		PollDelay: 5 * time.Millisecond, PollInterval: vePollInterval(sc), PollAttempts: 3, PollMaxCount: vePollMax(sc),
		Tags: []*FileTag{{Name: "", InOrder: true, Delete: sc.del, DeleteDelay: sc.delDelay}}, ErrorBackoff: 0,
	}}
	return b, ws
}

// veRunBounded: a scenario that is still running after four minutes (they take seconds; a hang of the
// HARNESS was seen once in 7,000 scenarios) is given up: its line says "not finished", which flags it, and
// the flagged scenario is then played again on its own by the confirmation step of bin/check. The
// goroutines of the abandoned run are left behind (their stacks are in build/hang-<id>.txt).
func veRunBounded(tmp string, sc veScenario) string {
	ch := make(chan string, 1)
	go func() { ch <- veRun(tmp, sc) }()
	select {
	case l := <-ch:
		return l
	case <-time.After(time.Duration(gen.EnvInt("VERIF_E2E_ABANDON_MS", 240000)) * time.Millisecond):
		return fmt.Sprintf("E %s %s files=%d links=0 del=%v threads=%d payload=%d chunk=%d faults=%d pollfaults=%d stop=%s stopat=%d crashat=%d reuse=%v reusefault=- reusecrash=%v deldelay=0 mutate=- = abandoned_after_4_minutes=1 delivered_ok=0 eligible=%d files=%d finished=false restarted=false stop_ms=-1 tx_calls=2\n",
			sc.id, sc.profile, len(sc.files), sc.del, sc.threads, sc.payload, sc.chunk, len(sc.faults), len(sc.pollFault),
			map[bool]string{true: "-", false: sc.stopKind}[sc.stopKind == ""], sc.stopAt, sc.crashAt, sc.reuse, sc.reuseCrash, len(sc.files), len(sc.files))
	}
}

func veRun(tmp string, sc veScenario) string {
	// a marker that survives a crash of the whole test process: which scenario was running
	marker := filepath.Join(tmp, "running-"+sc.id)
	os.WriteFile(marker, []byte(fmt.Sprintf("E %s %s files=%d del=%v threads=%d payload=%d chunk=%d faults=%d stop=%s\n", sc.id, sc.profile,
		len(sc.files), sc.del, sc.threads, sc.payload, sc.chunk, len(sc.faults), sc.stopKind)), 0o644)
	defer os.Remove(marker)
	// a scenario is over in well under a minute: if one is still running after three, write the stacks of all
	// goroutines next to the build output (diagnosis of a hang seen once in the thorough tier)
	wd := time.AfterFunc(3*time.Minute, func() {
		buf := make([]byte, 1<<23)
		n := runtime.Stack(buf, true)
		os.WriteFile(filepath.Join(filepath.Dir(filepath.Dir(tmp)), "hang-"+sc.id+".txt"), buf[:n], 0o644)
	})
	defer wd.Stop()
	root := filepath.Join(tmp, "e2e"+sc.id)
	os.RemoveAll(root)
	defer os.RemoveAll(root)
	e := &veEnv{root: root, out: filepath.Join(root, "out"), cacheDir: filepath.Join(root, "cache"),
		stageDir: filepath.Join(root, "stage"), finalDir: filepath.Join(root, "final"),
		logIn: filepath.Join(root, "login"), logOut: filepath.Join(root, "logout"),
		acked: map[string]int64{}, sentBytes: map[string]int64{}, txRanges: map[string][][2]int64{},
		crashed: make(chan bool, 1), block: make(chan bool),
		faults: append([]veFault{}, sc.faults...), pollFault: append([]string{}, sc.pollFault...),
		corruptOf: sc.corruptOf, corruptN: sc.corruptN, failOpenN: sc.failOpenN, stopAtOpen: sc.stopAtOpen, minAge: sc.minAge,
		failHeadOf: sc.failHeadOf, failHeadN: sc.failHeadN, slowOpenAfterFail: sc.slowOpenAfterFail,
		jam: sc.jam, burstMin: sc.burstMin, delDelay: sc.delDelay, freezeOnPollOf: sc.crashOnPollOf, freezeAt: sc.crashAt, freezeAfterTx: sc.crashAfterTx, stopAt: sc.stopAt, stopAfterTx: sc.stopAfterTx, stopAtPoll: sc.stopAtPoll}
	for _, d := range []string{e.out, e.cacheDir, e.stageDir, e.finalDir} {
		os.MkdirAll(d, 0o755)
	}
	version := map[string]int{}
	var swapDone int32
	ver := func(name string) int {
		if name == sc.swap && sc.swap != "" && atomic.LoadInt32(&swapDone) == 1 {
			return 100
		}
		return version[name]
	}
	write := func(f veFileSpec, v int) {
		p := filepath.Join(e.out, f.name)
		os.MkdirAll(filepath.Dir(p), 0o755)
		tmpf := filepath.Join(e.root, "tmp-"+strings.ReplaceAll(f.name, "/", "_"))
		os.WriteFile(tmpf, veContent(f, v), 0o644)
		if f.age > 0 && v == 0 {
			t := time.Now().Add(-f.age)
			os.Chtimes(tmpf, t, t)
		}
		if f.link && v == 0 {
			// the content lives outside the watched tree; the entry in it is a link
			target := filepath.Join(e.root, "linked-"+strings.ReplaceAll(f.name, "/", "_"))
			os.Rename(tmpf, target)
			os.Symlink(target, p)
		} else {
			os.Rename(tmpf, p) // files appear atomically
		}
		version[f.name] = v
	}
	for _, f := range sc.files {
		write(f, 0)
		if f.name == sc.swap {
			p := filepath.Join(e.out, f.name)
			t0 := time.Now().Add(-f.age).Truncate(time.Second).Add(100 * time.Millisecond)
			os.Chtimes(p, t0, t0)
			fc := f
			e.swapName, e.swapSize = f.name, int64(f.size)
			if sc.failOpenN > 0 {
				e.failOpenOf = f.name
			}
			e.swapFn = func() {
				tmpf := filepath.Join(e.root, "swap-tmp")
				os.WriteFile(tmpf, veContent(fc, 100), 0o644)
				t1 := t0.Add(400 * time.Millisecond)
				os.Chtimes(tmpf, t1, t1)
				os.Rename(tmpf, p)
				atomic.StoreInt32(&swapDone, 1)
				atomic.StoreInt32(&e.failOpenArmed, 1)
			}
		}
	}
	e.versionOf = func(name, hash string) string {
		for _, f := range sc.files {
			if f.name == name {
				for _, v := range []int{0, 1, 2, 100} {
					if veMD5(veContent(f, v)) == hash {
						return fmt.Sprintf("v%d", v)
					}
				}
			}
		}
		return "v?"
	}
	os.MkdirAll(filepath.Join(e.root, "aside"), 0o755) // where deleted files are moved at the instant of deletion (outside the watched tree)
	e.rlog = log.NewFileIO(e.logIn, nil, nil, false)
	e.st = stage.New("src", e.stageDir, e.finalDir, e.rlog, nil, nil)
	if sc.crashAt > 0 {
		// a sender crash also stops its cache writes
		e.ctl = &verifos.Controller{Prefix: e.cacheDir + string(os.PathSeparator)}
		verifos.Arm(e.ctl)
		defer verifos.Disarm(e.ctl)
	}

	broker, _ := e.newBroker(sc)
	stop := make(chan bool, 2)
	done := make(chan bool, 2)
	var stopOnce sync.Once
	var stopSent time.Time
	sendStop := func(graceful bool) {
		stopOnce.Do(func() { stopSent = time.Now(); stop <- graceful })
	}
	e.stopFn = func() { sendStop(sc.stopKind != "now") }
	e.stopSeen = broker.shouldStop
	go broker.Start(stop, done)

	eligible := map[string]veFileSpec{}
	for _, f := range sc.files {
		if f.eligible {
			eligible[f.name] = f
		}
	}
	deliveredOK := func() int {
		n := 0
		for name, f := range eligible {
			b, err := os.ReadFile(filepath.Join(e.finalDir, name))
			if err == nil && veMD5(b) == veMD5(veContent(f, ver(name))) {
				n++
			}
		}
		return n
	}
	allDone := func(c sts.FileCache) bool {
		ok := true
		for name := range eligible {
			f := c.Get(name)
			if sc.del {
				if _, err := os.Stat(filepath.Join(e.out, name)); err == nil {
					ok = false
				}
			} else if f == nil || !f.IsDone() {
				ok = false
			}
		}
		return ok
	}
	facts := map[string]string{}
	restarted := false
	bytesBeforeRestart := map[string]int64{}
	heldAtRestart := map[string][][2]int64{}
	mutated := false
	reused := false

	limit := 12 * time.Second
	if sc.profile == "mutate" || sc.profile == "reuse" || sc.profile == "swap" {
		limit = 25 * time.Second
	}
	phase := func(b0 *Broker) (finished bool, crashed bool) {
		deadline := time.Now().Add(limit)
		lastClean := time.Now()
		for time.Now().Before(deadline) {
			// the receiver's periodic cleaner (30 min in production) in compressed
			// time: it is what breaks predecessor cycles (e.g. a file re-sent as a
			// new version after its successor was already announced)
			if time.Since(lastClean) > 1500*time.Millisecond {
				lastClean = time.Now()
				e.st.CleanNow()
			}
			select {
			case <-e.crashed:
				return false, true
			case <-done:
				return true, false
			default:
			}
			if sc.stopAfterMs > 0 && time.Since(deadline.Add(-limit)) > time.Duration(sc.stopAfterMs)*time.Millisecond {
				sendStop(sc.stopKind != "now")
			}
			// a queued file is rewritten once its first bytes went out
			if sc.mutate != "" && !mutated {
				e.mu.Lock()
				sent := e.sentBytes[sc.mutate]
				e.mu.Unlock()
				if sent > 0 {
					for _, f := range sc.files {
						if f.name == sc.mutate {
							if sc.profile == "vanish" {
								// the file disappears while it is queued: it is no longer an eligible file
								os.Remove(filepath.Join(e.out, f.name))
								delete(eligible, f.name)
							} else {
								write(f, 1)
							}
						}
					}
					mutated = true
				}
			}
			// a name used before is used again for new content right after delivery
			if sc.reuse && !reused && deliveredOK() >= 1 {
				for _, f := range sc.files {
					if !f.eligible {
						continue
					}
					if b, err := os.ReadFile(filepath.Join(e.finalDir, f.name)); err == nil && veMD5(b) == veMD5(veContent(f, 0)) {
						// "created anew under a name used before": after the sender released the old one
						if sc.del && sc.delDelay == 0 {
							if _, err := os.Stat(filepath.Join(e.out, f.name)); err == nil {
								continue
							}
						} else if c := b0.Conf.Cache.Get(f.name); c == nil || !c.IsDone() {
							continue // (with a delete delay: written while the confirmed version still waits to be deleted)
						}
						if sc.reuseCrash {
							e.mu.Lock()
							e.freezeOnTxOf = f.name
							e.mu.Unlock()
						}
						if sc.reuseFault != "" {
							// the request that carries the new version is lost on the way, without a part
							// count: the sender asks the receiver what it holds (data recovery)
							e.mu.Lock()
							for i := 0; i < sc.reuseFaultN; i++ {
								e.faults = append(e.faults, veFault{kind: sc.reuseFault, at: 0})
							}
							e.mu.Unlock()
						}
						write(f, 2)
						reused = true
						break
					}
				}
			}
			if sc.stopKind == "" && (!sc.reuse || reused || len(eligible) == 0) && deliveredOK() == len(eligible) && allDone(b0.Conf.Cache) {
				// (a reuse scenario is over when the NEW version is delivered: between "old version
				// delivered and marked done" and "old version removed" the condition holds by accident)
				sendStop(true)
			}
			time.Sleep(10 * time.Millisecond)
		}
		return false, false
	}
	if sc.stopKind != "" && sc.stopAt == 0 {
		sendStop(sc.stopKind == "graceful") // stop right after start (one-shot run)
	}
	finished, crashed := phase(broker)
	if crashed {
		// ---- sender restart: a new Broker on the persisted cache ------------------
		restarted = true
		e.mu.Lock()
		for k, v := range e.sentBytes {
			bytesBeforeRestart[k] = v
		}
		e.mu.Unlock()
		// what the receiver reports holding at this moment
		if b, err := e.st.Scan("1"); err == nil {
			if ps, err := stage.ReadCompanions(bytes.NewReader(b)); err == nil {
				for _, p := range ps {
					// what the receiver holds of a file that FAILED validation has to be sent again
					if e.st.GetFileStatus(p.Name, time.Now().Add(-time.Hour)) == sts.ConfirmFailed {
						continue
					}
					for _, r := range p.Parts {
						heldAtRestart[p.Name] = append(heldAtRestart[p.Name], [2]int64{r.Beg, r.End})
					}
				}
			}
		}
		{
			var hn []string
			for k := range heldAtRestart {
				hn = append(hn, k)
			}
			sort.Strings(hn)
			var sn []string
			filepath.Walk(e.stageDir, func(p string, info os.FileInfo, err error) error {
				if err == nil && !info.IsDir() {
					rel, _ := filepath.Rel(e.stageDir, p)
					sn = append(sn, rel)
				}
				return nil
			})
			facts["listed_at_restart"] = "[" + strings.Join(hn, ",") + "]"
			facts["staged_at_restart"] = "[" + strings.Join(sn, ",") + "]"
		}
		if sc.goneWhileDown {
			// one source file that is not released yet disappears while the sender is down
			var cands []string
			for name := range eligible {
				if _, err := os.Stat(filepath.Join(e.out, name)); err == nil {
					if c := broker.Conf.Cache.Get(name); c == nil || !c.IsDone() {
						cands = append(cands, name)
					}
				}
			}
			sort.Strings(cands)
			if len(cands) > 1 {
				// prefer the one with the fewest bytes on the wire so far
				best := cands[0]
				for _, n := range cands {
					if bytesBeforeRestart[n] < bytesBeforeRestart[best] {
						best = n
					}
				}
				os.Remove(filepath.Join(e.out, best))
				delete(eligible, best)
				facts["gone_while_down"] = best
			}
		}
		e2 := *e
		e2.mu = sync.Mutex{}
		e2.frozen = false
		e2.freezeAt = 0
		e2.freezeAfterTx = 0
		e2.stopAt = 0
		e2.stopAfterTx = 0
		e2.stopAtPoll = false
		e2.events = nil
		e2.faults = nil
		e2.pollFault = nil
		e2.block = make(chan bool)
		e2.crashed = make(chan bool, 1)
		e2.txRanges = map[string][][2]int64{}
		e2.sentBytes = map[string]int64{}
		e2.acked = e.acked
		e2.ctl = nil
		if e.ctl != nil {
			verifos.Disarm(e.ctl)
		}
		ne := &e2
		broker2, _ := ne.newBroker(sc)
		stop = make(chan bool, 2)
		done = make(chan bool, 2)
		stopOnce = sync.Once{}
		sc.stopKind = ""
		ne.stopFn = func() { sendStop(true) }
		go broker2.Start(stop, done)
		eOld := e
		e = ne
		finished, _ = phase(broker2)
		// bytes transmitted again although the receiver listed them as held
		over := int64(0)
		for name, ranges := range e.txRanges {
			for _, r := range ranges {
				for _, h := range heldAtRestart[name] {
					lo, hi := r[0], r[1]
					if h[0] > lo {
						lo = h[0]
					}
					if h[1] < hi {
						hi = h[1]
					}
					if hi > lo {
						over += hi - lo
					}
				}
			}
		}
		facts["resent_held_bytes"] = fmt.Sprint(over)
		facts["bad_removes_before_crash"] = fmt.Sprint(eOld.badRemove)
		facts["events_before_crash"] = fmt.Sprint(len(eOld.events))
	}
	stopMs := int64(-1)
	if finished && !stopSent.IsZero() {
		stopMs = time.Since(stopSent).Milliseconds()
	}
	if !finished {
		// make sure nothing keeps running into the next scenario
		sendStop(false)
		select {
		case <-done:
		case <-time.After(3 * time.Second):
		}
	}
	e.st.Stop(true)

	// ---- facts ----------------------------------------------------------------
	facts["files"] = fmt.Sprint(len(sc.files))
	facts["eligible"] = fmt.Sprint(len(eligible))
	facts["delivered_ok"] = fmt.Sprint(deliveredOK())
	facts["finished"] = fmt.Sprint(finished)
	facts["stop_ms"] = fmt.Sprint(stopMs)
	facts["restarted"] = fmt.Sprint(restarted)
	facts["bad_removes"] = fmt.Sprint(e.badRemove)
	facts["removes"] = fmt.Sprint(len(e.removes))
	// protocol view (C02): a source file is released only after a positive answer to a poll made
	// after the last transmission that carried a part of it
	{
		lastTx := map[string]int{}
		lastPos := map[string]int{}
		unconfirmed := 0
		confirmedNames := map[string]bool{}
		for _, ev := range e.events {
			switch ev.kind {
			case "tx":
				for _, d := range strings.Fields(ev.info) {
					if i := strings.LastIndex(d, "["); i > 0 {
						lastTx[d[:i]] = ev.seq
					}
				}
			case "poll":
				if ev.name == "ok" {
					for _, d := range strings.Fields(ev.info) {
						if i := strings.LastIndex(d, "="); i > 0 && (d[i+1:] == "2" || d[i+1:] == "3") {
							lastPos[d[:i]] = ev.seq
							confirmedNames[d[:i]] = true
						}
					}
				}
			case "remove":
				// info = hash:held:version...; an empty hash = the file was already gone
				if !strings.HasPrefix(ev.info, ":") {
					if lp, ok := lastPos[ev.name]; !ok || lp < lastTx[ev.name] {
						unconfirmed++
					}
				}
			}
		}
		facts["released_without_positive_answer"] = fmt.Sprint(unconfirmed)
		// C16: nothing that was confirmed is left unrecorded in the queue cache when the sender has exited
		unrecorded := 0
		if finished && !restarted && sc.mutate == "" && sc.swap == "" && !sc.reuse {
			for name := range confirmedNames {
				c := broker.Conf.Cache.Get(name)
				_, statErr := os.Stat(filepath.Join(e.out, name))
				if c != nil && !c.IsDone() && statErr == nil {
					unrecorded++
				}
			}
		}
		facts["confirmed_left_unrecorded"] = fmt.Sprint(unrecorded)
		// C16: a graceful stop polls every transmitted file to a verdict: what the receiver holds complete and
		// validated at the end of a run without validation failures is marked done in the queue cache
		unpolled := 0
		if finished && !restarted && sc.stopKind == "graceful" && sc.mutate == "" && sc.swap == "" && !sc.reuse {
			for name, f := range eligible {
				c := broker.Conf.Cache.Get(name)
				if c != nil && !c.IsDone() && e.receiverHolds(name, veMD5(veContent(f, ver(name)))) {
					unpolled++
				}
			}
		}
		facts["delivered_left_unpolled"] = fmt.Sprint(unpolled)
	}
	facts["sent_before_all_acked"] = fmt.Sprint(e.sentEarly)
	facts["tx_calls"] = fmt.Sprint(e.txCalls)
	facts["source_read_errors"] = fmt.Sprint(e.vanished)
	// ineligible files must never be transmitted or deleted
	inel := 0
	for _, f := range sc.files {
		if f.eligible {
			continue
		}
		e.mu.Lock()
		if e.sentBytes[f.name] > 0 || bytesBeforeRestart[f.name] > 0 {
			inel++
		}
		e.mu.Unlock()
		if _, err := os.Stat(filepath.Join(e.out, f.name)); err != nil {
			inel++
		}
	}
	facts["ineligible_touched"] = fmt.Sprint(inel)
	if sc.minAge > 0 {
		e.mu.Lock()
		facts["young_sent"] = fmt.Sprint(e.youngSent)
		e.mu.Unlock()
	}
	// source files gone although the receiver does not hold their last content
	lost := 0
	for name, f := range eligible {
		if _, err := os.Stat(filepath.Join(e.out, name)); err != nil {
			want := veMD5(veContent(f, ver(name)))
			if !e.receiverHolds(name, want) {
				lost++
			}
		}
	}
	facts["source_lost"] = fmt.Sprint(lost)
	// everything in the final directory is some version of its source
	alien := 0
	filepath.Walk(e.finalDir, func(p string, info os.FileInfo, err error) error {
		if err != nil || info.IsDir() {
			return nil
		}
		rel, _ := filepath.Rel(e.finalDir, p)
		b, _ := os.ReadFile(p)
		ok := false
		for _, f := range sc.files {
			if f.name == rel {
				for _, v := range []int{0, 1, 2, 100} {
					if veMD5(b) == veMD5(veContent(f, v)) {
						ok = true
					}
				}
			}
		}
		if !ok {
			alien++
		}
		return nil
	})
	facts["alien_final"] = fmt.Sprint(alien)
	staged := 0
	var stagedNames []string
	filepath.Walk(e.stageDir, func(p string, info os.FileInfo, err error) error {
		if err == nil && !info.IsDir() {
			rel, _ := filepath.Rel(e.stageDir, p)
			// a stray partial / companion left by a late duplicate part of a file that IS delivered
			// (it is cleaned after a day) is not an undelivered file
			base := strings.TrimSuffix(rel, filepath.Ext(rel))
			if f, ok := eligible[base]; ok && (filepath.Ext(rel) == ".part" || filepath.Ext(rel) == ".cmp") {
				if b, err := os.ReadFile(filepath.Join(e.finalDir, base)); err == nil && veMD5(b) == veMD5(veContent(f, ver(base))) {
					return nil
				}
			}
			staged++
			stagedNames = append(stagedNames, rel)
		}
		return nil
	})
	facts["staged_left"] = fmt.Sprint(staged)
	e.mu.Lock()
	facts["recovery_overcount"] = fmt.Sprint(e.recoveryOvercount)
	twice := 0
	for _, n := range e.sentLogged {
		if n > 1 {
			twice++
		}
	}
	facts["sent_logged_twice"] = fmt.Sprint(twice)
	facts["early_delete"] = fmt.Sprint(e.earlyDelete)
	e.mu.Unlock()
	if staged > 0 {
		facts["staged_names"] = strings.Join(stagedNames, ",")
	}

	if d := os.Getenv("VERIF_E2E_DEBUG"); d == sc.id || d == "all" {
		var db strings.Builder
		for _, ev := range e.events {
			fmt.Fprintf(&db, "%d %s %s %s\n", ev.seq, ev.kind, ev.name, ev.info)
		}
		os.WriteFile(filepath.Join(tmp, "debug-"+sc.id+".txt"), []byte(db.String()), 0o644)
	}
	var keys []string
	for k := range facts {
		keys = append(keys, k)
	}
	sort.Strings(keys)
	var sb strings.Builder
	nlinks := 0
	for _, f := range sc.files {
		if f.link {
			nlinks++
		}
	}
	fmt.Fprintf(&sb, "E %s %s files=%d links=%d del=%v threads=%d payload=%d chunk=%d faults=%d pollfaults=%d stop=%s stopat=%d crashat=%d reuse=%v reusefault=%s reusecrash=%v deldelay=%d mutate=%s =",
		sc.id, sc.profile, len(sc.files), nlinks, sc.del, sc.threads, sc.payload, sc.chunk, len(sc.faults), len(sc.pollFault),
		map[bool]string{true: "-", false: sc.stopKind}[sc.stopKind == ""], sc.stopAt, sc.crashAt, sc.reuse,
		map[bool]string{true: "-", false: sc.reuseFault}[sc.reuseFault == ""], sc.reuseCrash, sc.delDelay/time.Millisecond,
		map[bool]string{true: "-", false: sc.mutate}[sc.mutate == ""])
	for _, k := range keys {
		fmt.Fprintf(&sb, " %s=%s", k, facts[k])
	}
	sb.WriteString("\n")
	if os.Getenv("VERIF_E2E_EVENTS") != "" || facts["finished"] != "true" || facts["bad_removes"] != "0" || facts["source_lost"] != "0" ||
		facts["released_without_positive_answer"] != "0" || facts["confirmed_left_unrecorded"] != "0" || facts["ineligible_touched"] != "0" ||
		(sc.stopKind != "now" && facts["delivered_ok"] != facts["eligible"]) {
		// keep the interface events of a run that needs attention (comment lines)
		for _, ev := range e.events {
			if ev.kind == "scan" && ev.info == "" {
				continue
			}
			fmt.Fprintf(&sb, "# %s %d %s %s %s\n", sc.id, ev.seq, ev.kind, ev.name, ev.info)
		}
	}
	return sb.String()
}

func veGen(r *gen.Rand, id string, profile string) veScenario {
	sc := veScenario{id: id, profile: profile, threads: 1 + r.Intn(3), payload: int64(20 + r.Intn(80)), del: r.Chance(1, 2)}
	sc.chunk = sc.payload
	if r.Chance(1, 2) {
		sc.chunk = int64(8 + r.Intn(40))
	}
	names := []string{"g.a", "g.b", "g.c", "h.a", "d/x.1", "d/x.2", "plain"}
	nf := 1 + r.Intn(5)
	used := map[string]bool{}
	for i := 0; i < nf; i++ {
		n := names[r.Intn(len(names))]
		if used[n] {
			continue
		}
		used[n] = true
		sc.files = append(sc.files, veFileSpec{name: n, size: 1 + r.Intn(150), seedb: byte(1 + r.Intn(200)), age: time.Duration(2+r.Intn(50)) * time.Second, eligible: true})
	}
	if profile == "plain" || profile == "crash" || profile == "faults" || profile == "stop" {
		for i := range sc.files {
			if r.Chance(1, 4) {
				sc.files[i].link = true
			}
		}
	}
	kinds := []string{"fail", "cutbefore", "cutafter", "lost", "unavail", "corrupt"}
	switch profile {
	case "faults", "liveness":
		for i := 0; i < 1+r.Intn(6); i++ {
			sc.faults = append(sc.faults, veFault{kind: kinds[r.Intn(len(kinds))], at: r.Intn(3)})
			if r.Chance(1, 3) {
				sc.faults = append(sc.faults, veFault{kind: "none"})
			}
		}
		for i := 0; i < r.Intn(4); i++ {
			sc.pollFault = append(sc.pollFault, []string{"err", "none", ""}[r.Intn(3)])
		}
	case "stop":
		sc.stopKind = []string{"graceful", "now"}[r.Intn(2)]
		sc.stopAt = r.Intn(40) // 0 = immediately after start
		switch r.Intn(3) {
		case 1: // relative to the first answer: the stretch in which files are tracked, logged, polled, released
			sc.stopAt = 100000
			sc.stopAfterTx = 1 + r.Intn(14)
		case 2:
			sc.stopAt = 100000
			sc.stopAtPoll = true
		}
		if r.Chance(1, 3) {
			sc.faults = append(sc.faults, veFault{kind: kinds[r.Intn(len(kinds))], at: r.Intn(2)})
		}
	case "stophash":
		// an immediate stop arrives in the hashing phase of a scan that found far more files than the hash
		// workers' hand-over channel holds (one batch per file)
		sc.files = nil
		for i := 0; i < 60+r.Intn(40); i++ {
			sc.files = append(sc.files, veFileSpec{name: fmt.Sprintf("hash.f%02d", i), size: 25 + r.Intn(20), seedb: byte(1 + r.Intn(200)), age: time.Duration(2+r.Intn(50)) * time.Second, eligible: true})
		}
		// (a hash batch is a payload's worth of files: several files per batch, more batches than the 3 x threads
		// the workers and their channel absorb)
		sc.threads = 1
		sc.payload, sc.chunk = units200(r), 50
		sc.stopKind = "now"
		sc.stopAt = 100000
		sc.stopAtOpen = 2 + r.Intn(4)
	case "stopjam":
		// the receiver refuses every request for the whole run; more small files than the sender's
		// channels hold, one payload each: after a second or two every stage of the pipeline is parked
		// in a blocked hand-over to the next one - then comes an immediate stop
		sc.files = nil
		for i := 0; i < 14+r.Intn(12); i++ {
			sc.files = append(sc.files, veFileSpec{name: fmt.Sprintf("jam.f%02d", i), size: 5 + r.Intn(30), seedb: byte(1 + r.Intn(200)), age: time.Duration(2+r.Intn(50)) * time.Second, eligible: true})
		}
		sc.threads = 1 + r.Intn(2)
		sc.payload, sc.chunk = 24, 8
		sc.jam = true
		sc.stopKind = "now"
		sc.stopAt = 100000
		sc.stopAfterMs = 2600 + r.Intn(1500)
	case "ring":
		// a long backlog of one-payload files, one connection; polls are made every 60 ms in batches of up to
		// 40 files; the first poll that covers 6 or more files takes half a second and answers "failed" for all
		// of them: a burst of files comes back for a re-send while the pipeline is full
		sc.files = nil
		for i := 0; i < 70+r.Intn(30); i++ {
			sc.files = append(sc.files, veFileSpec{name: fmt.Sprintf("ring.f%03d", i), size: 30 + r.Intn(10), seedb: byte(1 + r.Intn(200)), age: time.Duration(2+r.Intn(50)) * time.Second, eligible: true})
		}
		sc.threads = 1
		sc.payload, sc.chunk = 40, 40
		sc.pollInterval = 60 * time.Millisecond
		sc.pollMax = 40
		sc.burstMin = 6
	case "stopburst":
		// a one-shot run (graceful stop right after start): more small files than the poller's channel holds,
		// all in one payload - they complete together - and the first poll answer is slow: the tracker still
		// has complete files in its hands when its input closes
		sc.files = nil
		for i := 0; i < 8+r.Intn(6); i++ {
			sc.files = append(sc.files, veFileSpec{name: fmt.Sprintf("burst.f%02d", i), size: 3 + r.Intn(20), seedb: byte(1 + r.Intn(200)), age: time.Duration(2+r.Intn(50)) * time.Second, eligible: true})
		}
		sc.threads = 1
		sc.payload, sc.chunk = 2000, 2000
		sc.stopKind, sc.stopAt = "graceful", 0
		sc.pollFault = []string{"slow"}
	case "stopfail":
		// a one-shot run (graceful stop right after start) in which every file fails validation and the
		// verdicts arrive late: more failed verdicts than the retry channel holds, with nobody left to read it
		sc.stopKind, sc.stopAt = "graceful", 0
		sc.threads = 1 + r.Intn(2)
		for _, n := range names {
			if !used[n] && len(sc.files) < 2*sc.threads+1+r.Intn(3) {
				used[n] = true
				sc.files = append(sc.files, veFileSpec{name: n, size: 1 + r.Intn(60), seedb: byte(1 + r.Intn(200)), age: time.Duration(2+r.Intn(50)) * time.Second, eligible: true})
			}
		}
		for i := 0; i < 60; i++ {
			sc.faults = append(sc.faults, veFault{kind: "corrupt", at: 0})
		}
		sc.pollFault = []string{"slow"}
	case "stopretry":
		// one payload whose first part is corrupted: the verdict is "failed"; a graceful stop arrives while
		// that verdict is on its way back and the retry worker then needs a while to re-read the file
		sc.payload, sc.chunk = 1000, 1000
		sc.faults = []veFault{{kind: "corrupt", at: 0}}
		sc.stopKind = "graceful"
		sc.stopAt = 100000
		sc.stopAtPoll = true
		sc.slowOpenAfterFail = time.Duration(300+r.Intn(600)) * time.Millisecond
		sc.threads = 1 + r.Intn(3)
	case "ooo":
		// acknowledgements out of order: one file over several payloads, two or three connections, and the
		// request that carries its FIRST part keeps failing while the later ones go through
		sc.files = []veFileSpec{{name: "g.big", size: 100 + r.Intn(50), seedb: byte(1 + r.Intn(200)), age: 30 * time.Second, eligible: true}}
		if r.Chance(1, 2) {
			sc.files = append(sc.files, veFileSpec{name: "g.tail", size: 1 + r.Intn(30), seedb: byte(1 + r.Intn(200)), age: 20 * time.Second, eligible: true})
		}
		sc.threads = 2 + r.Intn(2)
		sc.payload = int64(30 + r.Intn(15))
		sc.chunk = sc.payload
		sc.files[0].size = int(sc.payload) * (2 + r.Intn(3)) // whole payloads: the last part is not held back by the binner
		sc.failHeadOf, sc.failHeadN = "g.big", 2+r.Intn(4)
	case "refail":
		// one file fails validation several times in a row (its first byte is damaged on the way, re-send
		// after re-send), now and then with a poll answered "unknown" in between; then the line is clean
		for _, f := range sc.files {
			if f.eligible && !f.link && (sc.corruptOf == "" || r.Chance(1, 3)) {
				sc.corruptOf = f.name
			}
		}
		sc.corruptN = 2 + r.Intn(3)
		for i := 0; i < r.Intn(3); i++ {
			sc.pollFault = append(sc.pollFault, []string{"none", ""}[r.Intn(2)])
		}
	case "pollnone":
		// the first requests are swallowed on the way (answered 200, never reach the receiver): the
		// receiver answers "unknown" poll after poll; nothing may be released, everything is sent again
		for i := 0; i < 1+r.Intn(3); i++ {
			sc.faults = append(sc.faults, veFault{kind: "swallow"})
		}
		sc.del = r.Chance(3, 4)
	case "crashfail":
		// every file in one payload whose first part is corrupted (that file fails validation), and the
		// sender dies around the time the answer comes back, before it has polled
		sc.payload, sc.chunk = 1000, 1000
		sc.faults = []veFault{{kind: "corrupt", at: 0}}
		sc.crashAt = 100000 // (armed: the cache writes of the old instance stop too)
		sc.crashAfterTx = 1 + r.Intn(3)
	case "crashgone":
		// two files; the sender dies early in the transfer; while it is down one unfinished source
		// file is removed
		for len(sc.files) > 2 {
			sc.files = sc.files[:len(sc.files)-1]
		}
		for _, n := range names {
			if len(sc.files) < 2 && !used[n] {
				used[n] = true
				sc.files = append(sc.files, veFileSpec{name: n, size: 60 + r.Intn(90), seedb: byte(1 + r.Intn(200)), age: time.Duration(2+r.Intn(50)) * time.Second, eligible: true})
			}
		}
		sc.payload = int64(20 + r.Intn(20))
		sc.chunk = sc.payload
		sc.crashAt = 100000
		sc.crashAfterTx = 1 + r.Intn(4)
		sc.goneWhileDown = true
	case "crash":
		sc.crashAt = 1 + r.Intn(45)
		if len(sc.files) > 0 && r.Chance(1, 2) {
			// a file last modified on an earlier day, at a LATER time of day than now: look-ups in the
			// sent log that start at its modification time span a range of days that does not end on a
			// whole number of days
			nowT := time.Now().UTC()
			midnight := time.Date(nowT.Year(), nowT.Month(), nowT.Day(), 0, 0, 0, 0, time.UTC).Add(24 * time.Hour)
			sc.files[0].age = 48*time.Hour - midnight.Sub(nowT)/2
			if r.Chance(2, 3) {
				// ... and the sender dies while the poll answer for that file is on its way back
				sc.crashAt = 100000
				sc.crashOnPollOf = sc.files[0].name
			}
		}
		if r.Chance(1, 3) {
			sc.faults = append(sc.faults, veFault{kind: kinds[r.Intn(4)], at: r.Intn(2)})
		}
	case "reuse":
		sc.reuse = true
		sc.del = r.Chance(2, 3)
		if r.Chance(1, 4) {
			sc.reuseCrash = true
			sc.crashAt = 100000 // armed
		} else if r.Chance(1, 3) {
			// delayed deletion: a confirmed file is kept until it is 8 s old; the new content is written
			// under its name while it waits, and stays invisible to the scan (too young) for 4 s
			sc.del = true
			sc.delDelay = 8 * time.Second
			sc.minAge = 4 * time.Second
			for i := range sc.files {
				sc.files[i].age = 4200 * time.Millisecond
			}
		} else if r.Chance(1, 2) {
			sc.reuseFault = []string{"cutbefore", "unavail", "lost", "cutafter", "swallow"}[r.Intn(5)]
			sc.reuseFaultN = 1 + r.Intn(2)
		}
	case "mutate", "vanish":
		if len(sc.files) > 0 {
			sc.mutate = sc.files[r.Intn(len(sc.files))].name
		}
	case "mutateyoung":
		// a minimum age is configured; a queued file is rewritten once its first bytes went out: the new
		// version fails validation (or is noticed by the retry path) while it is still too young to be sent
		sc.minAge = time.Duration(2000+r.Intn(1000)) * time.Millisecond
		sc.threads = 1
		for i := range sc.files {
			if sc.files[i].age < 8*time.Second {
				sc.files[i].age += 8 * time.Second
			}
		}
		if len(sc.files) > 0 {
			sc.mutate = sc.files[r.Intn(len(sc.files))].name
		}
	case "swap":
		// replaced by a same-size version within the same second, after the last byte went out and
		// before the receiver's confirmation can be processed; the scanner is slow enough not to notice first
		if len(sc.files) > 0 {
			sc.swap = sc.files[r.Intn(len(sc.files))].name
		}
		sc.del = true
		sc.scanDelay = 400 * time.Millisecond
	case "swapfail":
		// as swap, with another size, and the new version cannot be read the first time the scanner wants
		// to hash it (unreadable for a moment): it is in the cache without a hash when the confirmation of
		// the OLD version comes in
		if len(sc.files) > 0 {
			sc.swap = sc.files[r.Intn(len(sc.files))].name
		}
		sc.del = true
		sc.scanDelay = time.Duration(20+r.Intn(60)) * time.Millisecond
		sc.failOpenN = 100000
		sc.pollFault = []string{"slow"}
	case "eligible":
		// files that must not be sent: empty, too young, hidden, ignored, not included, lock files
		sc.minAge = 10 * time.Second
		sc.ignore = `\.skip$`
		extra := []veFileSpec{
			{name: "young.dat", size: 5, seedb: 9, age: 0},
			{name: ".hidden", size: 5, seedb: 9, age: 60 * time.Second},
			{name: "d/.hid/x", size: 5, seedb: 9, age: 60 * time.Second},
			{name: "x.skip", size: 5, seedb: 9, age: 60 * time.Second},
			{name: "y.lck", size: 5, seedb: 9, age: 60 * time.Second},
		}
		for _, x := range extra {
			if r.Chance(2, 3) {
				sc.files = append(sc.files, x)
			}
		}
		if r.Chance(1, 2) {
			sc.include = `^(g|h|d/x|plain)`
		}
		for i := range sc.files {
			if sc.files[i].eligible {
				sc.files[i].age = time.Duration(20+r.Intn(50)) * time.Second
			}
		}
	}
	return sc
}

func TestVerifE2E(t *testing.T) {
	w, done, ok := gen.Out()
	if !ok {
		t.Skip("VERIF_OUT not set")
	}
	defer done()
	log.InitExternal(&mock.Logger{DebugMode: os.Getenv("VERIF_E2E_DEBUG") != ""})
	tmp := os.Getenv("VERIF_TMP")
	if tmp == "" {
		tmp = t.TempDir()
	}
	profiles := strings.Split(os.Getenv("VERIF_E2E_PROFILES"), ",")
	if os.Getenv("VERIF_E2E_PROFILES") == "" {
		profiles = []string{"plain", "faults", "stop", "crash", "reuse", "mutate", "vanish", "eligible", "swap", "stopfail", "pollnone", "crashfail", "crashgone", "ooo", "stopretry"}
	}
	N := gen.EnvInt("VERIF_E2E_N", 12)
	if gen.Thorough() {
		N = gen.EnvInt("VERIF_E2E_N", 120)
	}
	root := gen.New(gen.Seed() ^ 0xE2E)
	var scs []veScenario
	for pi, p := range profiles {
		for c := 0; c < N; c++ {
			scs = append(scs, veGen(root.Sub(uint64(pi*100000+c)), fmt.Sprintf("%s%d", p, c), p))
		}
	}
	if only := os.Getenv("VERIF_E2E_ONLY"); only != "" {
		// confirmation run: the same scenarios (same derivation), but only the named ones are played
		want := map[string]bool{}
		for _, id := range strings.Split(only, ",") {
			want[id] = true
		}
		var keep []veScenario
		for _, sc := range scs {
			if want[sc.id] {
				keep = append(keep, sc)
			}
		}
		scs = keep
	}
	out := make([]string, len(scs))
	var wg sync.WaitGroup
	sem := make(chan bool, gen.EnvInt("VERIF_E2E_PAR", 12))
	for i := range scs {
		wg.Add(1)
		sem <- true
		go func(i int) {
			defer wg.Done()
			defer func() { <-sem }()
			out[i] = veRunBounded(tmp, scs[i])
		}(i)
	}
	wg.Wait()
	for _, l := range out {
		w.WriteString(l)
	}
}
