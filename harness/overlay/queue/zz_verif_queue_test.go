package queue

// Driver for queue.Tagged (C10, C12). Injected with -overlay. Runs the REAL
// NewTagged / Push / Pop on generated histories.
//
// line: Q ntags {prio order chunk delay}*ntags nops {op}* = {0 | 1 name off len prev send}*npops
//   op: P k {name group tagidx time size kind [prev nleft {b e}*nleft]}*k     kind 0 plain, 1 recovered
//       O now
// names are hex tokens; times and now are seconds on a scale where the
// real "now" of the case is NOW (file time = realNow - (NOW - t) seconds).

import (
	"bufio"
	"fmt"
	"strings"
	"testing"
	"time"

	"github.com/arm-doe/sts"
	"github.com/arm-doe/sts/log"
	"github.com/arm-doe/sts/mock"
	"github.com/arm-doe/sts/zzverif/gen"
)

const verifNOW = 100000

type vqFile struct {
	name string
	size int64
	time time.Time
}

func (f *vqFile) GetPath() string    { return f.name }
func (f *vqFile) GetName() string    { return f.name }
func (f *vqFile) GetSize() int64     { return f.size }
func (f *vqFile) GetTime() time.Time { return f.time }
func (f *vqFile) GetMeta() []byte    { return nil }
func (f *vqFile) GetHash() string    { return "h" }

// same arithmetic as client.recoverFile (the queue only sees the interface)
type vqRec struct {
	vqFile
	prev string
	left [][2]int64
	part int
	used int64
}

func (f *vqRec) GetPrev() string { return f.prev }
func (f *vqRec) Allocate(desired int64) (offset int64, length int64) {
	offset = f.left[f.part][0] + f.used
	length = desired
	f.used += length
	if offset+length >= f.left[f.part][1] {
		length = f.left[f.part][1] - offset
		f.part++
		f.used = 0
	}
	return
}
func (f *vqRec) IsAllocated() bool { return f.part == len(f.left) }
func (f *vqRec) GetSendSize() int64 {
	s := int64(0)
	for _, p := range f.left {
		s += p[1] - p[0]
	}
	return s
}

type vqTag struct {
	prio  int
	order int // 0 fifo 1 lifo 2 alpha 3 none
	chunk int64
	delay int64 // seconds
}

type vqItem struct {
	name, group string
	tag         int
	time, size  int64
	rec         bool
	prev        string
	left        [][2]int64
}

type vqOp struct {
	push []vqItem // nil => pop
	now  int64
}

var vqOrders = []string{sts.OrderFIFO, sts.OrderLIFO, sts.OrderAlpha, sts.OrderNone}

func verifQueueCase(w *bufio.Writer, tags []vqTag, ops []vqOp) {
	fmt.Fprintf(w, "Q %d", len(tags))
	for _, t := range tags {
		fmt.Fprintf(w, " %d %d %d %d", t.prio, t.order, t.chunk, t.delay)
	}
	fmt.Fprintf(w, " %d", len(ops))
	groupTag := map[string]int{}
	for _, op := range ops {
		if op.push == nil {
			fmt.Fprintf(w, " O %d", op.now)
			continue
		}
		fmt.Fprintf(w, " P %d", len(op.push))
		for _, it := range op.push {
			groupTag[it.group] = it.tag
			k := 0
			if it.rec {
				k = 1
			}
			fmt.Fprintf(w, " %s %s %d %d %d %d", gen.Hex(it.name), gen.Hex(it.group), it.tag, it.time, it.size, k)
			if it.rec {
				fmt.Fprintf(w, " %s %d", gen.Hex(it.prev), len(it.left))
				for _, r := range it.left {
					fmt.Fprintf(w, " %d %d", r[0], r[1])
				}
			}
		}
	}
	fmt.Fprint(w, " =")
	qtags := make([]*Tag, len(tags))
	for i, t := range tags {
		qtags[i] = &Tag{
			Name: fmt.Sprintf("t%d", i), Priority: t.prio, Order: vqOrders[t.order],
			ChunkSize: t.chunk, LastDelay: time.Duration(t.delay) * time.Second,
		}
	}
	tagger := func(group string) string {
		if i, ok := groupTag[group]; ok && i >= 0 {
			return fmt.Sprintf("t%d", i)
		}
		return "no-such-tag"
	}
	grouper := func(name string) string {
		if i := strings.Index(name, "."); i >= 0 {
			return name[:i]
		}
		return name
	}
	q := NewTagged(qtags, tagger, grouper)
	realNow := time.Now()
	cur := int64(verifNOW)
	for _, op := range ops {
		if op.push == nil {
			if op.now > cur {
				// time passes: a Pop at a later "now" is made that many seconds (and a bit) later
				time.Sleep(time.Duration(op.now-cur)*time.Second + 100*time.Millisecond)
				cur = op.now
			}
			c := q.Pop()
			if c == nil {
				fmt.Fprint(w, " 0")
				continue
			}
			o, l := c.GetSlice()
			fmt.Fprintf(w, " 1 %s %d %d %s %d", gen.Hex(c.GetName()), o, l, gen.Hex(c.GetPrev()), c.GetSendSize())
			continue
		}
		var batch []sts.Hashed
		for _, it := range op.push {
			vf := vqFile{name: it.name, size: it.size, time: realNow.Add(-time.Duration(verifNOW-it.time) * time.Second)}
			if it.rec {
				batch = append(batch, &vqRec{vqFile: vf, prev: it.prev, left: it.left})
			} else {
				batch = append(batch, &vf)
			}
		}
		q.Push(batch)
	}
	fmt.Fprintln(w)
}

func verifQueueParse(l string) ([]vqTag, []vqOp) {
	f := strings.Fields(l)
	i := 1
	num := func() int64 {
		var v int64
		fmt.Sscan(f[i], &v)
		i++
		return v
	}
	str := func() string {
		s := f[i]
		i++
		if s == "-" {
			return ""
		}
		var b []byte
		fmt.Sscanf(s, "%x", &b)
		return string(b)
	}
	nt := int(num())
	var tags []vqTag
	for k := 0; k < nt; k++ {
		tags = append(tags, vqTag{int(num()), int(num()), num(), num()})
	}
	nops := int(num())
	var ops []vqOp
	for k := 0; k < nops; k++ {
		kind := f[i]
		i++
		if kind == "O" {
			ops = append(ops, vqOp{now: num()})
			continue
		}
		n := int(num())
		items := []vqItem{}
		for j := 0; j < n; j++ {
			it := vqItem{name: str(), group: str(), tag: int(num()), time: num(), size: num()}
			if num() == 1 {
				it.rec = true
				it.prev = str()
				nl := int(num())
				it.left = [][2]int64{}
				for x := 0; x < nl; x++ {
					it.left = append(it.left, [2]int64{num(), num()})
				}
			}
			items = append(items, it)
		}
		ops = append(ops, vqOp{push: items})
	}
	return tags, ops
}

func TestVerifQueue(t *testing.T) {
	w, done, ok := gen.Out()
	if !ok {
		t.Skip("VERIF_OUT not set")
	}
	defer done()
	log.InitExternal(&mock.Logger{DebugMode: false})

	if lines := gen.Replay(); lines != nil {
		for _, l := range lines {
			if strings.HasPrefix(l, "Q ") {
				tags, ops := verifQueueParse(l)
				verifQueueCase(w, tags, ops)
			}
		}
		return
	}

	// the last-file delay ELAPSES while the queue is being served (1 s of real time per case): a group held
	// back for its young last file is due again by the passage of time alone, with no Push in between
	{
		nw := gen.EnvInt("VERIF_QUEUE_WAIT", 0)
		rw := gen.New(gen.Seed() ^ 0xDE1A)
		for c := 0; c < nw; c++ {
			r := rw.Sub(uint64(c))
			// tag 0: delayed (1 s), priority 1 or 2; tag 1: same priority or none; tag 2: lower priority backlog
			hp := 1 + r.Intn(2)
			tags := []vqTag{{prio: hp, order: r.Intn(4), chunk: 1000, delay: 1}, {prio: hp, order: 0, chunk: 1000}, {prio: 0, order: 0, chunk: 1000}}
			var push []vqItem
			push = append(push, vqItem{name: "hi.f1", group: "hi", tag: 0, time: verifNOW, size: 5})
			if r.Bool() {
				// an older file before the young last one: it goes out at once, the last one waits
				push = append([]vqItem{{name: "hi.f0", group: "hi", tag: 0, time: verifNOW - 500, size: 5}}, push...)
			}
			if r.Bool() {
				push = append(push, vqItem{name: "eq.f1", group: "eq", tag: 1, time: verifNOW - 900, size: 5})
			}
			for i := 0; i < 2+r.Intn(4); i++ {
				push = append(push, vqItem{name: fmt.Sprintf("lo.f%d", i), group: "lo", tag: 2, time: verifNOW - 1000 + int64(i), size: 5})
			}
			ops := []vqOp{{push: push}}
			for i := 0; i < 1+r.Intn(3); i++ {
				ops = append(ops, vqOp{now: verifNOW})
			}
			for i := 0; i < 8; i++ {
				ops = append(ops, vqOp{now: verifNOW + 1})
			}
			verifQueueCase(w, tags, ops)
		}
	}
	root := gen.New(gen.Seed() ^ 0xC10)
	N := gen.EnvInt("VERIF_QUEUE_RANDOM", 12000)
	if gen.Thorough() {
		N = gen.EnvInt("VERIF_QUEUE_RANDOM", 150000)
	}
	groups := []string{"ga", "gb", "gc", "gd", "g", "gab"}
	leaves := []string{"a", "b", "c", "ab", "ba", "a1", "z"}
	for c := 0; c < N; c++ {
		r := root.Sub(uint64(c))
		nt := 1 + r.Intn(3)
		var tags []vqTag
		for i := 0; i < nt; i++ {
			tg := vqTag{prio: r.Intn(3), order: r.Intn(4), chunk: 1 + r.I64n(6)}
			if r.Chance(1, 3) {
				tg.chunk = 1000
			}
			if r.Chance(1, 4) {
				tg.delay = 3600
			}
			tags = append(tags, tg)
		}
		ng := 1 + r.Intn(4)
		gtag := map[string]int{}
		var gs []string
		for i := 0; i < ng; i++ {
			g := groups[r.Intn(len(groups))]
			if _, ok := gtag[g]; !ok {
				gtag[g] = r.Intn(nt)
				if r.Chance(1, 30) {
					gtag[g] = -1 // no matching tag
				}
				gs = append(gs, g)
			}
		}
		// profile: 0 = every name pushed at most once (the proved domain),
		// 1 = names may be pushed again while pending (includes the finding domain)
		repush := r.Chance(1, 4)
		used := map[string]bool{}
		nops := 2 + r.Intn(40)
		var ops []vqOp
		clock := int64(0)
		for i := 0; i < nops; i++ {
			if r.Chance(3, 5) {
				ops = append(ops, vqOp{now: verifNOW})
				continue
			}
			k := 1 + r.Intn(3)
			items := []vqItem{}
			for j := 0; j < k; j++ {
				g := gs[r.Intn(len(gs))]
				name := g + "." + leaves[r.Intn(len(leaves))]
				if used[name] && !repush {
					name = fmt.Sprintf("%s.%s%d", g, leaves[r.Intn(len(leaves))], i*4+j)
				}
				if used[name] && !repush {
					continue
				}
				used[name] = true
				clock += 1 + r.I64n(3)
				tm := clock
				switch r.Intn(8) {
				case 0: // older than files already emitted
					tm = r.I64n(clock + 1)
				case 1: // equal timestamp as the previous one
					tm = clock - 1
				case 2: // young: inside the last-file delay
					tm = verifNOW - r.I64n(3000)
				}
				it := vqItem{name: name, group: g, tag: gtag[g], time: tm, size: 1 + r.I64n(12)}
				switch r.Intn(10) {
				case 0: // allocated placeholder ("queued as already sent")
					it.rec = true
					it.left = [][2]int64{}
					it.prev = ""
				case 1: // resumed file with its own predecessor
					it.rec = true
					it.prev = g + "." + leaves[r.Intn(len(leaves))]
					if r.Chance(1, 4) {
						it.prev = ""
					}
					b := r.I64n(it.size)
					it.left = [][2]int64{{b, it.size}}
					if b > 1 && r.Chance(1, 2) {
						it.left = [][2]int64{{0, 1}, {b, it.size}}
					}
				}
				items = append(items, it)
			}
			if len(items) > 0 {
				ops = append(ops, vqOp{push: items})
			}
		}
		// drain
		for i := 0; i < 6+r.Intn(30); i++ {
			ops = append(ops, vqOp{now: verifNOW})
		}
		verifQueueCase(w, tags, ops)
	}
}
