package cache

// Driver for the sender's queue cache (C17 / C07 / C02): seeded operation sequences on the
// REAL cache.JSON - Add (new names, the same version again, other versions: size / mtime /
// hash / store data changed one at a time), Done, Reset, Remove, Persist, and restarts (a new
// NewJSON on the same directory) - with the whole cache dumped after every operation.
//
// line: CA nops {A name size time meta hash | D name | R name | X name | P | S}* = {n {name size time meta hash done}*}*

import (
	"fmt"
	"os"
	"path/filepath"
	"sort"
	"strings"
	"testing"
	"time"

	"github.com/arm-doe/sts"
	"github.com/arm-doe/sts/zzverif/gen"
)

type vcFile struct {
	name, hash string
	size, ns   int64
	meta       []byte
}

func (f *vcFile) GetPath() string    { return "/src/" + f.name }
func (f *vcFile) GetName() string    { return f.name }
func (f *vcFile) GetSize() int64     { return f.size }
func (f *vcFile) GetTime() time.Time { return time.Unix(0, f.ns) }
func (f *vcFile) GetMeta() []byte    { return f.meta }
func (f *vcFile) GetHash() string    { return f.hash }

func vcDump(j *JSON) string {
	var out []string
	j.Iterate(func(c sts.Cached) bool {
		out = append(out, fmt.Sprintf("%s %d %d %s %s %v", gen.Hex(c.GetName()), c.GetSize(), c.GetTime().UnixNano(),
			gen.Hex(string(c.GetMeta())), gen.Hex(c.GetHash()), map[bool]int{true: 1, false: 0}[c.IsDone()]))
		return false
	})
	sort.Strings(out)
	return fmt.Sprintf("%d %s", len(out), strings.Join(out, " "))
}

func TestVerifCache(t *testing.T) {
	w, done, ok := gen.Out()
	if !ok {
		t.Skip("VERIF_OUT not set")
	}
	defer done()
	tmp := os.Getenv("VERIF_TMP")
	if tmp == "" {
		tmp = t.TempDir()
	}
	N := gen.EnvInt("VERIF_N", 400)
	base := gen.New(gen.Seed() ^ 0xCAC4E)
	names := []string{"a", "d/b.dat", "d/e/c", "x y", "link.bin"}
	hashes := []string{"", "0f386c095a19929f751a0a98f459660d", "a710dacde5ff0ca451aa0471bf3fe990", "5e1d091de24873019d85fb037bc4245d"}
	metas := [][]byte{nil, []byte(`{"link":"/data/real.bin"}`), []byte(`{"link":"/other"}`)}
	for c := 0; c < N; c++ {
		r := base.Sub(uint64(c))
		dir := filepath.Join(tmp, fmt.Sprintf("cache%d", c))
		os.RemoveAll(dir)
		os.MkdirAll(dir, 0o755)
		j, err := NewJSON(dir, "/src", "")
		if err != nil {
			t.Fatal(err)
		}
		last := map[string]*vcFile{}
		nops := 4 + r.Intn(14)
		var ops, outs strings.Builder
		for k := 0; k < nops; k++ {
			n := names[r.Intn(len(names))]
			switch x := r.Intn(12); {
			case x < 5: // Add: a new version, or the one added last again, or that one with ONE field changed
				f := &vcFile{name: n, size: int64(1 + r.Intn(5)), ns: 1700000000000000000 + int64(r.Intn(4))*500000001, hash: hashes[r.Intn(len(hashes))], meta: metas[r.Intn(len(metas))]}
				if p := last[n]; p != nil && r.Chance(2, 3) {
					cp := *p
					f = &cp
					switch r.Intn(6) {
					case 0:
						f.size++
					case 1:
						f.ns += 1 // one nanosecond
					case 2:
						f.hash = hashes[r.Intn(len(hashes))]
					case 3:
						f.meta = metas[r.Intn(len(metas))]
					}
				}
				last[n] = f
				j.Add(f)
				fmt.Fprintf(&ops, " A %s %d %d %s %s", gen.Hex(f.name), f.size, f.ns, gen.Hex(string(f.meta)), gen.Hex(f.hash))
			case x < 7:
				j.Done(n, nil)
				fmt.Fprintf(&ops, " D %s", gen.Hex(n))
			case x < 8:
				j.Reset(n)
				fmt.Fprintf(&ops, " R %s", gen.Hex(n))
			case x < 9:
				j.Remove(n)
				fmt.Fprintf(&ops, " X %s", gen.Hex(n))
			case x < 11:
				if err := j.Persist(); err != nil {
					t.Fatal(err)
				}
				ops.WriteString(" P")
			default:
				// the process dies (nothing more is written) and a new one loads the file
				if j, err = NewJSON(dir, "/src", ""); err != nil {
					t.Fatal(err)
				}
				ops.WriteString(" S")
			}
			outs.WriteString(" " + vcDump(j))
		}
		fmt.Fprintf(w, "CA %d%s =%s\n", nops, ops.String(), outs.String())
		os.RemoveAll(dir)
	}
}
