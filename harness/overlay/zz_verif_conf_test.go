package sts

// Driver for configuration inheritance and re-encoding (C19). Injected with
// -overlay into the root package. Documents are generated from the schema,
// rendered as YAML and as JSON, parsed by the REAL unmarshalling code, then
// json.Marshal'ed and parsed again as main/controlled.go does.
//
// line: F fmt nsrc {threads minage compress pollatt outdir tkey tdgram tport stat hidden backoff incl ignr ntags {prio order chunk ldelay delete}*}*
//       = {effective source}* | {effective source after re-encoding}*
//   effective source = threads minage compress pollatt outdir tkey tdgram tport stat hidden backoff incl ntags {prio order chunk ldelay delete}*
// option codes: 0 = omitted; strings are indexes into small tables; tri-states 0 absent 1 true 2 false;
// backoff: 0 absent, else index into the value table; incl/ignr: 0 absent, 1.. = pattern set index.

import (
	"encoding/json"
	"fmt"
	"math"
	"strings"
	"testing"
	"time"

	"github.com/arm-doe/sts/zzverif/gen"
	yaml "gopkg.in/yaml.v2"
)

var vfDirs = []string{"", "/data/a", "/data/b"}
var vfKeys = []string{"", "k1", "k2"}
var vfOrders = []string{"", "fifo", "lifo", "none"}
var vfBackoff = []string{"", "0", "2", "0.5", "0.9999999", "3.25"}
var vfPatterns = [][]string{nil, {"^a"}, {"^b", "c$"}}
var vfTri = []string{"", "true", "false"}

type vfTag struct{ prio, order, chunk, ldelay, del int }
type vfSrc struct {
	threads, minage, compress, pollatt, outdir, tkey, tdgram, tport, stat, hidden, backoff, incl, ignr int
	hasTarget                                                                                       bool
	tags                                                                                            []vfTag
}

func vfRender(srcs []vfSrc, asJSON bool) string {
	var docs []map[string]interface{}
	for i, s := range srcs {
		m := map[string]interface{}{"name": fmt.Sprintf("s%d", i)}
		if s.threads > 0 {
			m["threads"] = s.threads - 1 // 1 => explicit 0
		}
		if s.minage > 0 {
			m["min-age"] = fmt.Sprintf("%ds", s.minage-1)
		}
		if s.compress > 0 {
			m["compress"] = s.compress - 1
		}
		if s.pollatt > 0 {
			m["poll-attempts"] = s.pollatt - 1
		}
		if s.outdir > 0 {
			m["out-dir"] = vfDirs[s.outdir]
		}
		if s.hasTarget {
			t := map[string]interface{}{"http-host": "h:1"}
			if s.tkey > 0 {
				t["key"] = vfKeys[s.tkey]
			}
			if s.tdgram > 0 {
				t["quic-enable-datagrams"] = s.tdgram == 1
			}
			if s.tport > 0 {
				t["http3-port"] = s.tport - 1
			}
			m["target"] = t
		}
		if s.stat > 0 {
			m["stat-payload"] = vfTri[s.stat]
		}
		if s.hidden > 0 {
			m["include-hidden"] = vfTri[s.hidden]
		}
		if s.backoff > 0 {
			m["error-backoff"] = vfBackoff[s.backoff]
		}
		if s.incl > 0 {
			m["include"] = vfPatterns[s.incl]
		}
		if s.ignr > 0 {
			m["ignore"] = vfPatterns[s.ignr]
		}
		if len(s.tags) > 0 {
			var tags []map[string]interface{}
			for j, t := range s.tags {
				tm := map[string]interface{}{}
				if j == 0 {
					tm["pattern"] = "DEFAULT"
				} else {
					tm["pattern"] = fmt.Sprintf("^t%d", j)
				}
				if t.prio > 0 {
					tm["priority"] = t.prio - 1
				}
				if t.order > 0 {
					tm["order"] = vfOrders[t.order]
				}
				if t.chunk > 0 {
					tm["chunk-size"] = fmt.Sprintf("%dKiB", t.chunk)
				}
				if t.ldelay > 0 {
					tm["last-delay"] = fmt.Sprintf("%ds", t.ldelay-1)
				}
				if t.del > 0 {
					tm["delete"] = vfTri[t.del]
				}
				tags = append(tags, tm)
			}
			m["tags"] = tags
		}
		docs = append(docs, m)
	}
	doc := map[string]interface{}{"sources": docs}
	if asJSON {
		b, _ := json.Marshal(doc)
		return string(b)
	}
	b, _ := yaml.Marshal(doc)
	return string(b)
}

func vfIndex(tab []string, v string) int {
	for i, x := range tab {
		if x == v {
			return i
		}
	}
	return -1
}

func vfPatIndex(ps []string, isNil bool) int {
	if isNil {
		return 0
	}
	for i := 1; i < len(vfPatterns); i++ {
		if strings.Join(vfPatterns[i], "|") == strings.Join(ps, "|") {
			return i
		}
	}
	return 9 // non-nil but empty (or unknown)
}

func vfEffective(c *ClientConf) string {
	var sb strings.Builder
	for _, s := range c.Sources {
		tkey, tdgram, tport := 0, 0, 0
		if s.Target != nil {
			tkey = vfIndex(vfKeys, s.Target.Key)
			if s.Target.QUICEnableDatagrams {
				tdgram = 1
			}
			tport = s.Target.HTTP3Port
		}
		var inc []string
		for _, p := range s.Include {
			inc = append(inc, p.String())
		}
		stat, hidden := 0, 0
		if s.StatPayload {
			stat = 1
		}
		if s.IncludeHidden {
			hidden = 1
		}
		fmt.Fprintf(&sb, " %d %d %d %d %d %d %d %d %d %d %d %d %d", s.Threads, int(s.MinAge/time.Second), s.Compression, s.PollAttempts,
			vfIndex(vfDirs, s.OutDir), tkey, tdgram, tport, stat, hidden, int64(math.Round(s.ErrorBackoff*1e7)), vfPatIndex(inc, s.Include == nil), len(s.Tags))
		for _, t := range s.Tags {
			del := 0
			if t.Delete {
				del = 1
			}
			fmt.Fprintf(&sb, " %d %d %d %d %d", t.Priority, vfIndex(vfOrders, t.Order), int(t.ChunkSize/1024), int(t.LastDelay/time.Second), del)
		}
	}
	return sb.String()
}

func verifConfCase(w interface{ WriteString(string) (int, error) }, srcs []vfSrc, asJSON bool) {
	var sb strings.Builder
	f := 0
	if asJSON {
		f = 1
	}
	fmt.Fprintf(&sb, "F %d %d", f, len(srcs))
	for _, s := range srcs {
		ht := 0
		if s.hasTarget {
			ht = 1
		}
		fmt.Fprintf(&sb, " %d %d %d %d %d %d %d %d %d %d %d %d %d %d %d", s.threads, s.minage, s.compress, s.pollatt, s.outdir, ht, s.tkey, s.tdgram, s.tport, s.stat, s.hidden, s.backoff, s.incl, s.ignr, len(s.tags))
		for _, t := range s.tags {
			fmt.Fprintf(&sb, " %d %d %d %d %d", t.prio, t.order, t.chunk, t.ldelay, t.del)
		}
	}
	sb.WriteString(" =")
	text := vfRender(srcs, asJSON)
	c := &ClientConf{}
	var err error
	if asJSON {
		err = json.Unmarshal([]byte(text), c)
	} else {
		err = yaml.Unmarshal([]byte(text), c)
	}
	if err != nil {
		sb.WriteString(" ERR " + strings.ReplaceAll(err.Error(), " ", "_") + "\n")
		w.WriteString(sb.String())
		return
	}
	sb.WriteString(vfEffective(c))
	sb.WriteString(" |")
	// re-encode as a server hands configuration to a managed client
	b, err := json.Marshal(c)
	c2 := &ClientConf{}
	if err == nil {
		err = json.Unmarshal(b, c2)
	}
	if err != nil {
		sb.WriteString(" ERR " + strings.ReplaceAll(err.Error(), " ", "_") + "\n")
		w.WriteString(sb.String())
		return
	}
	sb.WriteString(vfEffective(c2))
	sb.WriteString("\n")
	w.WriteString(sb.String())
}

func TestVerifConf(t *testing.T) {
	w, done, ok := gen.Out()
	if !ok {
		t.Skip("VERIF_OUT not set")
	}
	defer done()
	root := gen.New(gen.Seed() ^ 0xC19)
	N := gen.EnvInt("VERIF_CONF_RANDOM", 4000)
	if gen.Thorough() {
		N = gen.EnvInt("VERIF_CONF_RANDOM", 60000)
	}
	for c := 0; c < N; c++ {
		r := root.Sub(uint64(c))
		ns := 1 + r.Intn(3)
		var srcs []vfSrc
		// 2 of 3 documents stay inside what the configuration language can express
		// (no explicit zero for options without a marker, no 7th decimal in error-backoff)
		clean := r.Chance(2, 3)
		nz := func(n int) int { // a code that is not "explicit zero"
			v := r.Intn(n)
			if clean && v == 1 {
				return 0
			}
			return v
		}
		for i := 0; i < ns; i++ {
			s := vfSrc{threads: nz(4), minage: nz(4), compress: nz(3), pollatt: nz(3), outdir: r.Intn(3),
				stat: r.Intn(3), hidden: r.Intn(3), backoff: r.Intn(len(vfBackoff)), incl: r.Intn(3), ignr: r.Intn(3)}
			if clean {
				if s.hidden == 2 {
					s.hidden = 0
				}
				if s.backoff == 4 {
					s.backoff = 2
				}
				if s.incl == 0 {
					s.ignr = 0
				}
			}
			if i == 0 || r.Chance(2, 3) {
				s.hasTarget = true
				s.tkey, s.tdgram, s.tport = r.Intn(3), r.Intn(3), nz(3)
				if clean && s.tdgram == 2 {
					s.tdgram = 0
				}
			}
			nt := r.Intn(4)
			for j := 0; j < nt; j++ {
				s.tags = append(s.tags, vfTag{prio: nz(4), order: r.Intn(4), chunk: r.Intn(3), ldelay: nz(3), del: r.Intn(3)})
			}
			srcs = append(srcs, s)
		}
		verifConfCase(w, srcs, r.Chance(1, 2))
	}
}
