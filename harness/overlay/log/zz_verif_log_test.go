package log

// Driver for the transfer logs (C18). Injected with -overlay. Records are
// written by the REAL FileIO.Received / FileIO.Sent; to place them on another
// day the day file just written is renamed to that day's path (the logger
// re-opens a fresh file afterwards). Look-ups and Parse are the real ones.
//
// line: L kind D0 ndays {dayoff nrec {name renamed hash size}*nrec}*ndays
//         nq {name hash aoff asec boff bsec}*nq
//       = {nlines {hexline}*nlines}*ndays {ans}*nq nparsed {name renamed hash size time}*nparsed
// kind 0 = receive log, 1 = sent log. Day offsets are relative to today (local calendar day of the process).
// LC line: concurrent writers:  LC n {hexline-expected}*n = m {hexline-found}*m

import (
	"bufio"
	"fmt"
	"os"
	"path/filepath"
	"sort"
	"strings"
	"sync"
	"testing"
	"time"

	"github.com/arm-doe/sts/zzverif/gen"
)

type vlRec struct {
	name, renamed, hash string
	size                int64
}

func (r *vlRec) GetName() string    { return r.name }
func (r *vlRec) GetRenamed() string { return r.renamed }
func (r *vlRec) GetHash() string    { return r.hash }
func (r *vlRec) GetSize() int64     { return r.size }
func (r *vlRec) TimeMs() int64      { return 7 }

type vlDay struct {
	off  int
	recs []vlRec
}

type vlQuery struct {
	name, hash             string
	aoff, asec, boff, bsec int64
}

func verifLogCase(w *bufio.Writer, tmp string, caseNo int, kind int, days []vlDay, qs []vlQuery) {
	root := filepath.Join(tmp, fmt.Sprintf("log%d", caseNo))
	os.RemoveAll(root)
	defer os.RemoveAll(root)
	// the process's time zone: every third case runs half a day away from UTC, on the side on which the
	// local calendar date differs from the UTC date right now (the day files are named after the LOCAL
	// date of the writer; look-ups get local times from their callers). Days, offsets and seconds of
	// the line are local ones: a fixed zone only shifts the time axis.
	savedLocal := time.Local
	defer func() { time.Local = savedLocal }()
	if caseNo%3 == 1 {
		if time.Now().UTC().Hour() < 12 {
			time.Local = time.FixedZone("verif-12", -12*3600)
		} else {
			time.Local = time.FixedZone("verif+12", 12*3600)
		}
	}
	now := time.Now()
	_, zoff := now.In(time.Local).Zone()
	d0 := (now.Unix() + int64(zoff)) / 86400
	midnight := time.Unix(d0*86400-int64(zoff), 0).In(time.Local)
	// today's records must be written last
	sort.SliceStable(days, func(i, j int) bool { return days[i].off < days[j].off })
	fmt.Fprintf(w, "L %d %d %d", kind, d0, len(days))
	for _, d := range days {
		fmt.Fprintf(w, " %d %d", d.off, len(d.recs))
		for _, r := range d.recs {
			fmt.Fprintf(w, " %s %s %s %d", gen.Hex(r.name), gen.Hex(r.renamed), gen.Hex(r.hash), r.size)
		}
	}
	fmt.Fprintf(w, " %d", len(qs))
	for _, q := range qs {
		fmt.Fprintf(w, " %s %s %d %d %d %d", gen.Hex(q.name), gen.Hex(q.hash), q.aoff, q.asec, q.boff, q.bsec)
	}
	fmt.Fprint(w, " =")
	// the receiver's log is kept in sync with the disk (main/server.go: !PermitLogBuf); the sender's is not
	keepInSync := caseNo%3 != 2
	f := NewFileIO(root, nil, nil, keepInSync)
	pathOf := func(off int) string {
		return f.logger.getPath(midnight.Add(time.Duration(off) * 24 * time.Hour).Add(12 * time.Hour))
	}
	at0 := func(off, sec int64) time.Time { return midnight.Add(time.Duration(off*86400+sec) * time.Second) }
	// in every other case the same look-ups (and a replay) are made first, before anything is
	// written, on the same log object: the sender asks about a file before it logs it
	var early []bool
	if caseNo%2 == 1 {
		for _, q := range qs {
			if kind == 0 {
				early = append(early, f.WasReceived(q.name, q.hash, at0(q.aoff, q.asec), at0(q.boff, q.bsec)))
			} else {
				early = append(early, f.WasSent(q.name, q.hash, at0(q.aoff, q.asec), at0(q.boff, q.bsec)))
			}
		}
		if kind == 0 {
			f.Parse(func(string, string, string, int64, time.Time) bool { return false }, at0(-3, 10), at0(0, 86000))
		}
	}
	for _, d := range days {
		for i := range d.recs {
			if d.off == 0 && i > 0 && i == len(d.recs)/2 && caseNo%2 == 0 {
				// the process restarts in the middle of the day: a new log object on the same directory
				f.logger.close()
				f = NewFileIO(root, nil, nil, keepInSync)
			}
			if kind == 0 {
				f.Received(&d.recs[i])
			} else {
				f.Sent(&d.recs[i])
			}
		}
		if d.off != 0 && len(d.recs) > 0 {
			dst := pathOf(d.off)
			os.MkdirAll(filepath.Dir(dst), 0o755)
			if err := os.Rename(pathOf(0), dst); err != nil {
				panic(err)
			}
		}
	}
	// ground truth: what is on disk
	for _, d := range days {
		b, _ := os.ReadFile(pathOf(d.off))
		lines := strings.Split(strings.TrimSuffix(string(b), "\n"), "\n")
		if len(b) == 0 {
			lines = nil
		}
		fmt.Fprintf(w, " %d", len(lines))
		for _, l := range lines {
			fmt.Fprintf(w, " %s", gen.Hex(l))
		}
	}
	at := func(off, sec int64) time.Time { return midnight.Add(time.Duration(off*86400+sec) * time.Second) }
	for _, q := range qs {
		var a bool
		if kind == 0 {
			a = f.WasReceived(q.name, q.hash, at(q.aoff, q.asec), at(q.boff, q.bsec))
		} else {
			a = f.WasSent(q.name, q.hash, at(q.aoff, q.asec), at(q.boff, q.bsec))
		}
		if a {
			fmt.Fprint(w, " 1")
		} else {
			fmt.Fprint(w, " 0")
		}
	}
	// replay (receive log only): everything from the oldest day up to now
	type parsed struct {
		n, r, h string
		s, t    int64
	}
	var ps []parsed
	if kind == 0 {
		minOff := 0
		for _, d := range days {
			if d.off < minOff {
				minOff = d.off
			}
		}
		f.Parse(func(name, renamed, hash string, size int64, t time.Time) bool {
			ps = append(ps, parsed{name, renamed, hash, size, t.Unix()})
			return false
		}, at(int64(minOff), 10), at(0, 86000))
	}
	fmt.Fprintf(w, " %d", len(ps))
	for _, p := range ps {
		fmt.Fprintf(w, " %s %s %s %d %d", gen.Hex(p.n), gen.Hex(p.r), gen.Hex(p.h), p.s, p.t)
	}
	if early != nil {
		fmt.Fprintf(w, " P %d", len(early))
		for _, a := range early {
			if a {
				fmt.Fprint(w, " 1")
			} else {
				fmt.Fprint(w, " 0")
			}
		}
	}
	fmt.Fprintln(w)
	f.logger.close()
}

func verifLogConcurrent(w *bufio.Writer, tmp string, caseNo int, r *gen.Rand) {
	root := filepath.Join(tmp, fmt.Sprintf("logc%d", caseNo))
	os.RemoveAll(root)
	defer os.RemoveAll(root)
	f := NewFileIO(root, nil, nil, false)
	const writers, per = 8, 60
	var wg sync.WaitGroup
	var names []string
	for g := 0; g < writers; g++ {
		for i := 0; i < per; i++ {
			names = append(names, fmt.Sprintf("w%d/file-%d-%d.dat", g, i, r.Intn(1000)))
		}
	}
	wg.Add(writers)
	for g := 0; g < writers; g++ {
		go func(g int) {
			defer wg.Done()
			for i := 0; i < per; i++ {
				f.Received(&vlRec{name: names[g*per+i], renamed: "", hash: fmt.Sprintf("%032x", g*per+i), size: int64(i + 1)})
			}
		}(g)
	}
	wg.Wait()
	b, _ := os.ReadFile(f.logger.getCurrPath())
	lines := strings.Split(strings.TrimSuffix(string(b), "\n"), "\n")
	fmt.Fprintf(w, "LC %d", len(names))
	for i, n := range names {
		fmt.Fprintf(w, " %s", gen.Hex(fmt.Sprintf("%s::%032x:%d:", n, i, int64(i%per+1))))
	}
	fmt.Fprintf(w, " = %d", len(lines))
	for _, l := range lines {
		// drop the time field: name:renamed:hash:size:TIME:
		p := strings.Split(l, ":")
		if len(p) >= 6 {
			l = strings.Join(p[:len(p)-2], ":") + ":"
		}
		fmt.Fprintf(w, " %s", gen.Hex(l))
	}
	fmt.Fprintln(w)
	f.logger.close()
}

func TestVerifLog(t *testing.T) {
	w, done, ok := gen.Out()
	if !ok {
		t.Skip("VERIF_OUT not set")
	}
	defer done()
	tmp := os.Getenv("VERIF_TMP")
	if tmp == "" {
		tmp = t.TempDir()
	}

	if lines := gen.Replay(); lines != nil {
		for c, l := range lines {
			f := strings.Fields(l)
			if len(f) < 4 || f[0] != "L" {
				continue
			}
			i := 1
			num := func() int64 { var v int64; fmt.Sscan(f[i], &v); i++; return v }
			str := func() string {
				s := f[i]
				i++
				if s == "-" {
					return ""
				}
				var b []byte
				fmt.Sscanf(s, "%x", &b)
				return string(b)
			}
			kind := int(num())
			num() // D0 of the original run
			nd := int(num())
			var days []vlDay
			for k := 0; k < nd; k++ {
				d := vlDay{off: int(num())}
				nr := int(num())
				for j := 0; j < nr; j++ {
					d.recs = append(d.recs, vlRec{name: str(), renamed: str(), hash: str(), size: num()})
				}
				days = append(days, d)
			}
			nq := int(num())
			var qs []vlQuery
			for k := 0; k < nq; k++ {
				qs = append(qs, vlQuery{name: str(), hash: str(), aoff: num(), asec: num(), boff: num(), bsec: num()})
			}
			verifLogCase(w, tmp, 2*c+1, kind, days, qs) // replays always make the early look-ups too
		}
		return
	}

	root := gen.New(gen.Seed() ^ 0xC18)
	N := gen.EnvInt("VERIF_LOG_RANDOM", 1500)
	if gen.Thorough() {
		N = gen.EnvInt("VERIF_LOG_RANDOM", 15000)
	}
	// a prefix/suffix/substring-closed alphabet of names; hashes that are also names
	hashes := []string{"0123456789abcdef0123456789abcdef", "ffffffffffffffffffffffffffffffff", "0123", "abc"}
	names := []string{"a", "ab", "b", "bc", "abc", "abc.dat", "dir/abc.dat", "dir/ab", "x/dir/abc.dat", "c.dat",
		"0123456789abcdef0123456789abcdef", "0123", "file name.txt", "dir/a", "a.b.c", "ünï.dat"}
	colon := []string{"a:b", "dir/a:1.dat", "b:"}
	for c := 0; c < N; c++ {
		r := root.Sub(uint64(c))
		kind := 0
		if r.Chance(1, 4) {
			kind = 1
		}
		withColon := r.Chance(1, 12)
		pickName := func() string {
			if withColon && r.Chance(1, 3) {
				return colon[r.Intn(len(colon))]
			}
			return names[r.Intn(len(names))]
		}
		nd := 1 + r.Intn(4)
		offs := map[int]bool{}
		var days []vlDay
		for i := 0; i < nd; i++ {
			off := 0
			switch r.Intn(5) {
			case 0:
				off = 0
			case 1:
				off = -1
			case 2:
				off = -(1 + r.Intn(4))
			case 3:
				off = -(28 + r.Intn(8)) // across a month boundary
			case 4:
				off = -(5 + r.Intn(60))
			}
			if offs[off] {
				continue
			}
			offs[off] = true
			d := vlDay{off: off}
			nr := 1 + r.Intn(5)
			for j := 0; j < nr; j++ {
				rec := vlRec{name: pickName(), hash: hashes[r.Intn(len(hashes))], size: 1 + r.I64n(5000)}
				if kind == 0 && r.Chance(1, 3) {
					rec.renamed = names[r.Intn(len(names))]
					if r.Chance(1, 6) {
						rec.renamed = hashes[r.Intn(len(hashes))] // a rename target that looks like a hash
					}
				}
				if len(d.recs) > 0 && r.Chance(1, 4) { // the same name again, other hash
					rec.name = d.recs[r.Intn(len(d.recs))].name
				}
				d.recs = append(d.recs, rec)
			}
			days = append(days, d)
		}
		nq := 2 + r.Intn(8)
		var qs []vlQuery
		for i := 0; i < nq; i++ {
			q := vlQuery{name: pickName()}
			if r.Chance(1, 2) && len(days) > 0 { // ask for something that was written
				d := days[r.Intn(len(days))]
				rec := d.recs[r.Intn(len(d.recs))]
				q.name = rec.name
				if r.Chance(1, 2) {
					q.hash = rec.hash
				}
			} else if r.Chance(1, 2) {
				q.hash = hashes[r.Intn(len(hashes))]
			}
			if r.Chance(1, 10) {
				q.name = hashes[r.Intn(len(hashes))] // a hash asked for as a name
			}
			// window
			d := days[r.Intn(len(days))]
			switch r.Intn(6) {
			case 0: // same day
				q.aoff, q.asec, q.boff, q.bsec = int64(d.off), 100+r.I64n(40000), int64(d.off), 50000+r.I64n(30000)
			case 1: // across midnight before the day
				q.aoff, q.asec, q.boff, q.bsec = int64(d.off)-1, 80000+r.I64n(6000), int64(d.off), r.I64n(3000)
			case 2: // wide
				q.aoff, q.asec, q.boff, q.bsec = int64(d.off)-int64(r.Intn(40)), r.I64n(86400), int64(r.Intn(2))*int64(d.off), r.I64n(86400)
			case 3: // reversed
				q.aoff, q.asec, q.boff, q.bsec = 0, r.I64n(86400), int64(d.off)-int64(r.Intn(3)), r.I64n(86400)
			case 4: // empty
				s := r.I64n(86400)
				q.aoff, q.asec, q.boff, q.bsec = int64(d.off), s, int64(d.off), s
			case 5: // window that does not touch the day
				q.aoff, q.asec, q.boff, q.bsec = int64(d.off)-5, r.I64n(86400), int64(d.off)-3, r.I64n(86400)
			}
			qs = append(qs, q)
		}
		verifLogCase(w, tmp, c, kind, days, qs)
	}
	nc := 3
	if gen.Thorough() {
		nc = 20
	}
	for c := 0; c < nc; c++ {
		verifLogConcurrent(w, tmp, c, root.Sub(uint64(1000000+c)))
	}
}
