From Coq Require Import List ZArith Bool Lia.
From STS Require Import Model.Queue Model.Cache Proofs.QueueP.
Import ListNotations.
Open Scope Z_scope.

Lemma cget_cset_same k v m : cget k (cset k v m) = Some v.
Proof.
  induction m as [|[k' v'] r IH]; simpl.
  - rewrite name_eqb_refl. reflexivity.
  - destruct (name_eqb k' k) eqn:E; simpl.
    + rewrite name_eqb_refl. reflexivity.
    + rewrite E. exact IH.
Qed.

Lemma cget_cset_other k k0 v m : k0 <> k -> cget k0 (cset k v m) = cget k0 m.
Proof.
  intros Hne. induction m as [|[k' v'] r IH]; simpl.
  - destruct (name_eqb k k0) eqn:E; [apply name_eqb_eq in E; congruence | reflexivity].
  - destruct (name_eqb k' k) eqn:E; simpl.
    + apply name_eqb_eq in E. subst k'.
      destruct (name_eqb k k0) eqn:E2; [apply name_eqb_eq in E2; congruence | reflexivity].
    + destruct (name_eqb k' k0); [reflexivity | exact IH].
Qed.

Lemma cget_cdel_same k m : cget k (cdel k m) = None.
Proof.
  induction m as [|[k' v'] r IH]; simpl; [reflexivity|].
  destruct (name_eqb k' k) eqn:E; [exact IH|]. simpl. rewrite E. exact IH.
Qed.

Lemma cget_cdel_other k k0 m : k0 <> k -> cget k0 (cdel k m) = cget k0 m.
Proof.
  intros Hne. induction m as [|[k' v'] r IH]; simpl; [reflexivity|].
  destruct (name_eqb k' k) eqn:E.
  - apply name_eqb_eq in E. subst k'.
    destruct (name_eqb k k0) eqn:E2; [apply name_eqb_eq in E2; congruence | exact IH].
  - simpl. destruct (name_eqb k' k0); [reflexivity | exact IH].
Qed.

(* ---- Add: the entry IS the version that was added ---- *)
Theorem add_records_version : forall c n size time meta hash,
  exists d, cget n (c_mem (cadd c n size time meta hash)) = Some (mkce size time meta hash d) /\
    (d = true <->
     exists e, cget n (c_mem c) = Some e /\ ce_done e = true /\
       ce_size e = size /\ ce_time e = time /\ (hash = [] \/ ce_hash e = hash)).
Proof.
  intros c n size time meta hash. unfold cadd. cbn [c_mem].
  destruct (cget n (c_mem c)) as [e|] eqn:G.
  - exists (ce_done e && negb (c_other_version e size time hash)). split; [apply cget_cset_same|].
    unfold c_other_version. split.
    + intros Hd. apply andb_true_iff in Hd as [D O]. apply negb_true_iff in O.
      apply orb_false_iff in O as [O1 O3]. apply orb_false_iff in O1 as [O1 O2].
      apply negb_false_iff in O1. apply negb_false_iff in O2.
      apply Z.eqb_eq in O1. apply Z.eqb_eq in O2.
      exists e. repeat split; auto.
      destruct hash as [|x h]; [left; reflexivity|]. right.
      cbn [c_is_empty negb andb] in O3. apply negb_false_iff in O3. apply name_eqb_eq in O3. exact O3.
    + intros [e0 [G0 [D [S [T Hh]]]]]. inversion G0; subst e0. rewrite D. cbn [andb].
      apply negb_true_iff. rewrite S, T, !Z.eqb_refl. cbn [negb orb].
      destruct Hh as [-> | Hh]; [reflexivity|].
      destruct hash as [|x h]; [reflexivity|]. cbn [c_is_empty negb andb].
      apply negb_false_iff. apply name_eqb_eq. exact Hh.
  - exists false. split; [apply cget_cset_same|]. split; [discriminate|].
    intros [e0 [G0 _]]. discriminate.
Qed.

Theorem add_other_untouched : forall c n size time meta hash n0,
  n0 <> n -> cget n0 (c_mem (cadd c n size time meta hash)) = cget n0 (c_mem c).
Proof. intros. unfold cadd. cbn [c_mem]. apply cget_cset_other. assumption. Qed.

(* C02: a confirmation does not carry over to another version *)
Theorem add_other_version_not_done : forall c n size time meta hash e e',
  cget n (c_mem c) = Some e ->
  (ce_size e <> size \/ ce_time e <> time \/ (hash <> [] /\ ce_hash e <> hash)) ->
  cget n (c_mem (cadd c n size time meta hash)) = Some e' -> ce_done e' = false.
Proof.
  intros c n size time meta hash e e' G Hd G'.
  destruct (add_records_version c n size time meta hash) as [d [Gd Hiff]].
  rewrite Gd in G'. inversion G'; subst e'. cbn [ce_done].
  destruct d; [|reflexivity]. exfalso.
  destruct (proj1 Hiff eq_refl) as [e0 [G0 [_ [S [T Hh]]]]]. rewrite G in G0. inversion G0; subst e0.
  destruct Hd as [Hd | [Hd | [Hd1 Hd2]]]; [congruence | congruence |].
  destruct Hh; congruence.
Qed.

(* Done / Reset / Remove touch one entry and one field *)
Theorem done_marks_only_done : forall c n e,
  cget n (c_mem c) = Some e ->
  cget n (c_mem (cdone c n)) = Some (mkce (ce_size e) (ce_time e) (ce_meta e) (ce_hash e) true).
Proof.
  intros c n e G. unfold cdone. rewrite G. destruct (ce_done e) eqn:D.
  - rewrite G. destruct e; simpl in *; subst; reflexivity.
  - cbn [c_mem]. apply cget_cset_same.
Qed.

Theorem done_other_untouched : forall c n n0, n0 <> n -> cget n0 (c_mem (cdone c n)) = cget n0 (c_mem c).
Proof.
  intros c n n0 Hne. unfold cdone. destruct (cget n (c_mem c)) as [e|]; [|reflexivity].
  destruct (ce_done e); [reflexivity|]. cbn [c_mem]. apply cget_cset_other. assumption.
Qed.

Theorem remove_forgets : forall c n, cget n (c_mem (cremove c n)) = None.
Proof.
  intros c n. unfold cremove. destruct (cget n (c_mem c)) eqn:G; [|exact G].
  cbn [c_mem]. apply cget_cdel_same.
Qed.

(* ---- persistence: what a restarted sender finds is what was persisted last ---- *)
(* the disk never runs ahead of memory: clean => disk = mem *)
Definition clean_inv (c : cache) : Prop := c_dirty c = false -> c_disk c = c_mem c.

Lemma clean_inv_step c op : clean_inv c -> clean_inv (cstep c op).
Proof.
  intros I. destruct op; unfold cstep, clean_inv.
  - unfold cadd. cbn [c_dirty]. discriminate.
  - unfold cdone. destruct (cget n (c_mem c)) as [e|]; [|exact I]. destruct (ce_done e); [exact I|]. cbn [c_dirty]. discriminate.
  - unfold creset. destruct (cget n (c_mem c)); [cbn [c_dirty]; discriminate | exact I].
  - unfold cremove. destruct (cget n (c_mem c)); [cbn [c_dirty]; discriminate | exact I].
  - unfold cpersist. destruct (c_dirty c) eqn:D; [reflexivity | exact I].
  - unfold crestart. reflexivity.
Qed.

Theorem clean_inv_run : forall ops c, clean_inv c -> clean_inv (crun c ops).
Proof.
  induction ops as [|op r IH]; intros c I; simpl; [exact I|]. apply IH. apply clean_inv_step. exact I.
Qed.

Theorem persist_then_restart_loses_nothing : forall ops,
  let c := crun empty_cache ops in
  c_mem (crestart (cpersist c)) = c_mem c.
Proof.
  intros ops c. assert (I : clean_inv c) by (apply clean_inv_run; unfold clean_inv; reflexivity).
  unfold cpersist, crestart. destruct (c_dirty c) eqn:D; cbn [c_disk c_mem]; [reflexivity|].
  apply I. exact D.
Qed.

(* only Persist writes: between two writes the disk does not move, whatever happens in memory *)
Theorem disk_changes_only_on_persist : forall c op,
  op <> CPersist -> c_disk (cstep c op) = c_disk c.
Proof.
  intros c op Hne. destruct op; unfold cstep; try reflexivity.
  - unfold cdone. destruct (cget n (c_mem c)) as [e|]; [|reflexivity]. destruct (ce_done e); reflexivity.
  - unfold creset. destruct (cget n (c_mem c)); reflexivity.
  - unfold cremove. destruct (cget n (c_mem c)); reflexivity.
  - congruence.
Qed.
