From Coq Require Import List ZArith Bool Lia.
From STS Require Import Model.Queue Model.Tracker Proofs.QueueP.
Import ListNotations.
Open Scope Z_scope.

Lemma in_tset k v m n e : In (n, e) (tset k v m) -> (n = k /\ e = v) \/ In (n, e) m.
Proof.
  induction m as [|[k' v'] r IH]; simpl.
  - intros [H|[]]. inversion H; subst. left; split; reflexivity.
  - destruct (name_eqb k' k) eqn:E; simpl.
    + intros [H|H]; [inversion H; subst; left; split; reflexivity | right; right; exact H].
    + intros [H|H]; [right; left; exact H|]. destruct (IH H) as [A|A]; [left; exact A | right; right; exact A].
Qed.

Lemma tget_in k m e : tget k m = Some e -> In (k, e) m.
Proof.
  induction m as [|[k' v'] r IH]; simpl; [discriminate|].
  destruct (name_eqb k' k) eqn:E.
  - intros H. inversion H; subst. apply name_eqb_eq in E. subst. left; reflexivity.
  - intros H. right. apply IH. exact H.
Qed.

(* bytes acknowledged for version (n, h) by a list of parts *)
Fixpoint acked (n h : name) (ps : list tpart) : Z :=
  match ps with
  | [] => 0
  | p :: r => (if name_eqb (tp_name p) n && name_eqb (tp_hash p) h then tp_len p else 0) + acked n h r
  end.

Lemma acked_app n h a b : acked n h (a ++ b) = acked n h a + acked n h b.
Proof. induction a as [|p r IH]; simpl; [reflexivity | rewrite IH; lia]. Qed.

Lemma acked_nonneg n h ps : Forall (fun p => 0 <= tp_len p) ps -> 0 <= acked n h ps.
Proof.
  induction 1 as [|p r Hp _ IH]; simpl; [lia|].
  destruct (name_eqb (tp_name p) n && name_eqb (tp_hash p) h); lia.
Qed.

(* an entry never counts more than was acknowledged for its version, and its size is the
   send size some acknowledged part of that version announced *)
Definition good (ps : list tpart) (n : name) (e : tentry) : Prop :=
  te_sent e <= acked n (te_hash e) ps /\
  exists p, In p ps /\ tp_name p = n /\ tp_hash p = te_hash e /\ tp_send p = te_size e.

(* a file is logged / handed to the poller only when the bytes acknowledged for that
   version reach the send size *)
Definition evgood (ps : list tpart) (ev : tev) : Prop :=
  match ev with
  | TLogged n h | THanded n h =>
      exists p, In p ps /\ tp_name p = n /\ tp_hash p = h /\ tp_send p <= acked n h ps
  end.

Definition tinv (ps : list tpart) (st : tprog * list tev) : Prop :=
  (forall n e, In (n, e) (fst st) -> good ps n e) /\ (forall ev, In ev (snd st) -> evgood ps ev).

Lemma good_mono ps q n e : Forall (fun p => 0 <= tp_len p) q -> good ps n e -> good (ps ++ q) n e.
Proof.
  intros Hq [S [p [Hp R]]]. split.
  - rewrite acked_app. pose proof (acked_nonneg n (te_hash e) q Hq). lia.
  - exists p. split; [apply in_or_app; left; exact Hp | exact R].
Qed.

Lemma evgood_mono ps q ev : Forall (fun p => 0 <= tp_len p) q -> evgood ps ev -> evgood (ps ++ q) ev.
Proof.
  intros Hq. destruct ev as [n h | n h]; intros [p [Hp [A [B C]]]]; exists p;
    (split; [apply in_or_app; left; exact Hp|]); repeat split; auto;
    rewrite acked_app; pose proof (acked_nonneg n h q Hq); lia.
Qed.

Lemma track_part_inv ps st p :
  0 <= tp_len p -> Forall (fun q => 0 <= tp_len q) ps ->
  tinv ps st -> tinv (ps ++ [p]) (track_part st p).
Proof.
  intros Hp Hps [IM IE]. destruct st as [m evs]. cbn [fst snd] in *.
  assert (Hq : Forall (fun q => 0 <= tp_len q) [p]) by (constructor; [exact Hp | constructor]).
  set (e0 := match tget (tp_name p) m with
             | None => mkte 0 (tp_send p) (tp_hash p)
             | Some e => if name_eqb (te_hash e) (tp_hash p) then e else mkte 0 (tp_send p) (tp_hash p)
             end).
  set (e1 := mkte (te_sent e0 + tp_len p) (te_size e0) (te_hash e0)).
  (* the updated entry is good *)
  assert (G1 : good (ps ++ [p]) (tp_name p) e1).
  { assert (Fresh : good (ps ++ [p]) (tp_name p) (mkte (0 + tp_len p) (tp_send p) (tp_hash p))).
    { split; cbn [te_sent te_hash te_size].
      - rewrite acked_app. simpl. rewrite !name_eqb_refl. cbn [andb].
        pose proof (acked_nonneg (tp_name p) (tp_hash p) ps Hps). lia.
      - exists p. split; [apply in_or_app; right; left; reflexivity|]. repeat split; reflexivity. }
    unfold e1, e0. destruct (tget (tp_name p) m) as [e|] eqn:G; [|exact Fresh].
    destruct (name_eqb (te_hash e) (tp_hash p)) eqn:E; [|exact Fresh].
    destruct (IM _ _ (tget_in _ _ _ G)) as [S [q [Hq0 [A [B C]]]]].
    split; cbn [te_sent te_hash te_size].
    - rewrite acked_app. simpl. rewrite name_eqb_refl.
      apply name_eqb_eq in E.
      assert (E2 : name_eqb (tp_hash p) (te_hash e) = true) by (apply name_eqb_eq; congruence).
      rewrite E2. cbn [andb]. lia.
    - exists q. split; [apply in_or_app; left; exact Hq0|]. repeat split; auto. }
  unfold track_part. fold e0. fold e1. split; cbn [fst snd].
  - intros n e Hin. apply in_tset in Hin as [[-> ->] | Hin]; [exact G1|].
    apply good_mono; [exact Hq | apply IM; exact Hin].
  - intros ev Hin.
    assert (Old : forall ev0, In ev0 evs -> evgood (ps ++ [p]) ev0)
      by (intros ev0 H0; apply evgood_mono; [exact Hq | apply IE; exact H0]).
    destruct (te_size e1 <=? te_sent e1) eqn:L; [|apply Old; exact Hin].
    apply in_app_or in Hin as [Hin | [Hin | []]]; [apply Old; exact Hin|]. subst ev.
    destruct G1 as [S [q [Hq0 [A [B C]]]]]. exists q. split; [exact Hq0|]. repeat split; auto.
    apply Z.leb_le in L. lia.
Qed.

Lemma hand_off_inv ps st : tinv ps st -> tinv ps (hand_off st).
Proof.
  intros [IM IE]. destruct st as [m evs]. unfold hand_off. split; cbn [fst snd] in *.
  - intros n e Hin. apply filter_In in Hin as [Hin _]. apply IM. exact Hin.
  - intros ev Hin. apply in_app_or in Hin as [Hin | Hin]; [apply IE; exact Hin|].
    apply in_map_iff in Hin as [[n e] [Hev Hin]]. subst ev. apply filter_In in Hin as [Hin L].
    cbn [fst snd] in *. destruct (IM _ _ Hin) as [S [q [Hq0 [A [B C]]]]].
    exists q. split; [exact Hq0|]. repeat split; auto. apply Z.leb_le in L. lia.
Qed.

Lemma track_parts_inv : forall parts ps st,
  Forall (fun q => 0 <= tp_len q) parts -> Forall (fun q => 0 <= tp_len q) ps ->
  tinv ps st -> tinv (ps ++ parts) (fold_left track_part parts st).
Proof.
  induction parts as [|p r IH]; intros ps st Hr Hps I; simpl.
  - rewrite app_nil_r. exact I.
  - inversion Hr as [|? ? Hp Hr']; subst.
    replace (ps ++ p :: r) with ((ps ++ [p]) ++ r) by (rewrite <- app_assoc; reflexivity).
    apply IH; [exact Hr' | apply Forall_app; split; [exact Hps | constructor; [exact Hp | constructor]] |].
    apply track_part_inv; assumption.
Qed.

Lemma track_payloads_inv : forall pls ps st,
  Forall (Forall (fun q => 0 <= tp_len q)) pls -> Forall (fun q => 0 <= tp_len q) ps ->
  tinv ps st -> tinv (ps ++ concat pls) (fold_left track_payload pls st).
Proof.
  induction pls as [|pl r IH]; intros ps st Hr Hps I; simpl.
  - rewrite app_nil_r. exact I.
  - inversion Hr as [|? ? Hpl Hr']; subst. rewrite app_assoc.
    apply IH; [exact Hr' | apply Forall_app; split; assumption |].
    unfold track_payload. apply track_parts_inv; [exact Hpl | exact Hps | apply hand_off_inv; exact I].
Qed.

(* C08, second sentence, for every sequence of forwarded payloads: whatever is written to the
   sent log or handed to the poller, the bytes acknowledged for that very version add up to
   (at least) the send size announced for it *)
Theorem tracker_logs_only_fully_acknowledged : forall pls ev,
  Forall (Forall (fun q => 0 <= tp_len q)) pls ->
  In ev (snd (track_run pls)) -> evgood (concat pls) ev.
Proof.
  intros pls ev Hpl Hin. unfold track_run in Hin.
  assert (I : tinv ([] ++ concat pls) (fold_left track_payload pls ([], []))).
  { apply track_payloads_inv; [exact Hpl | constructor |]. split; cbn [fst snd]; [intros n0 e0 H0; destruct H0 | intros ev0 H0; destruct H0]. }
  simpl in I. apply hand_off_inv in I. destruct I as [_ IE]. apply IE. exact Hin.
Qed.

(* nothing that is complete stays behind: after the last turn every entry left is incomplete *)
Theorem tracker_leaves_only_incomplete : forall pls n e,
  In (n, e) (fst (track_run pls)) -> te_sent e < te_size e.
Proof.
  intros pls n e Hin. unfold track_run in Hin.
  destruct (fold_left track_payload pls ([], [])) as [m evs]. unfold hand_off in Hin. cbn [fst] in Hin.
  apply filter_In in Hin as [_ L]. cbn [snd] in L. apply negb_true_iff in L. apply Z.leb_gt in L. exact L.
Qed.

(* ---- from a byte count to every byte: pairwise disjoint ranges inside [0, size) whose
   lengths add up to size leave no byte of [0, size) out.  (The send loop forwards every
   part once: C08_no_part_lost_or_counted_twice; chunks of one file are disjoint: C11.) ---- *)
Definition iv := (Z * Z)%type.
Definition within (a b : Z) (i : iv) : Prop := a <= fst i /\ fst i <= snd i /\ snd i <= b.
Definition disj (i j : iv) : Prop := snd i <= fst j \/ snd j <= fst i.
Fixpoint total (l : list iv) : Z := match l with [] => 0 | i :: r => (snd i - fst i) + total r end.

Lemma fop_filter {A} (R : A -> A -> Prop) f : forall l, ForallOrdPairs R l -> ForallOrdPairs R (filter f l).
Proof.
  induction 1 as [|a l Ha Hl IH]; simpl; [constructor|].
  destruct (f a); [|exact IH]. constructor; [|exact IH].
  apply Forall_forall. intros x Hx. apply filter_In in Hx as [Hx _].
  rewrite Forall_forall in Ha. apply Ha. exact Hx.
Qed.

Lemma filter_length_le {A} (f : A -> bool) l : (length (filter f l) <= length l)%nat.
Proof. induction l as [|a r IH]; simpl; [lia|]. destruct (f a); simpl; lia. Qed.

Lemma total_filter f l : total l = total (filter f l) + total (filter (fun x => negb (f x)) l).
Proof. induction l as [|i r IH]; simpl; [reflexivity|]. destruct (f i); simpl; lia. Qed.

Lemma total_le : forall n l a b, (length l <= n)%nat -> a <= b ->
  Forall (within a b) l -> ForallOrdPairs disj l -> total l <= b - a.
Proof.
  induction n as [|n IH]; intros l a b Hn Hab Hw Hd.
  - destruct l; [simpl; lia | simpl in Hn; lia].
  - destruct l as [|i r]; [simpl; lia|].
    inversion Hw as [|? ? Hi Hr]; subst. inversion Hd as [|? ? Hdi Hdr]; subst.
    destruct Hi as [I1 [I2 I3]].
    set (f := fun j : iv => snd j <=? fst i).
    assert (HL : total (filter f r) <= fst i - a).
    { apply (IH _ a (fst i)).
      - pose proof (filter_length_le f r). simpl in Hn. lia.
      - exact I1.
      - apply Forall_forall. intros j Hj. apply filter_In in Hj as [Hj Hf]. unfold f in Hf. apply Z.leb_le in Hf.
        rewrite Forall_forall in Hr. destruct (Hr j Hj) as [J1 [J2 J3]]. repeat split; assumption.
      - apply fop_filter. exact Hdr. }
    assert (HR : total (filter (fun x => negb (f x)) r) <= b - snd i).
    { apply (IH _ (snd i) b).
      - pose proof (filter_length_le (fun x => negb (f x)) r). simpl in Hn. lia.
      - exact I3.
      - apply Forall_forall. intros j Hj. apply filter_In in Hj as [Hj Hf]. unfold f in Hf.
        apply negb_true_iff in Hf. apply Z.leb_gt in Hf.
        rewrite Forall_forall in Hr. destruct (Hr j Hj) as [J1 [J2 J3]].
        rewrite Forall_forall in Hdi. destruct (Hdi j Hj) as [D | D]; [|lia]. repeat split; assumption.
      - apply fop_filter. exact Hdr. }
    simpl. rewrite (total_filter f r). lia.
Qed.

Theorem disjoint_ranges_adding_up_cover : forall size l x,
  Forall (within 0 size) l -> ForallOrdPairs disj l -> size <= total l ->
  0 <= x < size -> exists i, In i l /\ fst i <= x < snd i.
Proof.
  intros size l x Hw Hd Ht Hx.
  destruct (existsb (fun i => (fst i <=? x) && (x <? snd i)) l) eqn:E.
  - apply existsb_exists in E as [i [Hi Hc]]. apply andb_true_iff in Hc as [C1 C2].
    apply Z.leb_le in C1. apply Z.ltb_lt in C2. exists i. split; [exact Hi | lia].
  - exfalso.
    assert (Hno : forall i, In i l -> ~ (fst i <= x < snd i)).
    { intros i Hi [C1 C2].
      assert (existsb (fun i => (fst i <=? x) && (x <? snd i)) l = true).
      { apply existsb_exists. exists i. split; [exact Hi|]. apply andb_true_iff. split; [apply Z.leb_le | apply Z.ltb_lt]; assumption. }
      congruence. }
    set (f := fun j : iv => fst j <=? x).
    assert (HL : total (filter f l) <= x - 0).
    { apply (total_le (length (filter f l))); [lia | lia | | apply fop_filter; exact Hd].
      apply Forall_forall. intros j Hj. apply filter_In in Hj as [Hj Hf]. unfold f in Hf. apply Z.leb_le in Hf.
      rewrite Forall_forall in Hw. destruct (Hw j Hj) as [J1 [J2 J3]]. pose proof (Hno j Hj). repeat split; lia. }
    assert (HR : total (filter (fun j => negb (f j)) l) <= size - (x + 1)).
    { apply (total_le (length (filter (fun j => negb (f j)) l))); [lia | lia | | apply fop_filter; exact Hd].
      apply Forall_forall. intros j Hj. apply filter_In in Hj as [Hj Hf]. unfold f in Hf.
      apply negb_true_iff in Hf. apply Z.leb_gt in Hf.
      rewrite Forall_forall in Hw. destruct (Hw j Hj) as [J1 [J2 J3]]. repeat split; lia. }
    rewrite (total_filter f l) in Ht. lia.
Qed.
