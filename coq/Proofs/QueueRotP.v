(* C12, the rotation clause: a group that has just been served goes behind every
   other group of its priority, so a group that stays ready is passed over by
   groups of its own priority at most as many times as there are such groups in
   front of it. *)
From Coq Require Import List ZArith Bool Lia.
From STS Require Import Model.Ranges Model.Chunk Model.Queue Proofs.QueueP.
Import ListNotations.
Open Scope Z_scope.

Definition clean (now : Z) (g : group) : group := fst (group_pop g now).

Lemma clean_same now g : gname (clean now g) = gname g /\ prio (clean now g) = prio g.
Proof.
  unfold clean. destruct (group_pop g now) as [g' o] eqn:G.
  destruct (group_pop_same _ _ _ _ G) as [Et En]. simpl. unfold prio. rewrite Et. auto.
Qed.

(* the shape of a successful Pop *)
Lemma pop_aux_struct : forall q now q' out,
  pop_aux q now = (q', Some out) ->
  exists pre g post g', q = pre ++ g :: post /\
    Forall (fun h => group_ready h now = false) pre /\
    group_pop g now = (g', Some out) /\
    q' = map (clean now) pre ++ delay_insert g' post.
Proof.
  induction q as [|g r IH]; intros now q' out H; simpl in H; [inversion H|].
  destruct (group_pop g now) as [g' [o|]] eqn:G.
  - inversion H; subst. exists [], g, r, g'. repeat split; auto.
  - destruct (pop_aux r now) as [r' o'] eqn:P. inversion H; subst.
    destruct (IH _ _ _ P) as [pre [g0 [post [g0' [E [F [S Q]]]]]]].
    exists (g :: pre), g0, post, g0'. subst r r'.
    split; [reflexivity|]. split.
    { constructor; [|exact F]. unfold group_ready. rewrite G. reflexivity. }
    split; [exact S|].
    cbn [map app]. unfold clean. rewrite G. reflexivity.
Qed.

(* number of groups of priority p in front of the group named hn *)
Fixpoint rank (hn : name) (p : Z) (q : queue) : nat :=
  match q with
  | [] => 0
  | x :: r => if name_eqb (gname x) hn then 0
              else ((if (prio x =? p)%Z then 1 else 0) + rank hn p r)%nat
  end.

Definition countp (p : Z) (l : queue) : nat := length (filter (fun x => prio x =? p) l).

Lemma rank_app : forall l1 l2 hn p, ~ In hn (map gname l1) ->
  rank hn p (l1 ++ l2) = (countp p l1 + rank hn p l2)%nat.
Proof.
  induction l1 as [|x l IH]; intros l2 hn p Hn; [reflexivity|].
  simpl in Hn. simpl. destruct (name_eqb (gname x) hn) eqn:E.
  - apply name_eqb_eq in E. exfalso. apply Hn. left; auto.
  - rewrite IH by (intros C; apply Hn; right; auto). unfold countp. simpl.
    destruct (prio x =? p); simpl; lia.
Qed.

Lemma countp_clean now p l : countp p (map (clean now) l) = countp p l.
Proof.
  unfold countp. induction l as [|x l IH]; [reflexivity|]. simpl.
  destruct (clean_same now x) as [_ Ep]. rewrite Ep. destruct (prio x =? p); simpl; rewrite IH; reflexivity.
Qed.

Lemma names_clean now l : map gname (map (clean now) l) = map gname l.
Proof. induction l as [|x l IH]; [reflexivity|]. simpl. destruct (clean_same now x) as [En _]. rewrite En, IH. reflexivity. Qed.

(* the served group is of another priority: the rank of hn does not change *)
Lemma rank_delay_other : forall post g hn p,
  prio g <> p -> gname g <> hn ->
  rank hn p (delay_insert g post) = rank hn p post.
Proof.
  induction post as [|x r IH]; intros g hn p Hp Hn; simpl.
  - destruct (name_eqb (gname g) hn) eqn:E; [apply name_eqb_eq in E; congruence|].
    destruct (prio g =? p) eqn:E2; [apply Z.eqb_eq in E2; congruence|]. reflexivity.
  - destruct (tprio (gtag x) =? tprio (gtag g)) eqn:E.
    + simpl. destruct (name_eqb (gname x) hn); [reflexivity|]. rewrite IH by auto. reflexivity.
    + simpl. destruct (name_eqb (gname g) hn) eqn:E1; [apply name_eqb_eq in E1; congruence|].
      destruct (prio g =? p) eqn:E2; [apply Z.eqb_eq in E2; congruence|]. reflexivity.
Qed.

(* the served group is of hn's priority and hn is behind it: the served group
   goes behind hn *)
Lemma rank_delay_same : forall post g hn p h,
  prio g = p -> gname g <> hn -> In h post -> gname h = hn -> prio h = p ->
  psorted (p :: map prio post) ->
  rank hn p (delay_insert g post) = rank hn p post.
Proof.
  induction post as [|x r IH]; intros g hn p h Hp Hn Hin Hh Hhp Hs; [destruct Hin|].
  simpl. destruct (tprio (gtag x) =? tprio (gtag g)) eqn:E.
  - simpl. destruct (name_eqb (gname x) hn) eqn:Ex; [reflexivity|].
    destruct Hin as [->|Hin]; [rewrite Hh, name_eqb_refl in Ex; discriminate|].
    rewrite (IH g hn p h) by (auto; simpl in Hs; destruct Hs as [H1 [H2 H3]]; split; auto;
                              inversion H1; auto).
    reflexivity.
  - (* x has a lower priority than g: nothing of priority p can follow, but h does *)
    exfalso. apply Z.eqb_neq in E. simpl in Hs. destruct Hs as [H1 [H2 _]].
    inversion H1 as [|y ys Hx Hr]; subst y ys.
    destruct Hin as [->|Hin].
    + unfold prio in *. congruence.
    + rewrite Forall_forall in H2. assert (prio h <= prio x) by (apply H2; apply in_map; auto).
      unfold prio in *. lia.
Qed.

Fixpoint first_ready (q : queue) (now : Z) : option group :=
  match q with
  | [] => None
  | g :: r => if group_ready g now then Some g else first_ready r now
  end.

Lemma first_ready_struct : forall pre g post now,
  Forall (fun h => group_ready h now = false) pre -> group_ready g now = true ->
  first_ready (pre ++ g :: post) now = Some g.
Proof.
  induction pre as [|x l IH]; intros g post now F R; simpl.
  - rewrite R. reflexivity.
  - inversion F; subst. rewrite H1. apply IH; auto.
Qed.

Lemma first_ready_none : forall q now, first_ready q now = None -> snd (pop_aux q now) = None.
Proof.
  intros q now H. apply pop_none_iff_none_ready.
  induction q as [|g r IH]; [constructor|]. simpl in H.
  destruct (group_ready g now) eqn:R; [discriminate|]. constructor; auto.
Qed.

(* one Pop: what happens to the rank of a ready group *)
Theorem rotation_step : forall q now q' out hn p h,
  psorted (map prio q) -> NoDup (map gname q) ->
  pop_aux q now = (q', Some out) ->
  In h q -> gname h = hn -> prio h = p -> group_ready h now = true ->
  exists g, first_ready q now = Some g /\
    (gname g = hn \/
     (gname g <> hn /\
      (rank hn p q' + (if (prio g =? p)%Z then 1 else 0))%nat = rank hn p q)).
Proof.
  intros q now q' out hn p h Hs Hnd H Hin Hh Hhp Hr.
  destruct (pop_aux_struct _ _ _ _ H) as [pre [g [post [g' [E [F [G Q]]]]]]].
  assert (Rg : group_ready g now = true) by (unfold group_ready; rewrite G; reflexivity).
  exists g. split; [subst q; apply first_ready_struct; auto|].
  destruct (name_eqb (gname g) hn) eqn:Eg; [left; apply name_eqb_eq; auto|]. right.
  assert (Hgn : gname g <> hn) by (intros C; rewrite C, name_eqb_refl in Eg; discriminate).
  split; auto.
  destruct (group_pop_same _ _ _ _ G) as [Et En].
  assert (Ep : prio g' = prio g) by (unfold prio; rewrite Et; reflexivity).
  subst q. rewrite map_app in Hnd. simpl in Hnd.
  (* h is behind g *)
  assert (Hpost : In h post).
  { apply in_app_or in Hin as [Hin|[Hin|Hin]]; auto.
    - rewrite Forall_forall in F. rewrite (F h Hin) in Hr. discriminate.
    - subst h. congruence. }
  (* hn occurs in post, so not in pre (names are unique) *)
  assert (Hpre3 : ~ In hn (map gname pre)).
  { intros C.
    assert (D : NoDup (map gname pre ++ gname g :: map gname post)) by exact Hnd.
    apply in_split in C as [a [b Ea]]. rewrite Ea in D.
    rewrite <- app_assoc in D. simpl in D. apply NoDup_remove_2 in D. apply D.
    apply in_or_app. right. apply in_or_app. right. right. rewrite <- Hh. apply in_map. exact Hpost. }
  rewrite Q. rewrite rank_app by (rewrite names_clean; exact Hpre3).
  rewrite (rank_app pre (g :: post)) by exact Hpre3.
  rewrite countp_clean. cbn [rank]. rewrite Eg.
  destruct (prio g =? p) eqn:Epp.
  - apply Z.eqb_eq in Epp.
    rewrite (rank_delay_same post g' hn p h); auto; try lia; try congruence.
    rewrite map_app in Hs. simpl in Hs.
    clear -Hs Epp. induction pre as [|x l IH]; simpl in Hs.
    + rewrite Epp in Hs. exact Hs.
    + apply IH. tauto.
  - apply Z.eqb_neq in Epp. rewrite rank_delay_other by congruence. lia.
Qed.

(* ---- over a run of Pops ------------------------------------------------------ *)
From Coq Require Import Permutation.

Lemma delay_insert_names : forall r g,
  Permutation (map gname (delay_insert g r)) (gname g :: map gname r).
Proof.
  induction r as [|x r IH]; intros g; simpl; [apply Permutation_refl|].
  destruct (tprio (gtag x) =? tprio (gtag g)); simpl; [|apply Permutation_refl].
  eapply Permutation_trans; [apply perm_skip; apply IH|]. apply perm_swap.
Qed.

Lemma pop_aux_names : forall q now q' out,
  pop_aux q now = (q', Some out) -> NoDup (map gname q) -> NoDup (map gname q').
Proof.
  intros q now q' out H Hnd.
  destruct (pop_aux_struct _ _ _ _ H) as [pre [g [post [g' [E [F [G Q]]]]]]].
  destruct (group_pop_same _ _ _ _ G) as [_ En].
  subst q q'. rewrite map_app in *. rewrite names_clean. simpl in Hnd.
  eapply Permutation_NoDup; [|exact Hnd].
  apply Permutation_app_head. apply Permutation_sym.
  eapply Permutation_trans; [apply delay_insert_names|]. rewrite En. apply Permutation_refl.
Qed.

(* how often is the group named hn passed over by a group of its own priority p
   before it is served, in a run of Pops at the given times *)
Fixpoint bypassed (hn : name) (p : Z) (q : queue) (nows : list Z) : nat :=
  match nows with
  | [] => 0
  | now :: r =>
      match first_ready q now with
      | None => bypassed hn p (fst (pop_aux q now)) r
      | Some g =>
          if name_eqb (gname g) hn then 0
          else ((if (prio g =? p)%Z then 1 else 0) + bypassed hn p (fst (pop_aux q now)) r)%nat
      end
  end.

(* the group named hn (priority p) has a chunk ready at every Pop of the run *)
Fixpoint stays_ready (hn : name) (p : Z) (q : queue) (nows : list Z) : Prop :=
  match nows with
  | [] => True
  | now :: r =>
      (exists h, In h q /\ gname h = hn /\ prio h = p /\ group_ready h now = true) /\
      stays_ready hn p (fst (pop_aux q now)) r
  end.

(* C12, round robin: a group that stays ready is passed over by groups of its own
   priority at most as many times as there are such groups in front of it - in
   particular at most (number of groups of that priority - 1) times *)
Theorem bounded_bypass : forall nows q hn p,
  psorted (map prio q) -> NoDup (map gname q) -> stays_ready hn p q nows ->
  (bypassed hn p q nows <= rank hn p q)%nat.
Proof.
  induction nows as [|now r IH]; intros q hn p Hs Hnd Hst; [simpl; lia|].
  cbn [stays_ready] in Hst. destruct Hst as [[h [Hin [Hh [Hp Hr]]]] Hrest].
  cbn [bypassed].
  destruct (pop_aux q now) as [q' [out|]] eqn:P.
  - destruct (rotation_step q now q' out hn p h Hs Hnd P Hin Hh Hp Hr) as [g [Fr [Eg|[Eg Erank]]]].
    + rewrite Fr. rewrite Eg, name_eqb_refl. lia.
    + rewrite Fr. destruct (name_eqb (gname g) hn) eqn:En; [apply name_eqb_eq in En; congruence|].
      cbn [fst] in *.
      assert (Hs' : psorted (map prio q')) by (rewrite (pop_aux_map _ _ _ _ Hs P); exact Hs).
      assert (Hnd' : NoDup (map gname q')) by (eapply pop_aux_names; eauto).
      specialize (IH q' hn p Hs' Hnd' Hrest). lia.
  - (* nothing was emitted although h is ready: impossible *)
    exfalso. assert (N : snd (pop_aux q now) = None) by (rewrite P; reflexivity).
    apply pop_none_iff_none_ready in N. rewrite Forall_forall in N. rewrite (N h Hin) in Hr. discriminate.
Qed.

Lemma rank_le_countp : forall q hn p, (rank hn p q <= countp p q)%nat.
Proof.
  induction q as [|x r IH]; intros hn p; [simpl; lia|]. simpl. unfold countp in *. simpl.
  destruct (name_eqb (gname x) hn); destruct (prio x =? p); simpl; try lia; specialize (IH hn p); lia.
Qed.

(* when nothing of hn's priority is in front of it, the next Pop that serves that
   priority serves hn *)
Theorem front_of_class_is_served : forall q now q' out hn p h,
  psorted (map prio q) -> NoDup (map gname q) ->
  pop_aux q now = (q', Some out) ->
  In h q -> gname h = hn -> prio h = p -> group_ready h now = true ->
  rank hn p q = 0%nat ->
  exists g, first_ready q now = Some g /\ (gname g = hn \/ prio g <> p).
Proof.
  intros q now q' out hn p h Hs Hnd P Hin Hh Hp Hr Hrank.
  destruct (rotation_step q now q' out hn p h Hs Hnd P Hin Hh Hp Hr) as [g [Fr [Eg|[Eg Erank]]]].
  - exists g. auto.
  - exists g. split; auto. right. intros C. apply Z.eqb_eq in C. rewrite C in Erank. lia.
Qed.
