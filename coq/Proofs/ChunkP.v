From Coq Require Import List ZArith Bool Lia.
From STS Require Import Model.Ranges Model.Chunk Proofs.RangesP.
Import ListNotations.
Open Scope Z_scope.

(* chunks (offset,length) tile [lo,hi): non-empty, ascending, contiguous *)
Fixpoint tiles_from (lo hi : Z) (cs : list chunk) : Prop :=
  match cs with
  | [] => lo = hi
  | (o, l) :: r => o = lo /\ 0 < l /\ tiles_from (o + l) hi r
  end.

Lemma tiles_from_b_spec : forall cs lo hi, tiles_from_b lo hi cs = true <-> tiles_from lo hi cs.
Proof.
  induction cs as [|[o l] r IH]; intros lo hi; simpl.
  - apply Z.eqb_eq.
  - rewrite !andb_true_iff, Z.eqb_eq, Z.ltb_lt, IH. tauto.
Qed.

Lemma tiles_from_le : forall cs lo hi, tiles_from lo hi cs -> lo <= hi.
Proof.
  induction cs as [|[o l] r IH]; intros lo hi H; simpl in H.
  - lia.
  - destruct H as [-> [Hl H]]. apply IH in H. lia.
Qed.

(* every byte of [lo,hi) lies in exactly one chunk: existence ... *)
Lemma tiles_from_cover : forall cs lo hi i,
  tiles_from lo hi cs -> lo <= i < hi -> exists o l, In (o, l) cs /\ o <= i < o + l.
Proof.
  induction cs as [|[o l] r IH]; intros lo hi i H Hi; simpl in H.
  - lia.
  - destruct H as [-> [Hl H]]. destruct (Z_lt_dec i (lo + l)).
    + exists lo, l. split; [left; auto | lia].
    + destruct (IH _ _ i H) as [o' [l' [Hin Hr]]]; [lia|]. exists o', l'. split; [right; auto | auto].
Qed.

(* ... and the chunks stay inside [lo,hi), ascending and pairwise disjoint *)
Lemma tiles_from_inside : forall cs lo hi o l,
  tiles_from lo hi cs -> In (o, l) cs -> lo <= o /\ o + l <= hi /\ 0 < l.
Proof.
  induction cs as [|[o' l'] r IH]; intros lo hi o l H Hin; simpl in H; [destruct Hin|].
  destruct H as [-> [Hl H]]. destruct Hin as [Heq|Hin].
  - inversion Heq; subst. apply tiles_from_le in H. lia.
  - destruct (IH _ _ _ _ H Hin) as [A [B C]]. lia.
Qed.

(* ------------------------------------------------------------------ *)
(* plain files                                                          *)

Theorem chunks_plain_tile : forall fuel size desired a cs,
  0 <= desired -> 0 <= a <= size ->
  chunks_plain fuel size desired a = Some cs ->
  tiles_from a size cs /\ (0 < desired -> Forall (fun c => snd c <= desired) cs).
Proof.
  induction fuel as [|f IH]; intros size desired a cs Hd Ha H; simpl in H.
  - destruct (a =? size) eqn:E; [|discriminate]. inversion H; subst. apply Z.eqb_eq in E.
    simpl. split; auto.
  - destruct (a =? size) eqn:E.
    + inversion H; subst. apply Z.eqb_eq in E. simpl. split; auto.
    + apply Z.eqb_neq in E. unfold alloc_plain in H.
      destruct ((desired =? 0) || (size <? a + desired)) eqn:C.
      * destruct (chunks_plain f size desired (a + (size - a))) as [r|] eqn:R; [|discriminate].
        inversion H; subst. apply IH in R; [|lia|lia]. destruct R as [R1 R2].
        split.
        { simpl. split; auto. split; [lia|]. replace (a + (size - a)) with size in * by lia. auto. }
        { intros Hp. constructor; auto. simpl.
          apply orb_true_iff in C as [C|C]; [apply Z.eqb_eq in C; lia | apply Z.ltb_lt in C; lia]. }
      * apply orb_false_iff in C as [C1 C2]. apply Z.eqb_neq in C1. apply Z.ltb_ge in C2.
        destruct (chunks_plain f size desired (a + desired)) as [r|] eqn:R; [|discriminate].
        inversion H; subst. apply IH in R; [|lia|lia]. destruct R as [R1 R2].
        split.
        { simpl. split; auto. split; [lia|auto]. }
        { intros Hp. constructor; auto. simpl. lia. }
Qed.

(* enough fuel always exists: the loop terminates *)
Theorem chunks_plain_total : forall fuel size desired a,
  0 < desired -> 0 <= a <= size ->
  (size - a) <= Z.of_nat fuel * desired ->
  exists cs, chunks_plain fuel size desired a = Some cs.
Proof.
  induction fuel as [|f IH]; intros size desired a Hd Ha Hf; simpl.
  - assert (a = size) by lia. subst. rewrite Z.eqb_refl. eauto.
  - destruct (a =? size) eqn:E; [eauto|]. apply Z.eqb_neq in E.
    unfold alloc_plain.
    destruct ((desired =? 0) || (size <? a + desired)) eqn:C.
    + destruct (IH size desired (a + (size - a))) as [cs Hcs]; [lia|lia|lia|].
      rewrite Hcs. eauto.
    + apply orb_false_iff in C as [C1 C2]. apply Z.ltb_ge in C2.
      destruct (IH size desired (a + desired)) as [cs Hcs]; [lia|lia|lia|].
      rewrite Hcs. eauto.
Qed.

(* ------------------------------------------------------------------ *)
(* resumed files: chunks tile the missing ranges, one range after the
   other, never crossing a range boundary                                *)

Fixpoint tiles_list (rs : list range) (cs : list chunk) : Prop :=
  match rs with
  | [] => cs = []
  | (b, e) :: rest =>
      exists c1 c2, cs = c1 ++ c2 /\ tiles_from b e c1 /\ tiles_list rest c2
  end.

Definition wf_left (left : list range) : Prop := Forall (fun r => fst r < snd r) left.

Theorem chunks_rec_tile : forall fuel left used desired cs,
  0 < desired -> wf_left left ->
  match left with [] => used = 0 | (b, e) :: _ => 0 <= used < e - b end ->
  chunks_rec fuel left used desired = Some cs ->
  match left with
  | [] => cs = []
  | (b, e) :: rest => tiles_list ((b + used, e) :: rest) cs
  end /\ Forall (fun c => snd c <= desired) cs.
Proof.
  unfold wf_left.
  induction fuel as [|f IH]; intros left used desired cs Hd Hwf Hu H.
  - destruct left as [|[b e] rest]; simpl in H; [|discriminate].
    inversion H; subst. split; auto.
  - destruct left as [|[b e] rest]; [simpl in H; inversion H; subst; split; auto|].
    cbn [chunks_rec alloc_rec] in H.
    inversion Hwf as [|x xs Hbe Hwf']; subst. simpl in Hbe.
    destruct (e <=? b + used + desired) eqn:C.
    + apply Z.leb_le in C.
      destruct (chunks_rec f rest 0 desired) as [r|] eqn:R; [|discriminate].
      inversion H; subst.
      assert (Hu' : match rest with [] => 0 = 0 | (b0, e0) :: _ => 0 <= 0 < e0 - b0 end).
      { destruct rest as [|[b0 e0] rest']; auto. inversion Hwf' as [|y ys Hy _]; subst. simpl in Hy. lia. }
      destruct (IH rest 0 desired r Hd Hwf' Hu' R) as [T1 T2].
      split.
      * exists [(b + used, e - (b + used))], r. split; [reflexivity|]. split.
        { simpl. split; auto. split; [lia|lia]. }
        { destruct rest as [|[b0 e0] rest']; [auto|]. rewrite Z.add_0_r in T1. exact T1. }
      * constructor; auto. simpl. lia.
    + apply Z.leb_gt in C.
      match type of H with match ?x with _ => _ end = _ => destruct x as [r|] eqn:R end; [|discriminate].
      change (chunks_rec f ((b, e) :: rest) (used + desired) desired = Some r) in R.
      inversion H; subst.
      assert (Hu' : 0 <= used + desired < e - b) by lia.
      destruct (IH ((b, e) :: rest) (used + desired) desired r Hd Hwf Hu' R) as [T1 T2].
      split.
      * destruct T1 as [c1 [c2 [-> [Tf Tl]]]].
        exists ((b + used, desired) :: c1), c2. split; [reflexivity|]. split; auto.
        simpl. split; auto. split; auto.
        replace (b + used + desired) with (b + (used + desired)) by lia. exact Tf.
      * constructor; auto. simpl. lia.
Qed.

(* the total announced as "send size" is the number of missing bytes *)
Lemma tiles_from_sum : forall cs lo hi,
  tiles_from lo hi cs -> fold_right (fun c acc => snd c + acc) 0 cs = hi - lo.
Proof.
  induction cs as [|[o l] r IH]; intros lo hi H; simpl in *.
  - lia.
  - destruct H as [-> [Hl H]]. rewrite (IH _ _ H). lia.
Qed.

Definition sum_len (cs : list chunk) : Z := fold_right (fun c acc => snd c + acc) 0 cs.

Lemma sum_len_app xs ys : sum_len (xs ++ ys) = sum_len xs + sum_len ys.
Proof. unfold sum_len. induction xs as [|x xs IH]; simpl; [lia | rewrite IH; lia]. Qed.

Theorem send_size_is_sum : forall left cs,
  tiles_list left cs -> sum_len cs = send_size left.
Proof.
  induction left as [|[b e] rest IH]; intros cs H; simpl in H.
  - subst; reflexivity.
  - destruct H as [c1 [c2 [-> [T1 T2]]]].
    rewrite sum_len_app. unfold sum_len at 1. rewrite (tiles_from_sum _ _ _ T1), (IH _ T2).
    unfold send_size. simpl. lia.
Qed.

(* ------------------------------------------------------------------ *)
(* "missing" is the complement of a sorted disjoint record               *)

Lemma missing_aux_spec : forall ps beg m last,
  sorted_disjoint_b ps = true -> lower_bounded beg ps ->
  missing_aux ps beg = (m, last) ->
  beg <= last /\ lower_bounded beg m /\ sorted_disjoint_b m = true /\
  (forall r, In r m -> snd r <= last) /\
  (match ps with [] => last = beg | _ => last = last_end ps beg end) /\
  (forall i, beg <= i < last -> (covered m i <-> ~ covered ps i)) /\
  (forall i, covered m i -> beg <= i < last) /\
  (forall i, covered ps i -> beg <= i < last).
Proof.
  induction ps as [|[pb pe] rest IH]; intros beg m last Hs Hlb H.
  - simpl in H. inversion H; subst. simpl. repeat split; auto; try lia;
      try (intros; exfalso; eapply covered_nil; eauto); try (intros r []).
  - apply sorted_disjoint_cons in Hs as [Hp [Hlb' Hs]]. simpl in Hlb.
    simpl in H. destruct (missing_aux rest pe) as [m' last'] eqn:R.
    destruct (IH pe m' last' Hs Hlb' R) as [A [B [C [D [E [F [G K]]]]]]].
    assert (Hlast : last' = last_end rest pe) by (destruct rest; auto).
    assert (Hcovp : forall i, covered ((pb, pe) :: rest) i <-> (pb <= i < pe) \/ covered rest i).
    { intros i. rewrite covered_cons. unfold in_range; simpl. tauto. }
    destruct (beg =? pb) eqn:Eb; inversion H; subst; clear H.
    + apply Z.eqb_eq in Eb. subst pb.
      split; [lia|]. split. { destruct m as [|[mb me] mr]; simpl in *; auto; lia. }
      split; auto. split; auto. split; [simpl; auto|].
      split; [|split].
      * intros i Hi. rewrite Hcovp. destruct (Z_lt_dec i pe).
        { split; [intros Hc; apply G in Hc; lia | intros Hn; exfalso; apply Hn; left; lia]. }
        { assert (Hf : covered m i <-> ~ covered rest i) by (apply F; lia).
          split; [intros Hx [Hy|Hy]; try lia; tauto | intros Hn; apply Hf; tauto]. }
      * intros i Hc. apply G in Hc. lia.
      * intros i Hc. apply Hcovp in Hc as [Hc|Hc]; [lia | apply K in Hc; lia].
    + apply Z.eqb_neq in Eb.
      split; [lia|]. split; [simpl; lia|].
      split. { apply sorted_disjoint_cons. split; [lia|]. split; auto.
               destruct m' as [|[mb me] mr]; simpl in *; auto; lia. }
      split. { intros r [<-|Hr]; [simpl; lia | auto]. }
      split; [simpl; auto|].
      split; [|split].
      * intros i Hi. rewrite (covered_cons (beg, pb) m'), (Hcovp i). unfold in_range; simpl.
        destruct (Z_lt_dec i pb).
        { split; [intros _ [Hx|Hx]; [lia | apply K in Hx; lia] | intros _; left; lia]. }
        destruct (Z_lt_dec i pe).
        { split; [intros [Hx|Hx]; [lia | apply G in Hx; lia] | intros Hn; exfalso; apply Hn; left; lia]. }
        { assert (Hf : covered m' i <-> ~ covered rest i) by (apply F; lia).
          split; [intros [Hx|Hx] [Hy|Hy]; try lia; tauto | intros Hn; right; apply Hf; tauto]. }
      * intros i Hc. apply covered_cons in Hc as [Hc|Hc]; [unfold in_range in Hc; simpl in Hc; lia | apply G in Hc; lia].
      * intros i Hc. apply Hcovp in Hc as [Hc|Hc]; [lia | apply K in Hc; lia].
Qed.

Lemma last_end_covered : forall ps d,
  ps <> [] -> sorted_disjoint_b ps = true -> covered ps (last_end ps d - 1).
Proof.
  induction ps as [|[pb pe] rest IH]; intros d Hne Hs; [congruence|].
  apply sorted_disjoint_cons in Hs as [Hp [Hlb Hs]]. cbn [last_end].
  destruct rest as [|q rest'].
  - simpl. apply covered_cons; left. unfold in_range; simpl; lia.
  - apply covered_cons; right. apply IH; auto. discriminate.
Qed.

Lemma covered_app xs ys i : covered (xs ++ ys) i <-> covered xs i \/ covered ys i.
Proof.
  unfold covered; split.
  - intros [r [Hin Hr]]. apply in_app_or in Hin as [H|H]; [left|right]; exists r; auto.
  - intros [[r [Hin Hr]]|[r [Hin Hr]]]; exists r; split; auto; apply in_or_app; auto.
Qed.

(* C11 / C07: for a record that, once sorted by Beg, is non-empty-ranged,
   disjoint and inside [0,size], the ranges sent again are exactly the bytes
   the receiver does not report holding. *)
Theorem missing_complement : forall ps size,
  0 <= size ->
  sorted_disjoint_b (sort_ranges ps) = true ->
  lower_bounded 0 (sort_ranges ps) ->
  (forall i, covered ps i -> i < size) ->
  forall i, covered (missing ps size) i <-> (0 <= i < size /\ ~ covered ps i).
Proof.
  intros ps size Hsz Hs Hlb Hin i. unfold missing.
  destruct (missing_aux (sort_ranges ps) 0) as [m last] eqn:R.
  destruct (missing_aux_spec _ _ _ _ Hs Hlb R) as [A [B [C [D [E [F [G K]]]]]]].
  assert (Hlast : last <= size).
  { destruct (Z_le_dec last size); auto. exfalso.
    destruct (sort_ranges ps) as [|p rest] eqn:Es; [subst; lia|].
    (* the byte last-1 is covered by the record, hence < size *)
    assert (Hc : covered ps (last - 1)).
    { apply sort_ranges_covered. rewrite Es, E. apply last_end_covered; auto. discriminate. }
    apply Hin in Hc. lia. }
  assert (Hps : forall j, covered (sort_ranges ps) j <-> covered ps j) by (intros; apply sort_ranges_covered).
  destruct (last <? size) eqn:L.
  - apply Z.ltb_lt in L. rewrite covered_app. split.
    + intros [Hc|Hc].
      * pose proof (G _ Hc). split; [lia|]. rewrite <- Hps. apply F; auto.
      * apply covered_cons in Hc as [Hc|Hc]; [|exfalso; eapply covered_nil; eauto].
        unfold in_range in Hc; simpl in Hc. split; [lia|]. rewrite <- Hps. intros Hx. apply K in Hx. lia.
    + intros [Hi Hn]. destruct (Z_lt_dec i last).
      * left. apply F; [lia|]. rewrite Hps; auto.
      * right. apply covered_cons; left. unfold in_range; simpl; lia.
  - apply Z.ltb_ge in L. assert (last = size) by lia. subst last. split.
    + intros Hc. pose proof (G _ Hc). split; [lia|]. rewrite <- Hps. apply F; auto.
    + intros [Hi Hn]. apply F; [lia|]. rewrite Hps; auto.
Qed.

(* outside that domain "missing" can contain a range of negative length *)
Theorem missing_overlap_refuted :
  exists ps size r, In r (missing ps size) /\ snd r < fst r.
Proof.
  exists [(2, 6); (4, 8)], 8, (6, 4). split; [vm_compute; auto|simpl; lia].
Qed.

(* ------------------------------------------------------------------ *)
(* the binner                                                           *)

Fixpoint ptiles (id lo hi : Z) (ps : list part) : Prop :=
  match ps with
  | [] => lo = hi
  | (i, pb, pe) :: r => i = id /\ pb = lo /\ lo < pe /\ ptiles id pe hi r
  end.

Definition all_parts (st : bstate) : list part :=
  concat (map bparts (rev (out st))) ++
  match cur st with Some bn => bparts bn | None => [] end.

Definition bin_ok (cap : Z) (bn : bin) : Prop :=
  bcap bn = cap /\ bfluff bn = fluff_of cap /\ 0 <= bbytes bn /\ is_full bn = false.

Definition Inv (cap : Z) (st : bstate) : Prop :=
  (match cur st with Some bn => bin_ok cap bn | None => True end) /\
  Forall (fun bn => bbytes bn <= cap + fluff_of cap) (out st).

Lemma all_parts_push_none : forall o d bn,
  all_parts (mkbs None (bn :: o) d) = concat (map bparts (rev o)) ++ bparts bn.
Proof.
  intros. unfold all_parts; simpl. rewrite map_app, concat_app. simpl.
  rewrite !app_nil_r. reflexivity.
Qed.

Lemma new_bin_ok cap : 0 <= cap -> bin_ok cap (new_bin cap).
Proof.
  intros H. unfold bin_ok, new_bin, is_full, fluff_of; simpl. repeat split; try lia.
  rewrite Z.sub_0_r. apply orb_false_iff; split; apply Z.ltb_ge; [lia|].
  apply Z.div_le_upper_bound; lia.
Qed.

Theorem bin_chunk_tiles : forall fuel cap st id b n a st',
  1 <= fluff_of cap -> 0 <= a < n -> Inv cap st ->
  bin_chunk fuel cap st id b n a = Some st' ->
  Inv cap st' /\ dropped st' = dropped st /\
  exists ps, all_parts st' = all_parts st ++ ps /\ ptiles id (b + a) (b + n) ps.
Proof.
  induction fuel as [|f IH]; intros cap st id b n a st' Hfl Ha HI H; [discriminate|].
  assert (Hcap : 0 <= cap) by (unfold fluff_of in Hfl; destruct (Z_le_dec 0 cap); auto;
                               assert (cap / 10 < 0) by (apply Z.div_lt_upper_bound; lia); lia).
  cbn [bin_chunk] in H.
  set (bn := match cur st with Some x => x | None => new_bin cap end) in *.
  destruct HI as [HC HO].
  assert (Hbn : bin_ok cap bn).
  { unfold bn. destruct (cur st); auto. apply new_bin_ok; auto. }
  destruct Hbn as [Hc [Hf [Hb Hnf]]].
  unfold is_full in Hnf. apply orb_false_iff in Hnf as [Hn1 Hn2].
  apply Z.ltb_ge in Hn1, Hn2. rewrite Hc, Hf in *.
  assert (Hparts : all_parts st = concat (map bparts (rev (out st))) ++ bparts bn).
  { unfold all_parts, bn. destruct (cur st); auto. }
  unfold bin_add in H. rewrite Hc, Hf in H.
  set (e := Z.min (b + n) (b + a + (cap + fluff_of cap - bbytes bn))) in *.
  assert (He : b + a < e <= b + n) by (unfold e; lia).
  assert (Hpos : 0 <? e - (b + a) = true) by (apply Z.ltb_lt; lia).
  rewrite Hpos in H.
  set (bn' := mkbin cap (fluff_of cap) (bbytes bn + (e - (b + a))) (bparts bn ++ [(id, b + a, e)])) in *.
  assert (Hbytes : bbytes bn' <= cap + fluff_of cap) by (unfold bn', e; simpl; lia).
  set (st1 := if is_full bn' then mkbs None (bn' :: out st) (dropped st)
              else mkbs (Some bn') (out st) (dropped st)) in *.
  assert (HI1 : Inv cap st1).
  { unfold st1. destruct (is_full bn') eqn:Fu; split; simpl; auto.
    unfold bin_ok, bn'; simpl. repeat split; auto; try lia. }
  assert (Hd1 : dropped st1 = dropped st) by (unfold st1; destruct (is_full bn'); reflexivity).
  assert (Hp1 : all_parts st1 = all_parts st ++ [(id, b + a, e)]).
  { rewrite Hparts. unfold st1. destruct (is_full bn').
    - rewrite all_parts_push_none. unfold bn'; simpl. rewrite app_assoc. reflexivity.
    - unfold all_parts; simpl. rewrite app_assoc. reflexivity. }
  destruct (a + (e - (b + a)) =? n) eqn:Eq.
  - apply Z.eqb_eq in Eq. inversion H; subst st'. split; auto. split; auto.
    exists [(id, b + a, e)]. split; auto. simpl. repeat split; auto; lia.
  - apply Z.eqb_neq in Eq.
    destruct (IH cap st1 id b n (a + (e - (b + a))) st' Hfl) as [I2 [D2 [ps [P2 T2]]]]; auto; [lia|].
    split; auto. split; [congruence|].
    exists ((id, b + a, e) :: ps). split.
    + rewrite P2, Hp1, <- app_assoc. reflexivity.
    + simpl. repeat split; auto; try lia.
      replace (b + (a + (e - (b + a)))) with e in T2 by lia. exact T2.
Qed.

Lemma flush_preserves cap st : 0 <= fluff_of cap -> Inv cap st ->
  Inv cap (flush st) /\ all_parts (flush st) = all_parts st /\ dropped (flush st) = dropped st.
Proof.
  intros Hfl [HC HO]. unfold flush. destruct (cur st) as [bn|] eqn:E; [|repeat split; auto; rewrite E; auto].
  destruct (0 <? bbytes bn) eqn:P.
  - split; [split; simpl; auto|].
    + constructor; auto. destruct HC as [Hc [Hf [Hb Hnf]]].
      unfold is_full in Hnf. apply orb_false_iff in Hnf as [Hn1 Hn2].
      apply Z.ltb_ge in Hn1, Hn2. rewrite Hc, Hf in *. lia.
    + split; auto. rewrite all_parts_push_none. unfold all_parts. rewrite E. reflexivity.
  - repeat split; auto. rewrite E; auto.
Qed.

(* whole runs of the binner: any interleaving of chunks and idle flushes *)
Theorem pack_tiles : forall evs cap st st',
  1 <= fluff_of cap -> Inv cap st ->
  Forall (fun ev => 0 < snd (snd ev)) evs ->
  pack cap st evs = Some st' ->
  Inv cap st' /\ dropped st' = dropped st /\
  exists pss, all_parts st' = all_parts st ++ concat pss /\
              Forall2 (fun ev ps => let '(_, (id, b, n)) := ev in ptiles id b (b + n) ps) evs pss.
Proof.
  induction evs as [|[fl [[id b] n]] rest IH]; intros cap st st' Hfl HI Hwf H.
  - simpl in H. inversion H; subst. destruct (flush_preserves cap st ltac:(lia) HI) as [A [B C]].
    split; auto. split; auto. exists []. split; [simpl; rewrite app_nil_r; auto | constructor].
  - cbn [pack] in H. inversion Hwf as [|x xs Hn Hwf']; subst. simpl in Hn.
    set (st1 := if fl then flush st else st) in *.
    assert (H1 : Inv cap st1 /\ all_parts st1 = all_parts st /\ dropped st1 = dropped st).
    { unfold st1. destruct fl; [apply flush_preserves; auto; lia | auto]. }
    destruct H1 as [I1 [P1 D1]].
    destruct (bin_chunk (chunk_fuel cap n) cap st1 id b n 0) as [st2|] eqn:B; [|discriminate].
    destruct (bin_chunk_tiles _ _ _ _ _ _ _ _ Hfl (conj (Z.le_refl 0) Hn) I1 B) as [I2 [D2 [ps [P2 T2]]]].
    destruct (IH cap st2 st' Hfl I2 Hwf' H) as [I3 [D3 [pss [P3 T3]]]].
    split; auto. split; [congruence|].
    exists (ps :: pss). split.
    + rewrite P3, P2, P1. simpl. rewrite <- app_assoc. reflexivity.
    + constructor; auto. rewrite Z.add_0_r in T2. exact T2.
Qed.

(* every payload handed to a sender respects the allowance cap + 10% *)
Theorem pack_allowance : forall evs cap st st',
  1 <= fluff_of cap -> Inv cap st ->
  Forall (fun ev => 0 < snd (snd ev)) evs ->
  pack cap st evs = Some st' ->
  Forall (fun bn => bbytes bn <= cap + fluff_of cap) (out st').
Proof.
  intros. destruct (pack_tiles _ _ _ _ H H0 H1 H2) as [[_ HO] _]. exact HO.
Qed.

Lemma init_inv cap : Inv cap init_bstate.
Proof. split; simpl; auto. Qed.

(* refuted when the 10% slack rounds to zero (capacity < 10): a chunk that
   fills the bin exactly leaves it "not full", the next Add adds nothing and
   the binner drops the chunk *)
Theorem pack_drop_refuted :
  exists cap evs st', pack cap init_bstate evs = Some st' /\ dropped st' <> [].
Proof.
  exists 4, [(false, (1, 0, 4)); (false, (2, 0, 4))].
  eexists. split; [vm_compute; reflexivity | discriminate].
Qed.

(* Split keeps every part, in order, and the byte accounts add up *)
Theorem split_preserves : forall bn k hd tl,
  bin_split bn k = Some (hd, tl) ->
  bparts hd ++ bparts tl = bparts bn /\ bbytes hd + bbytes tl = bbytes bn /\
  bbytes tl = bytes_of (bparts tl).
Proof.
  intros bn k hd tl H. unfold bin_split in H.
  destruct ((k <? 1)%nat || (length (bparts bn) <=? k)%nat); [discriminate|].
  inversion H; subst; simpl. rewrite firstn_skipn. repeat split; lia.
Qed.
