From Coq Require Import List ZArith Bool Lia.
From STS Require Import Model.Ranges Model.Queue Model.LogM Model.Stage Proofs.QueueP.
Import ListNotations.
Open Scope Z_scope.

(* ------------------------------------------------------------------ *)
(* association lists                                                    *)

Lemma alookup_in {A} : forall (l : list (name * A)) k v,
  alookup k l = Some v -> In (k, v) l.
Proof.
  induction l as [|[k' v'] r IH]; intros k v H; simpl in H; [discriminate|].
  destruct (name_eqb k' k) eqn:E.
  - apply name_eqb_eq in E. inversion H; subst. left; auto.
  - right; auto.
Qed.

Lemma aset_in {A} : forall (l : list (name * A)) k v k0 v0,
  In (k0, v0) (aset k v l) -> (k0, v0) = (k, v) \/ In (k0, v0) l.
Proof.
  induction l as [|[k' v'] r IH]; intros k v k0 v0 H; simpl in H.
  - destruct H as [H|[]]; auto.
  - destruct (name_eqb k' k).
    + destruct H as [H|H]; [left; auto | right; right; auto].
    + destruct H as [H|H]; [right; left; auto|].
      destruct (IH _ _ _ _ H); [left; auto | right; right; auto].
Qed.

Lemma aremove_in {A} : forall (l : list (name * A)) k k0 v0,
  In (k0, v0) (aremove k l) -> In (k0, v0) l.
Proof.
  induction l as [|[k' v'] r IH]; intros k k0 v0 H; simpl in H; auto.
  destruct (name_eqb k' k); [right; auto|].
  destruct H as [H|H]; [left; auto | right; eauto].
Qed.

Lemma list_set_forall {A} (P : A -> Prop) : forall (l : list A) i v,
  Forall P l -> (i < length l -> P v)%nat -> Forall P (list_set l i v).
Proof.
  induction l as [|x r IH]; intros i v HF Hv; simpl; auto.
  inversion HF; subst. destruct i as [|j].
  - constructor; auto. apply Hv. simpl; lia.
  - constructor; auto. apply IH; auto. intros. apply Hv. simpl; lia.
Qed.

Lemma nth_forall {A} (P : A -> Prop) : forall (l : list A) i d,
  Forall P l -> (i < length l)%nat -> P (nth i l d).
Proof.
  intros l i d HF Hi. rewrite Forall_forall in HF. apply HF. apply nth_In; auto.
Qed.

(* ------------------------------------------------------------------ *)
(* the integrity invariant on D                                          *)

Section Integrity.
Variable H : list Z -> name.
Variable ver : name -> name.            (* the hash announced for each name *)

Definition rec_target (r : lrec) : name :=
  match l_renamed r with [] => l_name r | x => x end.

Definition obj_ok (f : ffile) : Prop := f_hash f = ver (f_name f).

Record Inv (s : stage) : Prop := mkInv {
  inv_wait : forall n b, In (n, b) (waits s) -> H b = ver n;
  inv_final : forall t b, In (t, b) (finals s) ->
              exists r, In r (rlog s) /\ rec_target r = t /\ H b = l_hash r;
  inv_log : forall r, In r (rlog s) -> l_hash r = ver (l_name r);
  inv_heap : Forall obj_ok (heap s);
  inv_cmp : forall n c, In (n, c) (cmps s) -> c_hash c = ver n;
  (* a file left under its lock name in the final directory by a crash inside
     fileutil.Move was validated and logged before *)
  inv_flck : forall t b, In (t, b) (flcks s) ->
             exists r, In r (rlog s) /\ rec_target r = t /\ H b = l_hash r
}.

(* states that agree on the five fields the invariant reads *)
Definition same5 (s s' : stage) : Prop :=
  waits s' = waits s /\ finals s' = finals s /\ rlog s' = rlog s /\
  heap s' = heap s /\ cmps s' = cmps s /\ flcks s' = flcks s.

Lemma inv_same5 s s' : same5 s s' -> Inv s -> Inv s'.
Proof.
  intros [A [B [C [D [E F]]]]] [I1 I2 I3 I4 I5 I6].
  constructor; rewrite ?A, ?B, ?C, ?D, ?E, ?F; auto.
Qed.

(* replacing one heap object by an ok one *)
Lemma inv_set_obj s o f : Inv s -> ((o < length (heap s))%nat -> obj_ok f) -> Inv (set_obj s o f).
Proof.
  intros [I1 I2 I3 I4 I5 I6] Hf. constructor; simpl; auto.
  apply list_set_forall; auto.
Qed.

Lemma obj_ok_obj s o : Inv s -> (o < length (heap s))%nat -> obj_ok (obj s o).
Proof. intros I Ho. unfold obj. apply nth_forall; auto. apply (inv_heap _ I). Qed.

Lemma inv_to_cache s o st : Inv s -> Inv (to_cache s o st).
Proof.
  intros I. unfold to_cache.
  set (f := with_batch (with_state (obj s o) st) 0).
  assert (I1 : Inv (set_obj s o f)).
  { apply inv_set_obj; auto. intros Ho. unfold f, obj_ok. simpl. apply (obj_ok_obj s o I Ho). }
  set (s1 := set_obj s o f) in *.
  set (s2 := if negb (f_logged f =? 0) && (ctime s1 =? 0) then set_ctime (f_logged f) s1 else s1).
  assert (I2 : Inv s2).
  { unfold s2. destruct (negb (f_logged f =? 0) && (ctime s1 =? 0)); auto.
    eapply inv_same5; [|exact I1]. repeat split. }
  set (s3 := set_cache (aset (f_name f) o (cache s2)) s2).
  assert (I3 : Inv s3) by (eapply inv_same5; [|exact I2]; repeat split).
  destruct (negb (match f_prev f with [] => true | _ => false end) && (st =? ST_FINALIZED)); auto.
  destruct (cache_obj s3 (f_prev f)) as [p|]; auto.
  apply inv_set_obj; auto. intros Hp. unfold obj_ok. simpl. apply (obj_ok_obj s3 p I3 Hp).
Qed.

Lemma to_cache_fields s o st :
  waits (to_cache s o st) = waits s /\ finals (to_cache s o st) = finals s /\
  rlog (to_cache s o st) = rlog s /\ cmps (to_cache s o st) = cmps s /\
  parts (to_cache s o st) = parts s /\ fulls (to_cache s o st) = fulls s /\
  length (heap (to_cache s o st)) = length (heap s).
Proof.
  unfold to_cache.
  assert (L : forall {A} (l : list A) i v, length (list_set l i v) = length l).
  { induction l as [|x r IH]; intros [|j] v; simpl; auto. }
  destruct (negb (f_logged (with_batch (with_state (obj s o) st) 0) =? 0) && (ctime (set_obj s o (with_batch (with_state (obj s o) st) 0)) =? 0));
    destruct (negb (match f_prev (with_batch (with_state (obj s o) st) 0) with [] => true | _ => false end) && (st =? ST_FINALIZED));
    try (match goal with |- context [cache_obj ?x ?y] => destruct (cache_obj x y) end);
    simpl; rewrite ?L; repeat split; auto.
Qed.

Lemma inv_lock s n : Inv s -> Inv (lock n s).
Proof. intros; eapply inv_same5; eauto; repeat split. Qed.
Lemma inv_unlock s n : Inv s -> Inv (unlock n s).
Proof. intros; eapply inv_same5; eauto; repeat split. Qed.

Lemma inv_load_records : forall recs s from ct bid,
  (forall r, In r recs -> l_hash r = ver (l_name r)) -> Inv s -> Inv (load_records s recs from ct bid).
Proof.
  induction recs as [|r rest IH]; intros s from ct bid Hr I; simpl; auto.
  destruct (ct <? l_time r); auto. apply IH; [intros; apply Hr; right; auto|].
  match goal with |- Inv (if ?c then _ else _) => destruct c end; auto.
  destruct I as [I1 I2 I3 I4 I5]. constructor; simpl; auto.
  apply Forall_app; split; auto. constructor; auto. unfold obj_ok; simpl. apply Hr; left; auto.
Qed.

Lemma inv_build_cache s now from : Inv s -> Inv (build_cache s now from).
Proof.
  intros I. unfold build_cache. destruct (from =? 0); auto.
  destruct (negb (ctime s =? 0) && (ctime s <=? from)); auto.
  set (s1 := load_records s (rlog s) from (if ctime s =? 0 then now else ctime s) (nbatch s + 1)).
  assert (I1 : Inv s1) by (apply inv_load_records; auto; apply (inv_log _ I)).
  eapply inv_same5 with (s := s1); [|exact I1].
  destruct (visited_any (rlog s) from (if ctime s =? 0 then now else ctime s)); repeat split.
Qed.

Lemma inv_prepare s n size : Inv s -> Inv (prepare s n size).
Proof.
  intros I. unfold prepare.
  destruct (match alookup n (parts (lock n s)) with Some sf => Z.of_nat (length (sf_data sf)) =? size | None => false end).
  - apply inv_lock; auto.
  - set (s0 := lock n s). assert (I0 : Inv s0) by (apply inv_lock; auto).
    set (s1 := if ahas n (cmps s0) && ((cache_state s0 n =? ST_UNKNOWN) || (cache_state s0 n =? ST_FAILED))
               then set_cmps (aremove n (cmps s0)) s0 else s0).
    assert (I1 : Inv s1).
    { unfold s1. destruct (ahas n (cmps s0) && _); auto.
      destruct I0 as [A B C D E G]. constructor; simpl; auto. intros n0 c Hin. apply E. eapply aremove_in; eauto. }
    eapply inv_same5; [|exact I1]. repeat split.
Qed.

Lemma inv_receive s p d e : p_hash p = ver (p_name p) -> Inv s -> Inv (fst (receive s p d e)).
Proof.
  intros Hp I. unfold receive.
  destruct (alookup (p_name p) (parts s)) as [sf|]; [|exact I].
  set (n := p_name p).
  set (d' := write_at (sf_data sf) (Z.to_nat (p_beg p)) d).
  set (s1 := set_parts (aset n (mksf d' false) (parts s)) s).
  assert (I1 : Inv s1) by (eapply inv_same5; [|exact I]; repeat split).
  destruct (e || negb (Z.of_nat (length d) =? p_end p - p_beg p)); [exact I1|].
  set (s2 := lock n s1). assert (I2 : Inv s2) by (apply inv_lock; auto).
  set (c0 := match alookup n (cmps s2) with
             | Some c => if name_eqb (c_hash c) (p_hash p)
                         then mkcomp (c_renamed c) (p_prev p) (c_size c) (c_hash c) (c_parts c)
                         else mkcomp (p_renamed p) (p_prev p) (p_size p) (p_hash p) []
             | None => mkcomp (p_renamed p) (p_prev p) (p_size p) (p_hash p) [] end).
  assert (Hc0 : c_hash c0 = ver n).
  { unfold c0. destruct (alookup n (cmps s2)) as [c|] eqn:L; simpl; auto.
    destruct (name_eqb (c_hash c) (p_hash p)) eqn:E; simpl; auto.
    apply (inv_cmp _ I2). apply alookup_in; auto. }
  set (c1 := mkcomp (c_renamed c0) (c_prev c0) (c_size c0) (c_hash c0) (add_part (c_parts c0) (p_beg p) (p_end p))).
  set (s3 := set_cmps (aset n c1 (cmps s2)) s2).
  assert (I3 : Inv s3).
  { destruct I2 as [A B C D E G]. constructor; simpl; auto. intros n0 c Hin.
    apply aset_in in Hin as [Hin|Hin]; [inversion Hin; subst; simpl; auto | auto]. }
  destruct (complete (c_parts c1) (c_size c1)); [|exact I3].
  destruct (match cache_obj s3 n with
            | Some o => negb (f_state (obj s3 o) =? ST_FAILED) && name_eqb (f_hash (obj s3 o)) (p_hash p)
            | None => false end).
  - set (s4 := set_parts (aremove n (parts s3)) s3).
    assert (I4 : Inv s4) by (eapply inv_same5; [|exact I3]; repeat split).
    simpl. destruct (ST_FINALIZED <=? cache_state s4 n); auto.
    apply inv_unlock. destruct I4 as [A B C D E G]. constructor; simpl; auto.
    intros n0 c Hin. apply E. eapply aremove_in; eauto.
  - set (s4 := set_fulls (aset n d' (fulls s3)) (set_parts (aremove n (parts s3)) s3)).
    assert (I4 : Inv s4) by (eapply inv_same5; [|exact I3]; repeat split).
    simpl.
    set (f := mkff n (p_renamed p) (p_prev p) (p_size p) (p_hash p) ST_RECEIVED 0 false false 0).
    assert (I5 : Inv (set_heap (heap s4 ++ [f]) s4)).
    { destruct I4 as [A B C D E G]. constructor; simpl; auto. apply Forall_app; split; auto. }
    eapply inv_same5; [|apply inv_to_cache; exact I5]. repeat split.
Qed.

Lemma inv_process s o : Inv s -> Inv (process H s o).
Proof.
  intros I. unfold process. destruct (nth_error (heap s) o) as [f|] eqn:N; auto.
  assert (Hf : obj_ok f).
  { pose proof (inv_heap _ I) as HF. rewrite Forall_forall in HF. apply HF. eapply nth_error_In; eauto. }
  set (n := f_name f). set (s0 := lock n s). assert (I0 : Inv s0) by (apply inv_lock; auto).
  destruct (negb (cache_state s0 n =? ST_RECEIVED)); auto.
  destruct (alookup n (fulls s0)) as [body|] eqn:L.
  - destruct (name_eqb (H body) (f_hash f)) eqn:E.
    + apply name_eqb_eq in E.
      set (s1 := set_waits (aset n body (waits s0)) (set_fulls (aremove n (fulls s0)) s0)).
      assert (I1 : Inv s1).
      { destruct I0 as [A B C D F G]. constructor; simpl; auto. intros n0 b Hin.
        apply aset_in in Hin as [Hin|Hin]; [inversion Hin; subst; rewrite E; apply Hf | auto]. }
      eapply inv_same5; [|apply inv_to_cache; exact I1]. repeat split.
    + apply inv_to_cache; auto.
  - apply inv_to_cache. destruct I0 as [A B C D F G]. constructor; simpl; auto.
    intros n0 c Hin. apply F. eapply aremove_in; eauto.
Qed.

Lemma inv_to_wait s pv o t : Inv s -> Inv (to_wait s pv o t).
Proof.
  intros I. unfold to_wait.
  assert (I1 : Inv (set_obj s o (with_timer (obj s o) t))).
  { apply inv_set_obj; auto. intros Ho. unfold obj_ok; simpl. apply (obj_ok_obj s o I Ho). }
  destruct (existsb _ _); eapply inv_same5; try exact I1; repeat split.
Qed.

Lemma target_of_rec f t : rec_target (mklr (f_name f) (f_renamed f) (f_hash f) (f_size f) t) = target_of f.
Proof. unfold rec_target, target_of; simpl. destruct (f_renamed f); reflexivity. Qed.

Lemma inv_finalize s now o : Inv s -> Inv (finalize s now o).
Proof.
  intros I. unfold finalize. destruct (nth_error (heap s) o) as [f0|] eqn:N; auto.
  assert (Ho : (o < length (heap s))%nat) by (apply nth_error_Some; congruence).
  set (n := f_name f0). set (s0 := lock n s). assert (I0 : Inv s0) by (apply inv_lock; auto).
  destruct (negb (cache_state s0 n =? ST_VALIDATED) || negb (name_eqb (cache_hash s0 n) (f_hash f0))); [apply inv_unlock; auto|].
  set (s1 := set_obj s0 o (with_timer (obj s0 o) false)).
  assert (I1 : Inv s1).
  { apply inv_set_obj; auto. intros _. unfold obj_ok; simpl. apply (obj_ok_obj s0 o I0). exact Ho. }
  set (f := obj s1 o).
  assert (Hf : obj_ok f).
  { apply obj_ok_obj; auto. unfold s1; simpl.
    assert (L : forall {A} (l : list A) i v, length (list_set l i v) = length l)
      by (induction l as [|x r IH]; intros [|j] v; simpl; auto).
    rewrite L. exact Ho. }
  set (rcd := mklr (f_name f) (f_renamed f) (f_hash f) (f_size f) now).
  set (s2 := set_rlog (rlog s1 ++ [rcd]) s1).
  assert (I2 : Inv s2).
  { destruct I1 as [A B C D E G]. constructor; simpl; auto.
    - intros t b Hin. destruct (B t b Hin) as [r [R1 R2]]. exists r. split; auto. apply in_or_app; auto.
    - intros r Hin. apply in_app_or in Hin as [Hin|[<-|[]]]; auto.
    - intros t b Hin. destruct (G t b Hin) as [r [R1 R2]]. exists r. split; auto. apply in_or_app; auto. }
  set (s3 := set_obj s2 o (with_logged (obj s2 o) now)).
  assert (I3 : Inv s3).
  { apply inv_set_obj; auto; intros Ho2; unfold obj_ok; simpl; apply (obj_ok_obj s2 o I2 Ho2). }
  destruct (alookup n (waits s3)) as [body|] eqn:L; [|apply inv_unlock; auto].
  set (s4 := set_finals (aset (target_of f) body (finals s3)) (set_waits (aremove n (waits s3)) s3)).
  assert (Hb : H body = ver n) by (apply (inv_wait _ I3); apply alookup_in; auto).
  assert (Hn : f_name f = n).
  { unfold f, s1, obj; simpl.
    assert (G : forall (l : list ffile) i v d, (i < length l)%nat -> nth i (list_set l i v) d = v)
      by (induction l as [|x r IH]; intros [|j] v d Hi; simpl in *; try lia; auto; apply IH; lia).
    rewrite G by exact Ho. simpl. unfold obj. rewrite (nth_error_nth _ _ _ N). reflexivity. }
  assert (I4 : Inv s4).
  { destruct I3 as [A B C D E G]. constructor; simpl; auto.
    - intros n0 b Hin. apply A. eapply aremove_in; eauto.
    - intros t b Hin. apply aset_in in Hin as [Hin|Hin]; [|auto].
      inversion Hin; subst t b. exists rcd. split; [simpl; apply in_or_app; right; left; auto|].
      split; [apply target_of_rec|]. simpl. rewrite Hb, Hf, Hn. reflexivity. }
  set (s5 := to_cache s4 o ST_FINALIZED). assert (I5 : Inv s5) by (apply inv_to_cache; auto).
  set (s6 := unlock n (set_cmps (aremove n (cmps s5)) s5)).
  assert (I6 : Inv s6).
  { apply inv_unlock. destruct I5 as [A B C D E G]. constructor; simpl; auto.
    intros n0 c Hin. apply E. eapply aremove_in; eauto. }
  eapply inv_same5; [|exact I6]. repeat split.
Qed.

Lemma inv_handle_final s now o : Inv s -> Inv (handle_final s now o).
Proof.
  intros I. unfold handle_final.
  destruct (negb (cache_state s (f_name (obj s o)) =? ST_VALIDATED)); auto.
  destruct ((match f_prev (obj s o) with [] => true | _ => false end) || name_eqb (f_prev (obj s o)) (f_name (obj s o)));
    [apply inv_finalize; auto|].
  destruct (cache_state s (f_prev (obj s o)) =? ST_UNKNOWN).
  - destruct (nmem (f_prev (obj s o)) (locks s)); [apply inv_to_wait; auto|].
    destruct (log_has s (f_prev (obj s o)) []); [apply inv_finalize | apply inv_to_wait]; auto.
  - destruct ((cache_state s (f_prev (obj s o)) =? ST_RECEIVED) || (cache_state s (f_prev (obj s o)) =? ST_FAILED)
              || (cache_state s (f_prev (obj s o)) =? ST_VALIDATED));
      [apply inv_to_wait | apply inv_finalize]; auto.
Qed.

Lemma inv_settle : forall fuel s now, Inv s -> Inv (settle H fuel s now).
Proof.
  induction fuel as [|k IH]; intros s now I; simpl; auto.
  destruct (vq s) as [|o r] eqn:V.
  - destruct (fq s) as [|o r] eqn:F; auto. apply IH. apply inv_handle_final.
    eapply inv_same5; [|exact I]. repeat split.
  - apply IH. apply inv_process. eapply inv_same5; [|exact I]. repeat split.
Qed.

Lemma inv_part_received s now p : Inv s -> Inv (fst (part_received s now p)).
Proof.
  intros I. unfold part_received.
  set (s0 := lock (p_name p) (build_cache s now _)).
  assert (I0 : Inv s0) by (apply inv_lock, inv_build_cache; auto).
  destruct (cache_obj s0 (p_name p)) as [o|].
  - destruct (negb (f_state (obj s0 o) =? ST_FAILED) && name_eqb (f_hash (obj s0 o)) (p_hash p)
              && name_eqb (f_renamed (obj s0 o)) (p_renamed p)); simpl; auto.
    destruct (ST_FINALIZED <=? f_state (obj s0 o)); auto. apply inv_unlock; auto.
  - destruct (alookup (p_name p) (cmps s0)) as [c|]; simpl; [|apply inv_unlock; auto].
    destruct (negb (name_eqb (p_renamed p) (c_renamed c)) || negb (name_eqb (p_hash p) (c_hash c))
              || negb (name_eqb (p_prev p) (c_prev c))); simpl; auto.
Qed.

Lemma inv_received_q : forall ps s now, Inv s -> Inv (fst (received_q s now ps)).
Proof.
  induction ps as [|p r IH]; intros s now I; simpl; auto.
  pose proof (inv_part_received s now p I) as I1.
  destruct (part_received s now p) as [s1 ok]; simpl in I1. destruct ok; simpl; auto.
  specialize (IH s1 now I1). destruct (received_q s1 now r) as [s2 k]; simpl in *; auto.
Qed.

Lemma inv_status_q s now n h sent : Inv s -> Inv (fst (status_q s now n h sent)).
Proof. intros I. unfold status_q. simpl. apply inv_build_cache; auto. Qed.

Lemma inv_fold_lock : forall (l : list (name * comp)) s, Inv s -> Inv (fold_left (fun acc kv => lock (fst kv) acc) l s).
Proof. induction l as [|x r IH]; intros s I; simpl; auto. apply IH, inv_lock; auto. Qed.

Lemma inv_clean_stray s n : Inv s -> Inv (clean_stray s n).
Proof.
  intros I. unfold clean_stray. destruct (alookup n (parts s)) as [sf|]; auto.
  destruct (negb (sf_old sf)); auto.
  match goal with |- Inv (let '(del, delc) := ?x in _) => destruct x as [del delc] end.
  set (s1 := if del then set_parts (aremove n (parts s)) s else s).
  assert (I1 : Inv s1) by (unfold s1; destruct del; auto; eapply inv_same5; [|exact I]; repeat split).
  destruct delc; auto. destruct I1 as [A B C D E G]. constructor; simpl; auto.
  intros n0 c Hin. apply E. eapply aremove_in; eauto.
Qed.

Lemma inv_fold_clean_stray : forall (l : list (name * sfile)) s,
  Inv s -> Inv (fold_left (fun acc kv => clean_stray acc (fst kv)) l s).
Proof. induction l as [|x r IH]; intros s I; simpl; auto. apply IH, inv_clean_stray; auto. Qed.

Lemma inv_clean_waiting_one s o : Inv s -> Inv (clean_waiting_one s o).
Proof.
  intros I. unfold clean_waiting_one.
  destruct (negb ((f_state (obj s o) =? ST_VALIDATED) && negb (match f_prev (obj s o) with [] => true | _ => false end))); auto.
  destruct (negb (is_waiting s (f_prev (obj s o)))); auto.
  destruct (negb (detect_loop _ s (f_prev (obj s o)) [f_prev (obj s o)] [])); auto.
  set (ws := match alookup (f_prev (obj s o)) (wait s) with Some l => l | None => [] end).
  set (s1 := set_wait (aremove (f_prev (obj s o)) (wait s)) s).
  assert (I1 : Inv s1) by (eapply inv_same5; [|exact I]; repeat split).
  clearbody s1 ws. revert s1 I1. induction ws as [|w r IH]; intros s1 I1; simpl; auto.
  apply IH. destruct (cache_obj s1 (f_name (obj s1 w))) as [c|]; auto.
  destruct (f_state (obj s1 c) =? ST_VALIDATED); auto.
  eapply inv_same5 with (s := set_obj s1 c (with_prev (with_timer (obj s1 c) false) [])); [repeat split|].
  apply inv_set_obj; auto. intros Hc. unfold obj_ok; simpl. apply (obj_ok_obj s1 c I1 Hc).
Qed.

Lemma inv_clean s : Inv s -> Inv (clean s).
Proof.
  intros I. unfold clean, clean_waiting, clean_strays.
  assert (I1 := inv_fold_clean_stray (parts s) s I).
  set (s1 := fold_left _ (parts s) s) in *. clearbody s1.
  generalize (cache s1). intros l. revert s1 I1.
  induction l as [|x r IH]; intros s1 I1; simpl; auto. apply IH, inv_clean_waiting_one; auto.
Qed.

Lemma inv_timers_fire s : Inv s -> Inv (timers_fire s).
Proof.
  intros I. unfold timers_fire. generalize (seq 0 (length (heap s))). intros l. revert s I.
  induction l as [|o r IH]; intros s I; simpl; auto. apply IH.
  destruct (f_timer (obj s o)); auto.
  eapply inv_same5 with (s := set_obj s o (with_timer (obj s o) false)); [repeat split|].
  apply inv_set_obj; auto. intros Ho. unfold obj_ok; simpl. apply (obj_ok_obj s o I Ho).
Qed.

Lemma inv_crash s : Inv s -> Inv (crash s).
Proof. intros [A B C D E G]. constructor; simpl; auto. Qed.

Lemma inv_drop_wait s n : Inv s -> Inv (set_waits (aremove n (waits s)) s).
Proof.
  intros [A B C D E G]. constructor; simpl; auto.
  intros n0 b Hin. apply A. eapply aremove_in; eauto.
Qed.

Lemma inv_recover_rest s fin val n c :
  c_hash c = ver n -> Inv s -> Inv (fst (fst (recover_rest s fin val n c))).
Proof.
  intros Hc I. unfold recover_rest.
  assert (Happ : forall s0 st, Inv s0 -> Inv (set_heap (heap s0 ++ [comp_to_obj n c st]) s0)).
  { intros s0 st [A B C D E G]. constructor; simpl; auto. apply Forall_app; split; auto. }
  destruct (ahas n (fulls s)); [apply Happ; exact I|].
  destruct (alookup n (parts s)) as [sf|].
  - destruct (complete (c_parts c) (c_size c)); [|exact I].
    apply (Happ (set_fulls (aset n (sf_data sf) (fulls s)) (set_parts (aremove n (parts s)) s)) ST_RECEIVED).
    eapply inv_same5; [|exact I]. repeat split.
  - set (tgt := match c_renamed c with [] => n | r => r end).
    assert (I1 : Inv (match alookup tgt (flcks s) with
                      | Some body => set_flcks (aremove tgt (flcks s)) (set_finals (aset tgt body (finals s)) s)
                      | None => s end)).
    { destruct (alookup tgt (flcks s)) as [body|] eqn:L; [|exact I].
      destruct I as [A B C D E G]. constructor; simpl; auto.
      - intros t b Hin. apply aset_in in Hin as [Hin|Hin]; [|auto].
        inversion Hin; subst t b. apply G. apply alookup_in; auto.
      - intros t b Hin. apply G. eapply aremove_in; eauto. }
    destruct I1 as [A B C D E G]. constructor; simpl; auto.
    intros n0 c0 Hin. apply E. eapply aremove_in; eauto.
Qed.

Lemma inv_recover_one s fin val n c :
  c_hash c = ver n -> Inv s -> Inv (fst (fst (recover_one H (s, fin, val) (n, c)))).
Proof.
  intros Hc I. unfold recover_one.
  destruct (alookup n (waits s)) as [b|]; [|apply inv_recover_rest; auto].
  destruct (name_eqb (H b) (c_hash c)); [|apply inv_recover_rest; auto; apply inv_drop_wait; auto].
  destruct I as [A B C D E G]. constructor; simpl; auto. apply Forall_app; split; auto.
Qed.

Lemma inv_recover_fold : forall (l : list (name * comp)) s fin val,
  (forall n c, In (n, c) l -> c_hash c = ver n) -> Inv s ->
  Inv (fst (fst (fold_left (recover_one H) l (s, fin, val)))).
Proof.
  induction l as [|[n c] r IH]; intros s fin val Hl I; [simpl; auto|].
  assert (Hc : c_hash c = ver n) by (apply Hl; left; auto).
  assert (Hr : forall n0 c0, In (n0, c0) r -> c_hash c0 = ver n0) by (intros; apply Hl; right; auto).
  pose proof (inv_recover_one s fin val n c Hc I) as Hone.
  cbn [fold_left].
  destruct (recover_one H (s, fin, val) (n, c)) as [[s' fin'] val']. simpl in Hone.
  apply IH; assumption.
Qed.

Lemma inv_recover s now oldest : Inv s -> Inv (recover H s now oldest).
Proof.
  intros I. unfold recover.
  pose proof (inv_recover_fold (cmps s) s [] [] (inv_cmp _ I) I) as I1.
  destruct (fold_left (recover_one H) (cmps s) (s, [], [])) as [[s1 fin] val]. simpl in I1.
  assert (I2 := inv_build_cache s1 now (Z.min now oldest - 86400) I1).
  set (s2 := build_cache s1 now (Z.min now oldest - 86400)) in *. clearbody s2.
  assert (I3 : Inv (fold_left (fun acc o => let a := to_cache acc o ST_VALIDATED in set_fq (fq a ++ [o]) a) fin s2)).
  { clear I1. revert s2 I2. induction fin as [|o r IH]; intros s2 I2; simpl; auto. apply IH.
    eapply inv_same5; [|apply inv_to_cache; exact I2]. repeat split. }
  set (s3 := fold_left _ fin s2) in *. clearbody s3.
  revert s3 I3. induction val as [|o r IH]; intros s3 I3; simpl; auto.
  apply IH. unfold recover_validate.
  destruct ((ST_FINALIZED <=? cache_state s3 (f_name (obj s3 o))) &&
            name_eqb (cache_hash s3 (f_name (obj s3 o))) (f_hash (obj s3 o))).
  - (* the duplicate is dropped: only a .full body and its companion go away *)
    destruct I3 as [A B C D E G]. constructor; simpl; auto.
    intros n0 c0 Hin. apply E. eapply aremove_in; eauto.
  - apply inv_process, inv_to_cache; auto.
Qed.

Lemma inv_clean_cache s now : Inv s -> Inv (clean_cache s now).
Proof.
  intros I. unfold clean_cache. destruct (expired_batches (ctimes s) now) as [batches keep].
  assert (I1 : Inv (set_ctime now (set_ctimes keep s))) by (eapply inv_same5; [|exact I]; repeat split).
  set (s1 := set_ctime now (set_ctimes keep s)) in *. clearbody s1.
  generalize (cache s). intros l. revert s1 I1.
  induction l as [|kv r IH]; intros s1 I1; simpl; auto.
  apply IH. unfold clean_cache_entry.
  destruct (f_state (obj s1 (snd kv)) <? ST_FINALIZED); auto.
  destruct (negb match f_prev (obj s1 (snd kv)) with [] => true | _ => false end && negb (f_next (obj s1 (snd kv)))); auto.
  match goal with |- Inv (if ?c then _ else _) => destruct c end.
  - eapply inv_same5; [|exact I1]. repeat split.
  - destruct (f_logged (obj s1 (snd kv)) <? ctime s1); auto. eapply inv_same5; [|exact I1]. repeat split.
Qed.

Lemma inv_age_all s d : Inv s -> Inv (age_all s d).
Proof.
  intros [A B C D E G]. unfold age_all.
  set (s1 := set_rlog (map (shift_rec d) (rlog s)) s).
  set (s2 := set_heap (map (shift_obj d) (heap s1)) s1).
  assert (I2 : Inv s2).
  { constructor; simpl; auto.
    - intros t b Hin. destruct (B t b Hin) as [r [Hr [Ht Hh]]].
      exists (shift_rec d r). split; [apply in_map; auto|]. split; auto.
    - intros r Hin. apply in_map_iff in Hin as [r0 [<- Hr0]]. simpl. apply C; auto.
    - rewrite Forall_forall in *. intros f Hin. apply in_map_iff in Hin as [f0 [<- Hf0]].
      unfold shift_obj. destruct (f_logged f0 =? 0); [apply D; auto|]. unfold obj_ok. simpl. apply D; auto.
    - intros t b Hin. destruct (G t b Hin) as [r [Hr [Ht Hh]]].
      exists (shift_rec d r). split; [apply in_map; auto|]. split; auto. }
  eapply inv_same5 with (s := s2); [|exact I2].
  destruct (ctime s2 =? 0); repeat split.
Qed.

(* operations inside D: every announced part of a name carries THE hash of
   that name; validated bodies (.wait) are not tampered with *)
Definition op_in_D (op : sop) : Prop :=
  match op with
  | OReceive p _ _ => p_hash p = ver (p_name p)
  | OTamper _ ext _ => ext = 0 \/ ext = 1
  | OImage img => Inv img      (* the durable state found after a process death satisfies the invariant (C06) *)
  | _ => True
  end.

Theorem inv_step : forall s op, op_in_D op -> Inv s -> Inv (fst (sstep H s op)).
Proof.
  intros s op HD I. destruct op; unfold sstep; unfold op_in_D in HD.
  - apply inv_prepare; auto.
  - pose proof (inv_receive s p data rerr HD I). destruct (receive s p data rerr); auto.
  - cbn [fst]. apply inv_settle; auto.
  - pose proof (inv_received_q ps s now I). destruct (received_q s now ps); auto.
  - pose proof (inv_status_q s now n h sent I). destruct (status_q s now n h sent); auto.
  - unfold scan_q. cbn [fst]. apply inv_fold_lock; auto.
  - cbn [fst]. apply inv_clean; auto.
  - cbn [fst]. apply inv_timers_fire; auto.
  - cbn [fst]. unfold restart. apply inv_recover, inv_crash; auto.
  - cbn [fst]. destruct (alookup n (parts s)); auto. eapply inv_same5; [|exact I]. repeat split.
  - cbn [fst]. destruct HD as [-> | ->].
    + change (0 =? 0) with true. cbv iota.
      destruct (alookup n (parts s)); auto. eapply inv_same5; [|exact I]. repeat split.
    + change (1 =? 0) with false. change (1 =? 1) with true. cbv iota.
      destruct (ahas n (fulls s)); auto. eapply inv_same5; [|exact I]. repeat split.
  - cbn [fst]. apply inv_crash. exact HD.
  - cbn [fst]. apply inv_clean_cache; auto.
  - cbn [fst]. apply inv_age_all; auto.
  - cbn [fst]. apply inv_build_cache; auto.
Qed.

Fixpoint srun (s : stage) (ops : list sop) : stage :=
  match ops with
  | [] => s
  | op :: r => srun (fst (sstep H s op)) r
  end.

Lemma inv_init : Inv init_stage.
Proof. constructor; simpl; auto; intros; contradiction. Qed.

Theorem inv_run : forall ops s, Forall op_in_D ops -> Inv s -> Inv (srun s ops).
Proof.
  induction ops as [|op r IH]; intros s HD I; simpl; auto.
  inversion HD; subst. apply IH; auto. apply inv_step; auto.
Qed.

(* C01 on D: after ANY history of operations (any order and grouping of parts,
   duplicates, retransmissions, bytes corrupted in transit, short or failing
   readers, overwritten partials, queries, cleaning, timers, restarts at
   quiescence) in which every name is announced with one hash, every file in the
   final directory hashes to the hash announced for its name, and that is the
   hash recorded for it in the receive log. *)
Theorem delivered_valid_on_D : forall ops t body,
  Forall op_in_D ops ->
  In (t, body) (finals (srun init_stage ops)) ->
  exists r, In r (rlog (srun init_stage ops)) /\ rec_target r = t /\
            H body = l_hash r /\ l_hash r = ver (l_name r).
Proof.
  intros ops t body HD Hin.
  pose proof (inv_run ops init_stage HD inv_init) as I.
  destruct (inv_final _ I t body Hin) as [r [R1 [R2 R3]]].
  exists r. repeat split; auto. apply (inv_log _ I); auto.
Qed.

End Integrity.

(* ------------------------------------------------------------------ *)
(* local (one-step) facts, unconditional                                *)

Section Local.
Variable H : list Z -> name.

(* validation: a body becomes a .wait body only if it hashes to the hash of
   the object being validated; a mismatch marks the file failed and leaves the
   final directory, the log and every .wait body untouched *)
Theorem process_validates : forall s o n b,
  In (n, b) (waits (process H s o)) ->
  In (n, b) (waits s) \/
  (exists f, nth_error (heap s) o = Some f /\ n = f_name f /\ H b = f_hash f /\ In (n, b) (fulls s)).
Proof.
  intros s o n b Hin. unfold process in Hin.
  destruct (nth_error (heap s) o) as [f|] eqn:N; [|left; exact Hin].
  destruct (negb (cache_state (lock (f_name f) s) (f_name f) =? ST_RECEIVED)); [left; exact Hin|].
  destruct (alookup (f_name f) (fulls (lock (f_name f) s))) as [body|] eqn:L.
  - destruct (name_eqb (H body) (f_hash f)) eqn:E.
    + destruct (to_cache_fields (set_waits (aset (f_name f) body (waits (lock (f_name f) s)))
               (set_fulls (aremove (f_name f) (fulls (lock (f_name f) s))) (lock (f_name f) s))) o ST_VALIDATED) as [W _].
      unfold set_fq in Hin; cbn [waits] in Hin. rewrite W in Hin. unfold set_waits in Hin; cbn [waits] in Hin.
      apply aset_in in Hin as [Hin|Hin]; [|left; exact Hin].
      inversion Hin; subst. right. exists f. repeat split; auto.
      * apply name_eqb_eq; auto.
      * apply alookup_in in L. exact L.
    + destruct (to_cache_fields (lock (f_name f) s) o ST_FAILED) as [W _]. rewrite W in Hin. left; exact Hin.
  - destruct (to_cache_fields (set_cmps (aremove (f_name f) (cmps (lock (f_name f) s))) (lock (f_name f) s)) o ST_FAILED) as [W _].
    rewrite W in Hin. left; exact Hin.
Qed.

Theorem process_delivers_nothing : forall s o,
  finals (process H s o) = finals s /\ rlog (process H s o) = rlog s.
Proof.
  intros s o. unfold process. destruct (nth_error (heap s) o) as [f|]; auto.
  destruct (negb (cache_state (lock (f_name f) s) (f_name f) =? ST_RECEIVED)); auto.
  destruct (alookup (f_name f) (fulls (lock (f_name f) s))) as [body|].
  - destruct (name_eqb (H body) (f_hash f)).
    + match goal with |- context [to_cache ?x ?y ?z] => destruct (to_cache_fields x y z) as [_ [F [R _]]] end.
      unfold set_fq; cbn [finals rlog]. rewrite F, R. auto.
    + destruct (to_cache_fields (lock (f_name f) s) o ST_FAILED) as [_ [F [R _]]]. rewrite F, R. auto.
  - match goal with |- context [to_cache ?x ?y ?z] => destruct (to_cache_fields x y z) as [_ [F [R _]]] end.
    rewrite F, R. auto.
Qed.

(* a mismatch is reported as failed *)
Theorem mismatch_fails : forall s o f body,
  nth_error (heap s) o = Some f ->
  cache_state (lock (f_name f) s) (f_name f) = ST_RECEIVED ->
  alookup (f_name f) (fulls s) = Some body -> H body <> f_hash f ->
  process H s o = to_cache (lock (f_name f) s) o ST_FAILED.
Proof.
  intros s o f body N C L Hne. unfold process. rewrite N, C.
  change (negb (ST_RECEIVED =? ST_RECEIVED)) with false. cbv iota.
  change (fulls (lock (f_name f) s)) with (fulls s). rewrite L. destruct (name_eqb (H body) (f_hash f)) eqn:E; auto.
  apply name_eqb_eq in E. contradiction.
Qed.

Lemma to_wait_fields s pv o t :
  rlog (to_wait s pv o t) = rlog s /\ finals (to_wait s pv o t) = finals s /\ waits (to_wait s pv o t) = waits s.
Proof. unfold to_wait. destruct (existsb _ _); simpl; auto. Qed.

(* finalisation appends at most one record - that of the object - and the
   final directory only changes together with that record (log first) *)
Theorem finalize_logs_first : forall s now o,
  (rlog (finalize s now o) = rlog s /\ finals (finalize s now o) = finals s) \/
  (exists f, nth_error (heap s) o = Some f /\
     rlog (finalize s now o) = rlog s ++ [mklr (f_name f) (f_renamed f) (f_hash f) (f_size f) now]).
Proof.
  intros s now o. unfold finalize. destruct (nth_error (heap s) o) as [f0|] eqn:N; [|left; auto].
  destruct (negb (cache_state (lock (f_name f0) s) (f_name f0) =? ST_VALIDATED) ||
            negb (name_eqb (cache_hash (lock (f_name f0) s) (f_name f0)) (f_hash f0))); [left; auto|].
  right. exists f0. split; auto.
  assert (Ho : (o < length (heap s))%nat) by (apply nth_error_Some; congruence).
  assert (G : forall (l : list ffile) i v d, (i < length l)%nat -> nth i (list_set l i v) d = v)
    by (induction l as [|x r IH]; intros [|j] v d Hi; simpl in *; try lia; auto; apply IH; lia).
  assert (Hobj : obj (set_obj (lock (f_name f0) s) o (with_timer (obj (lock (f_name f0) s) o) false)) o
                 = with_timer f0 false).
  { unfold obj at 1. simpl. rewrite G by exact Ho. unfold obj. simpl. rewrite (nth_error_nth _ _ _ N). reflexivity. }
  rewrite Hobj. cbn [f_name f_renamed f_hash f_size with_timer].
  match goal with |- context [alookup ?k (waits ?x)] => destruct (alookup k (waits x)) end.
  - unfold set_fq, set_wait, unlock, set_locks, set_cmps; cbn [rlog].
    match goal with |- context [to_cache ?x ?y ?z] => destruct (to_cache_fields x y z) as [_ [_ [R _]]] end.
    rewrite R. reflexivity.
  - reflexivity.
Qed.

(* C04: the finalize handler delivers (logs) a file only when its predecessor
   reference is empty, itself, found in the receive log, or known to the cache
   as delivered; otherwise the file is parked in the wait list *)
Theorem no_overtake_step : forall s now o,
  rlog (handle_final s now o) <> rlog s ->
  let f := obj s o in
  let pst := cache_state s (f_prev f) in
  f_prev f = [] \/ f_prev f = f_name f \/
  (pst = ST_UNKNOWN /\ log_has s (f_prev f) [] = true) \/
  (pst <> ST_UNKNOWN /\ pst <> ST_RECEIVED /\ pst <> ST_FAILED /\ pst <> ST_VALIDATED).
Proof.
  intros s now o Hne f pst. unfold handle_final in Hne. fold f in Hne.
  destruct (negb (cache_state s (f_name f) =? ST_VALIDATED)); [congruence|].
  destruct (f_prev f) as [|c pv] eqn:P; [left; auto|].
  cbn [orb] in Hne. destruct (name_eqb (c :: pv) (f_name f)) eqn:E.
  - right; left. apply name_eqb_eq; auto.
  - right; right. fold pst in Hne. destruct (pst =? ST_UNKNOWN) eqn:U.
    + apply Z.eqb_eq in U. destruct (nmem (c :: pv) (locks s)).
      * destruct (to_wait_fields s (c :: pv) o false) as [R _]. congruence.
      * destruct (log_has s (c :: pv) []) eqn:L; [left; auto|].
        destruct (to_wait_fields s (c :: pv) o true) as [R _]. congruence.
    + apply Z.eqb_neq in U. right.
      destruct (pst =? ST_RECEIVED) eqn:A; destruct (pst =? ST_FAILED) eqn:B; destruct (pst =? ST_VALIDATED) eqn:C;
        cbn [orb] in Hne;
        try (destruct (to_wait_fields s (c :: pv) o false) as [R _]; congruence).
      apply Z.eqb_neq in A, B, C. auto.
Qed.

(* a file whose predecessor is neither delivered nor logged stays held: it is
   put on the wait list, its validated body and the log are untouched *)
Theorem held_is_waiting : forall s now o,
  let f := obj s o in
  cache_state s (f_name f) = ST_VALIDATED ->
  f_prev f <> [] -> f_prev f <> f_name f ->
  (cache_state s (f_prev f) = ST_RECEIVED \/ cache_state s (f_prev f) = ST_FAILED \/
   cache_state s (f_prev f) = ST_VALIDATED) ->
  handle_final s now o = to_wait s (f_prev f) o false /\
  rlog (handle_final s now o) = rlog s /\ waits (handle_final s now o) = waits s.
Proof.
  intros s now o f Hv Hp1 Hp2 Hst. unfold handle_final. fold f. rewrite Hv.
  change (negb (ST_VALIDATED =? ST_VALIDATED)) with false. cbv iota.
  destruct (f_prev f) as [|c pv] eqn:P; [congruence|]. cbn [orb].
  destruct (name_eqb (c :: pv) (f_name f)) eqn:E; [apply name_eqb_eq in E; congruence|].
  assert (U : cache_state s (c :: pv) =? ST_UNKNOWN = false).
  { apply Z.eqb_neq. destruct Hst as [-> | [-> | ->]]; discriminate. }
  rewrite U.
  assert (O : (cache_state s (c :: pv) =? ST_RECEIVED) || (cache_state s (c :: pv) =? ST_FAILED)
              || (cache_state s (c :: pv) =? ST_VALIDATED) = true).
  { destruct Hst as [-> | [-> | ->]]; reflexivity. }
  rewrite O. destruct (to_wait_fields s (c :: pv) o false) as [R [_ W]]. auto.
Qed.

(* C20: cleaning strays never touches complete/validated bodies, delivered
   files or the log; it only removes partials and companions, and a partial
   only when the cache knows the file beyond "received" with the same hash (or
   there is no companion), or the log holds a record of that name and hash *)
Theorem clean_stray_safe : forall s n,
  fulls (clean_stray s n) = fulls s /\ waits (clean_stray s n) = waits s /\
  finals (clean_stray s n) = finals s /\ rlog (clean_stray s n) = rlog s /\
  heap (clean_stray s n) = heap s /\ cache (clean_stray s n) = cache s /\
  (forall k v, In (k, v) (parts (clean_stray s n)) -> In (k, v) (parts s)) /\
  (forall k v, In (k, v) (cmps (clean_stray s n)) -> In (k, v) (cmps s)) /\
  (parts (clean_stray s n) <> parts s \/ cmps (clean_stray s n) <> cmps s ->
     exists sf, alookup n (parts s) = Some sf /\ sf_old sf = true /\
       ((ST_RECEIVED < cache_state s n /\ cache_state s n <> ST_FAILED /\
         match alookup n (cmps s) with None => True | Some c => c_hash c = cache_hash s n end) \/
        log_has s n (match alookup n (cmps s) with Some c => c_hash c | None => [] end) = true)).
Proof.
  intros s n. unfold clean_stray.
  destruct (alookup n (parts s)) as [sf|] eqn:L; [|repeat split; auto; intros [Hx|Hx]; congruence].
  destruct (sf_old sf) eqn:O; simpl; [|repeat split; auto; intros [Hx|Hx]; congruence].
  destruct ((0 <? cache_state s n) && negb (cache_state s n =? ST_FAILED)) eqn:C.
  - apply andb_true_iff in C as [C1 C2]. apply negb_true_iff in C2.
    apply Z.ltb_lt in C1. apply Z.eqb_neq in C2.
    destruct (alookup n (cmps s)) as [c|] eqn:LC.
    + destruct (name_eqb (c_hash c) (cache_hash s n)) eqn:E.
      * assert (W : exists sf0, Some sf = Some sf0 /\ sf_old sf0 = true /\
            ((ST_RECEIVED < cache_state s n /\ cache_state s n <> ST_FAILED /\ c_hash c = cache_hash s n) \/
             log_has s n (c_hash c) = true)).
        { exists sf. split; [reflexivity|]. split; [exact O|]. left. repeat split; auto. apply name_eqb_eq. exact E. }
        destruct (cache_state s n =? ST_LOGGED); cbn [andb]; simpl; repeat split; auto;
          try (intros k v Hin; eapply aremove_in; eauto); intros _; exact W.
      * cbn [andb]. simpl. repeat split; auto. intros [Hx|Hx]; congruence.
    + cbn [andb]. simpl. repeat split; auto; try (intros k v Hin; eapply aremove_in; eauto).
      intros _. exists sf. repeat split; auto.
  - destruct (log_has s n (match alookup n (cmps s) with Some c => c_hash c | None => [] end)) eqn:G.
    + destruct (alookup n (cmps s)) as [c|]; simpl; repeat split; auto; try congruence;
        try (intros k v Hin; eapply aremove_in; eauto);
        intros _; exists sf; repeat split; auto.
    + simpl. repeat split; auto. intros [Hx|Hx]; congruence.
Qed.

End Local.

(* ------------------------------------------------------------------ *)
(* the stale waiter: a history outside D (two versions of one name)       *)
Definition toyH (b : list Z) : name := b.   (* any injective "hash" exhibits it *)
Definition stale_px (c : name) : part_req := mkpr [120] [] [113] 2 c 0 2 0.
Definition stale_ops : list sop :=
  [OStatusQ 1000 [119] [] 900;
   OPrepare [120] 2; OReceive (stale_px [1; 1]) [1; 1] false; OSettle 1000;
   OPrepare [120] 2; OReceive (stale_px [2; 2]) [2; 2] false; OSettle 1000;
   OPrepare [113] 1; OReceive (mkpr [113] [] [] 1 [9] 0 1 0) [9] false; OSettle 1000].
Definition stale_end : stage := srun toyH init_stage stale_ops.

Lemma stale_finals : finals stale_end = [([113], [9]); ([120], [2; 2])].
Proof. vm_compute. reflexivity. Qed.
Lemma stale_log : rlog stale_end = [mklr [113] [] [9] 1 1000; mklr [120] [] [2; 2] 2 1000].
Proof. vm_compute. reflexivity. Qed.

(* the history that used to deliver version 2's bytes under version 1's hash
   (a waiter of the older version stayed parked and was released onto the newer
   staged file): after the fix the newer object takes the waiter's place and the
   file is delivered and logged with its own hash *)
Theorem stale_waiter_repaired :
  forall t body, In (t, body) (finals stale_end) ->
    exists r, In r (rlog stale_end) /\ rec_target r = t /\ toyH body = l_hash r.
Proof.
  intros t body Hin. rewrite stale_finals in Hin. rewrite stale_log.
  destruct Hin as [E|[E|[]]]; inversion E; subst.
  - exists (mklr [113] [] [9] 1 1000). split; [left; reflexivity | split; reflexivity].
  - exists (mklr [120] [] [2; 2] 2 1000). split; [right; left; reflexivity | split; reflexivity].
Qed.

(* ------------------------------------------------------------------ *)
(* C06: recovery after a process death                                    *)

Lemma name_eqb_false_neq a b : name_eqb a b = false <-> a <> b.
Proof.
  split; intros Hx.
  - intros E. subst. rewrite name_eqb_refl in Hx. discriminate.
  - destruct (name_eqb a b) eqn:E; auto. apply name_eqb_eq in E. contradiction.
Qed.

Lemma alookup_aset_same {A} : forall (l : list (name * A)) k v, alookup k (aset k v l) = Some v.
Proof.
  induction l as [|[k0 v0] r IH]; intros k v; simpl.
  - rewrite name_eqb_refl. reflexivity.
  - destruct (name_eqb k0 k) eqn:E; simpl.
    + rewrite name_eqb_refl. reflexivity.
    + rewrite E. apply IH.
Qed.

Lemma alookup_aset_other {A} : forall (l : list (name * A)) k k' v,
  k <> k' -> alookup k (aset k' v l) = alookup k l.
Proof.
  induction l as [|[k0 v0] r IH]; intros k k' v Hne; simpl.
  - assert (E : name_eqb k' k = false) by (apply name_eqb_false_neq; auto). rewrite E. reflexivity.
  - destruct (name_eqb k0 k') eqn:E; simpl.
    + apply name_eqb_eq in E. subst k0.
      assert (E2 : name_eqb k' k = false) by (apply name_eqb_false_neq; auto). rewrite E2. reflexivity.
    + destruct (name_eqb k0 k); auto.
Qed.

Section Recovery.
Variable H : list Z -> name.

(* Scanning one companion during Recover never loses data: the receive log is
   untouched; every validated (.wait) body stays, except the one body of this
   name that does not hash to its companion's hash (it was validated as another
   version; fix "Recover checks the held file against its companion"); every
   complete (.full) body stays, and a delivered file stays unless a lock-named
   leftover of the same target is moved over it (the interrupted-move repair). *)
Lemma recover_rest_keeps_data : forall s fin val n c s' fin' val',
  recover_rest s fin val n c = (s', fin', val') ->
  rlog s' = rlog s /\ waits s' = waits s /\
  (forall n0 b, alookup n0 (fulls s) = Some b -> alookup n0 (fulls s') = Some b) /\
  (forall t b, alookup t (finals s) = Some b ->
               alookup t (finals s') = Some b \/ ahas t (flcks s) = true).
Proof.
  intros s fin val n c s' fin' val' R. unfold recover_rest in R.
  destruct (ahas n (fulls s)) eqn:Hf.
  { inversion R; subst; simpl. repeat split; auto. }
  destruct (alookup n (parts s)) as [sf0|] eqn:L.
  - destruct (complete (c_parts c) (c_size c)); inversion R; subst; simpl; repeat split; auto.
    intros n0 b Hl. rewrite alookup_aset_other; auto.
    intros E. subst n0. unfold ahas in Hf. rewrite Hl in Hf. discriminate.
  - set (tgt := match c_renamed c with [] => n | r => r end) in *.
    destruct (alookup tgt (flcks s)) as [body|] eqn:Lk; inversion R; subst; simpl; repeat split; auto.
    intros t b Hl. destruct (name_eqb tgt t) eqn:E.
    + apply name_eqb_eq in E. subst t. right. unfold ahas. rewrite Lk. reflexivity.
    + left. rewrite alookup_aset_other; auto. apply name_eqb_false_neq in E. auto.
Qed.

Theorem recover_one_keeps_data : forall s fin val kv s' fin' val',
  recover_one H (s, fin, val) kv = (s', fin', val') ->
  rlog s' = rlog s /\
  (waits s' = waits s \/
   exists b, alookup (fst kv) (waits s) = Some b /\ H b <> c_hash (snd kv) /\
             waits s' = aremove (fst kv) (waits s)) /\
  (forall n b, alookup n (fulls s) = Some b -> alookup n (fulls s') = Some b) /\
  (forall t b, alookup t (finals s) = Some b ->
               alookup t (finals s') = Some b \/ ahas t (flcks s) = true).
Proof.
  intros s fin val [n c] s' fin' val' R. unfold recover_one in R. simpl fst. simpl snd.
  destruct (alookup n (waits s)) as [b|] eqn:W.
  - destruct (name_eqb (H b) (c_hash c)) eqn:E.
    + inversion R; subst; simpl. repeat split; auto.
    + apply recover_rest_keeps_data in R. simpl in R. destruct R as (R1 & R2 & R3 & R4).
      split; [exact R1|]. split; [|split; [exact R3 | exact R4]].
      right. exists b. split; [reflexivity|]. split; [|exact R2].
      apply name_eqb_false_neq in E. exact E.
  - apply recover_rest_keeps_data in R. destruct R as (R1 & R2 & R3 & R4).
    split; [exact R1|]. split; [left; exact R2|]. split; [exact R3 | exact R4].
Qed.

(* a held body is handed to finalisation under the companion's identity only if it
   hashes to the companion's hash (C01 across a restart, several versions of a name) *)
Theorem recover_one_finalizes_checked : forall s fin val n c s' fin' val',
  recover_one H (s, fin, val) (n, c) = (s', fin', val') -> fin' <> fin ->
  exists b, alookup n (waits s) = Some b /\ H b = c_hash c /\ waits s' = waits s.
Proof.
  intros s fin val n c s' fin' val' R Hne. unfold recover_one in R.
  assert (Rest : forall s0 s1 f1 v1, recover_rest s0 fin val n c = (s1, f1, v1) -> f1 = fin).
  { intros s0 s1 f1 v1 R0. unfold recover_rest in R0.
    destruct (ahas n (fulls s0)); [inversion R0; reflexivity|].
    destruct (alookup n (parts s0)); [destruct (complete (c_parts c) (c_size c)); inversion R0; reflexivity|].
    inversion R0; reflexivity. }
  destruct (alookup n (waits s)) as [b|] eqn:W.
  - destruct (name_eqb (H b) (c_hash c)) eqn:E.
    + inversion R; subst. exists b. split; [reflexivity|]. split; [apply name_eqb_eq; exact E | reflexivity].
    + exfalso. apply Hne. eapply Rest; eauto.
  - exfalso. apply Hne. eapply Rest; eauto.
Qed.

(* ... and a validated, logged file that a crash inside fileutil.Move left
   under its lock name is put under its proper name (fix c24e975) *)
Theorem recover_one_finishes_move : forall s fin val n c body,
  alookup n (waits s) = None -> ahas n (fulls s) = false -> alookup n (parts s) = None ->
  alookup (match c_renamed c with [] => n | r => r end) (flcks s) = Some body ->
  alookup (match c_renamed c with [] => n | r => r end)
          (finals (fst (fst (recover_one H (s, fin, val) (n, c))))) = Some body.
Proof.
  intros s fin val n c body W F P L. unfold recover_one, recover_rest. rewrite W, F, P, L. simpl.
  apply alookup_aset_same.
Qed.

End Recovery.

(* ------------------------------------------------------------------ *)
(* C02, receiver half: what a positive poll answer means                 *)

Theorem status_positive_state : forall s now n h sent s' code,
  status_q s now n h sent = (s', code) ->
  code = CONFIRM_PASSED \/ code = CONFIRM_WAITING ->
  (cache_state s' n = ST_VALIDATED \/ cache_state s' n = ST_FINALIZED \/ cache_state s' n = ST_LOGGED) /\
  (h = [] \/ cache_hash s' n = [] \/ cache_hash s' n = h).
Proof.
  intros s now n h sent s' code E Hc. unfold status_q in E. inversion E; subst; clear E.
  set (s1 := build_cache s now sent) in *.
  set (st := cache_state s1 n) in *.
  destruct (other_version s1 n h) eqn:O; [destruct Hc; discriminate|].
  split.
  - destruct (st =? ST_RECEIVED) eqn:A; [destruct Hc; discriminate|].
    destruct (st =? ST_FAILED) eqn:B; [destruct Hc; discriminate|].
    destruct (st =? ST_VALIDATED) eqn:C; [apply Z.eqb_eq in C; auto|].
    destruct ((st =? ST_LOGGED) || (st =? ST_FINALIZED)) eqn:D.
    + apply orb_true_iff in D as [D|D]; apply Z.eqb_eq in D; auto.
    + destruct Hc; discriminate.
  - unfold other_version in O. destruct h as [|x h']; [left; reflexivity|].
    destruct (cache_hash s1 n) as [|y k] eqn:K; [right; left; reflexivity|].
    right; right. cbn [is_nil negb andb] in O. apply negb_false_iff in O. apply name_eqb_eq in O. exact O.
Qed.

(* a failed, unknown or merely received file is never answered positively *)
Theorem status_negative_states : forall s now n h sent,
  let st := cache_state (build_cache s now sent) n in
  (st = ST_FAILED -> snd (status_q s now n h sent) = CONFIRM_FAILED \/ snd (status_q s now n h sent) = CONFIRM_NONE) /\
  (st = ST_RECEIVED -> snd (status_q s now n h sent) = CONFIRM_NONE) /\
  (st = ST_UNKNOWN -> snd (status_q s now n h sent) = CONFIRM_NONE).
Proof.
  intros s now n h sent st. unfold status_q; simpl. fold st.
  destruct (other_version (build_cache s now sent) n h).
  - repeat split; intros _; auto.
  - repeat split; intros ->; auto.
Qed.

(* what is known about another version of the name is never a positive answer *)
Theorem status_other_version_unknown : forall s now n h sent,
  h <> [] -> cache_hash (build_cache s now sent) n <> [] ->
  cache_hash (build_cache s now sent) n <> h ->
  snd (status_q s now n h sent) = CONFIRM_NONE.
Proof.
  intros s now n h sent Hh Hk Hne. unfold status_q; simpl.
  assert (O : other_version (build_cache s now sent) n h = true).
  { unfold other_version. destruct h as [|x h']; [congruence|].
    destruct (cache_hash (build_cache s now sent) n) as [|y k] eqn:K; [congruence|]. cbn [is_nil negb andb].
    apply negb_true_iff. apply name_eqb_false_neq. exact Hne. }
  rewrite O. reflexivity.
Qed.

(* ------------------------------------------------------------------ *)
(* C05: recognising what is already there                                 *)
Section Recognise.
Variable H : list Z -> name.

(* a file whose cache entry is not "validated" (in particular: already put away,
   or failed) is never logged or delivered by a finalisation *)
Theorem finalize_needs_validated : forall s now o f0,
  nth_error (heap s) o = Some f0 ->
  cache_state (lock (f_name f0) s) (f_name f0) <> ST_VALIDATED ->
  rlog (finalize s now o) = rlog s /\ finals (finalize s now o) = finals s /\ waits (finalize s now o) = waits s.
Proof.
  intros s now o f0 N C. unfold finalize. rewrite N.
  destruct (cache_state (lock (f_name f0) s) (f_name f0) =? ST_VALIDATED) eqn:E.
  - apply Z.eqb_eq in E. contradiction.
  - cbn [negb orb]. repeat split; reflexivity.
Qed.

(* a part that completes a file whose version (hash) the cache already knows - held,
   put away or still being processed, anything but failed - is a retransmission: it
   is acknowledged, nothing is queued for validation, no complete body is staged,
   nothing is logged *)
Theorem receive_duplicate_discarded : forall s p d sf o,
  alookup (p_name p) (parts s) = Some sf ->
  Z.of_nat (length d) = p_end p - p_beg p ->
  let n := p_name p in
  let c0 := match alookup n (cmps s) with
            | Some c => if name_eqb (c_hash c) (p_hash p)
                        then mkcomp (c_renamed c) (p_prev p) (c_size c) (c_hash c) (c_parts c)
                        else mkcomp (p_renamed p) (p_prev p) (p_size p) (p_hash p) []
            | None => mkcomp (p_renamed p) (p_prev p) (p_size p) (p_hash p) [] end in
  complete (add_part (c_parts c0) (p_beg p) (p_end p)) (c_size c0) = true ->
  cache_obj s n = Some o -> f_state (obj s o) <> ST_FAILED -> f_hash (obj s o) = p_hash p ->
  snd (receive s p d false) = true /\
  vq (fst (receive s p d false)) = vq s /\ fulls (fst (receive s p d false)) = fulls s /\
  heap (fst (receive s p d false)) = heap s /\ rlog (fst (receive s p d false)) = rlog s /\
  finals (fst (receive s p d false)) = finals s.
Proof.
  intros s p d sf o L Hlen n c0 Hc Hco Hst Hh. unfold receive. rewrite L.
  assert (E : (Z.of_nat (length d) =? p_end p - p_beg p) = true) by (apply Z.eqb_eq; exact Hlen).
  rewrite E. cbn [orb negb].
  change (cmps (lock (p_name p) (set_parts (aset (p_name p) {| sf_data := write_at (sf_data sf) (Z.to_nat (p_beg p)) d; sf_old := false |} (parts s)) s))) with (cmps s).
  fold n. fold c0. cbn [c_parts c_size c_renamed c_prev c_hash]. rewrite Hc.
  match goal with |- context [cache_obj ?x n] => change (cache_obj x n) with (cache_obj s n) end.
  rewrite Hco.
  match goal with |- context [obj ?x o] => change (obj x o) with (obj s o) end.
  assert (S1 : (f_state (obj s o) =? ST_FAILED) = false) by (apply Z.eqb_neq; exact Hst).
  assert (S2 : name_eqb (f_hash (obj s o)) (p_hash p) = true) by (apply name_eqb_eq; exact Hh).
  rewrite S1, S2. cbn [negb andb].
  match goal with |- context [if ?c then _ else _] => destruct c end; cbn [fst snd]; repeat split; reflexivity.
Qed.
End Recognise.

(* ---- C09: "how many of these parts did you receive" ------------------------------ *)
(* the answer is the length of the LEADING RUN of parts that are on record, each looked
   up in the state the look-ups before it left behind: it stops at the first part that
   is not on record and never counts one behind it *)
Inductive counted : stage -> Z -> list part_req -> Z -> Prop :=
| counted_nil : forall s now, counted s now [] 0
| counted_stop : forall s now p r, snd (part_received s now p) = false -> counted s now (p :: r) 0
| counted_more : forall s now p r k,
    snd (part_received s now p) = true ->
    counted (fst (part_received s now p)) now r k -> counted s now (p :: r) (k + 1).

Theorem received_q_counts_leading_run : forall ps s now, counted s now ps (snd (received_q s now ps)).
Proof.
  induction ps as [|p r IH]; intros s now; [constructor|].
  cbn [received_q]. destruct (part_received s now p) as [s1 ok] eqn:E.
  destruct ok.
  - specialize (IH s1 now). destruct (received_q s1 now r) as [s2 k] eqn:E2. cbn [snd] in *.
    apply counted_more; rewrite E; cbn [fst snd]; [reflexivity|exact IH].
  - cbn [snd]. apply counted_stop. rewrite E. reflexivity.
Qed.

(* when a part is counted: the name is not in the status cache and the companion of
   exactly this version (hash, rename target, predecessor) records the range, or the
   cache knows the name as this version (hash, rename target) in a state other than
   "failed" - received completely, validated, held or put away *)
Theorem part_received_true_on_record : forall s now p,
  snd (part_received s now p) = true ->
  let monthago := now - 30 * 86400 in
  let when := if now <? p_time p then now else if p_time p <? monthago then monthago else p_time p in
  let s0 := lock (p_name p) (build_cache s now when) in
  (cache_obj s0 (p_name p) = None /\
   exists c, alookup (p_name p) (cmps s0) = Some c /\
     name_eqb (p_renamed p) (c_renamed c) = true /\ name_eqb (p_hash p) (c_hash c) = true /\
     name_eqb (p_prev p) (c_prev c) = true /\
     part_exists (c_parts c) (p_beg p) (p_end p) = true) \/
  (exists o, cache_obj s0 (p_name p) = Some o /\
     (f_state (obj s0 o) =? ST_FAILED) = false /\
     name_eqb (f_hash (obj s0 o)) (p_hash p) = true /\
     name_eqb (f_renamed (obj s0 o)) (p_renamed p) = true).
Proof.
  intros s now p Hc. cbv zeta. unfold part_received in Hc. cbv zeta in Hc.
  match goal with |- context [lock (p_name p) ?b] => set (s0 := lock (p_name p) b) in * end.
  destruct (cache_obj s0 (p_name p)) as [o|] eqn:Eo.
  - right. exists o. split; [reflexivity|].
    destruct (f_state (obj s0 o) =? ST_FAILED) eqn:E1; cbn [negb andb] in Hc; [cbn [snd] in Hc; discriminate|].
    destruct (name_eqb (f_hash (obj s0 o)) (p_hash p)) eqn:E2; cbn [andb] in Hc; [|cbn [snd] in Hc; discriminate].
    destruct (name_eqb (f_renamed (obj s0 o)) (p_renamed p)) eqn:E3; [|cbn [snd] in Hc; discriminate].
    repeat split.
  - left. split; [reflexivity|].
    destruct (alookup (p_name p) (cmps s0)) as [c|] eqn:Ec; [|cbn [snd] in Hc; discriminate].
    exists c. split; [reflexivity|].
    destruct (name_eqb (p_renamed p) (c_renamed c)) eqn:E1; cbn [negb orb] in Hc; [|cbn [snd] in Hc; discriminate].
    destruct (name_eqb (p_hash p) (c_hash c)) eqn:E2; cbn [negb orb] in Hc; [|cbn [snd] in Hc; discriminate].
    destruct (name_eqb (p_prev p) (c_prev c)) eqn:E3; cbn [negb] in Hc; [|cbn [snd] in Hc; discriminate].
    cbn [snd] in Hc. repeat split. exact Hc.
Qed.
