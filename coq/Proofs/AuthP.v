From Coq Require Import List ZArith Bool Lia.
From STS Require Import Model.Queue Model.Auth Proofs.QueueP.
Import ListNotations.
Open Scope Z_scope.

Definition plain_list (l : list seg) : Prop := Forall (fun s => plain_seg s = true) l.

Lemma plain_not (s : seg) : plain_seg s = true -> is_empty s = false /\ is_dot s = false /\ is_dotdot s = false.
Proof. unfold plain_seg. rewrite !andb_true_iff, !negb_true_iff. tauto. Qed.

(* a cleaner statement, proved directly: if every segment of the name is plain,
   the resolved path is root followed by the name *)
Lemma clean_abs_plain : forall segs stack,
  plain_list segs -> clean_abs stack segs = rev stack ++ segs.
Proof.
  induction segs as [|s r IH]; intros stack Hp; simpl.
  - rewrite app_nil_r. reflexivity.
  - inversion Hp as [|x xs Hs Hr]; subst. destruct (plain_not s Hs) as [E1 [E2 E3]].
    rewrite E1, E2, E3. simpl. rewrite IH by auto. simpl. rewrite <- app_assoc. reflexivity.
Qed.

Lemma has_prefix_app : forall p l, has_prefix p (p ++ l) = true.
Proof. induction p as [|x p IH]; intros l; simpl; auto. rewrite name_eqb_refl. simpl. auto. Qed.

(* the general statement: a relative clean that never escapes keeps the result
   under the root.  Invariant: the absolute stack is R ++ rev-root, the relative
   stack is R, and R is plain. *)
Lemma clean_abs_under : forall segs R root,
  plain_list root -> plain_list R ->
  (forall top rest, clean_rel R segs = top :: rest -> is_dotdot top = false) ->
  clean_abs (R ++ rev root) segs = root ++ clean_rel R segs.
Proof.
  induction segs as [|s r IH]; intros R root Hroot HR Hloc; simpl.
  - rewrite rev_app_distr, rev_involutive. reflexivity.
  - simpl in Hloc. destruct (is_empty s || is_dot s) eqn:E1; [apply IH; auto|].
    destruct (is_dotdot s) eqn:E2.
    + destruct R as [|top rest].
      * (* the relative run would keep a leading "..": excluded by locality *)
        exfalso. simpl in Hloc.
        assert (G : forall segs0 st, st <> [] -> (forall x, In x st -> is_dotdot x = true) ->
                    exists t rs, clean_rel st segs0 = t :: rs /\ is_dotdot t = true).
        { induction segs0 as [|s0 r0 IH0]; intros st Hne Hall; simpl.
          - destruct (rev st) as [|t rs] eqn:Er.
            + exfalso. apply Hne. rewrite <- (rev_involutive st), Er. reflexivity.
            + exists t, rs. split; auto. apply Hall. apply in_rev. rewrite Er. left; auto.
          - destruct (is_empty s0 || is_dot s0); [apply IH0; auto|].
            destruct (is_dotdot s0) eqn:E0.
            + destruct st as [|t0 rs0]; [congruence|].
              rewrite (Hall t0 (or_introl eq_refl)). apply IH0; [discriminate|].
              intros x [<-|Hx]; auto.
            + (* a plain segment on top of ".."s: the bottom of the stack stays ".." *)
              assert (Hb : forall segs1 st1 b, is_dotdot b = true ->
                           exists t rs, clean_rel (st1 ++ [b]) segs1 = t :: rs /\ is_dotdot t = true).
              { induction segs1 as [|s1 r1 IH1]; intros st1 b Hb; simpl.
                - rewrite rev_app_distr. simpl. eauto.
                - destruct (is_empty s1 || is_dot s1); [apply IH1; auto|].
                  destruct (is_dotdot s1) eqn:E11.
                  + destruct st1 as [|t1 rs1]; simpl.
                    * rewrite Hb. apply (IH1 [s1] b Hb).
                    * destruct (is_dotdot t1).
                      -- apply (IH1 (s1 :: t1 :: rs1) b Hb).
                      -- apply (IH1 rs1 b Hb).
                  + apply (IH1 (s1 :: st1) b Hb). }
              destruct st as [|t0 rs0]; [congruence|].
              destruct (@exists_last _ (t0 :: rs0) ltac:(discriminate)) as [st1 [b Eb]].
              rewrite Eb. replace (s0 :: st1 ++ [b]) with ((s0 :: st1) ++ [b]) by reflexivity.
              apply Hb. apply Hall. rewrite Eb. apply in_or_app. right; left; auto. }
        destruct (G r [s] ltac:(discriminate)) as [t [rs [Ec Et]]].
        { intros x [<-|[]]. exact E2. }
        specialize (Hloc t rs Ec). congruence.
      * inversion HR as [|x xs Ht Hrest]; subst. destruct (plain_not top Ht) as [_ [_ T3]].
        rewrite T3 in Hloc. rewrite T3. simpl. apply IH; auto.
    + assert (Hs : plain_seg s = true).
      { unfold plain_seg. apply orb_false_iff in E1 as [A B]. rewrite A, B, E2. reflexivity. }
      change (s :: R ++ rev root) with ((s :: R) ++ rev root). apply IH; auto. constructor; auto.
Qed.

Lemma clean_abs_root : forall root st name,
  plain_list root -> clean_abs st (root ++ name) = clean_abs (rev root ++ st) name.
Proof.
  induction root as [|x r IH]; intros st name Hp; simpl; [reflexivity|].
  inversion Hp as [|y ys Hx Hr]; subst. destruct (plain_not x Hx) as [E1 [E2 E3]].
  rewrite E1, E2, E3. simpl. rewrite IH by auto. rewrite <- app_assoc. reflexivity.
Qed.

(* C14: a name that filepath.IsLocal accepts resolves under the root it is
   joined to - for every root without dot segments *)
Theorem local_resolves_under_root : forall root a ne name,
  plain_list root -> is_local a ne name = true ->
  resolve root name = root ++ clean_rel [] name /\ has_prefix root (resolve root name) = true.
Proof.
  intros root a ne name Hroot Hl. unfold is_local in Hl.
  apply andb_true_iff in Hl as [_ Hl]. unfold resolve.
  rewrite clean_abs_root by auto. rewrite app_nil_r.
  assert (E : clean_abs ([] ++ rev root) name = root ++ clean_rel [] name).
  { apply clean_abs_under; auto; [constructor|].
    intros top rest Ec. rewrite Ec in Hl. apply negb_true_iff in Hl. exact Hl. }
  simpl in E. rewrite E. split; auto. apply has_prefix_app.
Qed.

(* names made of plain segments only (what the static route's sanitiser lets
   through, what the scanner produces) are local *)
Theorem plain_name_is_local : forall name, plain_list name -> name <> [] -> is_local false true name = true.
Proof.
  intros name Hp Hne. unfold is_local. simpl.
  assert (E : forall st, plain_list st -> clean_rel st name = rev st ++ name).
  { clear Hne. induction name as [|s r IH]; intros st Hst; simpl; [rewrite app_nil_r; auto|].
    inversion Hp as [|x xs Hs Hr]; subst. destruct (plain_not s Hs) as [E1 [E2 E3]].
    rewrite E1, E2, E3. simpl. rewrite IH; auto; [|constructor; auto].
    simpl. rewrite <- app_assoc. reflexivity. }
  rewrite (E [] ltac:(constructor)). simpl.
  destruct name as [|s r]; [congruence|]. inversion Hp; subst.
  destruct (plain_not s H1) as [_ [_ E3]]. rewrite E3. reflexivity.
Qed.

(* and the escaping ones are refused: a name whose clean form starts with ".."
   is not local (so the routes answer 400 before any file-system call) *)
Theorem escaping_name_refused : forall a ne name top rest,
  clean_rel [] name = top :: rest -> is_dotdot top = true -> is_local a ne name = false.
Proof.
  intros a ne name top rest Ec Et. unfold is_local. rewrite Ec, Et. simpl.
  rewrite andb_false_r. reflexivity.
Qed.

Theorem absolute_or_empty_refused : forall ne name,
  is_local true ne name = false /\ is_local false false name = false.
Proof. intros. unfold is_local. split; [rewrite andb_false_r; reflexivity | reflexivity]. Qed.

(* ------------------------------------------------------------------ *)
(* C15: the validation decision                                          *)

Lemma standard_valid_spec : forall sources keys source key cs,
  standard_valid sources keys source key cs = true <->
  ((sources = [] \/ (cs = true /\ smem source sources = true)) /\
   (keys = [] \/ smem key keys = true)).
Proof.
  intros. unfold standard_valid. rewrite andb_true_iff.
  assert (A : (match sources with [] => true | _ => cs && smem source sources end) = true <->
              (sources = [] \/ (cs = true /\ smem source sources = true))).
  { destruct sources as [|s0 ss].
    - split; auto.
    - rewrite andb_true_iff. split; [intros H; right; exact H | intros [H|H]; [discriminate | exact H]]. }
  assert (B : (match keys with [] => true | _ => smem key keys end) = true <->
              (keys = [] \/ smem key keys = true)).
  { destruct keys as [|k0 ks].
    - split; auto.
    - split; [intros H; right; exact H | intros [H|H]; [discriminate | exact H]]. }
  rewrite A, B. tauto.
Qed.

Theorem validate_decision : forall sources keys source key segs cs ready,
  handle_validate sources keys source key segs cs ready = ST_PASS <->
  (source <> [] /\ safe_source true segs = true /\ ready = true /\
   (sources = [] \/ (cs = true /\ smem source sources = true)) /\
   (keys = [] \/ smem key keys = true)).
Proof.
  intros. rewrite <- standard_valid_spec. unfold handle_validate.
  destruct source as [|c src]; [split; [discriminate | intros [H _]; congruence]|].
  destruct (safe_source true segs); simpl.
  2: { split; [discriminate | intros [_ [H _]]; discriminate]. }
  destruct ready; simpl.
  2: { split; [discriminate | intros [_ [_ [H _]]]; discriminate]. }
  destruct (standard_valid sources keys (c :: src) key cs); simpl.
  - split; auto. intros _. repeat split; auto. discriminate.
  - split; [discriminate | intros [_ [_ [_ H]]]; discriminate].
Qed.

(* the refusal codes, in the order the code checks *)
Theorem refusal_codes : forall sources keys source key segs cs ready,
  (source = [] -> handle_validate sources keys source key segs cs ready = ST_400) /\
  (source <> [] -> safe_source true segs = false -> handle_validate sources keys source key segs cs ready = ST_400) /\
  (source <> [] -> safe_source true segs = true -> ready = false ->
     handle_validate sources keys source key segs cs ready = ST_503) /\
  (source <> [] -> safe_source true segs = true -> ready = true ->
     standard_valid sources keys source key cs = false ->
     handle_validate sources keys source key segs cs ready = ST_403).
Proof.
  intros. unfold handle_validate. repeat split.
  - intros ->; reflexivity.
  - intros Hn Hs. destruct source; [congruence|]. rewrite Hs. reflexivity.
  - intros Hn Hs Hr. destruct source; [congruence|]. rewrite Hs, Hr. reflexivity.
  - intros Hn Hs Hr Hv. destruct source; [congruence|]. rewrite Hs, Hr, Hv. reflexivity.
Qed.
