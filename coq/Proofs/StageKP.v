(* A second invariant of the receiver model, for ALL histories (no restriction
   to one version per name): whatever the cache knows as put away (finalized or
   loaded from the log) has a record in the receive log.  With it the step
   theorem of C04 becomes a statement about every reachable state: a file is
   logged / delivered only when its predecessor reference is empty, itself, or
   a name that IS in the receive log already. *)
From Coq Require Import List ZArith Bool Lia.
From STS Require Import Model.Ranges Model.Queue Model.LogM Model.Stage Proofs.QueueP Proofs.StageP.
Import ListNotations.
Open Scope Z_scope.

Definition in_range (s : stage) (o : nat) : Prop := (o < length (heap s))%nat.
Definition oname (s : stage) (o : nat) : name := f_name (obj s o).
Definition ostate (s : stage) (o : nat) : Z := f_state (obj s o).
Definition logged (s : stage) (n : name) : Prop := log_has s n [] = true.

Record KR (s : stage) : Prop := mkKR {
  k_cache : forall n o, In (n, o) (cache s) ->
      in_range s o /\ oname s o = n /\ (ST_FINALIZED <= ostate s o -> logged s n);
  k_vq : Forall (in_range s) (vq s);
  k_fq : Forall (in_range s) (fq s);
  k_wait : forall p l, In (p, l) (wait s) -> Forall (in_range s) l;
  k_st : Forall (fun f => ST_UNKNOWN <= f_state f <= ST_LOGGED) (heap s)
}.

(* ---- list_set / obj ---- *)
Lemma list_set_length {A} : forall (l : list A) i v, length (list_set l i v) = length l.
Proof. induction l as [|x r IH]; intros [|j] v; simpl; auto. Qed.

Lemma nth_list_set_same {A} : forall (l : list A) i v d, (i < length l)%nat -> nth i (list_set l i v) d = v.
Proof.
  induction l as [|x r IH]; intros i v d Hi; [simpl in Hi; lia|].
  destruct i as [|j]; simpl; [reflexivity|]. apply IH. simpl in Hi. lia.
Qed.

Lemma nth_list_set_other {A} : forall (l : list A) i j v d, i <> j -> nth j (list_set l i v) d = nth j l d.
Proof.
  induction l as [|x r IH]; intros i j v d Hne; [reflexivity|].
  destruct i as [|i]; destruct j as [|j]; simpl; try reflexivity; try congruence.
  apply IH. congruence.
Qed.

Lemma list_set_out {A} : forall (l : list A) i v, (length l <= i)%nat -> list_set l i v = l.
Proof.
  induction l as [|x r IH]; intros i v Hi; [destruct i; reflexivity|].
  destruct i as [|j]; simpl in *; [lia|]. f_equal. apply IH. lia.
Qed.

Lemma obj_set_obj_same s o f : in_range s o -> obj (set_obj s o f) o = f.
Proof. intros Hr. unfold obj, set_obj. simpl. apply nth_list_set_same. exact Hr. Qed.

Lemma obj_set_obj_other s o f o' : o' <> o -> obj (set_obj s o f) o' = obj s o'.
Proof. intros Hne. unfold obj, set_obj. simpl. apply nth_list_set_other. congruence. Qed.

Lemma set_obj_out s o f : ~ in_range s o -> heap (set_obj s o f) = heap s.
Proof. intros Hr. unfold set_obj. simpl. apply list_set_out. unfold in_range in Hr. lia. Qed.

Lemma in_range_set_obj s o f o' : in_range (set_obj s o f) o' <-> in_range s o'.
Proof. unfold in_range, set_obj. simpl. rewrite list_set_length. tauto. Qed.

(* ---- primitives ---- *)
Lemma KR_same s s' :
  heap s' = heap s -> cache s' = cache s -> rlog s' = rlog s ->
  vq s' = vq s -> fq s' = fq s -> wait s' = wait s -> KR s -> KR s'.
Proof.
  intros Eh Ec El Ev Ef Ew [A B C D E].
  assert (R : forall o, in_range s' o <-> in_range s o) by (intros; unfold in_range; rewrite Eh; tauto).
  assert (N : forall o, oname s' o = oname s o) by (intros; unfold oname, obj; rewrite Eh; auto).
  assert (S : forall o, ostate s' o = ostate s o) by (intros; unfold ostate, obj; rewrite Eh; auto).
  assert (L : forall n, logged s' n <-> logged s n) by (intros; unfold logged, log_has; rewrite El; tauto).
  constructor.
  - intros n o Hin. rewrite Ec in Hin. destruct (A n o Hin) as [A1 [A2 A3]].
    rewrite R, N, S, L. auto.
  - rewrite Ev. eapply Forall_impl; [|exact B]. intros; apply R; auto.
  - rewrite Ef. eapply Forall_impl; [|exact C]. intros; apply R; auto.
  - intros p l Hin. rewrite Ew in Hin. eapply Forall_impl; [|exact (D p l Hin)]. intros; apply R; auto.
  - rewrite Eh. exact E.
Qed.

Lemma list_set_forall' {A} (P : A -> Prop) : forall (l : list A) i v, Forall P l -> P v -> Forall P (list_set l i v).
Proof.
  induction l as [|x r IH]; intros i v HF Hv; [constructor|].
  inversion HF; subst. destruct i as [|j]; simpl; constructor; auto.
Qed.

Lemma KR_set_obj s o f :
  KR s -> f_name f = oname s o -> ST_UNKNOWN <= f_state f <= ST_LOGGED ->
  (ST_FINALIZED <= f_state f -> ST_FINALIZED <= ostate s o \/ logged s (oname s o)) ->
  KR (set_obj s o f).
Proof.
  intros [A B C D E] Hn Hst Hs.
  assert (R : forall o', in_range (set_obj s o f) o' <-> in_range s o') by (intros; apply in_range_set_obj).
  assert (L : forall n, logged (set_obj s o f) n <-> logged s n) by (intros; unfold logged, log_has; simpl; tauto).
  constructor; simpl.
  - intros n o' Hin. destruct (A n o' Hin) as [A1 [A2 A3]]. rewrite R, L. split; auto.
    destruct (Nat.eq_dec o' o) as [->|Hne].
    + unfold oname, ostate. rewrite obj_set_obj_same by exact A1. split; [congruence|].
      intros Hf. destruct (Hs Hf) as [H1|H1]; [apply A3; exact H1|]. rewrite A2 in H1. exact H1.
    + unfold oname, ostate. rewrite obj_set_obj_other by exact Hne. split; auto.
  - eapply Forall_impl; [|exact B]. intros; apply R; auto.
  - eapply Forall_impl; [|exact C]. intros; apply R; auto.
  - intros p l Hin. eapply Forall_impl; [|exact (D p l Hin)]. intros; apply R; auto.
  - apply list_set_forall'; auto.
Qed.

Lemma KR_cache_set s n o :
  KR s -> in_range s o -> oname s o = n -> (ST_FINALIZED <= ostate s o -> logged s n) ->
  KR (set_cache (aset n o (cache s)) s).
Proof.
  intros [A B C D E] Hr Hn Hs. constructor; simpl; auto.
  intros n' o' Hin. apply aset_in in Hin as [Hin|Hin].
  - inversion Hin; subst. auto.
  - apply A; auto.
Qed.

Lemma KR_cache_remove s n : KR s -> KR (set_cache (aremove n (cache s)) s).
Proof.
  intros [A B C D E]. constructor; simpl; auto.
  intros n' o' Hin. apply A. eapply aremove_in; eauto.
Qed.

Lemma obj_app s f o : in_range s o -> nth o (heap s ++ [f]) dflt_ff = obj s o.
Proof. intros Hr. unfold obj. apply app_nth1. exact Hr. Qed.

Lemma KR_heap_app s f : KR s -> ST_UNKNOWN <= f_state f <= ST_LOGGED -> KR (set_heap (heap s ++ [f]) s).
Proof.
  intros [A B C D E] Hst.
  assert (R : forall o, in_range s o -> in_range (set_heap (heap s ++ [f]) s) o).
  { intros o Hr. unfold in_range in *. simpl. rewrite app_length. simpl. lia. }
  constructor; simpl.
  - intros n o Hin. destruct (A n o Hin) as [A1 [A2 A3]]. split; [apply R; auto|].
    unfold oname, ostate, obj. simpl. rewrite (obj_app s f o A1). auto.
  - eapply Forall_impl; [|exact B]. auto.
  - eapply Forall_impl; [|exact C]. auto.
  - intros p l Hin. eapply Forall_impl; [|exact (D p l Hin)]. auto.
  - apply Forall_app. split; auto.
Qed.

Lemma logged_app s r n : logged s n -> logged (set_rlog (rlog s ++ [r]) s) n.
Proof. unfold logged, log_has. simpl. rewrite existsb_app. intros ->. reflexivity. Qed.

Lemma KR_log_app s r : KR s -> KR (set_rlog (rlog s ++ [r]) s).
Proof.
  intros [A B C D E]. constructor; simpl; auto.
  intros n o Hin. destruct (A n o Hin) as [A1 [A2 A3]]. repeat split; auto.
  intros Hf. apply logged_app. apply A3. exact Hf.
Qed.

Lemma KR_vq s l : KR s -> Forall (in_range s) l -> KR (set_vq l s).
Proof. intros [A B C D E] Hl. constructor; simpl; auto. Qed.
Lemma KR_fq s l : KR s -> Forall (in_range s) l -> KR (set_fq l s).
Proof. intros [A B C D E] Hl. constructor; simpl; auto. Qed.
Lemma KR_wait_set s p l : KR s -> Forall (in_range s) l -> KR (set_wait (aset p l (wait s)) s).
Proof.
  intros [A B C D E] Hl. constructor; simpl; auto.
  intros p' l' Hin. apply aset_in in Hin as [Hin|Hin]; [inversion Hin; subst; auto | eapply D; eauto].
Qed.
Lemma KR_wait_remove s p : KR s -> KR (set_wait (aremove p (wait s)) s).
Proof.
  intros [A B C D E]. constructor; simpl; auto.
  intros p' l' Hin. eapply D. eapply aremove_in; eauto.
Qed.

(* ---- composite steps ---- *)
Section Steps.
Variable H : list Z -> name.

Lemma logged_same s s' n : rlog s' = rlog s -> (logged s' n <-> logged s n).
Proof. intros E. unfold logged, log_has. rewrite E. tauto. Qed.

Lemma obj_state_range s o : KR s -> ST_UNKNOWN <= ostate s o <= ST_LOGGED.
Proof.
  intros K. unfold ostate, obj. destruct (Nat.lt_ge_cases o (length (heap s))) as [Hl|Hl].
  - pose proof (k_st _ K) as E. rewrite Forall_forall in E. apply E. apply nth_In. exact Hl.
  - rewrite nth_overflow by exact Hl. unfold dflt_ff, ST_UNKNOWN, ST_LOGGED. simpl. lia.
Qed.

Lemma KR_to_cache s o st :
  KR s -> in_range s o -> ST_UNKNOWN <= st <= ST_LOGGED ->
  (ST_FINALIZED <= st -> logged s (oname s o)) -> KR (to_cache s o st).
Proof.
  intros K Hr Hst Hl. unfold to_cache.
  set (f := with_batch (with_state (obj s o) st) 0).
  assert (K1 : KR (set_obj s o f)).
  { apply KR_set_obj; [exact K | reflexivity | exact Hst | intros Hf; right; apply Hl; exact Hf]. }
  set (s1 := set_obj s o f) in *.
  set (s2 := if negb (f_logged f =? 0) && (ctime s1 =? 0) then set_ctime (f_logged f) s1 else s1).
  assert (K2 : KR s2).
  { unfold s2. destruct (negb (f_logged f =? 0) && (ctime s1 =? 0)); auto.
    eapply KR_same; [| | | | | |exact K1]; reflexivity. }
  assert (E2 : heap s2 = heap s1 /\ rlog s2 = rlog s).
  { unfold s2. destruct (negb (f_logged f =? 0) && (ctime s1 =? 0)); split; reflexivity. }
  destruct E2 as [Eh El].
  assert (Ho : obj s2 o = f).
  { unfold obj. rewrite Eh. apply (obj_set_obj_same s o f Hr). }
  assert (Hr2 : in_range s2 o).
  { unfold in_range. rewrite Eh. apply in_range_set_obj. exact Hr. }
  set (s3 := set_cache (aset (f_name f) o (cache s2)) s2).
  assert (K3 : KR s3).
  { apply KR_cache_set; [exact K2 | exact Hr2 | unfold oname; rewrite Ho; reflexivity |].
    unfold ostate. rewrite Ho. simpl. intros Hf. apply (logged_same s s2 _ El). apply Hl. exact Hf. }
  destruct (negb (match f_prev f with [] => true | _ => false end) && (st =? ST_FINALIZED)); auto.
  destruct (cache_obj s3 (f_prev f)) as [p|]; auto.
  apply KR_set_obj; [exact K3 | reflexivity | apply (obj_state_range s3 p K3) | intros Hf; left; exact Hf].
Qed.

Lemma to_cache_heap_len s o st : length (heap (to_cache s o st)) = length (heap s).
Proof. destruct (to_cache_fields s o st) as [_ [_ [_ [_ [_ [_ L]]]]]]. exact L. Qed.

Lemma to_cache_rlog s o st : rlog (to_cache s o st) = rlog s.
Proof. destruct (to_cache_fields s o st) as [_ [_ [L _]]]. exact L. Qed.

Lemma KR_lock s n : KR s -> KR (lock n s).
Proof. intros K. eapply KR_same; [| | | | | |exact K]; reflexivity. Qed.
Lemma KR_unlock s n : KR s -> KR (unlock n s).
Proof. intros K. eapply KR_same; [| | | | | |exact K]; reflexivity. Qed.

Lemma nth_error_in_range s o f : nth_error (heap s) o = Some f -> in_range s o.
Proof. intros E. unfold in_range. apply nth_error_Some. congruence. Qed.

Lemma Forall_in_range_mono s s' l :
  (length (heap s) <= length (heap s'))%nat -> Forall (in_range s) l -> Forall (in_range s') l.
Proof. intros Hl HF. eapply Forall_impl; [|exact HF]. unfold in_range. intros; lia. Qed.

Lemma KR_process s o : KR s -> KR (process H s o).
Proof.
  intros K. unfold process. destruct (nth_error (heap s) o) as [f|] eqn:N; auto.
  pose proof (nth_error_in_range s o f N) as Hr.
  set (n := f_name f). set (s0 := lock n s). assert (K0 : KR s0) by (apply KR_lock; auto).
  destruct (negb (cache_state s0 n =? ST_RECEIVED)); auto.
  destruct (alookup n (fulls s0)) as [body|].
  - destruct (name_eqb (H body) (f_hash f)).
    + set (s1 := set_waits (aset n body (waits s0)) (set_fulls (aremove n (fulls s0)) s0)).
      assert (K1 : KR s1) by (eapply KR_same; [| | | | | |exact K0]; reflexivity).
      assert (K2 : KR (to_cache s1 o ST_VALIDATED)).
      { apply KR_to_cache; auto; unfold ST_UNKNOWN, ST_VALIDATED, ST_LOGGED, ST_FINALIZED; lia. }
      apply KR_fq; auto. apply Forall_app. split.
      * apply (Forall_in_range_mono s1); [rewrite to_cache_heap_len; lia|].
        destruct (to_cache_fields s1 o ST_VALIDATED) as [_ _].
        replace (fq (to_cache s1 o ST_VALIDATED)) with (fq s1); [apply (k_fq _ K1)|].
        unfold to_cache.
        destruct (negb (f_logged (with_batch (with_state (obj s1 o) ST_VALIDATED) 0) =? 0) && _);
          destruct (negb (match f_prev (with_batch (with_state (obj s1 o) ST_VALIDATED) 0) with [] => true | _ => false end) && _);
          try (match goal with |- context [cache_obj ?x ?y] => destruct (cache_obj x y) end); reflexivity.
      * constructor; [|constructor]. unfold in_range. rewrite to_cache_heap_len. exact Hr.
    + apply KR_to_cache; auto; unfold ST_UNKNOWN, ST_FAILED, ST_LOGGED, ST_FINALIZED; lia.
  - apply KR_to_cache; auto.
    + eapply KR_same; [| | | | | |exact K0]; reflexivity.
    + unfold ST_UNKNOWN, ST_FAILED, ST_LOGGED; lia.
    + unfold ST_FAILED, ST_FINALIZED; lia.
Qed.

Lemma to_cache_lists s o st :
  vq (to_cache s o st) = vq s /\ fq (to_cache s o st) = fq s /\ wait (to_cache s o st) = wait s.
Proof.
  unfold to_cache.
  destruct (negb (f_logged (with_batch (with_state (obj s o) st) 0) =? 0) && _);
    destruct (negb (match f_prev (with_batch (with_state (obj s o) st) 0) with [] => true | _ => false end) && _);
    try (match goal with |- context [cache_obj ?x ?y] => destruct (cache_obj x y) end); repeat split; reflexivity.
Qed.

Lemma alookup_in' {A} (l : list (name * A)) k v : alookup k l = Some v -> In (k, v) l.
Proof.
  induction l as [|[k' v'] r IH]; simpl; [discriminate|].
  destruct (name_eqb k' k) eqn:E; intros Hx.
  - inversion Hx; subst. apply name_eqb_eq in E. subst. left; reflexivity.
  - right. apply IH. exact Hx.
Qed.

Lemma wait_list_in_range s p : KR s ->
  Forall (in_range s) (match alookup p (wait s) with Some l => l | None => [] end).
Proof.
  intros K. destruct (alookup p (wait s)) as [l|] eqn:E; [|constructor].
  apply (k_wait _ K p l). apply alookup_in'. exact E.
Qed.

Lemma KR_to_wait s pv o t : KR s -> in_range s o -> KR (to_wait s pv o t).
Proof.
  intros K Hr. unfold to_wait.
  assert (K1 : KR (set_obj s o (with_timer (obj s o) t))).
  { apply KR_set_obj; [exact K | reflexivity | apply (obj_state_range s o K) | intros Hf; left; exact Hf]. }
  set (s1 := set_obj s o (with_timer (obj s o) t)) in *.
  assert (Hr1 : in_range s1 o) by (apply in_range_set_obj; exact Hr).
  pose proof (wait_list_in_range s1 pv K1) as Hc.
  set (cur := match alookup pv (wait s1) with Some l => l | None => [] end) in *.
  destruct (existsb _ cur).
  - apply KR_wait_set; auto. rewrite Forall_forall in *. intros x Hx. apply in_map_iff in Hx as [w [Ew Hw]].
    destruct (name_eqb (f_name (obj s1 w)) (f_name (obj s1 o))); subst; auto.
  - apply KR_wait_set; auto. apply Forall_app. split; auto.
Qed.

Lemma logged_self_after_append s f now :
  logged (set_rlog (rlog s ++ [mklr (f_name f) (f_renamed f) (f_hash f) (f_size f) now]) s) (f_name f).
Proof.
  unfold logged, log_has. simpl. rewrite existsb_app. simpl. rewrite name_eqb_refl. simpl.
  rewrite orb_true_r. reflexivity.
Qed.

Lemma KR_finalize s now o : KR s -> KR (finalize s now o).
Proof.
  intros K. unfold finalize. destruct (nth_error (heap s) o) as [f0|] eqn:N; auto.
  pose proof (nth_error_in_range s o f0 N) as Hr.
  set (n := f_name f0). set (s0 := lock n s). assert (K0 : KR s0) by (apply KR_lock; auto).
  destruct (negb (cache_state s0 n =? ST_VALIDATED) || negb (name_eqb (cache_hash s0 n) (f_hash f0)));
    [apply KR_unlock; auto|].
  set (s1 := set_obj s0 o (with_timer (obj s0 o) false)).
  assert (K1 : KR s1).
  { apply KR_set_obj; [exact K0 | reflexivity | apply (obj_state_range s0 o K0) | intros Hf; left; exact Hf]. }
  assert (Hr1 : in_range s1 o) by (apply in_range_set_obj; exact Hr).
  set (f := obj s1 o).
  set (rcd := mklr (f_name f) (f_renamed f) (f_hash f) (f_size f) now).
  set (s2 := set_rlog (rlog s1 ++ [rcd]) s1).
  assert (K2 : KR s2) by (apply KR_log_app; auto).
  assert (L2 : logged s2 (f_name f)) by apply logged_self_after_append.
  set (s3 := set_obj s2 o (with_logged (obj s2 o) now)).
  assert (K3 : KR s3).
  { apply KR_set_obj; [exact K2 | reflexivity | apply (obj_state_range s2 o K2) | intros Hf; left; exact Hf]. }
  assert (Hr3 : in_range s3 o) by (apply in_range_set_obj; exact Hr1).
  assert (N3 : oname s3 o = f_name f).
  { unfold oname, s3. rewrite obj_set_obj_same by exact Hr1. reflexivity. }
  destruct (alookup n (waits s3)) as [body|]; [|apply KR_unlock; auto].
  set (s4 := set_finals (aset (target_of f) body (finals s3)) (set_waits (aremove n (waits s3)) s3)).
  assert (K4 : KR s4) by (eapply KR_same; [| | | | | |exact K3]; reflexivity).
  assert (K5 : KR (to_cache s4 o ST_FINALIZED)).
  { apply KR_to_cache; auto.
    - unfold ST_UNKNOWN, ST_FINALIZED, ST_LOGGED; lia.
    - intros _. change (oname s4 o) with (oname s3 o). rewrite N3. exact L2. }
  set (s5 := to_cache s4 o ST_FINALIZED) in *.
  set (s6 := unlock n (set_cmps (aremove n (cmps s5)) s5)).
  assert (K6 : KR s6) by (eapply KR_same; [| | | | | |exact K5]; reflexivity).
  pose proof (wait_list_in_range s6 n K6) as Hw.
  apply KR_fq.
  - apply KR_wait_remove. exact K6.
  - apply Forall_app. split; [exact (k_fq _ K6) | exact Hw].
Qed.

Lemma KR_handle_final s now o : KR s -> in_range s o -> KR (handle_final s now o).
Proof.
  intros K Hr. unfold handle_final.
  destruct (negb (cache_state s (f_name (obj s o)) =? ST_VALIDATED)); auto.
  destruct ((match f_prev (obj s o) with [] => true | _ => false end) || name_eqb (f_prev (obj s o)) (f_name (obj s o)));
    [apply KR_finalize; auto|].
  destruct (cache_state s (f_prev (obj s o)) =? ST_UNKNOWN).
  - destruct (nmem (f_prev (obj s o)) (locks s)); [apply KR_to_wait; auto|].
    destruct (log_has s (f_prev (obj s o)) []); [apply KR_finalize | apply KR_to_wait]; auto.
  - destruct ((cache_state s (f_prev (obj s o)) =? ST_RECEIVED) || (cache_state s (f_prev (obj s o)) =? ST_FAILED)
              || (cache_state s (f_prev (obj s o)) =? ST_VALIDATED)); [apply KR_to_wait | apply KR_finalize]; auto.
Qed.

Lemma KR_settle : forall fuel s now, KR s -> KR (settle H fuel s now).
Proof.
  induction fuel as [|k IH]; intros s now K; simpl; auto.
  destruct (vq s) as [|o r] eqn:V.
  - destruct (fq s) as [|o r] eqn:F; auto.
    pose proof (k_fq _ K) as HF. rewrite F in HF. inversion HF as [|x xs Ho Hrr]; subst.
    apply IH. apply KR_handle_final; [apply KR_fq; auto | exact Ho].
  - pose proof (k_vq _ K) as HV. rewrite V in HV. inversion HV as [|x xs Ho Hrr]; subst.
    apply IH. apply KR_process. apply KR_vq; auto.
Qed.

Lemma KR_irrel s s' : heap s' = heap s -> cache s' = cache s -> rlog s' = rlog s ->
  vq s' = vq s -> fq s' = fq s -> wait s' = wait s -> KR s -> KR s'.
Proof. apply KR_same. Qed.

Ltac kr_same K := eapply KR_same; [| | | | | |exact K]; reflexivity.

Lemma KR_prepare s n size : KR s -> KR (prepare s n size).
Proof.
  intros K. unfold prepare.
  destruct (match alookup n (parts (lock n s)) with Some sf => Z.of_nat (length (sf_data sf)) =? size | None => false end);
    [apply KR_lock; auto|].
  destruct (ahas n (cmps (lock n s)) && _); kr_same K.
Qed.

Lemma KR_receive s p d e : KR s -> KR (fst (receive s p d e)).
Proof.
  intros K. unfold receive. destruct (alookup (p_name p) (parts s)) as [sf|]; [|exact K].
  set (n := p_name p). set (d' := write_at (sf_data sf) (Z.to_nat (p_beg p)) d).
  set (s1 := set_parts (aset n (mksf d' false) (parts s)) s).
  assert (K1 : KR s1) by kr_same K.
  destruct (e || negb (Z.of_nat (length d) =? p_end p - p_beg p)); [exact K1|].
  set (s2 := lock n s1).
  match goal with |- context [set_cmps (aset n ?c (cmps s2)) s2] => set (c1 := c) end.
  set (s3 := set_cmps (aset n c1 (cmps s2)) s2).
  assert (K3 : KR s3) by kr_same K1.
  destruct (complete (c_parts c1) (c_size c1)); [|exact K3].
  match goal with |- context [if ?dup then _ else _] => destruct dup end.
  - cbn [fst]. destruct (ST_FINALIZED <=? cache_state (set_parts (aremove n (parts s3)) s3) n); kr_same K3.
  - cbn [fst].
    set (s4 := set_fulls (aset n d' (fulls s3)) (set_parts (aremove n (parts s3)) s3)).
    assert (K4 : KR s4) by kr_same K3.
    set (f := mkff n (p_renamed p) (p_prev p) (p_size p) (p_hash p) ST_RECEIVED 0 false false 0).
    assert (K5 : KR (set_heap (heap s4 ++ [f]) s4)).
    { apply KR_heap_app; auto. unfold f, ST_UNKNOWN, ST_RECEIVED, ST_LOGGED. simpl. lia. }
    set (s5 := set_heap (heap s4 ++ [f]) s4) in *.
    assert (Hr : in_range s5 (length (heap s4))).
    { unfold in_range, s5. simpl. rewrite app_length. simpl. lia. }
    assert (K6 : KR (to_cache s5 (length (heap s4)) ST_RECEIVED)).
    { apply KR_to_cache; auto; unfold ST_UNKNOWN, ST_RECEIVED, ST_LOGGED, ST_FINALIZED; lia. }
    destruct (to_cache_lists s5 (length (heap s4)) ST_RECEIVED) as [Ev _].
    apply KR_vq; auto. apply Forall_app. split.
    + rewrite Ev. apply (Forall_in_range_mono s5); [rewrite to_cache_heap_len; lia | exact (k_vq _ K5)].
    + constructor; [|constructor]. unfold in_range. rewrite to_cache_heap_len. exact Hr.
Qed.

Lemma logged_of_record s r : In r (rlog s) -> logged s (l_name r).
Proof.
  intros Hin. unfold logged, log_has. apply existsb_exists. exists r. split; auto.
  rewrite name_eqb_refl. reflexivity.
Qed.

Lemma KR_load_records : forall recs s from ct bid,
  (forall r, In r recs -> In r (rlog s)) -> KR s -> KR (load_records s recs from ct bid).
Proof.
  induction recs as [|r rest IH]; intros s from ct bid Hsub K; simpl; auto.
  destruct (ct <? l_time r); auto.
  match goal with |- KR (load_records (if ?c then _ else _) _ _ _ _) => destruct c eqn:C end.
  - apply IH; auto. intros r0 Hr0. apply Hsub. right; auto.
  - apply IH.
    + intros r0 Hr0. simpl. apply Hsub. right; auto.
    + set (f := mkff (l_name r) (l_renamed r) [] (l_size r) (l_hash r) ST_LOGGED (l_time r) false false bid).
      assert (K1 : KR (set_heap (heap s ++ [f]) s)).
      { apply KR_heap_app; auto. unfold f, ST_UNKNOWN, ST_LOGGED. simpl. lia. }
      apply (KR_cache_set (set_heap (heap s ++ [f]) s) (l_name r) (length (heap s))); auto.
      * unfold in_range. simpl. rewrite app_length. simpl. lia.
      * unfold oname, obj. simpl. rewrite app_nth2 by lia. rewrite Nat.sub_diag. reflexivity.
      * intros _. apply (logged_same s _ (l_name r) eq_refl). apply logged_of_record. apply Hsub. left; auto.
Qed.

Lemma KR_build_cache s now from : KR s -> KR (build_cache s now from).
Proof.
  intros K. unfold build_cache. destruct (from =? 0); auto.
  destruct (negb (ctime s =? 0) && (ctime s <=? from)); auto.
  set (s1 := load_records s (rlog s) from (if ctime s =? 0 then now else ctime s) (nbatch s + 1)).
  assert (K1 : KR s1) by (apply KR_load_records; auto).
  destruct (visited_any (rlog s) from (if ctime s =? 0 then now else ctime s)); kr_same K1.
Qed.

Lemma KR_part_received s now p : KR s -> KR (fst (part_received s now p)).
Proof.
  intros K. unfold part_received.
  match goal with |- context [build_cache s now ?w] => set (when := w) end.
  assert (K1 : KR (lock (p_name p) (build_cache s now when))) by (apply KR_lock, KR_build_cache; auto).
  set (s1 := lock (p_name p) (build_cache s now when)) in *.
  destruct (cache_obj s1 (p_name p)) as [o|].
  - destruct (negb (f_state (obj s1 o) =? ST_FAILED) && name_eqb (f_hash (obj s1 o)) (p_hash p)
              && name_eqb (f_renamed (obj s1 o)) (p_renamed p)); cbn [fst]; auto.
    destruct (ST_FINALIZED <=? f_state (obj s1 o)); [apply KR_unlock|]; auto.
  - destruct (alookup (p_name p) (cmps s1)) as [c|]; cbn [fst].
    + destruct (negb (name_eqb (p_renamed p) (c_renamed c)) || negb (name_eqb (p_hash p) (c_hash c))
                || negb (name_eqb (p_prev p) (c_prev c))); cbn [fst]; auto.
    + apply KR_unlock; auto.
Qed.

Lemma KR_received_q : forall ps s now, KR s -> KR (fst (received_q s now ps)).
Proof.
  induction ps as [|p r IH]; intros s now K; simpl; auto.
  pose proof (KR_part_received s now p K) as K1. destruct (part_received s now p) as [s1 ok]. simpl in K1.
  destruct ok; auto. specialize (IH s1 now K1). destruct (received_q s1 now r). auto.
Qed.

Lemma KR_fold_lock : forall (l : list (name * comp)) s, KR s -> KR (fold_left (fun acc kv => lock (fst kv) acc) l s).
Proof. induction l as [|x r IH]; intros s K; simpl; auto. apply IH, KR_lock; auto. Qed.

Lemma KR_clean_stray s n : KR s -> KR (clean_stray s n).
Proof.
  intros K. unfold clean_stray. destruct (alookup n (parts s)) as [sf|]; auto.
  destruct (negb (sf_old sf)); auto.
  match goal with |- KR (let '(del, delc) := ?x in _) => destruct x as [del delc] end.
  destruct del; destruct delc; kr_same K.
Qed.

Lemma KR_clean_strays s : KR s -> KR (clean_strays s).
Proof.
  intros K. unfold clean_strays. generalize (parts s). intros l. revert s K.
  induction l as [|x r IH]; intros s K; simpl; auto. apply IH, KR_clean_stray; auto.
Qed.

Lemma cache_obj_in_range s n c : KR s -> cache_obj s n = Some c -> in_range s c.
Proof. intros K E. unfold cache_obj in E. apply alookup_in' in E. destruct (k_cache _ K n c E) as [A _]. exact A. Qed.

Lemma KR_clean_waiting_one s o : KR s -> KR (clean_waiting_one s o).
Proof.
  intros K. unfold clean_waiting_one.
  destruct (negb ((f_state (obj s o) =? ST_VALIDATED) && negb (match f_prev (obj s o) with [] => true | _ => false end))); auto.
  destruct (negb (is_waiting s (f_prev (obj s o)))); auto.
  destruct (negb (detect_loop _ s (f_prev (obj s o)) [f_prev (obj s o)] [])); auto.
  generalize (match alookup (f_prev (obj s o)) (wait s) with Some l => l | None => [] end). intros ws.
  assert (K1 : KR (set_wait (aremove (f_prev (obj s o)) (wait s)) s)) by (apply KR_wait_remove; auto).
  revert K1. generalize (set_wait (aremove (f_prev (obj s o)) (wait s)) s). clear K.
  induction ws as [|w r IH]; intros acc K; simpl; auto.
  apply IH. destruct (cache_obj acc (f_name (obj acc w))) as [c|] eqn:C; auto.
  destruct (f_state (obj acc c) =? ST_VALIDATED); auto.
  pose proof (cache_obj_in_range acc _ c K C) as Hc.
  assert (K2 : KR (set_obj acc c (with_prev (with_timer (obj acc c) false) []))).
  { apply KR_set_obj; [exact K | reflexivity | apply (obj_state_range acc c K) | intros Hf; left; exact Hf]. }
  apply KR_fq; auto. apply Forall_app. split; [exact (k_fq _ K2)|].
  constructor; [|constructor]. apply in_range_set_obj. exact Hc.
Qed.

Lemma KR_clean s : KR s -> KR (clean s).
Proof.
  intros K. unfold clean, clean_waiting.
  assert (K1 := KR_clean_strays s K). revert K1. generalize (clean_strays s) at 1 3. generalize (cache (clean_strays s)).
  induction l as [|x r IH]; intros s0 K0; simpl; auto. apply IH, KR_clean_waiting_one; auto.
Qed.

Lemma KR_timers_fire s : KR s -> KR (timers_fire s).
Proof.
  intros K. unfold timers_fire.
  assert (G : forall (l : list nat) acc, KR acc -> length (heap acc) = length (heap s) ->
              Forall (fun o => (o < length (heap s))%nat) l ->
              KR (fold_left (fun acc o =>
                if f_timer (obj acc o) then set_fq (fq (set_obj acc o (with_timer (obj acc o) false)) ++ [o])
                                                  (set_obj acc o (with_timer (obj acc o) false))
                else acc) l acc)).
  { induction l as [|o r IH]; intros acc Ka Hl HF; simpl; auto.
    inversion HF as [|x xs Ho Hr]; subst.
    destruct (f_timer (obj acc o)).
    - apply IH; auto.
      + assert (K2 : KR (set_obj acc o (with_timer (obj acc o) false))).
        { apply KR_set_obj; [exact Ka | reflexivity | apply (obj_state_range acc o Ka) | intros Hf; left; exact Hf]. }
        apply KR_fq; auto. apply Forall_app. split; [exact (k_fq _ K2)|].
        constructor; [|constructor]. apply in_range_set_obj. unfold in_range. lia.
      + simpl. rewrite list_set_length. exact Hl.
    - apply IH; auto. }
  apply G; auto. apply Forall_forall. intros o Ho. apply in_seq in Ho. lia.
Qed.

Lemma KR_empty s : heap s = [] -> cache s = [] -> vq s = [] -> fq s = [] -> wait s = [] -> KR s.
Proof.
  intros Eh Ec Ev Ef Ew. constructor.
  - rewrite Ec. intros n0 o0 Hin. destruct Hin.
  - rewrite Ev. constructor.
  - rewrite Ef. constructor.
  - rewrite Ew. intros p0 l0 Hin. destruct Hin.
  - rewrite Eh. constructor.
Qed.

Lemma KR_crash s : KR (crash s).
Proof. apply KR_empty; reflexivity. Qed.

Lemma KR_init : KR init_stage.
Proof. apply KR_empty; reflexivity. Qed.

(* ---- restart ---- *)
Lemma heap_len_process s o : (length (heap s) <= length (heap (process H s o)))%nat.
Proof.
  unfold process. destruct (nth_error (heap s) o) as [f|]; [|lia].
  destruct (negb (cache_state (lock (f_name f) s) (f_name f) =? ST_RECEIVED)); [simpl; lia|].
  destruct (alookup (f_name f) (fulls (lock (f_name f) s))) as [body|].
  - destruct (name_eqb (H body) (f_hash f)); simpl; rewrite ?to_cache_heap_len; simpl; lia.
  - rewrite to_cache_heap_len. simpl. lia.
Qed.

Lemma heap_len_load_records : forall recs s from ct bid,
  (length (heap s) <= length (heap (load_records s recs from ct bid)))%nat.
Proof.
  induction recs as [|r rest IH]; intros s from ct bid; simpl; [lia|].
  destruct (ct <? l_time r); [lia|].
  match goal with |- context [load_records (if ?c then _ else _)] => destruct c end.
  - apply IH.
  - eapply Nat.le_trans; [|apply IH]. simpl. rewrite app_length. lia.
Qed.

Lemma heap_len_build_cache s now from : (length (heap s) <= length (heap (build_cache s now from)))%nat.
Proof.
  unfold build_cache. destruct (from =? 0); [lia|].
  destruct (negb (ctime s =? 0) && (ctime s <=? from)); [lia|].
  destruct (visited_any _ _ _); simpl; apply heap_len_load_records.
Qed.

Definition rec_acc_ok (acc : stage * list nat * list nat) : Prop :=
  let '(s, fin, val) := acc in KR s /\ Forall (in_range s) fin /\ Forall (in_range s) val.

Lemma KR_drop_wait s n : KR s -> KR (set_waits (aremove n (waits s)) s).
Proof. intros K. eapply KR_same; [| | | | | |exact K]; reflexivity. Qed.

Lemma KR_recover_rest s fin val n c :
  rec_acc_ok (s, fin, val) -> rec_acc_ok (recover_rest s fin val n c).
Proof.
  intros [K [Hf Hv]]. unfold recover_rest.
  assert (App : forall s0 st, KR s0 -> ST_UNKNOWN <= st <= ST_LOGGED ->
                KR (set_heap (heap s0 ++ [comp_to_obj n c st]) s0) /\
                in_range (set_heap (heap s0 ++ [comp_to_obj n c st]) s0) (length (heap s0)) /\
                (forall l, Forall (in_range s0) l -> Forall (in_range (set_heap (heap s0 ++ [comp_to_obj n c st]) s0)) l)).
  { intros s0 st K0 Hst. split; [apply KR_heap_app; auto|]. split.
    - unfold in_range. simpl. rewrite app_length. simpl. lia.
    - intros l Hl. apply (Forall_in_range_mono s0); auto. simpl. rewrite app_length. lia. }
  destruct (ahas n (fulls s)).
  + destruct (App s ST_RECEIVED K ltac:(unfold ST_UNKNOWN, ST_RECEIVED, ST_LOGGED; lia)) as [K1 [R1 M1]].
    split; [exact K1|]. split; [apply M1; auto | apply Forall_app; split; [apply M1; auto | constructor; [exact R1|constructor]]].
  + destruct (alookup n (parts s)) as [sf|].
    * destruct (complete (c_parts c) (c_size c)); [|split; [exact K | split; [exact Hf | exact Hv]]].
      set (s1 := set_fulls (aset n (sf_data sf) (fulls s)) (set_parts (aremove n (parts s)) s)).
      assert (K1 : KR s1) by (eapply KR_same; [| | | | | |exact K]; reflexivity).
      destruct (App s1 ST_RECEIVED K1 ltac:(unfold ST_UNKNOWN, ST_RECEIVED, ST_LOGGED; lia)) as [K2 [R2 M2]].
      split; [exact K2|]. split; [apply M2; exact Hf | apply Forall_app; split; [apply M2; exact Hv | constructor; [exact R2|constructor]]].
    * set (tgt := match c_renamed c with [] => n | r => r end).
      destruct (alookup tgt (flcks s)); (split; [eapply KR_same; [| | | | | |exact K]; reflexivity | split; auto]).
Qed.

Lemma KR_recover_one acc kv : rec_acc_ok acc -> rec_acc_ok (recover_one H acc kv).
Proof.
  destruct acc as [[s fin] val]. destruct kv as [n c]. intros [K [Hf Hv]]. unfold recover_one.
  destruct (alookup n (waits s)) as [b|]; [|apply KR_recover_rest; split; [exact K | split; [exact Hf | exact Hv]]].
  destruct (name_eqb (H b) (c_hash c)).
  - split; [apply KR_heap_app; [exact K | simpl; unfold ST_UNKNOWN, ST_VALIDATED, ST_LOGGED; lia]|].
    assert (M : forall l, Forall (in_range s) l -> Forall (in_range (set_heap (heap s ++ [comp_to_obj n c ST_VALIDATED]) s)) l).
    { intros l Hl. apply (Forall_in_range_mono s); auto. simpl. rewrite app_length. lia. }
    split; [apply Forall_app; split; [apply M; auto | constructor; [|constructor]] | apply M; auto].
    unfold in_range. simpl. rewrite app_length. simpl. lia.
  - apply KR_recover_rest. split; [apply KR_drop_wait; exact K|]. split; [exact Hf | exact Hv].
Qed.

Lemma KR_recover_fold : forall (l : list (name * comp)) acc, rec_acc_ok acc -> rec_acc_ok (fold_left (recover_one H) l acc).
Proof. induction l as [|x r IH]; intros acc A; simpl; auto. apply IH, KR_recover_one; auto. Qed.

Lemma KR_recover s now oldest : KR s -> KR (recover H s now oldest).
Proof.
  intros K. unfold recover.
  pose proof (KR_recover_fold (cmps s) (s, [], []) (conj K (conj (Forall_nil _) (Forall_nil _)))) as A.
  destruct (fold_left (recover_one H) (cmps s) (s, [], [])) as [[s1 fin] val]. destruct A as [K1 [Hf Hv]].
  assert (K2 := KR_build_cache s1 now (Z.min now oldest - 86400) K1).
  pose proof (heap_len_build_cache s1 now (Z.min now oldest - 86400)) as L2.
  set (s2 := build_cache s1 now (Z.min now oldest - 86400)) in *.
  assert (Hf2 : Forall (in_range s2) fin) by (apply (Forall_in_range_mono s1); auto).
  assert (Hv2 : Forall (in_range s2) val) by (apply (Forall_in_range_mono s1); auto).
  clearbody s2. clear K1 Hf Hv L2 K s1.
  (* the finalize list *)
  assert (G : forall l s0, KR s0 -> Forall (in_range s0) l -> Forall (in_range s0) val ->
              let s' := fold_left (fun acc o => let a := to_cache acc o ST_VALIDATED in set_fq (fq a ++ [o]) a) l s0 in
              KR s' /\ Forall (in_range s') val).
  { induction l as [|o r IH]; intros s0 K0 Hl Hv0; simpl; [split; auto|].
    inversion Hl as [|x xs Ho Hr]; subst.
    assert (Ka : KR (to_cache s0 o ST_VALIDATED)).
    { apply KR_to_cache; auto; unfold ST_UNKNOWN, ST_VALIDATED, ST_LOGGED, ST_FINALIZED; lia. }
    assert (Len : length (heap (to_cache s0 o ST_VALIDATED)) = length (heap s0)) by apply to_cache_heap_len.
    apply IH.
    - apply KR_fq; auto. apply Forall_app. split; [exact (k_fq _ Ka)|].
      constructor; [|constructor]. unfold in_range. rewrite Len. exact Ho.
    - eapply Forall_impl; [|exact Hr]. unfold in_range. simpl. intros a Ha. rewrite Len. exact Ha.
    - eapply Forall_impl; [|exact Hv0]. unfold in_range. simpl. intros a Ha. rewrite Len. exact Ha. }
  destruct (G fin s2 K2 Hf2 Hv2) as [K3 Hv3].
  set (s3 := fold_left _ fin s2) in *. clearbody s3.
  clear G K2 Hf2 Hv2. revert s3 K3 Hv3.
  induction val as [|o r IH]; intros s3 K3 Hv3; simpl; auto.
  inversion Hv3 as [|x xs Ho Hr]; subst.
  assert (Kv : KR (recover_validate H s3 o) /\ (length (heap s3) <= length (heap (recover_validate H s3 o)))%nat).
  { unfold recover_validate.
    destruct ((ST_FINALIZED <=? cache_state s3 (f_name (obj s3 o))) && name_eqb (cache_hash s3 (f_name (obj s3 o))) (f_hash (obj s3 o))).
    - split; [eapply KR_same; [| | | | | |exact K3]; reflexivity | simpl; lia].
    - split.
      + apply KR_process. apply KR_to_cache; auto; unfold ST_UNKNOWN, ST_RECEIVED, ST_LOGGED, ST_FINALIZED; lia.
      + eapply Nat.le_trans; [|apply heap_len_process]. rewrite to_cache_heap_len. lia. }
  destruct Kv as [Kv Lv]. apply IH; auto. apply (Forall_in_range_mono s3); auto.
Qed.

Lemma KR_clean_cache s now : KR s -> KR (clean_cache s now).
Proof.
  intros K. unfold clean_cache. destruct (expired_batches (ctimes s) now) as [batches keep].
  assert (K1 : KR (set_ctime now (set_ctimes keep s))) by (eapply KR_same; [| | | | | |exact K]; reflexivity).
  revert K1. generalize (set_ctime now (set_ctimes keep s)). generalize (cache s). clear K.
  induction l as [|kv r IH]; intros s1 K1; simpl; auto.
  apply IH. unfold clean_cache_entry.
  destruct (f_state (obj s1 (snd kv)) <? ST_FINALIZED); auto.
  destruct (negb match f_prev (obj s1 (snd kv)) with [] => true | _ => false end && negb (f_next (obj s1 (snd kv)))); auto.
  match goal with |- KR (if ?c then _ else _) => destruct c end.
  - apply KR_cache_remove. exact K1.
  - destruct (f_logged (obj s1 (snd kv)) <? ctime s1); auto. eapply KR_same; [| | | | | |exact K1]; reflexivity.
Qed.

Lemma log_has_shift s d n :
  existsb (fun r => name_eqb (l_name r) n && true) (map (shift_rec d) (rlog s)) =
  existsb (fun r => name_eqb (l_name r) n && true) (rlog s).
Proof. induction (rlog s) as [|r l IH]; simpl; [reflexivity|]. rewrite IH. reflexivity. Qed.

Lemma KR_age_all s d : KR s -> KR (age_all s d).
Proof.
  intros [A B C D E]. unfold age_all.
  set (s1 := set_rlog (map (shift_rec d) (rlog s)) s).
  set (s2 := set_heap (map (shift_obj d) (heap s1)) s1).
  assert (R : forall o, in_range s2 o <-> in_range s o).
  { intros o. unfold in_range, s2, s1. simpl. rewrite map_length. tauto. }
  assert (O : forall o, f_name (obj s2 o) = f_name (obj s o) /\ f_state (obj s2 o) = f_state (obj s o)).
  { intros o. unfold obj, s2, s1. simpl.
    destruct (Nat.lt_ge_cases o (length (heap s))) as [Hl|Hl].
    - rewrite (nth_indep _ dflt_ff (shift_obj d dflt_ff)) by (rewrite map_length; exact Hl).
      rewrite map_nth. unfold shift_obj. destruct (f_logged (nth o (heap s) dflt_ff) =? 0); split; reflexivity.
    - rewrite !nth_overflow; [split; reflexivity | exact Hl | rewrite map_length; exact Hl]. }
  assert (L : forall n, logged s2 n <-> logged s n).
  { intros n. unfold logged, log_has, s2, s1. simpl. rewrite (log_has_shift s d n). tauto. }
  assert (K2 : KR s2).
  { constructor.
    - intros n o Hin. destruct (A n o Hin) as [A1 [A2 A3]]. destruct (O o) as [On Os].
      rewrite R, L. unfold oname, ostate. rewrite On, Os. auto.
    - eapply Forall_impl; [|exact B]. intros; apply R; auto.
    - eapply Forall_impl; [|exact C]. intros; apply R; auto.
    - intros p l Hin. eapply Forall_impl; [|exact (D p l Hin)]. intros; apply R; auto.
    - unfold s2, s1. simpl. rewrite Forall_forall in *. intros f Hin. apply in_map_iff in Hin as [f0 [<- Hf0]].
      unfold shift_obj. destruct (f_logged f0 =? 0); simpl; apply E; auto. }
  destruct (ctime s2 =? 0); (eapply KR_same; [| | | | | |exact K2]; reflexivity).
Qed.

(* ---- every operation, with no restriction on the history ---- *)
Theorem KR_step : forall s op, KR s -> KR (fst (sstep H s op)).
Proof.
  intros s op K. destruct op; unfold sstep.
  - apply KR_prepare; auto.
  - pose proof (KR_receive s p data rerr K). destruct (receive s p data rerr); auto.
  - cbn [fst]. apply KR_settle; auto.
  - pose proof (KR_received_q ps s now K). destruct (received_q s now ps); auto.
  - unfold status_q. cbn [fst]. apply KR_build_cache; auto.
  - unfold scan_q. cbn [fst]. apply KR_fold_lock; auto.
  - cbn [fst]. apply KR_clean; auto.
  - cbn [fst]. apply KR_timers_fire; auto.
  - cbn [fst]. unfold restart. apply KR_recover, KR_crash.
  - cbn [fst]. destruct (alookup n (parts s)); auto. eapply KR_same; [| | | | | |exact K]; reflexivity.
  - cbn [fst]. destruct (ext =? 0).
    + destruct (alookup n (parts s)); auto. eapply KR_same; [| | | | | |exact K]; reflexivity.
    + destruct (ext =? 1).
      * destruct (ahas n (fulls s)); auto. eapply KR_same; [| | | | | |exact K]; reflexivity.
      * destruct (ahas n (waits s)); auto. eapply KR_same; [| | | | | |exact K]; reflexivity.
  - cbn [fst]. apply KR_crash.
  - cbn [fst]. apply KR_clean_cache; auto.
  - cbn [fst]. apply KR_age_all; auto.
  - cbn [fst]. apply KR_build_cache; auto.
Qed.

Theorem KR_run : forall ops s, KR s -> KR (srun H s ops).
Proof.
  induction ops as [|op r IH]; intros s K; simpl; auto. apply IH, KR_step; auto.
Qed.

(* C04 over every reachable state: a file is logged (and delivered) by the
   finalize handler only if its predecessor reference is empty, the file itself,
   or a name that has a record in the receive log ALREADY *)
Theorem no_overtake_reachable : forall ops now o,
  let s := srun H init_stage ops in
  rlog (handle_final s now o) <> rlog s ->
  let f := obj s o in
  f_prev f = [] \/ f_prev f = f_name f \/ logged s (f_prev f).
Proof.
  intros ops now o s Hne f.
  assert (K : KR s) by (apply KR_run, KR_init).
  destruct (no_overtake_step s now o Hne) as [P|[P|[P|P]]]; auto.
  - destruct P as [_ P]. right; right. exact P.
  - right; right. destruct P as [P1 [P2 [P3 P4]]]. fold f in P1, P2, P3, P4.
    unfold cache_state in *. destruct (cache_obj s (f_prev f)) as [c|] eqn:C; [|congruence].
    unfold cache_obj in C. apply alookup_in' in C. destruct (k_cache _ K _ _ C) as [_ [_ A3]].
    apply A3. pose proof (obj_state_range s c K) as Rg. unfold ostate in *.
    unfold ST_UNKNOWN, ST_RECEIVED, ST_FAILED, ST_VALIDATED, ST_FINALIZED, ST_LOGGED in *. lia.
Qed.
End Steps.
