From Coq Require Import List ZArith Bool Lia.
From STS Require Import Model.Queue Model.Auth Model.Wire Proofs.QueueP Proofs.AuthP.
Import ListNotations.
Open Scope Z_scope.

(* ------------------------------------------------------------------ *)
(* decimal integers                                                     *)

Definition dstep (a c : Z) : Z := a * 10 + (c - 48).
Definition digit (c : Z) : Prop := is_digit c = true.

Lemma digit_range c : digit c <-> 48 <= c <= 57.
Proof. unfold digit, is_digit. rewrite andb_true_iff, !Z.leb_le. tauto. Qed.

Lemma dec_aux_spec : forall fuel n acc,
  (0 < fuel)%nat -> 0 <= n < 10 ^ Z.of_nat fuel ->
  exists ds, dec_aux fuel n acc = ds ++ acc /\ ds <> [] /\ Forall digit ds /\
             (forall a, fold_left dstep ds a = a * 10 ^ Z.of_nat (length ds) + n).
Proof.
  induction fuel as [|f IH]; intros n acc Hpos Hn.
  - lia.
  - cbn [dec_aux]. destruct (n <? 10) eqn:E.
    + apply Z.ltb_lt in E. exists [48 + n]. repeat split.
      * discriminate.
      * constructor; [apply digit_range; lia | constructor].
      * intros a. cbn [fold_left length]. unfold dstep. change (Z.of_nat 1) with 1. rewrite Z.pow_1_r. lia.
    + apply Z.ltb_ge in E.
      assert (Hf : 0 <= n / 10 < 10 ^ Z.of_nat f).
      { rewrite Nat2Z.inj_succ, Z.pow_succ_r in Hn by lia. split.
        - apply Z.div_pos; lia.
        - apply Z.div_lt_upper_bound; lia. }
      assert (Hf0 : (0 < f)%nat).
      { destruct f; [|lia]. simpl in Hn. lia. }
      destruct (IH (n / 10) ((48 + n mod 10) :: acc) Hf0 Hf) as [ds [E1 [E2 [E3 E4]]]].
      exists (ds ++ [48 + n mod 10]). repeat split.
      * rewrite E1, <- app_assoc. reflexivity.
      * destruct ds; discriminate.
      * apply Forall_app. split; auto. constructor; [|constructor].
        apply digit_range. pose proof (Z.mod_pos_bound n 10). lia.
      * intros a. rewrite fold_left_app, E4. cbn [fold_left]. unfold dstep.
        rewrite app_length. cbn [length]. rewrite Nat2Z.inj_add. change (Z.of_nat 1) with 1.
        rewrite Z.pow_add_r, Z.pow_1_r by lia. pose proof (Z.div_mod n 10 ltac:(lia)). nia.
Qed.

Lemma span_digits_app : forall ds acc k rest,
  Forall digit ds ->
  match rest with [] => True | c :: _ => is_digit c = false end ->
  span_digits (ds ++ rest) acc k = (fold_left dstep ds acc, (k + length ds)%nat, rest).
Proof.
  induction ds as [|d ds IH]; intros acc k rest Hd Hr.
  - simpl. rewrite Nat.add_0_r. destruct rest as [|c r]; simpl; [reflexivity|]. rewrite Hr. reflexivity.
  - inversion Hd as [|x xs Hx Hxs]; subst. simpl. unfold digit in Hx. rewrite Hx.
    rewrite IH by auto. f_equal. f_equal. lia.
Qed.

Definition nodigit_head (rest : wbytes) : Prop :=
  match rest with [] => True | c :: _ => is_digit c = false end.

Lemma LIM_pow : LIM < 10 ^ Z.of_nat DEC_FUEL.
Proof. unfold LIM, DEC_FUEL. simpl. lia. Qed.

Lemma parse_nat_dec : forall n rest,
  0 <= n < LIM -> nodigit_head rest -> parse_nat (dec_nat n ++ rest) = Some (n, rest).
Proof.
  intros n rest Hn Hr. unfold dec_nat, parse_nat.
  pose proof LIM_pow as HL.
  destruct (dec_aux_spec DEC_FUEL n [] ltac:(unfold DEC_FUEL; lia) ltac:(lia)) as [ds [E1 [E2 [E3 E4]]]].
  rewrite E1, app_nil_r. rewrite span_digits_app by auto. rewrite E4. simpl.
  destruct ds as [|d ds']; [congruence|]. simpl. f_equal.
Qed.

Lemma dec_nat_head : forall n, 0 <= n < LIM ->
  exists d r, dec_nat n = d :: r /\ digit d.
Proof.
  intros n Hn. unfold dec_nat. pose proof LIM_pow as HL.
  destruct (dec_aux_spec DEC_FUEL n [] ltac:(unfold DEC_FUEL; lia) ltac:(lia)) as [ds [E1 [E2 [E3 _]]]].
  rewrite E1, app_nil_r. destruct ds as [|d r]; [congruence|].
  inversion E3; subst. eauto.
Qed.

Lemma int_ok_range z : int_ok z = true <-> - LIM < z < LIM.
Proof. unfold int_ok. rewrite andb_true_iff, !Z.ltb_lt. tauto. Qed.

Theorem parse_int_dec : forall z rest,
  int_ok z = true -> nodigit_head rest -> parse_int (dec z ++ rest) = Some (z, rest).
Proof.
  intros z rest Hz Hr. apply int_ok_range in Hz. unfold dec.
  destruct (z <? 0) eqn:E.
  - apply Z.ltb_lt in E. simpl. rewrite parse_nat_dec by (auto; lia). f_equal. f_equal. lia.
  - apply Z.ltb_ge in E. destruct (dec_nat_head z ltac:(lia)) as [d [r [Ed Hd]]].
    pose proof (parse_nat_dec z rest ltac:(lia) Hr) as P. rewrite Ed in *. simpl app in *.
    unfold parse_int. apply digit_range in Hd.
    destruct (d =? 45) eqn:E45; [apply Z.eqb_eq in E45; lia|]. exact P.
Qed.

(* the digits of a number are plain characters *)
Lemma dec_nat_digits : forall n, 0 <= n < LIM -> Forall digit (dec_nat n).
Proof.
  intros n Hn. unfold dec_nat. pose proof LIM_pow as HL.
  destruct (dec_aux_spec DEC_FUEL n [] ltac:(unfold DEC_FUEL; lia) ltac:(lia)) as [ds [E1 [_ [E3 _]]]].
  rewrite E1, app_nil_r. exact E3.
Qed.

(* ------------------------------------------------------------------ *)
(* JSON strings                                                         *)

Lemma unhex_hexd x : 0 <= x < 16 -> unhex (hexd x) = Some x.
Proof.
  intros H.
  assert (E : x = 0 \/ x = 1 \/ x = 2 \/ x = 3 \/ x = 4 \/ x = 5 \/ x = 6 \/ x = 7 \/ x = 8 \/
              x = 9 \/ x = 10 \/ x = 11 \/ x = 12 \/ x = 13 \/ x = 14 \/ x = 15) by lia.
  repeat (destruct E as [->|E]; [reflexivity|]). subst. reflexivity.
Qed.

Lemma unesc_plain a r acc :
  (a =? 34) = false -> (a =? 92) = false -> (a <? 32) = false ->
  unesc (a :: r) acc = unesc r (a :: acc).
Proof. intros E1 E2 E3. cbn [unesc]. rewrite E1, E2, E3. reflexivity. Qed.

Lemma unesc_u00 b r acc : 0 <= b < 128 ->
  unesc (u00 b ++ r) acc = unesc r (b :: acc).
Proof.
  intros Hb. unfold u00. cbn [app unesc].
  replace (92 =? 34) with false by reflexivity. replace (92 =? 92) with true by reflexivity.
  replace (117 =? 117) with true by reflexivity.
  unfold hex4. replace (unhex 48) with (Some 0) by reflexivity.
  rewrite !unhex_hexd.
  2: { pose proof (Z.mod_pos_bound b 16). lia. }
  2: { split; [apply Z.div_pos; lia | apply Z.div_lt_upper_bound; lia]. }
  replace (((0 * 16 + 0) * 16 + b / 16) * 16 + b mod 16) with b by (pose proof (Z.div_mod b 16); lia).
  replace ((55296 <=? b) && (b <=? 57343)) with false.
  2: { symmetry. apply andb_false_iff. left. apply Z.leb_gt. lia. }
  unfold utf8. replace (b <? 128) with true by (symmetry; apply Z.ltb_lt; lia).
  reflexivity.
Qed.

Lemma unesc_esc1 : forall a r acc, 0 <= a < 256 ->
  unesc (esc1 a ++ r) acc = unesc r (a :: acc).
Proof.
  intros a r acc Ha. unfold esc1.
  destruct (a =? 34) eqn:E34; [apply Z.eqb_eq in E34; subst; reflexivity|].
  destruct (a =? 92) eqn:E92; [apply Z.eqb_eq in E92; subst; reflexivity|].
  destruct (a =? 8) eqn:E8; [apply Z.eqb_eq in E8; subst; reflexivity|].
  destruct (a =? 12) eqn:E12; [apply Z.eqb_eq in E12; subst; reflexivity|].
  destruct (a =? 10) eqn:E10; [apply Z.eqb_eq in E10; subst; reflexivity|].
  destruct (a =? 13) eqn:E13; [apply Z.eqb_eq in E13; subst; reflexivity|].
  destruct (a =? 9) eqn:E9; [apply Z.eqb_eq in E9; subst; reflexivity|].
  destruct ((a <? 32) || (a =? 60) || (a =? 62) || (a =? 38)) eqn:EU.
  - apply unesc_u00.
    apply orb_true_iff in EU as [EU|EU]; [apply orb_true_iff in EU as [EU|EU]; [apply orb_true_iff in EU as [EU|EU]|]|].
    + apply Z.ltb_lt in EU. lia.
    + apply Z.eqb_eq in EU. lia.
    + apply Z.eqb_eq in EU. lia.
    + apply Z.eqb_eq in EU. lia.
  - apply orb_false_iff in EU as [EU _]. apply orb_false_iff in EU as [EU _]. apply orb_false_iff in EU as [EU _].
    simpl app. apply unesc_plain; auto.
Qed.

Lemma esc_cons : forall a t,
  esc (a :: t) =
  match t with
  | b :: c :: r => if is_ls a b c then [92; 117; 50; 48; 50; hexd (c - 160)] ++ esc r else esc1 a ++ esc t
  | _ => esc1 a ++ esc t
  end.
Proof. intros. destruct t as [|b [|c r]]; reflexivity. Qed.

Lemma unesc_ls : forall c r acc, c = 168 \/ c = 169 ->
  unesc ([92; 117; 50; 48; 50; hexd (c - 160)] ++ r) acc = unesc r (c :: 128 :: 226 :: acc).
Proof. intros c r acc [->| ->]; reflexivity. Qed.

(* the round trip of string contents, for every byte string *)
Lemma unesc_esc_len : forall n s acc rest, (length s <= n)%nat -> str_ok s = true ->
  unesc (esc s ++ 34 :: rest) acc = Some (rev acc ++ s, rest).
Proof.
  induction n as [|n IH]; intros s acc rest Hl Hs.
  - destruct s; [|simpl in Hl; lia]. simpl. rewrite app_nil_r. reflexivity.
  - destruct s as [|a t]; [simpl; rewrite app_nil_r; reflexivity|].
    simpl in Hl. simpl in Hs. apply andb_true_iff in Hs as [Ha Ht].
    assert (Ha' : 0 <= a < 256) by (unfold byte_ok in Ha; apply andb_true_iff in Ha as [A B]; apply Z.leb_le in A; apply Z.ltb_lt in B; lia).
    assert (Step : unesc ((esc1 a ++ esc t) ++ 34 :: rest) acc = Some (rev acc ++ a :: t, rest)).
    { rewrite <- app_assoc, unesc_esc1 by auto. rewrite IH by (auto; lia).
      simpl. rewrite <- app_assoc. reflexivity. }
    rewrite esc_cons. destruct t as [|b [|c r]]; try exact Step.
    destruct (is_ls a b c) eqn:E; [|exact Step].
    assert (Hr : str_ok r = true).
    { unfold str_ok in *. cbn [forallb] in Ht. apply andb_true_iff in Ht as [_ Ht]. apply andb_true_iff in Ht as [_ Ht]. exact Ht. }
    unfold is_ls in E. apply andb_true_iff in E as [E Ec]. apply andb_true_iff in E as [Ea Eb].
    apply Z.eqb_eq in Ea, Eb. subst a b.
    assert (Hc : c = 168 \/ c = 169) by (apply orb_true_iff in Ec as [Ec|Ec]; apply Z.eqb_eq in Ec; auto).
    rewrite <- app_assoc, unesc_ls by auto.
    rewrite IH by (auto; simpl in Hl; lia). simpl. rewrite <- !app_assoc. reflexivity.
Qed.

Theorem parse_str_enc : forall s rest, str_ok s = true ->
  parse_str (enc_str s ++ rest) = Some (s, rest).
Proof.
  intros s rest Hs. unfold enc_str, parse_str. simpl. rewrite <- app_assoc. simpl.
  apply (unesc_esc_len (length s) s [] rest); auto.
Qed.

(* characters that are written as themselves *)
Definition safe_char (c : Z) : Prop :=
  32 <= c < 128 /\ c <> 34 /\ c <> 92 /\ c <> 60 /\ c <> 62 /\ c <> 38.

Lemma esc1_safe c : safe_char c -> esc1 c = [c].
Proof.
  intros [H1 [H2 [H3 [H4 [H5 H6]]]]]. unfold esc1.
  repeat match goal with |- context [?x =? ?y] => destruct (Z.eqb_spec x y); [lia|] end.
  destruct (c <? 32) eqn:E; [apply Z.ltb_lt in E; lia|]. reflexivity.
Qed.

Lemma esc_safe : forall s, Forall safe_char s -> esc s = s.
Proof.
  induction s as [|a t IH]; intros H; [reflexivity|].
  inversion H as [|x xs Ha Ht]; subst. rewrite esc_cons.
  assert (E : esc1 a ++ esc t = a :: t) by (rewrite esc1_safe, IH by auto; reflexivity).
  destruct t as [|b [|c r]]; try exact E.
  unfold is_ls. destruct Ha as [Ha _]. destruct (a =? 226) eqn:E2; [apply Z.eqb_eq in E2; lia|]. exact E.
Qed.

Lemma digit_safe c : digit c -> safe_char c.
Proof. intros H. apply digit_range in H. unfold safe_char. lia. Qed.

Lemma dec_safe z : int_ok z = true -> Forall safe_char (dec z).
Proof.
  intros Hz. apply int_ok_range in Hz. unfold dec. destruct (z <? 0) eqn:E.
  - apply Z.ltb_lt in E. constructor; [unfold safe_char; lia|].
    eapply Forall_impl; [apply digit_safe | apply dec_nat_digits; lia].
  - apply Z.ltb_ge in E. eapply Forall_impl; [apply digit_safe | apply dec_nat_digits; lia].
Qed.

(* ------------------------------------------------------------------ *)
(* descriptors and the header                                           *)

Lemma eat_app : forall p s, eat p (p ++ s) = Some s.
Proof. induction p as [|x p IH]; intros s; simpl; [reflexivity|]. rewrite Z.eqb_refl. apply IH. Qed.

Lemma parse_time_enc : forall sec nsec, int_ok sec = true -> int_ok nsec = true ->
  parse_time (dec sec ++ 43 :: dec nsec) = Some (sec, nsec).
Proof.
  intros sec nsec H1 H2. unfold parse_time.
  rewrite (parse_int_dec sec (43 :: dec nsec)) by (auto; reflexivity).
  pose proof (parse_int_dec nsec [] H2 I) as P. rewrite app_nil_r in P. rewrite P. reflexivity.
Qed.

Lemma parse_str_time : forall sec nsec rest, int_ok sec = true -> int_ok nsec = true ->
  parse_str (enc_time sec nsec ++ rest) = Some (dec sec ++ 43 :: dec nsec, rest).
Proof.
  intros sec nsec rest H1 H2.
  assert (S : Forall safe_char (dec sec ++ 43 :: dec nsec)).
  { apply Forall_app. split; [apply dec_safe; auto|]. constructor; [unfold safe_char; lia | apply dec_safe; auto]. }
  assert (K : str_ok (dec sec ++ 43 :: dec nsec) = true).
  { unfold str_ok. apply forallb_forall. intros x Hx. rewrite Forall_forall in S. destruct (S x Hx) as [R _].
    unfold byte_ok. apply andb_true_iff. split; [apply Z.leb_le | apply Z.ltb_lt]; lia. }
  pose proof (parse_str_enc _ rest K) as P. unfold enc_str in P. rewrite (esc_safe _ S) in P.
  unfold enc_time. replace (34 :: dec sec ++ 43 :: dec nsec ++ [34]) with (34 :: (dec sec ++ 43 :: dec nsec) ++ [34]).
  - exact P.
  - rewrite <- app_assoc. reflexivity.
Qed.

Lemma desc_ok_fields d : desc_ok d = true ->
  str_ok (d_name d) = true /\ str_ok (d_ren d) = true /\ str_ok (d_prev d) = true /\ str_ok (d_hash d) = true /\
  int_ok (d_sec d) = true /\ int_ok (d_nsec d) = true /\ int_ok (d_size d) = true /\ int_ok (d_beg d) = true /\ int_ok (d_end d) = true.
Proof. unfold desc_ok. rewrite !andb_true_iff. tauto. Qed.

Lemma eat_lit1 : forall c k X, eat (c :: key k) (c :: key k ++ X) = Some X.
Proof. intros. unfold key. cbn [app eat]. rewrite !Z.eqb_refl. reflexivity. Qed.

Theorem parse_desc_enc : forall d rest, desc_ok d = true ->
  parse_desc (enc_desc d ++ rest) = Some (d, rest).
Proof.
  intros d rest Hd. destruct (desc_ok_fields d Hd) as [H1 [H2 [H3 [H4 [H5 [H6 [H7 [H8 H9]]]]]]]].
  destruct d as [n r p f sec ns sz b e]. cbn [d_name d_ren d_prev d_hash d_sec d_nsec d_size d_beg d_end] in *.
  unfold enc_desc, parse_desc. cbn [d_name d_ren d_prev d_hash d_sec d_nsec d_size d_beg d_end].
  repeat (first [rewrite <- app_assoc | rewrite <- app_comm_cons]).
  rewrite eat_lit1. rewrite parse_str_enc by auto.
  rewrite eat_lit1. rewrite parse_str_enc by auto.
  rewrite eat_lit1. rewrite parse_str_enc by auto.
  rewrite eat_lit1. rewrite parse_str_enc by auto.
  rewrite eat_lit1. rewrite parse_str_time by auto. rewrite parse_time_enc by auto.
  rewrite eat_lit1. rewrite parse_int_dec by (auto; reflexivity).
  rewrite eat_lit1. rewrite parse_int_dec by (auto; reflexivity).
  rewrite eat_lit1. rewrite parse_int_dec by (auto; reflexivity).
  cbn [app eat]. rewrite Z.eqb_refl. reflexivity.
Qed.

Definition descs_ok (ds : list desc) : Prop := Forall (fun d => desc_ok d = true) ds.

Lemma enc_desc_head d : exists t, enc_desc d = 123 :: t.
Proof. unfold enc_desc. eexists. reflexivity. Qed.

Lemma enc_descs_cons d r : r <> [] -> enc_descs (d :: r) = enc_desc d ++ 44 :: enc_descs r.
Proof. destruct r; [congruence|reflexivity]. Qed.

Lemma parse_descs_enc : forall ds fuel rest, descs_ok ds -> ds <> [] -> (length ds <= fuel)%nat ->
  parse_descs fuel (enc_descs ds ++ 93 :: rest) = Some (ds, rest).
Proof.
  induction ds as [|d r IH]; intros fuel rest Hok Hne Hf; [congruence|].
  inversion Hok as [|x xs Hd Hr]; subst.
  destruct fuel as [|f]; [simpl in Hf; lia|]. cbn [parse_descs].
  destruct r as [|d' r'].
  - cbn [enc_descs]. rewrite parse_desc_enc by auto. reflexivity.
  - rewrite enc_descs_cons by discriminate. rewrite <- app_assoc, <- app_comm_cons.
    rewrite parse_desc_enc by auto.
    rewrite (IH f rest Hr ltac:(discriminate) ltac:(simpl in Hf |- *; lia)). reflexivity.
Qed.

Lemma enc_descs_length : forall ds, (length ds <= length (enc_descs ds))%nat.
Proof.
  induction ds as [|d r IH]; [simpl; lia|].
  destruct r as [|d' r'].
  - destruct (enc_desc_head d) as [t E]. cbn [enc_descs]. rewrite E. simpl. lia.
  - rewrite enc_descs_cons by discriminate. rewrite app_length. cbn [length] in *. lia.
Qed.

(* C13: the header decodes to exactly the descriptors that were encoded *)
Theorem parse_header_enc : forall ds, descs_ok ds -> parse_header (enc_header ds) = Some (ds, []).
Proof.
  intros ds Hok. unfold enc_header, parse_header.
  destruct ds as [|d r]; [reflexivity|].
  assert (E : exists t, enc_descs (d :: r) ++ [93] = 123 :: t).
  { destruct (enc_desc_head d) as [t E]. destruct r as [|d' r'].
    - cbn [enc_descs]. rewrite E. eexists. reflexivity.
    - rewrite enc_descs_cons by discriminate. rewrite E. eexists. reflexivity. }
  destruct E as [t E]. rewrite E. rewrite <- E.
  apply parse_descs_enc; auto; [discriminate|].
  rewrite app_length. pose proof (enc_descs_length (d :: r)). lia.
Qed.

(* ------------------------------------------------------------------ *)
(* framing: the operational reader refines the cut-at-lengths spec      *)

Lemma firstn_add {A} : forall a b (l : list A), firstn (a + b) l = firstn a l ++ firstn b (skipn a l).
Proof.
  induction a as [|a IH]; intros b l; [reflexivity|].
  destruct l as [|x l]; simpl; [rewrite firstn_nil; reflexivity|]. rewrite IH. reflexivity.
Qed.

Lemma skipn_add {A} : forall a b (l : list A), skipn (a + b) l = skipn b (skipn a l).
Proof.
  induction a as [|a IH]; intros b l; [reflexivity|].
  destruct l as [|x l]; simpl; [rewrite skipn_nil; reflexivity|]. apply IH.
Qed.

Lemma firstn_length_firstn {A} : forall w (l : list A), firstn (length (firstn w l)) l = firstn w l.
Proof. induction w as [|w IH]; intros [|x l]; simpl; auto. f_equal. apply IH. Qed.

Definition grants_ok (g : nat -> nat) : Prop := forall i, (1 <= g i)%nat.

Lemma copy_part_spec : forall fuel total pos stream req g i acc,
  (1 <= req)%nat -> grants_ok g -> (pos <= total)%nat -> (total - pos < fuel)%nat ->
  copy_part fuel total pos stream req g i acc =
  (acc ++ firstn (Nat.min (total - pos) (length stream)) stream,
   (pos + Nat.min (total - pos) (length stream))%nat,
   skipn (Nat.min (total - pos) (length stream)) stream).
Proof.
  induction fuel as [|f IH]; intros total pos stream req g i acc Hreq Hg Hpos Hfuel; [lia|].
  cbn [copy_part]. unfold pd_read.
  set (want := Nat.min (Nat.min (total - pos) req) (g i)).
  assert (Hk : length (firstn want stream) = Nat.min want (length stream)) by apply firstn_length.
  pose proof (firstn_length_firstn want stream) as Hff.
  remember (length (firstn want stream)) as k1 eqn:Ek1.
  pose proof (Hg i) as Hgi.
  destruct ((pos + k1 =? total)%nat || match stream with [] => true | _ => false end) eqn:Fin.
  - apply orb_true_iff in Fin as [Fin|Fin].
    + apply Nat.eqb_eq in Fin.
      assert (E : Nat.min (total - pos) (length stream) = k1) by (subst want; lia).
      rewrite E, Hff. reflexivity.
    + destruct stream as [|x s]; [|discriminate]. simpl. rewrite Nat.min_0_r.
      rewrite firstn_nil in *. simpl in Ek1. subst k1. simpl. rewrite Nat.add_0_r. reflexivity.
  - apply orb_false_iff in Fin as [F1 F2]. apply Nat.eqb_neq in F1.
    assert (Hlen : (1 <= length stream)%nat) by (destruct stream; [discriminate | simpl; lia]).
    assert (Hk1 : (1 <= k1)%nat).
    { subst want. assert ((pos + k1 <= total)%nat) by lia. destruct (Nat.eq_dec (total - pos) 0); lia. }
    rewrite IH by (auto; lia).
    assert (E : Nat.min (total - pos) (length stream) =
                (k1 + Nat.min (total - (pos + k1)) (length (skipn k1 stream)))%nat).
    { rewrite skipn_length. subst want. lia. }
    rewrite E. rewrite firstn_add, skipn_add. rewrite <- app_assoc. rewrite Hff.
    rewrite Nat.add_assoc. reflexivity.
Qed.

(* C13: however the stream is chunked and whatever the buffer size of the
   consumer, the parts are cut exactly at the announced lengths *)
Theorem decode_body_spec : forall ds stream req g,
  (1 <= req)%nat -> grants_ok g -> decode_body ds stream req g = split_spec ds stream.
Proof.
  induction ds as [|d r IH]; intros stream req g Hreq Hg; [reflexivity|].
  cbn [decode_body split_spec].
  rewrite copy_part_spec by (auto; lia). rewrite Nat.sub_0_r. cbn [Nat.add app].
  destruct (Nat.leb_spec (part_len d) (length stream)) as [Hle|Hgt].
  - rewrite Nat.min_l by lia. rewrite Nat.eqb_refl. rewrite IH by auto. reflexivity.
  - rewrite Nat.min_r by lia. destruct (Nat.eqb_spec (length stream) (part_len d)) as [E|E]; [lia|].
    rewrite firstn_all. reflexivity.
Qed.

(* ------------------------------------------------------------------ *)
(* the spec: round trip and truncation                                   *)

Definition lens_ok (ds : list desc) (bodies : list wbytes) : Prop :=
  Forall2 (fun d b => length b = part_len d) ds bodies.

Definition complete_parts (ds : list desc) (bodies : list wbytes) : list (desc * wbytes * bool) :=
  map (fun db => (fst db, snd db, true)) (combine ds bodies).

Theorem split_roundtrip : forall ds bodies, lens_ok ds bodies ->
  split_spec ds (concat bodies) = complete_parts ds bodies.
Proof.
  intros ds bodies H. induction H as [|d b ds bs Hl Hr IH]; [reflexivity|].
  cbn [split_spec concat]. rewrite <- Hl.
  destruct (Nat.leb_spec (length b) (length (b ++ concat bs))) as [_|Hc]; [|rewrite app_length in Hc; lia].
  rewrite firstn_app, Nat.sub_diag, firstn_all, firstn_O, app_nil_r.
  rewrite skipn_app, Nat.sub_diag, skipn_all. cbn [skipn app].
  rewrite IH. reflexivity.
Qed.

(* what arrives of a stream that ends early: the parts that arrived in full, then
   ONE part flagged short holding a strict prefix of its own bytes, then nothing *)
Theorem split_truncated : forall ds bodies k, lens_ok ds bodies ->
  (k < length (concat bodies))%nat ->
  exists j d b rest,
    nth_error ds j = Some d /\ nth_error bodies j = Some b /\
    b = firstn (k - length (concat (firstn j bodies))) b ++ rest /\ rest <> [] /\
    split_spec ds (firstn k (concat bodies)) =
      complete_parts (firstn j ds) (firstn j bodies) ++
      [(d, firstn (k - length (concat (firstn j bodies))) b, false)].
Proof.
  intros ds bodies k H. revert k. induction H as [|d b ds bs Hl Hr IH]; intros k Hk; [simpl in Hk; lia|].
  cbn [concat] in Hk. rewrite app_length in Hk.
  cbn [split_spec concat]. rewrite <- Hl. rewrite firstn_length, app_length.
  destruct (Nat.leb_spec (length b) (Nat.min k (length b + length (concat bs)))) as [Hle|Hgt].
  - (* this part arrived in full *)
    assert (Hbk : (length b <= k)%nat) by lia.
    destruct (IH (k - length b)%nat ltac:(lia)) as [j [d' [b' [rest [E1 [E2 [E3 [E4 E5]]]]]]]].
    exists (S j), d', b', rest. cbn [nth_error firstn concat]. rewrite app_length.
    replace (k - (length b + length (concat (firstn j bs))))%nat
      with (k - length b - length (concat (firstn j bs)))%nat by lia.
    repeat split; auto.
    rewrite firstn_app. rewrite (firstn_all2 b) by lia.
    rewrite firstn_app, Nat.sub_diag, firstn_all, firstn_O, app_nil_r.
    rewrite skipn_app, Nat.sub_diag, skipn_all. cbn [skipn app].
    rewrite E5. reflexivity.
  - (* the stream ends inside this part *)
    assert (Hkb : (k < length b)%nat) by lia.
    exists 0%nat, d, b, (skipn k b). cbn [nth_error firstn concat length]. rewrite Nat.sub_0_r.
    repeat split; auto.
    + symmetry. apply firstn_skipn.
    + intros E. apply (f_equal (@length Z)) in E. rewrite skipn_length in E. simpl in E. lia.
    + rewrite firstn_app. replace (k - length b)%nat with 0%nat by lia. rewrite firstn_O, app_nil_r. reflexivity.
Qed.

(* ------------------------------------------------------------------ *)
(* the whole wire                                                        *)

Lemma part_len_translate sep d : part_len (translate_desc sep d) = part_len d.
Proof. reflexivity. Qed.

Lemma lens_ok_translate sep ds bodies :
  lens_ok ds bodies -> lens_ok (map (translate_desc sep) ds) bodies.
Proof. intros H. induction H; constructor; auto. Qed.

Lemma enc_header_nonempty ds : (2 <= length (enc_header ds))%nat.
Proof. unfold enc_header. simpl. rewrite app_length. simpl. lia. Qed.

Lemma decode_header_wire : forall ds body sep, descs_ok ds ->
  decode_header (Z.of_nat (length (enc_header ds))) sep (enc_header ds ++ body)
  = Some (map (translate_desc sep) ds, body).
Proof.
  intros ds body sep Hok. unfold decode_header.
  pose proof (enc_header_nonempty ds) as Hn.
  destruct (Z.leb_spec (Z.of_nat (length (enc_header ds))) 0) as [Hc|_]; [lia|].
  rewrite Nat2Z.id. rewrite app_length.
  destruct (Nat.ltb_spec (length (enc_header ds) + length body) (length (enc_header ds))) as [Hc|_]; [lia|].
  rewrite firstn_app, Nat.sub_diag, firstn_all, firstn_O, app_nil_r.
  rewrite parse_header_enc by auto. cbn [forallb].
  rewrite skipn_app, Nat.sub_diag, skipn_all. reflexivity.
Qed.

(* C13, the round trip: whatever the descriptors (any byte strings as names, any
   int64 numbers), however many parts of whatever lengths, whichever separator
   convention, however the stream is chunked and whatever buffer the consumer
   reads with: the receiver obtains the same ordered descriptors (names
   translated to the local convention) and for each part exactly its bytes *)
Theorem wire_roundtrip : forall ds bodies sep req g,
  descs_ok ds -> lens_ok ds bodies -> (1 <= req)%nat -> grants_ok g ->
  decode (Z.of_nat (length (enc_header ds))) sep (wire_of ds bodies) req g
  = Some (complete_parts (map (translate_desc sep) ds) bodies).
Proof.
  intros ds bodies sep req g Hok Hl Hreq Hg. unfold decode, wire_of.
  rewrite decode_header_wire by auto. rewrite decode_body_spec by auto.
  rewrite split_roundtrip by (apply lens_ok_translate; auto). reflexivity.
Qed.

(* C13, truncation inside the header: refused *)
Theorem wire_truncated_header : forall ds bodies sep req g k,
  (k < length (enc_header ds))%nat ->
  decode (Z.of_nat (length (enc_header ds))) sep (firstn k (wire_of ds bodies)) req g = None.
Proof.
  intros ds bodies sep req g k Hk. unfold decode, decode_header.
  pose proof (enc_header_nonempty ds) as Hn.
  destruct (Z.leb_spec (Z.of_nat (length (enc_header ds))) 0) as [Hc|_]; [lia|].
  rewrite Nat2Z.id. rewrite firstn_length.
  destruct (Nat.ltb_spec (Nat.min k (length (wire_of ds bodies))) (length (enc_header ds))) as [_|Hc]; [reflexivity|lia].
Qed.

(* C13, truncation inside the body: the parts that arrived in full are delivered
   unchanged, the part the stream ends in is flagged short and holds only a
   strict prefix of ITS OWN bytes, no later part is reported *)
Theorem wire_truncated_body : forall ds bodies sep req g k,
  descs_ok ds -> lens_ok ds bodies -> (1 <= req)%nat -> grants_ok g ->
  (length (enc_header ds) <= k < length (wire_of ds bodies))%nat ->
  let kb := (k - length (enc_header ds))%nat in
  exists j d b rest,
    nth_error (map (translate_desc sep) ds) j = Some d /\ nth_error bodies j = Some b /\
    b = firstn (kb - length (concat (firstn j bodies))) b ++ rest /\ rest <> [] /\
    decode (Z.of_nat (length (enc_header ds))) sep (firstn k (wire_of ds bodies)) req g =
      Some (complete_parts (firstn j (map (translate_desc sep) ds)) (firstn j bodies) ++
            [(d, firstn (kb - length (concat (firstn j bodies))) b, false)]).
Proof.
  intros ds bodies sep req g k Hok Hl Hreq Hg Hk kb.
  unfold wire_of in *. rewrite app_length in Hk.
  assert (Hkb : (kb < length (concat bodies))%nat) by (subst kb; lia).
  destruct (split_truncated (map (translate_desc sep) ds) bodies kb (lens_ok_translate sep _ _ Hl) Hkb)
    as [j [d [b [rest [E1 [E2 [E3 [E4 E5]]]]]]]].
  exists j, d, b, rest. repeat split; auto.
  unfold decode.
  rewrite firstn_app. rewrite (firstn_all2 (enc_header ds)) by lia. fold kb.
  rewrite decode_header_wire by auto. rewrite decode_body_spec by auto. rewrite E5. reflexivity.
Qed.

(* ------------------------------------------------------------------ *)
(* separator conventions                                                 *)

Definition no_char (c : Z) (s : wbytes) : Prop := Forall (fun x => (x =? c) = false) s.

Lemma wsplit_seg : forall sep x s cur, no_char sep x ->
  wsplit sep (x ++ s) cur = wsplit sep s (rev x ++ cur).
Proof.
  intros sep x. induction x as [|a x IH]; intros s cur H; [reflexivity|].
  inversion H as [|y ys Ha Hx]; subst. simpl. rewrite Ha. rewrite IH by auto.
  rewrite <- app_assoc. reflexivity.
Qed.

Lemma wsplit_join : forall sep segs cur, segs <> [] -> Forall (no_char sep) segs ->
  wsplit sep (wjoin sep segs) cur =
  match segs with x :: r => (rev cur ++ x) :: r | [] => [] end.
Proof.
  intros sep segs. induction segs as [|x r IH]; intros cur Hne H; [congruence|].
  inversion H as [|y ys Hx Hr]; subst.
  destruct r as [|x' r'].
  - cbn [wjoin]. replace x with (x ++ []) at 1 by apply app_nil_r.
    rewrite wsplit_seg by auto. simpl. rewrite rev_app_distr, rev_involutive. reflexivity.
  - change (wjoin sep (x :: x' :: r')) with (x ++ sep :: wjoin sep (x' :: r')).
    rewrite wsplit_seg by auto. cbn [wsplit]. rewrite Z.eqb_refl.
    rewrite (IH [] ltac:(discriminate) Hr). rewrite rev_app_distr, rev_involutive. reflexivity.
Qed.

Lemma clean_rel_plain : forall segs st, plain_list segs -> clean_rel st segs = rev st ++ segs.
Proof.
  induction segs as [|s r IH]; intros st Hp; simpl; [rewrite app_nil_r; reflexivity|].
  inversion Hp as [|x xs Hs Hr]; subst. destruct (plain_not s Hs) as [E1 [E2 E3]].
  rewrite E1, E2, E3. simpl. rewrite IH by auto. simpl. rewrite <- app_assoc. reflexivity.
Qed.

Lemma filter_plain : forall l : list seg, plain_list l ->
  filter (fun e : seg => negb (is_empty e)) l = l.
Proof.
  induction l as [|y l IH]; intros H; [reflexivity|]. inversion H as [|z zs Hy Hl]; subst. simpl.
  destruct (plain_not y Hy) as [E1 _]. rewrite E1. simpl. f_equal. apply IH; auto.
Qed.

(* C13: a name made of plain segments, written in the sender's convention
   (segments joined by its separator), is decoded as the same segments joined
   by the receiver's '/' - for both conventions *)
Theorem translate_plain : forall sep segs,
  sep <> 0 -> segs <> [] -> plain_list segs ->
  Forall (no_char sep) segs -> Forall (no_char 47) segs ->
  translate sep (wjoin sep segs) = wjoin 47 segs.
Proof.
  intros sep segs Hsep Hne Hp Hs H47. unfold translate.
  destruct (sep =? 0) eqn:E; [apply Z.eqb_eq in E; congruence|].
  rewrite (wsplit_join sep segs [] Hne Hs).
  destruct segs as [|x r]; [congruence|]. cbn [rev app].
  match goal with |- context [filter ?f ?l] => replace (filter f l) with l by (symmetry; apply filter_plain; exact Hp) end.
  unfold clean_path.
  inversion Hp as [|y ys Hx Hr]; subst. destruct (plain_not x Hx) as [Ex _].
  destruct x as [|c x']; [discriminate|].
  assert (J : exists t, wjoin 47 ((c :: x') :: r) = c :: t).
  { destruct r; simpl; eauto. }
  destruct J as [t J]. rewrite J at 1.
  inversion H47 as [|y ys Hc Hr47]; subst. inversion Hc as [|z zs Hc0 _]; subst.
  rewrite Hc0.
  rewrite wsplit_join by (try discriminate; auto). cbn [rev app].
  rewrite clean_rel_plain by auto. reflexivity.
Qed.

(* no separator header: names are taken as they are *)
Theorem translate_none : forall s, translate 0 s = s.
Proof. reflexivity. Qed.
