From Coq Require Import List ZArith Bool Lia.
From STS Require Import Model.Ranges Model.Chunk Model.Queue.
Import ListNotations.
Open Scope Z_scope.

(* ------------------------------------------------------------------ *)
(* names: decidable equality and the strict lexicographic order         *)

Lemma name_eqb_eq : forall a b, name_eqb a b = true <-> a = b.
Proof.
  induction a as [|x a IH]; destruct b as [|y b]; simpl; split; intros H; try discriminate; auto.
  - apply andb_true_iff in H as [H1 H2]. apply Z.eqb_eq in H1. apply IH in H2. subst; auto.
  - inversion H; subst. rewrite Z.eqb_refl. simpl. apply IH; auto.
Qed.

Lemma name_eqb_refl a : name_eqb a a = true.
Proof. apply name_eqb_eq; auto. Qed.

Lemma name_ltb_irrefl : forall a, name_ltb a a = false.
Proof. induction a as [|x a IH]; simpl; auto. rewrite Z.ltb_irrefl. auto. Qed.

Lemma name_ltb_trans : forall a b c,
  name_ltb a b = true -> name_ltb b c = true -> name_ltb a c = true.
Proof.
  induction a as [|x a IH]; destruct b as [|y b]; destruct c as [|z c]; simpl; intros H1 H2; auto; try discriminate.
  destruct (x <? y) eqn:Exy.
  - apply Z.ltb_lt in Exy. destruct (y <? z) eqn:Eyz.
    + apply Z.ltb_lt in Eyz. assert (x < z) by lia. apply Z.ltb_lt in H. rewrite H. auto.
    + destruct (z <? y) eqn:Ezy; [discriminate|]. apply Z.ltb_ge in Eyz, Ezy.
      assert (x < z) by lia. apply Z.ltb_lt in H. rewrite H; auto.
  - destruct (y <? x) eqn:Eyx; [discriminate|]. apply Z.ltb_ge in Exy, Eyx.
    assert (x = y) by lia. subst y.
    destruct (x <? z) eqn:Exz; auto. destruct (z <? x) eqn:Ezx; [discriminate|].
    eapply IH; eauto.
Qed.

Lemma name_ltb_total : forall a b,
  name_ltb a b = false -> name_ltb b a = false -> a = b.
Proof.
  induction a as [|x a IH]; destruct b as [|y b]; simpl; intros H1 H2; auto; try discriminate.
  destruct (x <? y) eqn:Exy; [discriminate|]. destruct (y <? x) eqn:Eyx; [discriminate|].
  apply Z.ltb_ge in Exy, Eyx. assert (x = y) by lia. subst. f_equal. apply IH; auto.
Qed.

Lemma name_ltb_asym a b : name_ltb a b = true -> name_ltb b a = false.
Proof.
  intros H. destruct (name_ltb b a) eqn:E; auto.
  pose proof (name_ltb_trans _ _ _ H E) as T. rewrite name_ltb_irrefl in T. discriminate.
Qed.

(* ------------------------------------------------------------------ *)
(* the configured order is a total preorder on (time, name) keys         *)

Definition ordered (order : Z) : Prop := order = OFIFO \/ order = OLIFO \/ order = OALPHA.

Lemma after_b_irrefl order f : after_b order f f = false.
Proof.
  unfold after_b. destruct (order =? OALPHA); [apply name_ltb_irrefl|].
  destruct ((order =? OFIFO) || (order =? OLIFO)); auto.
  rewrite Z.eqb_refl. apply name_ltb_irrefl.
Qed.

(* strict: "x sorts after y"; after_b x y = true means y < x *)
Lemma after_b_trans order x y z :
  after_b order x y = true -> after_b order y z = true -> after_b order x z = true.
Proof.
  unfold after_b. destruct (order =? OALPHA).
  - intros A B. eapply name_ltb_trans; eauto.
  - destruct ((order =? OFIFO) || (order =? OLIFO)); [|discriminate].
    destruct (Z.eq_dec (ftime x) (ftime y)) as [Exy|Exy];
    destruct (Z.eq_dec (ftime y) (ftime z)) as [Eyz|Eyz].
    + rewrite Exy, Eyz, !Z.eqb_refl. intros A B. eapply name_ltb_trans; eauto.
    + assert (Hyz : ftime y =? ftime z = false) by (apply Z.eqb_neq; auto).
      rewrite Exy, Z.eqb_refl, Hyz. intros _ B. exact B.
    + assert (Hxy : ftime x =? ftime y = false) by (apply Z.eqb_neq; auto).
      rewrite <- Eyz, Z.eqb_refl, Hxy. intros A _. exact A.
    + assert (Hxy : ftime x =? ftime y = false) by (apply Z.eqb_neq; auto).
      assert (Hyz : ftime y =? ftime z = false) by (apply Z.eqb_neq; auto).
      rewrite Hxy, Hyz.
      destruct (order =? OFIFO); intros A B; apply Z.ltb_lt in A, B.
      * assert (Hxz : ftime x =? ftime z = false) by (apply Z.eqb_neq; lia).
        rewrite Hxz. apply Z.ltb_lt; lia.
      * assert (Hxz : ftime x =? ftime z = false) by (apply Z.eqb_neq; lia).
        rewrite Hxz. apply Z.ltb_lt; lia.
Qed.

Lemma after_b_total order x y :
  ordered order -> after_b order x y = false -> after_b order y x = false ->
  (ftime x = ftime y \/ order = OALPHA) /\ fname x = fname y.
Proof.
  intros Ho. unfold after_b.
  destruct (order =? OALPHA) eqn:EA.
  - apply Z.eqb_eq in EA. intros H1 H2. split; [right; auto|]. symmetry. apply name_ltb_total; auto.
  - assert (Hfl : (order =? OFIFO) || (order =? OLIFO) = true).
    { unfold ordered in Ho; destruct Ho as [-> | [-> | ->]]; auto; try (vm_compute in EA; discriminate). }
    rewrite Hfl. rewrite (Z.eqb_sym (ftime y) (ftime x)).
    destruct (ftime x =? ftime y) eqn:Et.
    + apply Z.eqb_eq in Et. intros H1 H2. split; [left; auto|]. symmetry. apply name_ltb_total; auto.
    + apply Z.eqb_neq in Et. destruct (order =? OFIFO); rewrite !Z.ltb_ge; intros; lia.
Qed.

(* le is transitive *)
Lemma le_order_trans order x y z :
  ordered order -> le_order order x y = true -> le_order order y z = true -> le_order order x z = true.
Proof.
  intros Ho. unfold le_order. rewrite !negb_true_iff. intros H1 H2.
  destruct (after_b order x z) eqn:E; auto. exfalso.
  (* z < x.  Either y < x (contradiction with H1) or y not-after... *)
  destruct (after_b order y z) eqn:E2; [discriminate|].
  destruct (after_b order z y) eqn:E3.
  - (* y < z < x  =>  y < x *)
    pose proof (after_b_trans order x z y E E3) as T. rewrite T in H1; discriminate.
  - (* y and z have the same key: replace *)
    destruct (after_b_total order y z Ho E2 E3) as [Hk Hn].
    assert (after_b order x y = after_b order x z) as Heq.
    { unfold after_b. rewrite Hn. destruct Hk as [Hk| ->]; [rewrite Hk; reflexivity | reflexivity]. }
    rewrite Heq, E in H1. discriminate.
Qed.

Lemma after_then_le order x y z :
  ordered order -> after_b order x y = true -> le_order order x z = true -> le_order order y z = true.
Proof.
  intros Ho H1 H2. unfold le_order in *. rewrite negb_true_iff in *.
  destruct (after_b order y z) eqn:E; auto. exfalso.
  pose proof (after_b_trans order x y z H1 E) as T. rewrite T in H2; discriminate.
Qed.

(* ------------------------------------------------------------------ *)
(* the pending list stays sorted                                        *)

Lemma files_sorted_cons order x r :
  files_sorted order (x :: r) = true <->
  Forall (fun y => le_order order x y = true) r /\ files_sorted order r = true.
Proof. simpl. rewrite andb_true_iff, forallb_forall, Forall_forall. tauto. Qed.

Lemma insert_file_in order f l y :
  In y (insert_file order f l) <-> y = f \/ In y l.
Proof.
  induction l as [|x r IH]; simpl.
  - split; [intros [H|[]]; auto | intros [H|[]]; auto].
  - destruct (after_b order x f); simpl.
    + split; [intros [H|[H|H]]; auto | intros [H|[H|H]]; auto].
    + rewrite IH. split; [intros [H|[H|H]]; auto | intros [H|[H|H]]; auto].
Qed.

Lemma insert_file_sorted order f l :
  ordered order -> files_sorted order l = true -> files_sorted order (insert_file order f l) = true.
Proof.
  intros Ho. induction l as [|x r IH]; intros Hs; simpl; auto.
  apply files_sorted_cons in Hs as [Hx Hr].
  destruct (after_b order x f) eqn:E.
  - apply files_sorted_cons. split.
    + constructor.
      * unfold le_order. rewrite negb_true_iff. destruct (after_b order f x) eqn:E2; auto.
        pose proof (after_b_trans _ _ _ _ E E2) as T. rewrite after_b_irrefl in T. discriminate.
      * rewrite Forall_forall in *. intros y Hy. eapply after_then_le; eauto.
    + apply files_sorted_cons; auto.
  - apply files_sorted_cons. split; [|apply IH; auto].
    rewrite Forall_forall in *. intros y Hy. apply insert_file_in in Hy as [->|Hy]; auto.
    unfold le_order. rewrite E. reflexivity.
Qed.

Lemma remove_name_incl n l y : In y (remove_name n l) -> In y l.
Proof.
  induction l as [|x r IH]; simpl; auto. destruct (name_eqb (fname x) n); simpl; [auto|].
  intros [H|H]; auto.
Qed.

Lemma remove_name_sorted order n l :
  files_sorted order l = true -> files_sorted order (remove_name n l) = true.
Proof.
  induction l as [|x r IH]; intros Hs; simpl; auto.
  apply files_sorted_cons in Hs as [Hx Hr].
  destruct (name_eqb (fname x) n); auto.
  apply files_sorted_cons. split; [|auto].
  rewrite Forall_forall in *. intros y Hy. apply Hx. eapply remove_name_incl; eauto.
Qed.

Lemma files_sorted_tail order x r : files_sorted order (x :: r) = true -> files_sorted order r = true.
Proof. intros H. apply files_sorted_cons in H. tauto. Qed.

Lemma skip_alloc_spec : forall fs k dn k' fs' dn',
  skip_alloc k fs dn = (k', fs', dn') ->
  exists skipped, fs = skipped ++ fs' /\ Forall (fun f => is_alloc f = true) skipped /\
                  dn' = rev (map fname skipped) ++ dn /\
                  k' = match rev skipped with [] => k | s :: _ => Some s end /\
                  (match fs' with f :: _ :: _ => is_alloc f = false | _ => True end).
Proof.
  induction fs as [|f rest IH]; intros k dn k' fs' dn' H.
  - simpl in H. inversion H; subst. exists []. simpl. repeat split; auto.
  - destruct rest as [|f2 rest2].
    + simpl in H. inversion H; subst. exists []. simpl. repeat split; auto.
    + cbn [skip_alloc] in H. destruct (is_alloc f) eqn:A.
      * destruct (IH _ _ _ _ _ H) as [sk [E1 [E2 [E3 [E4 E5]]]]].
        exists (f :: sk). split; [simpl; rewrite <- E1; reflexivity|].
        split; [constructor; auto|]. split.
        { simpl. rewrite E3, <- app_assoc. reflexivity. }
        split; [|exact E5].
        rewrite E4. simpl. destruct (rev sk) as [|s r] eqn:R; simpl; auto.
      * inversion H; subst. exists []. simpl. repeat split; auto.
Qed.

(* all files of a group's pending list respect the order (ordered tags) *)
Definition group_sorted (g : group) : Prop :=
  ordered (torder (gtag g)) -> files_sorted (torder (gtag g)) (gfiles g) = true.

Lemma group_push_files g f :
  gfiles (group_push g f) =
  insert_file (torder (gtag g)) f
    (if has_name (fname f) (gfiles g) then remove_name (fname f) (gfiles g) else gfiles g) /\
  gtag (group_push g f) = gtag g /\ gname (group_push g f) = gname g /\ gdone (group_push g f) = gdone g.
Proof.
  unfold group_push. destruct (has_name (fname f) (gfiles g)).
  - destruct (remove_name (fname f) (gfiles g)); cbn; auto.
  - cbn; auto.
Qed.

Lemma group_push_sorted g f : group_sorted g -> group_sorted (group_push g f).
Proof.
  unfold group_sorted. intros Hs. destruct (group_push_files g f) as [Ef [Et _]].
  rewrite Ef, Et. intros Ho. apply insert_file_sorted; auto.
  destruct (has_name (fname f) (gfiles g)); auto. apply remove_name_sorted; auto.
Qed.

Lemma files_sorted_app_r order a b : files_sorted order (a ++ b) = true -> files_sorted order b = true.
Proof. induction a as [|x a IH]; simpl; auto. intros H. apply andb_true_iff in H as [_ H]. auto. Qed.

(* allocation changes no key *)
Lemma allocate_keys f d o l f' : allocate f d = Some (o, l, f') ->
  fname f' = fname f /\ ftime f' = ftime f.
Proof.
  unfold allocate. destruct (frec f).
  - destruct (alloc_rec (fleft f) (fused f) d) as [[[[o' l'] left'] used']|]; [|discriminate].
    intros H; inversion H; subst; simpl; auto.
  - destruct (alloc_plain (fsize f) (falloc f) d) as [[o' l'] a']. intros H; inversion H; subst; simpl; auto.
Qed.

Lemma le_order_keys order x y y' :
  fname y' = fname y -> ftime y' = ftime y -> le_order order x y' = le_order order x y.
Proof. intros Hn Ht. unfold le_order, after_b. rewrite Hn, Ht. reflexivity. Qed.

Lemma after_keys_l order x x' y :
  fname x' = fname x -> ftime x' = ftime x -> after_b order x' y = after_b order x y.
Proof. intros Hn Ht. unfold after_b. rewrite Hn, Ht. reflexivity. Qed.

Lemma group_pop_sorted g now g' o :
  group_sorted g -> group_pop g now = (g', o) -> group_sorted g'.
Proof.
  unfold group_sorted, group_pop. intros Hs H.
  destruct (skip_alloc (kept g) (gfiles g) (gdone g)) as [[k fs] dn] eqn:S.
  destruct (skip_alloc_spec _ _ _ _ _ _ S) as [sk [E1 _]].
  assert (Hfs : ordered (torder (gtag g)) -> files_sorted (torder (gtag g)) fs = true).
  { intros Ho. specialize (Hs Ho). rewrite E1 in Hs. eapply files_sorted_app_r; eauto. }
  destruct fs as [|f rest]; [inversion H; subst; simpl; auto|].
  destruct (is_alloc f); [inversion H; subst; simpl; auto|].
  destruct ((0 <? tdelay (gtag g)) && match rest with [] => true | _ => false end
            && (now - ftime f <? tdelay (gtag g))); [inversion H; subst; simpl; auto|].
  destruct (allocate f (tchunk (gtag g))) as [[[o' l'] f']|] eqn:A; [|inversion H; subst; simpl; auto].
  destruct (allocate_keys _ _ _ _ _ A) as [Kn Kt].
  destruct (is_alloc f'); inversion H; subst; simpl; intros Ho; specialize (Hfs Ho).
  - eapply files_sorted_tail; eauto.
  - apply files_sorted_cons in Hfs as [Hx Hr]. apply files_sorted_cons. split; auto.
    rewrite Forall_forall in *. intros y Hy. specialize (Hx y Hy).
    unfold le_order in *. rewrite (after_keys_l _ _ _ _ Kn Kt). exact Hx.
Qed.

(* C10: the file served is the least pending one in the configured order *)
Theorem group_pop_is_min g now g' out :
  group_sorted g -> ordered (torder (gtag g)) ->
  group_pop g now = (g', Some out) ->
  exists f, In f (gfiles g) /\ fname f = pname out /\ is_alloc f = false /\
            forall y, In y (gfiles g) -> is_alloc y = false -> le_order (torder (gtag g)) f y = true.
Proof.
  unfold group_sorted, group_pop. intros Hs Ho H. specialize (Hs Ho).
  destruct (skip_alloc (kept g) (gfiles g) (gdone g)) as [[k fs] dn] eqn:S.
  destruct (skip_alloc_spec _ _ _ _ _ _ S) as [sk [E1 [E2 _]]].
  destruct fs as [|f rest]; [inversion H|].
  destruct (is_alloc f) eqn:Af; [inversion H|].
  destruct ((0 <? tdelay (gtag g)) && match rest with [] => true | _ => false end
            && (now - ftime f <? tdelay (gtag g))); [inversion H|].
  destruct (allocate f (tchunk (gtag g))) as [[[o' l'] f']|] eqn:A; [|inversion H].
  assert (Hout : pname out = fname f) by (destruct (is_alloc f'); inversion H; subst; reflexivity).
  exists f. split; [rewrite E1; apply in_or_app; right; left; auto|].
  split; auto. split; auto.
  intros y Hy Ay. rewrite E1 in Hy, Hs. apply in_app_or in Hy as [Hy|Hy].
  - rewrite Forall_forall in E2. rewrite (E2 y Hy) in Ay. discriminate.
  - apply files_sorted_app_r in Hs. apply files_sorted_cons in Hs as [Hx _].
    destruct Hy as [<-|Hy].
    + unfold le_order. rewrite after_b_irrefl. reflexivity.
    + rewrite Forall_forall in Hx. auto.
Qed.

(* for unordered tags: the first pending file in arrival order *)
Theorem group_pop_arrival g now g' out :
  group_pop g now = (g', Some out) ->
  exists pre f post, gfiles g = pre ++ f :: post /\ fname f = pname out /\ is_alloc f = false /\
                     Forall (fun y => is_alloc y = true) pre.
Proof.
  unfold group_pop. intros H.
  destruct (skip_alloc (kept g) (gfiles g) (gdone g)) as [[k fs] dn] eqn:S.
  destruct (skip_alloc_spec _ _ _ _ _ _ S) as [sk [E1 [E2 _]]].
  destruct fs as [|f rest]; [inversion H|].
  destruct (is_alloc f) eqn:Af; [inversion H|].
  destruct ((0 <? tdelay (gtag g)) && match rest with [] => true | _ => false end
            && (now - ftime f <? tdelay (gtag g))); [inversion H|].
  destruct (allocate f (tchunk (gtag g))) as [[[o' l'] f']|] eqn:A; [|inversion H].
  exists sk, f, rest. split; auto. split; [destruct (is_alloc f'); inversion H; subst; reflexivity|].
  split; auto.
Qed.

(* ------------------------------------------------------------------ *)
(* queue level: groups stay sorted by priority; strict priority          *)

Definition prio (g : group) : Z := tprio (gtag g).

Fixpoint psorted (l : list Z) : Prop :=
  match l with
  | [] => True
  | x :: r => Forall (fun y => y <= x) r /\ psorted r
  end.

Lemma prio_sorted_spec : forall q, prio_sorted q = true <-> psorted (map prio q).
Proof.
  induction q as [|g r IH]; simpl; [tauto|].
  destruct r as [|h r'].
  - simpl. split; auto.
  - rewrite andb_true_iff, Z.leb_le, IH. cbn [map psorted]. split.
    + intros [H1 [H2 H3]]. split; [|split; auto]. constructor; [exact H1|].
      rewrite Forall_forall in *. intros y Hy. specialize (H2 y Hy). unfold prio in *. lia.
    + intros [H1 [H2 H3]]. inversion H1; subst. unfold prio in *. split; auto.
Qed.

Lemma group_pop_same g now g' o :
  group_pop g now = (g', o) -> gtag g' = gtag g /\ gname g' = gname g.
Proof.
  unfold group_pop. destruct (skip_alloc (kept g) (gfiles g) (gdone g)) as [[k fs] dn].
  destruct fs as [|f rest]; [intros H; inversion H; auto|].
  destruct (is_alloc f); [intros H; inversion H; auto|].
  destruct ((0 <? tdelay (gtag g)) && match rest with [] => true | _ => false end
            && (now - ftime f <? tdelay (gtag g))); [intros H; inversion H; auto|].
  destruct (allocate f (tchunk (gtag g))) as [[[o' l'] f']|]; [|intros H; inversion H; auto].
  destruct (is_alloc f'); intros H; inversion H; auto.
Qed.

Lemma delay_insert_map : forall r g,
  psorted (prio g :: map prio r) -> map prio (delay_insert g r) = prio g :: map prio r.
Proof.
  induction r as [|h r IH]; intros g Hs; simpl; auto.
  destruct (tprio (gtag h) =? tprio (gtag g)) eqn:E.
  - apply Z.eqb_eq in E. simpl. rewrite IH.
    + unfold prio. rewrite E. reflexivity.
    + simpl in *. destruct Hs as [H1 [H2 H3]]. inversion H1; subst. split; auto.
  - reflexivity.
Qed.

Lemma pop_aux_map : forall q now q' o,
  psorted (map prio q) -> pop_aux q now = (q', o) -> map prio q' = map prio q.
Proof.
  induction q as [|g r IH]; intros now q' o Hs H; simpl in H.
  - inversion H; auto.
  - destruct (group_pop g now) as [g' [out|]] eqn:G.
    + destruct (group_pop_same _ _ _ _ G) as [Et _]. inversion H; subst.
      rewrite delay_insert_map; unfold prio in *; rewrite Et; auto.
    + destruct (group_pop_same _ _ _ _ G) as [Et _].
      destruct (pop_aux r now) as [r' o'] eqn:P. inversion H; subst.
      simpl. unfold prio at 1 3. rewrite Et. f_equal. eapply IH; eauto. simpl in Hs; tauto.
Qed.

Lemma add_group_sorted : forall q g, psorted (map prio q) -> psorted (map prio (add_group g q)).
Proof.
  induction q as [|h r IH]; intros g Hs; simpl.
  - split; auto.
  - destruct (tprio (gtag h) <? tprio (gtag g)) eqn:E.
    + apply Z.ltb_lt in E. simpl in *. destruct Hs as [H1 H2]. split; [|split; auto].
      constructor; [unfold prio; lia|]. rewrite Forall_forall in *. intros y Hy.
      specialize (H1 y Hy). unfold prio in *. lia.
    + apply Z.ltb_ge in E. simpl in *. destruct Hs as [H1 H2]. split; [|apply IH; auto].
      rewrite Forall_forall in *. intros y Hy.
      assert (Hin : In y (prio g :: map prio r)).
      { clear - Hy. induction r as [|a r IHr]; simpl in *.
        - destruct Hy as [<-|[]]; auto.
        - destruct (tprio (gtag a) <? tprio (gtag g)); simpl in *.
          + destruct Hy as [<-|[<-|Hy]]; auto.
          + destruct Hy as [<-|Hy]; auto. destruct (IHr Hy) as [<-|H]; auto. }
      destruct Hin as [<-|Hin]; [unfold prio; lia | auto].
Qed.

Lemma find_group_in : forall q n g, find_group n q = Some g -> In g q /\ gname g = n.
Proof.
  induction q as [|h r IH]; intros n g H; simpl in H; [discriminate|].
  destruct (name_eqb (gname h) n) eqn:E.
  - inversion H; subst. apply name_eqb_eq in E. split; [left|]; auto.
  - destruct (IH _ _ H). split; [right|]; auto.
Qed.

Definition unique_names (q : queue) : Prop := NoDup (map gname q).

Lemma replace_group_map : forall q n g0 g,
  find_group n q = Some g0 -> gname g = n -> prio g = prio g0 ->
  map prio (replace_group g q) = map prio q.
Proof.
  induction q as [|h r IH]; intros n g0 g F En Ep; simpl in *; [discriminate|].
  subst n. destruct (name_eqb (gname h) (gname g)) eqn:E.
  - inversion F; subst. simpl. rewrite Ep. reflexivity.
  - simpl. f_equal. eapply IH; eauto.
Qed.

Lemma push_one_sorted q it : psorted (map prio q) -> psorted (map prio (push_one q it)).
Proof.
  destruct it as [[f gn] ot]. unfold push_one. intros Hs.
  destruct (find_group gn q) as [g|] eqn:F.
  - destruct (group_push_files g f) as [_ [Et [En _]]].
    destruct (find_group_in _ _ _ F) as [_ Hn].
    rewrite (replace_group_map q gn g (group_push g f)); auto.
    + rewrite En; auto.
    + unfold prio. rewrite Et. reflexivity.
  - destruct ot as [t|]; auto. apply add_group_sorted; auto.
Qed.

Lemma push_sorted : forall batch q, psorted (map prio q) -> psorted (map prio (push q batch)).
Proof.
  unfold push. induction batch as [|it r IH]; intros q Hs; simpl; auto.
  apply IH. apply push_one_sorted; auto.
Qed.

(* C12 invariant over whole histories *)
Theorem qrun_sorted : forall ops q q' outs,
  prio_sorted q = true -> qrun q ops = (q', outs) -> prio_sorted q' = true.
Proof.
  induction ops as [|op r IH]; intros q q' outs Hs H; simpl in H.
  - inversion H; subst; auto.
  - destruct (qstep q op) as [q1 o] eqn:S. destruct (qrun q1 r) as [q2 os] eqn:R.
    inversion H; subst. eapply IH; [|eauto].
    apply prio_sorted_spec. apply prio_sorted_spec in Hs.
    destruct op as [b|now]; simpl in S.
    + inversion S; subst. apply push_sorted; auto.
    + unfold pop in S. rewrite (pop_aux_map _ _ _ _ Hs S). auto.
Qed.

Theorem pop_serves_first_ready : forall q now q' out,
  pop_aux q now = (q', Some out) ->
  exists pre g post, q = pre ++ g :: post /\
    Forall (fun h => group_ready h now = false) pre /\
    snd (group_pop g now) = Some out.
Proof.
  induction q as [|g r IH]; intros now q' out H; simpl in H; [inversion H|].
  destruct (group_pop g now) as [g' [o|]] eqn:G.
  - inversion H; subst. exists [], g, r. repeat split; auto. rewrite G; auto.
  - destruct (pop_aux r now) as [r' o'] eqn:P. inversion H; subst.
    destruct (IH _ _ _ P) as [pre [g0 [post [E [F S]]]]].
    exists (g :: pre), g0, post. subst r. split; auto. split; auto.
    constructor; auto. unfold group_ready. rewrite G. reflexivity.
Qed.

(* the queue is never idle while some group is ready *)
Theorem pop_none_iff_none_ready : forall q now,
  snd (pop_aux q now) = None <-> Forall (fun h => group_ready h now = false) q.
Proof.
  induction q as [|g r IH]; intros now; simpl.
  - split; auto.
  - unfold group_ready at 1. destruct (group_pop g now) as [g' [o|]] eqn:G; simpl.
    + split; [discriminate|]. intros H. inversion H; subst. rewrite G in H2. simpl in H2. discriminate.
    + destruct (pop_aux r now) as [r' o'] eqn:P. simpl. specialize (IH now). rewrite P in IH. simpl in IH.
      rewrite IH. split; intros H.
      * constructor; auto. rewrite G. reflexivity.
      * inversion H; auto.
Qed.

Lemma psorted_app_after : forall pre x post y,
  psorted (pre ++ x :: post) -> In y post -> y <= x.
Proof.
  induction pre as [|p pre IH]; intros x post y Hs Hy; simpl in Hs.
  - destruct Hs as [H _]. rewrite Forall_forall in H. auto.
  - destruct Hs as [_ Hs]. eapply IH; eauto.
Qed.

(* C12: strict priority - whenever a chunk of group g is emitted, no group of
   higher priority is ready *)
Theorem strict_priority : forall q now q' out,
  prio_sorted q = true -> pop q now = (q', Some out) ->
  exists g, In g q /\ snd (group_pop g now) = Some out /\
            forall h, In h q -> group_ready h now = true -> prio h <= prio g.
Proof.
  intros q now q' out Hs H. unfold pop in H.
  destruct (pop_serves_first_ready _ _ _ _ H) as [pre [g [post [E [F S]]]]].
  exists g. split; [subst; apply in_or_app; right; left; auto|]. split; auto.
  intros h Hh Hr. subst q. apply in_app_or in Hh as [Hh|[<-|Hh]].
  - rewrite Forall_forall in F. rewrite (F h Hh) in Hr. discriminate.
  - lia.
  - apply prio_sorted_spec in Hs. rewrite map_app in Hs. simpl in Hs.
    eapply psorted_app_after; eauto. apply in_map; auto.
Qed.

(* C12: a group whose only remaining file is younger than the last-file delay
   is passed over: it is not ready, and Pop goes on to the groups behind it *)
Theorem last_delay_skips : forall g f now,
  gfiles g = [f] -> is_alloc f = false ->
  0 < tdelay (gtag g) -> now - ftime f < tdelay (gtag g) ->
  group_ready g now = false.
Proof.
  intros g f now Hf Ha Hd Hy. unfold group_ready, group_pop. rewrite Hf. simpl. rewrite Ha.
  assert (H1 : 0 <? tdelay (gtag g) = true) by (apply Z.ltb_lt; auto).
  assert (H2 : now - ftime f <? tdelay (gtag g) = true) by (apply Z.ltb_lt; auto).
  rewrite H1, H2. reflexivity.
Qed.

(* ------------------------------------------------------------------ *)
(* C10: the predecessor chain                                            *)

(* D-invariant: the kept link is exactly the most recently completed (or
   skipped pre-allocated) file of the group *)
Definition kept_exact (g : group) : Prop :=
  match kept g, gdone g with
  | Some k, d :: _ => fname k = d
  | None, [] => True
  | _, _ => False
  end.

Definition guard_self (p n : name) : name := if name_eqb p n then [] else p.

Lemma kept_exact_skip k fs dn k' fs' dn' :
  skip_alloc k fs dn = (k', fs', dn') ->
  kept_exact (mkgroup [] (mktag 0 0 0 0) k fs dn) ->
  kept_exact (mkgroup [] (mktag 0 0 0 0) k' fs' dn').
Proof.
  intros S H. destruct (skip_alloc_spec _ _ _ _ _ _ S) as [sk [E1 [E2 [E3 [E4 E5]]]]].
  unfold kept_exact in *. simpl in *. subst k' dn'.
  rewrite <- map_rev. destruct (rev sk) as [|s r]; simpl; auto.
Qed.

Theorem group_pop_prev_exact : forall g now g' out,
  kept_exact g -> group_pop g now = (g', Some out) ->
  kept_exact g' /\
  exists skipped f rest,
    gfiles g = skipped ++ f :: rest /\ fname f = pname out /\
    Forall (fun x => is_alloc x = true) skipped /\ is_alloc f = false /\
    pprev out =
      guard_self
        (if torder (gtag g) =? ONONE then []
         else if frec f then fprev f
         else hd [] (rev (map fname skipped) ++ gdone g))
        (fname f) /\
    (gdone g' = rev (map fname skipped) ++ gdone g \/
     gdone g' = fname f :: rev (map fname skipped) ++ gdone g).
Proof.
  intros g now g' out HK H. unfold group_pop in H.
  destruct (skip_alloc (kept g) (gfiles g) (gdone g)) as [[k fs] dn] eqn:S.
  assert (HK' : kept_exact (mkgroup [] (mktag 0 0 0 0) k fs dn)).
  { eapply kept_exact_skip; [exact S|]. unfold kept_exact in *; simpl; exact HK. }
  destruct (skip_alloc_spec _ _ _ _ _ _ S) as [sk [E1 [E2 [E3 [E4 E5]]]]].
  destruct fs as [|f rest]; [inversion H|].
  destruct (is_alloc f) eqn:Af; [inversion H|].
  destruct ((0 <? tdelay (gtag g)) && match rest with [] => true | _ => false end
            && (now - ftime f <? tdelay (gtag g))); [inversion H|].
  destruct (allocate f (tchunk (gtag g))) as [[[o' l'] f']|] eqn:A; [|inversion H].
  destruct (allocate_keys _ _ _ _ _ A) as [Kn Kt].
  assert (Hk : match k with Some kf => fname kf | None => [] end = hd [] dn).
  { unfold kept_exact in HK'; simpl in HK'. destruct k as [kf|]; destruct dn as [|d dn0]; simpl; auto; tauto. }
  destruct (is_alloc f') eqn:Af'; inversion H; subst g' out; clear H; simpl.
  - split; [unfold kept_exact; simpl; auto|].
    exists sk, f, rest. do 4 (split; [auto|]). split.
    + unfold guard_self. rewrite <- E3. clear - Hk. destruct k as [kf|]; simpl in *; rewrite <- Hk; reflexivity.
    + right. rewrite E3; reflexivity.
  - split; [unfold kept_exact in *; simpl in *; auto|].
    exists sk, f, rest. do 4 (split; [auto|]). split.
    + unfold guard_self. rewrite <- E3. clear - Hk. destruct k as [kf|]; simpl in *; rewrite <- Hk; reflexivity.
    + left. rewrite E3; reflexivity.
Qed.

(* corollaries in the property's words *)
Theorem prev_never_self : forall g now g' out,
  kept_exact g -> group_pop g now = (g', Some out) ->
  pprev out = [] \/ pprev out <> pname out.
Proof.
  intros g now g' out HK H.
  destruct (group_pop_prev_exact _ _ _ _ HK H) as [_ [sk [f [rest [_ [En [_ [_ [Ep _]]]]]]]]].
  rewrite Ep, <- En. unfold guard_self.
  destruct (name_eqb _ (fname f)) eqn:E; [left; auto|].
  right. intros Heq. rewrite Heq, name_eqb_refl in E. discriminate.
Qed.

Theorem prev_none_for_unordered : forall g now g' out,
  kept_exact g -> torder (gtag g) = ONONE -> group_pop g now = (g', Some out) -> pprev out = [].
Proof.
  intros g now g' out HK Ho H.
  destruct (group_pop_prev_exact _ _ _ _ HK H) as [_ [sk [f [rest [_ [_ [_ [_ [Ep _]]]]]]]]].
  rewrite Ep, Ho. simpl. unfold guard_self. destruct (name_eqb [] (fname f)); reflexivity.
Qed.

Theorem prev_none_for_first : forall g now g' out,
  kept_exact g -> gdone g = [] -> group_pop g now = (g', Some out) ->
  (forall x, In x (gfiles g) -> is_alloc x = false) ->
  (forall x, In x (gfiles g) -> frec x = false) ->
  pprev out = [].
Proof.
  intros g now g' out HK Hd H Hna Hnr.
  destruct (group_pop_prev_exact _ _ _ _ HK H) as [_ [sk [f [rest [Ef [_ [Hsk [_ [Ep _]]]]]]]]].
  assert (sk = []).
  { destruct sk as [|s sk']; auto. exfalso. inversion Hsk; subst.
    rewrite (Hna s) in H2; [discriminate|]. rewrite Ef. left; auto. }
  subst sk. rewrite Ep, Hd. rewrite (Hnr f) by (rewrite Ef; left; auto). simpl.
  destruct (torder (gtag g) =? ONONE); unfold guard_self; simpl; destruct (fname f); reflexivity.
Qed.

Theorem recovered_keeps_prev : forall g now g' out,
  kept_exact g -> torder (gtag g) <> ONONE -> group_pop g now = (g', Some out) ->
  forall f, In f (gfiles g) -> fname f = pname out ->
  (forall x y, In x (gfiles g) -> In y (gfiles g) -> fname x = fname y -> x = y) ->
  frec f = true -> pprev out = guard_self (fprev f) (fname f).
Proof.
  intros g now g' out HK Ho H f Hin Hn Huniq Hr.
  destruct (group_pop_prev_exact _ _ _ _ HK H) as [_ [sk [f0 [rest [Ef [En [_ [_ [Ep _]]]]]]]]].
  assert (f0 = f).
  { apply Huniq; [rewrite Ef; apply in_or_app; right; left; auto | auto | congruence]. }
  subst f0. rewrite Ep, Hr. apply Z.eqb_neq in Ho. rewrite Ho. reflexivity.
Qed.

(* pushes keep kept_exact unless they replace the ONLY pending file of a
   group that already completed something (the recorded finding) *)
Definition benign_push (g : group) (f : qfile) : Prop :=
  has_name (fname f) (gfiles g) = true ->
  remove_name (fname f) (gfiles g) = [] -> gdone g = [].

Lemma group_push_kept_exact g f : kept_exact g -> benign_push g f -> kept_exact (group_push g f).
Proof.
  unfold kept_exact, benign_push, group_push. intros HK Hb.
  destruct (has_name (fname f) (gfiles g)) eqn:Hh; simpl; auto.
  destruct (remove_name (fname f) (gfiles g)) eqn:R; simpl; auto.
  rewrite (Hb eq_refl eq_refl). auto.
Qed.

(* the finding: pushing again the only pending file of a group forgets the chain *)
Theorem repush_loses_chain_refuted :
  exists (t : tag) q0 ops outs q',
    q0 = [] /\ qrun q0 ops = (q', outs) /\
    exists o1 o2, outs = [None; Some o1; None; None; Some o2] /\
      torder t = OFIFO /\ pname o1 <> pname o2 /\ pprev o2 = [].
Proof.
  set (t := mktag 0 OFIFO 100 0).
  set (A := mkqf [97] 1 5 0 false [] [] 0 5).
  set (B := mkqf [98] 2 5 0 false [] [] 0 5).
  exists t, [], [QPush [(A, [103], Some t)]; QPop 10; QPush [(B, [103], Some t)];
                QPush [(B, [103], Some t)]; QPop 10].
  eexists. eexists. split; [reflexivity|]. split; [vm_compute; reflexivity|].
  eexists. eexists. split; [reflexivity|]. split; [reflexivity|]. split; [discriminate | reflexivity].
Qed.

(* ------------------------------------------------------------------ *)
(* lifting to whole histories                                            *)

Lemma group_pop_kept_exact_none g now g' :
  kept_exact g -> group_pop g now = (g', None) -> kept_exact g'.
Proof.
  intros HK H. unfold group_pop in H.
  destruct (skip_alloc (kept g) (gfiles g) (gdone g)) as [[k fs] dn] eqn:S.
  assert (HK' : kept_exact (mkgroup [] (mktag 0 0 0 0) k fs dn)).
  { eapply kept_exact_skip; [exact S|]. unfold kept_exact in *; simpl; exact HK. }
  assert (HK2 : kept_exact (mkgroup (gname g) (gtag g) k fs dn)) by (unfold kept_exact in *; simpl in *; exact HK').
  destruct fs as [|f rest]; [inversion H; subst; auto|].
  destruct (is_alloc f); [inversion H; subst; auto|].
  destruct ((0 <? tdelay (gtag g)) && match rest with [] => true | _ => false end
            && (now - ftime f <? tdelay (gtag g))); [inversion H; subst; auto|].
  destruct (allocate f (tchunk (gtag g))) as [[[o' l'] f']|]; [|inversion H; subst; auto].
  destruct (is_alloc f'); inversion H.
Qed.

Lemma delay_insert_in : forall r g x, In x (delay_insert g r) <-> x = g \/ In x r.
Proof.
  induction r as [|h r IH]; intros g x; simpl.
  - split; [intros [H|[]]; auto | intros [H|[]]; auto].
  - destruct (tprio (gtag h) =? tprio (gtag g)); simpl.
    + rewrite IH. split; [intros [H|[H|H]]; auto | intros [H|[H|H]]; auto].
    + split; [intros [H|[H|H]]; auto | intros [H|[H|H]]; auto].
Qed.

Lemma pop_aux_kept_exact : forall q now q' o,
  Forall kept_exact q -> pop_aux q now = (q', o) -> Forall kept_exact q'.
Proof.
  induction q as [|g r IH]; intros now q' o HF H; simpl in H.
  - inversion H; subst; auto.
  - inversion HF as [|x xs Hg Hr]; subst.
    destruct (group_pop g now) as [g' [out|]] eqn:G.
    + inversion H; subst. destruct (group_pop_prev_exact _ _ _ _ Hg G) as [Hg' _].
      apply Forall_forall. intros x Hx. apply delay_insert_in in Hx as [->|Hx]; auto.
      rewrite Forall_forall in Hr; auto.
    + destruct (pop_aux r now) as [r' o'] eqn:P. inversion H; subst.
      constructor; [eapply group_pop_kept_exact_none; eauto | eapply IH; eauto].
Qed.

(* a push is benign when it does not replace the only pending file of a group
   that already completed a file *)
Definition benign_item (q : queue) (it : pushitem) : Prop :=
  let '(f, gn, _) := it in
  match find_group gn q with Some g => benign_push g f | None => True end.

Lemma replace_group_forall (P : group -> Prop) : forall q g,
  Forall P q -> P g -> Forall P (replace_group g q).
Proof.
  induction q as [|h r IH]; intros g HF Hg; simpl; auto.
  inversion HF; subst. destruct (name_eqb (gname h) (gname g)); constructor; auto.
Qed.

Lemma add_group_forall (P : group -> Prop) : forall q g,
  Forall P q -> P g -> Forall P (add_group g q).
Proof.
  induction q as [|h r IH]; intros g HF Hg; simpl; auto.
  inversion HF; subst. destruct (tprio (gtag h) <? tprio (gtag g)); constructor; auto.
Qed.

Lemma push_one_kept_exact q it :
  Forall kept_exact q -> benign_item q it -> Forall kept_exact (push_one q it).
Proof.
  destruct it as [[f gn] ot]. unfold push_one, benign_item. intros HF Hb.
  destruct (find_group gn q) as [g|] eqn:F.
  - destruct (find_group_in _ _ _ F) as [Hin _].
    assert (Hg : kept_exact g) by (rewrite Forall_forall in HF; auto).
    apply replace_group_forall; auto. apply group_push_kept_exact; auto.
  - destruct ot as [t|]; auto. apply add_group_forall; auto.
Qed.

(* histories on D: every pushed item is benign at the moment it is pushed *)
Fixpoint benign_batch (q : queue) (b : list pushitem) : Prop :=
  match b with
  | [] => True
  | it :: r => benign_item q it /\ benign_batch (push_one q it) r
  end.

Fixpoint benign_history (q : queue) (ops : list qop) : Prop :=
  match ops with
  | [] => True
  | QPush b :: r => benign_batch q b /\ benign_history (push q b) r
  | QPop now :: r => benign_history (fst (pop q now)) r
  end.

Lemma push_kept_exact : forall b q,
  Forall kept_exact q -> benign_batch q b -> Forall kept_exact (push q b).
Proof.
  unfold push. induction b as [|it r IH]; intros q HF Hb; simpl; auto.
  destruct Hb as [H1 H2]. apply IH; auto. apply push_one_kept_exact; auto.
Qed.

Theorem qrun_kept_exact : forall ops q q' outs,
  Forall kept_exact q -> benign_history q ops -> qrun q ops = (q', outs) -> Forall kept_exact q'.
Proof.
  induction ops as [|op r IH]; intros q q' outs HF Hb H; simpl in H.
  - inversion H; subst; auto.
  - destruct (qstep q op) as [q1 o] eqn:S. destruct (qrun q1 r) as [q2 os] eqn:R.
    inversion H; subst. destruct op as [b|now]; simpl in S, Hb.
    + inversion S; subst. destruct Hb as [Hb1 Hb2]. eapply IH; [|exact Hb2|exact R].
      apply push_kept_exact; auto.
    + unfold pop in *. rewrite S in Hb. simpl in Hb. eapply IH; [|exact Hb|exact R].
      eapply pop_aux_kept_exact; eauto.
Qed.

(* the predecessor named by a non-resumed file is a file of its own group that
   was completely emitted (or skipped as already sent) BEFORE this chunk *)
Theorem prev_is_done_before : forall g now g' out,
  kept_exact g -> group_pop g now = (g', Some out) ->
  forall f, In f (gfiles g) -> fname f = pname out ->
  (forall x y, In x (gfiles g) -> In y (gfiles g) -> fname x = fname y -> x = y) ->
  frec f = false -> pprev out <> [] ->
  exists skipped, Forall (fun x => is_alloc x = true /\ In x (gfiles g)) skipped /\
    In (pprev out) (rev (map fname skipped) ++ gdone g).
Proof.
  intros g now g' out HK H f Hin Hn Huniq Hr Hne.
  destruct (group_pop_prev_exact _ _ _ _ HK H) as [_ [sk [f0 [rest [Ef [En [Hsk [_ [Ep _]]]]]]]]].
  assert (f0 = f) by (apply Huniq; [rewrite Ef; apply in_or_app; right; left; auto | auto | congruence]).
  subst f0. exists sk. split.
  - rewrite Forall_forall in *. intros x Hx. split; auto. rewrite Ef. apply in_or_app; auto.
  - rewrite Ep, Hr in *. destruct (torder (gtag g) =? ONONE).
    + exfalso. apply Hne. unfold guard_self. simpl. destruct (fname f); reflexivity.
    + unfold guard_self in *. destruct (name_eqb _ (fname f)); [congruence|].
      destruct (rev (map fname sk) ++ gdone g) as [|d r]; simpl in *; [congruence | left; auto].
Qed.
