From Coq Require Import List ZArith Bool Lia.
From STS Require Import Model.Queue Model.Prune Proofs.QueueP.
Import ListNotations.
Open Scope Z_scope.

Lemma removable_dir_old fuel t d : removable fuel t d = true -> pn_dir d = true /\ pn_old d = true.
Proof.
  destruct fuel as [|f]; simpl; [discriminate|].
  rewrite !andb_true_iff. tauto.
Qed.

(* C20: whatever Prune removes is a directory and is older than the given age *)
Theorem prune_removes_only_old_dirs : forall t n,
  In n t -> ~ In n (prune t) -> pn_dir n = true /\ pn_old n = true.
Proof.
  intros t n Hin Hnot. unfold prune in Hnot.
  destruct (removable (prune_fuel t) t n) eqn:R.
  - eapply removable_dir_old; eauto.
  - exfalso. apply Hnot. apply filter_In. split; auto. rewrite R. reflexivity.
Qed.

(* files, and directories younger than the age, always stay *)
Theorem prune_keeps_files_and_young : forall t n,
  In n t -> (pn_dir n = false \/ pn_old n = false) -> In n (prune t).
Proof.
  intros t n Hin Hk. unfold prune. apply filter_In. split; auto.
  destruct (removable (prune_fuel t) t n) eqn:R; auto.
  destruct (removable_dir_old _ _ _ R) as [A B]. destruct Hk; congruence.
Qed.

(* a directory is removed only if every entry it has is itself a directory that is
   removable (so: it holds no file and no young directory, at any depth) *)
Theorem prune_removed_dir_had_only_removable_dirs : forall f t d c,
  removable (S f) t d = true -> In c t -> child_path (pn_path d) (pn_path c) = true ->
  pn_dir c = true /\ removable f t c = true.
Proof.
  intros f t d c R Hin Hc. simpl in R. apply andb_true_iff in R as [_ R].
  rewrite forallb_forall in R. specialize (R c Hin). rewrite Hc in R.
  apply andb_true_iff in R. exact R.
Qed.

(* more fuel removes at least as much (the fuel only bounds the depth) *)
Lemma removable_mono : forall f t d, removable f t d = true -> removable (S f) t d = true.
Proof.
  induction f as [|f IH]; intros t d R; [discriminate|].
  simpl in R. apply andb_true_iff in R as [R1 R2].
  change (removable (S (S f)) t d) with
    (pn_dir d && pn_old d && forallb (fun c => if child_path (pn_path d) (pn_path c) then pn_dir c && removable (S f) t c else true) t).
  rewrite R1. cbn [andb]. rewrite forallb_forall in *. intros c Hc. specialize (R2 c Hc).
  destruct (child_path (pn_path d) (pn_path c)); auto.
  apply andb_true_iff in R2 as [A B]. rewrite A. cbn [andb]. apply IH. exact B.
Qed.

(* nothing that stays lies directly inside a directory that was removed *)
Theorem prune_leaves_no_orphans : forall t d c,
  In d t -> ~ In d (prune t) -> In c t -> child_path (pn_path d) (pn_path c) = true ->
  ~ In c (prune t).
Proof.
  intros t d c Hd Hnd Hc Hch Hin.
  unfold prune in *.
  destruct (removable (prune_fuel t) t d) eqn:R.
  - unfold prune_fuel in R.
    destruct (prune_removed_dir_had_only_removable_dirs _ _ _ _ R Hc Hch) as [_ Rc].
    apply removable_mono in Rc.
    apply filter_In in Hin as [_ Hin]. unfold prune_fuel in Hin. rewrite Rc in Hin. discriminate.
  - apply Hnd. apply filter_In. split; auto. rewrite R. reflexivity.
Qed.

Local Open Scope nat_scope.

Lemma forallb_ext_in {A} (f g : A -> bool) l : (forall x, In x l -> f x = g x) -> forallb f l = forallb g l.
Proof.
  induction l as [|a l IH]; intros H; simpl; [reflexivity|].
  rewrite (H a (or_introl eq_refl)). f_equal. apply IH. intros x Hx. apply H. right. exact Hx.
Qed.

(* ---- the fuel never decides: with at least prune_fuel rounds the answer is the same ---- *)
Lemma child_path_length : forall d c, child_path d c = true -> length c = S (length d).
Proof.
  induction d as [|x d IH]; intros [|y c] H; simpl in H; try discriminate.
  - destruct c; [reflexivity|discriminate].
  - apply andb_true_iff in H as [_ H]. simpl. f_equal. apply IH. exact H.
Qed.

Lemma maxdepth_ge : forall t n, In n t -> length (pn_path n) <= maxdepth t.
Proof.
  induction t as [|a t IH]; intros n H; [destruct H|]. destruct H as [H|H]; simpl.
  - subst. apply Nat.le_max_l.
  - etransitivity; [apply IH; exact H | apply Nat.le_max_r].
Qed.

Lemma removable_stable : forall f t d,
  maxdepth t < S f + length (pn_path d) -> removable (S f) t d = removable (S (S f)) t d.
Proof.
  induction f as [|f IH]; intros t d Hb.
  - change (removable 2 t d) with
      (pn_dir d && pn_old d && forallb (fun c => if child_path (pn_path d) (pn_path c) then pn_dir c && removable 1 t c else true) t).
    change (removable 1 t d) with
      (pn_dir d && pn_old d && forallb (fun c => if child_path (pn_path d) (pn_path c) then pn_dir c && removable 0 t c else true) t).
    f_equal. apply forallb_ext_in. intros c Hc.
    destruct (child_path (pn_path d) (pn_path c)) eqn:E; [|reflexivity].
    exfalso. apply child_path_length in E. pose proof (maxdepth_ge _ _ Hc). lia.
  - change (removable (S (S (S f))) t d) with
      (pn_dir d && pn_old d && forallb (fun c => if child_path (pn_path d) (pn_path c) then pn_dir c && removable (S (S f)) t c else true) t).
    change (removable (S (S f)) t d) with
      (pn_dir d && pn_old d && forallb (fun c => if child_path (pn_path d) (pn_path c) then pn_dir c && removable (S f) t c else true) t).
    f_equal. apply forallb_ext_in. intros c Hc.
    destruct (child_path (pn_path d) (pn_path c)) eqn:E; [|reflexivity].
    f_equal. apply IH. apply child_path_length in E. lia.
Qed.

Theorem fuel_sufficient : forall t d k,
  removable (prune_fuel t + k) t d = removable (prune_fuel t) t d.
Proof.
  intros t d k. induction k as [|k IH]; [rewrite Nat.add_0_r; reflexivity|].
  rewrite Nat.add_succ_r. rewrite <- IH. unfold prune_fuel. symmetry.
  change (S (maxdepth t) + k) with (S (maxdepth t + k)).
  apply removable_stable. lia.
Qed.

(* full characterisation: an entry goes iff it is a directory, old enough, and every
   entry it has goes in the same run (so: it is empty when its turn comes) *)
Theorem prune_spec : forall t d, In d t ->
  (~ In d (prune t) <->
   pn_dir d = true /\ pn_old d = true /\
   forall c, In c t -> child_path (pn_path d) (pn_path c) = true -> ~ In c (prune t)).
Proof.
  intros t d Hd. split.
  - intros Hn. destruct (prune_removes_only_old_dirs t d Hd Hn) as [A B].
    split; [exact A|]. split; [exact B|]. intros c Hc Hch. exact (prune_leaves_no_orphans t d c Hd Hn Hc Hch).
  - intros (A & B & Hall) Hin. unfold prune in Hin. apply filter_In in Hin as [_ Hin].
    rewrite <- (fuel_sufficient t d 1) in Hin. rewrite Nat.add_1_r in Hin.
    assert (R : removable (S (prune_fuel t)) t d = true).
    { change (removable (S (prune_fuel t)) t d) with
        (pn_dir d && pn_old d && forallb (fun c => if child_path (pn_path d) (pn_path c) then pn_dir c && removable (prune_fuel t) t c else true) t).
      rewrite A, B. cbn [andb]. apply forallb_forall. intros c Hc.
      destruct (child_path (pn_path d) (pn_path c)) eqn:E; [|reflexivity].
      specialize (Hall c Hc E).
      destruct (removable (prune_fuel t) t c) eqn:Rc.
      - destruct (removable_dir_old _ _ _ Rc) as [Dc _]. rewrite Dc. reflexivity.
      - exfalso. apply Hall. unfold prune. apply filter_In. split; [exact Hc|]. rewrite Rc. reflexivity. }
    rewrite R in Hin. discriminate.
Qed.
