From Coq Require Import List ZArith Bool Lia.
From STS Require Import Model.Ranges.
Import ListNotations.
Open Scope Z_scope.

(* ------------------------------------------------------------------ *)
(* boolean reflection helpers                                          *)

Lemma in_range_b_spec r i : in_range_b r i = true <-> in_range r i.
Proof. unfold in_range_b, in_range. rewrite andb_true_iff, Z.leb_le, Z.ltb_lt. tauto. Qed.

Lemma covered_b_spec ps i : covered_b ps i = true <-> covered ps i.
Proof.
  unfold covered_b, covered. rewrite existsb_exists.
  split; intros [r [Hin Hr]]; exists r; split; auto; apply in_range_b_spec; auto.
Qed.

Lemma covered_cons r ps i : covered (r :: ps) i <-> in_range r i \/ covered ps i.
Proof.
  unfold covered; split.
  - intros [x [[->|Hin] Hx]]; [left; auto | right; exists x; auto].
  - intros [H|[x [Hin Hx]]]; [exists r; simpl; auto | exists x; simpl; auto].
Qed.

Lemma covered_nil i : ~ covered [] i.
Proof. intros [r [[] _]]. Qed.

(* ------------------------------------------------------------------ *)
(* isCompanionComplete is sound without any ordering hypothesis        *)

Lemma no_gap_covers : forall ps pe i,
  no_gap pe ps = true -> pe <= i < last_end ps pe -> covered ps i.
Proof.
  induction ps as [|[qb qe] rest IH]; intros pe i Hg Hi.
  - simpl in Hi; lia.
  - simpl in Hg. destruct (pe <? qb) eqn:Hlt; [discriminate|].
    apply Z.ltb_ge in Hlt.
    destruct (Z_lt_dec i qe) as [Hin|Hout].
    + apply covered_cons; left; unfold in_range; simpl; lia.
    + apply covered_cons; right. apply (IH qe); auto.
      cbn [last_end] in Hi. lia.
Qed.

Theorem complete_sound : forall ps size,
  complete ps size = true -> forall i, 0 <= i < size -> covered ps i.
Proof.
  intros [|[pb pe] rest] size Hc i Hi; [discriminate|].
  unfold complete in Hc.
  apply andb_true_iff in Hc as [Hc Hg]. apply andb_true_iff in Hc as [Hb He].
  apply Z.eqb_eq in Hb, He. subst pb.
  destruct (Z_lt_dec i pe) as [Hin|Hout].
  - apply covered_cons; left; unfold in_range; simpl; lia.
  - apply covered_cons; right. apply (no_gap_covers rest pe); auto. lia.
Qed.

(* a complete record has a first part starting at 0 and a last one ending at size *)
Theorem complete_ends : forall ps size,
  complete ps size = true ->
  exists pb pe rest, ps = (pb, pe) :: rest /\ pb = 0 /\ last_end rest pe = size.
Proof.
  intros [|[pb pe] rest] size Hc; [discriminate|].
  unfold complete in Hc.
  apply andb_true_iff in Hc as [Hc _]. apply andb_true_iff in Hc as [Hb He].
  apply Z.eqb_eq in Hb, He. eauto 6.
Qed.

(* ------------------------------------------------------------------ *)
(* addCompanionPart never claims a byte that was neither on record nor
   in the new part - for EVERY record and part                         *)

Theorem add_part_sound : forall ps b e i,
  covered (add_part ps b e) i -> covered ps i \/ b <= i < e.
Proof.
  induction ps as [|[pb pe] rest IH]; intros b e i H; simpl in H.
  - apply covered_cons in H as [H|H]; [right; exact H | destruct (covered_nil _ H)].
  - destruct (pe <=? b) eqn:H1.
    + apply covered_cons in H as [H|H].
      * left; apply covered_cons; auto.
      * destruct (IH _ _ _ H) as [H'|H']; [left; apply covered_cons; auto | auto].
    + destruct (e <=? pb) eqn:H2.
      * apply covered_cons in H as [H|H]; [right; exact H | left; exact H].
      * apply covered_cons in H as [H|H]; [right; exact H|].
        left; apply covered_cons; auto.
Qed.

Theorem add_part_has_new : forall ps b e i,
  b <= i < e -> covered (add_part ps b e) i.
Proof.
  induction ps as [|[pb pe] rest IH]; intros b e i H; simpl.
  - apply covered_cons; left; exact H.
  - destruct (pe <=? b); [apply covered_cons; right; auto|].
    destruct (e <=? pb); apply covered_cons; left; exact H.
Qed.

(* retention on D: the new part is disjoint from or identical to every
   recorded part -> nothing acknowledged is dropped                     *)
Theorem add_part_retains : forall ps b e i,
  compatible_b ps b e = true -> covered ps i -> covered (add_part ps b e) i.
Proof.
  induction ps as [|[pb pe] rest IH]; intros b e i Hc H; simpl.
  - destruct (covered_nil _ H).
  - simpl in Hc. apply andb_true_iff in Hc as [Hp Hc].
    destruct (pe <=? b) eqn:H1.
    + apply covered_cons in H as [H|H]; apply covered_cons; auto.
    + destruct (e <=? pb) eqn:H2.
      * apply covered_cons; right; exact H.
      * unfold disjoint_b, range_eqb in Hp; simpl in Hp.
        rewrite H1, H2 in Hp; simpl in Hp.
        apply andb_true_iff in Hp as [Hb He]. apply Z.eqb_eq in Hb, He. subst.
        apply covered_cons in H as [H|H]; apply covered_cons; auto.
Qed.

Theorem add_part_exact : forall ps b e i,
  compatible_b ps b e = true ->
  (covered (add_part ps b e) i <-> covered ps i \/ b <= i < e).
Proof.
  intros; split.
  - apply add_part_sound.
  - intros [H1|H1]; [apply add_part_retains; auto | apply add_part_has_new; auto].
Qed.

(* the record stays sorted, disjoint and non-empty on D *)
Definition lower_bounded (lo : Z) (ps : list range) : Prop :=
  match ps with [] => True | (pb, _) :: _ => lo <= pb end.

Lemma sorted_disjoint_cons pb pe rest :
  sorted_disjoint_b ((pb, pe) :: rest) = true <->
  pb < pe /\ lower_bounded pe rest /\ sorted_disjoint_b rest = true.
Proof.
  cbn [sorted_disjoint_b]. destruct rest as [|[qb qe] r'].
  - rewrite andb_true_r, Z.ltb_lt. simpl. tauto.
  - rewrite !andb_true_iff, Z.ltb_lt, Z.leb_le. simpl. tauto.
Qed.

Lemma add_part_lower_bounded lo ps b e :
  lower_bounded lo ps -> lo <= b -> lower_bounded lo (add_part ps b e).
Proof.
  destruct ps as [|[pb pe] rest]; simpl; auto.
  destruct (pe <=? b); simpl; auto. destruct (e <=? pb); simpl; auto.
Qed.

Theorem add_part_sorted : forall ps b e,
  sorted_disjoint_b ps = true -> b < e -> compatible_b ps b e = true ->
  sorted_disjoint_b (add_part ps b e) = true.
Proof.
  induction ps as [|[pb pe] rest IH]; intros b e Hs Hbe Hc.
  - simpl. rewrite andb_true_r. apply Z.ltb_lt; auto.
  - apply sorted_disjoint_cons in Hs as [Hp [Hlb Hs]].
    simpl in Hc. apply andb_true_iff in Hc as [Hpc Hc].
    simpl. destruct (pe <=? b) eqn:H1.
    + apply sorted_disjoint_cons. split; auto. split.
      * apply add_part_lower_bounded; auto. apply Z.leb_le; auto.
      * apply IH; auto.
    + destruct (e <=? pb) eqn:H2.
      * apply sorted_disjoint_cons. split; auto. split.
        { simpl. apply Z.leb_le; auto. }
        apply sorted_disjoint_cons; auto.
      * unfold disjoint_b, range_eqb in Hpc; simpl in Hpc.
        rewrite H1, H2 in Hpc; simpl in Hpc.
        apply andb_true_iff in Hpc as [Hb He]. apply Z.eqb_eq in Hb, He. subst.
        apply sorted_disjoint_cons; auto.
Qed.

(* fold over a whole history of acknowledged parts *)
Definition add_all (ps : list range) (parts : list range) : list range :=
  fold_left (fun acc p => add_part acc (fst p) (snd p)) parts ps.

(* history discipline D: every part is non-empty and disjoint from or
   identical to every EARLIER part of the same version                  *)
Fixpoint discipline (seen : list range) (parts : list range) : Prop :=
  match parts with
  | [] => True
  | p :: rest =>
      fst p < snd p /\
      Forall (fun q => disjoint_b q p = true \/ q = p) seen /\
      discipline (p :: seen) rest
  end.

Lemma compatible_of_covered_by_seen : forall ps seen b e,
  (forall q, In q ps -> In q seen) ->
  Forall (fun q => disjoint_b q (b, e) = true \/ q = (b, e)) seen ->
  compatible_b ps b e = true.
Proof.
  intros ps seen b e Hsub Hall. unfold compatible_b. apply forallb_forall.
  intros q Hq. rewrite Forall_forall in Hall. destruct (Hall q (Hsub q Hq)) as [H|H].
  - rewrite H; reflexivity.
  - subst q. unfold range_eqb; simpl. rewrite !Z.eqb_refl. apply orb_true_r.
Qed.

Lemma add_part_in : forall ps b e q,
  In q (add_part ps b e) -> In q ps \/ q = (b, e).
Proof.
  induction ps as [|[pb pe] rest IH]; intros b e q H; simpl in H.
  - destruct H as [<-|[]]; auto.
  - destruct (pe <=? b).
    + destruct H as [<-|H]; [left; left; auto|].
      destruct (IH _ _ _ H); [left; right; auto | auto].
    + destruct (e <=? pb).
      * destruct H as [<-|H]; auto.
      * destruct H as [<-|H]; auto. left; right; auto.
Qed.

(* C09, record invariant over whole histories on D:
   sorted + disjoint, and the claimed set is EXACTLY the union of the
   acknowledged parts (nothing invented, nothing dropped). *)
Theorem record_invariant : forall parts ps seen,
  sorted_disjoint_b ps = true ->
  (forall q, In q ps -> In q seen) ->
  (forall i, covered ps i <-> covered seen i) ->
  discipline seen parts ->
  sorted_disjoint_b (add_all ps parts) = true /\
  (forall i, covered (add_all ps parts) i <-> covered (rev parts ++ seen) i).
Proof.
  induction parts as [|[b e] rest IH]; intros ps seen Hs Hsub Hcov Hd.
  - simpl. split; auto.
  - destruct Hd as [Hne [Hall Hd]]. simpl in Hne.
    assert (Hc : compatible_b ps b e = true)
      by (eapply compatible_of_covered_by_seen; eauto).
    cbn [add_all fold_left fst snd]. fold (add_all (add_part ps b e) rest).
    destruct (IH (add_part ps b e) ((b, e) :: seen)) as [IS IC]; auto.
    + apply add_part_sorted; auto.
    + intros q Hq. destruct (add_part_in _ _ _ _ Hq) as [H|H]; [right; auto | left; auto].
    + intros i. rewrite add_part_exact by auto. rewrite covered_cons, Hcov.
      unfold in_range; simpl. tauto.
    + split; auto. intros i. rewrite IC. cbn [rev]. rewrite <- app_assoc. simpl. tauto.
Qed.

(* soundness over ALL histories (no discipline): whatever order, overlap or
   repetition, the record never claims a byte outside the acknowledged parts *)
Theorem record_sound_all : forall parts ps i,
  covered (add_all ps parts) i -> covered ps i \/ covered parts i.
Proof.
  induction parts as [|[b e] rest IH]; intros ps i H.
  - left; exact H.
  - cbn [add_all fold_left fst snd] in H. fold (add_all (add_part ps b e) rest) in H.
    destruct (IH _ _ H) as [H'|H'].
    + destruct (add_part_sound _ _ _ _ H') as [H''|H'']; auto.
      right; apply covered_cons; left; exact H''.
    + right; apply covered_cons; right; exact H'.
Qed.

(* ------------------------------------------------------------------ *)
(* companionPartExists: sound for sorted disjoint records               *)

Fixpoint overlap_total (ps : list range) (b e : Z) : Z :=
  match ps with
  | [] => 0
  | (pb, pe) :: rest => Z.max 0 (Z.min e pe - Z.max b pb) + overlap_total rest b e
  end.

Lemma overlap_total_nonneg ps b e : 0 <= overlap_total ps b e.
Proof. induction ps as [|[pb pe] r IH]; simpl; lia. Qed.

Lemma part_exists_aux_prefix : forall ps b e ov,
  part_exists_aux ps b e ov = true ->
  exists pre suf, ps = pre ++ suf /\ ov + overlap_total pre b e = e - b.
Proof.
  induction ps as [|[pb pe] rest IH]; intros b e ov H; simpl in H.
  - exists [], []. simpl. apply Z.eqb_eq in H. split; auto; lia.
  - destruct (0 <? Z.min e pe - Z.max b pb) eqn:Hn.
    + apply Z.ltb_lt in Hn.
      destruct (ov + (Z.min e pe - Z.max b pb) =? e - b) eqn:Heq.
      * apply Z.eqb_eq in Heq. exists [(pb, pe)], rest. simpl. split; auto. lia.
      * destruct (IH _ _ _ H) as [pre [suf [-> Hs]]].
        exists ((pb, pe) :: pre), suf. simpl. split; auto. lia.
    + apply Z.ltb_ge in Hn.
      destruct (IH _ _ _ H) as [pre [suf [-> Hs]]].
      exists ((pb, pe) :: pre), suf. simpl. split; auto. lia.
Qed.

Lemma overlap_bound : forall ps lo b e,
  sorted_disjoint_b ps = true -> lower_bounded lo ps ->
  overlap_total ps b e <= Z.max 0 (e - Z.max b lo).
Proof.
  induction ps as [|[pb pe] rest IH]; intros lo b e Hs Hlb.
  - simpl; lia.
  - apply sorted_disjoint_cons in Hs as [Hp [Hlb' Hs]]. simpl in Hlb.
    specialize (IH pe b e Hs Hlb'). simpl. lia.
Qed.

Lemma overlap_bound_strict : forall ps lo b e i,
  sorted_disjoint_b ps = true -> lower_bounded lo ps ->
  Z.max b lo <= i < e -> ~ covered ps i ->
  overlap_total ps b e <= e - Z.max b lo - 1.
Proof.
  induction ps as [|[pb pe] rest IH]; intros lo b e i Hs Hlb Hi Hn.
  - simpl; lia.
  - apply sorted_disjoint_cons in Hs as [Hp [Hlb' Hs]]. simpl in Hlb.
    assert (Hnp : ~ (pb <= i < pe)).
    { intro; apply Hn; apply covered_cons; left; unfold in_range; simpl; lia. }
    assert (Hnr : ~ covered rest i).
    { intro; apply Hn; apply covered_cons; right; auto. }
    simpl. destruct (Z_lt_dec i pb) as [Hl|Hl].
    + pose proof (overlap_bound rest pe b e Hs Hlb'). lia.
    + assert (Hi' : Z.max b pe <= i < e) by lia.
      specialize (IH pe b e i Hs Hlb' Hi' Hnr). lia.
Qed.

Lemma sorted_disjoint_prefix : forall pre suf,
  sorted_disjoint_b (pre ++ suf) = true -> sorted_disjoint_b pre = true.
Proof.
  induction pre as [|[pb pe] r IH]; intros suf H; auto.
  cbn [app] in H. apply sorted_disjoint_cons in H as [Hp [Hlb Hs]].
  apply sorted_disjoint_cons. split; auto. split.
  - destruct r as [|[qb qe] r']; simpl in *; auto.
  - eapply IH; eauto.
Qed.

Theorem part_exists_sound : forall ps b e,
  sorted_disjoint_b ps = true -> part_exists ps b e = true ->
  forall i, b <= i < e -> covered ps i.
Proof.
  intros ps b e Hs He i Hi.
  destruct (part_exists_aux_prefix _ _ _ _ He) as [pre [suf [-> Hsum]]].
  destruct (covered_b pre i) eqn:Hc.
  - apply covered_b_spec in Hc. destruct Hc as [r [Hin Hr]].
    exists r; split; auto. apply in_or_app; auto.
  - exfalso.
    assert (Hn : ~ covered pre i) by (rewrite <- covered_b_spec, Hc; discriminate).
    pose proof (sorted_disjoint_prefix _ _ Hs) as Hsp.
    set (lo := match pre with [] => b | (pb, _) :: _ => Z.min b pb end).
    assert (Hlb : lower_bounded lo pre) by (destruct pre as [|[pb pe] r]; simpl; auto; unfold lo; lia).
    assert (Hlo : lo <= b) by (unfold lo; destruct pre as [|[pb pe] r]; lia).
    pose proof (overlap_bound_strict pre lo b e i Hsp Hlb) as Hb.
    assert (Z.max b lo <= i < e) by lia. specialize (Hb H Hn). lia.
Qed.

(* ... and refuted for a record with overlapping parts, which the code's own
   addCompanionPart produces from the history [0,4) [4,8) [2,6) *)
Theorem part_exists_overlap_refuted :
  exists parts b e i,
    part_exists (add_all [] parts) b e = true /\ b <= i < e /\
    ~ covered (add_all [] parts) i.
Proof.
  exists [(0, 4); (4, 8); (2, 6)], 3, 10, 8.
  split; [vm_compute; reflexivity|]. split; [lia|].
  rewrite <- covered_b_spec. vm_compute. discriminate.
Qed.

(* retention is refuted outside D: an overlapping non-identical part
   REPLACES the older range, so acknowledged bytes are forgotten          *)
Theorem retention_overlap_refuted :
  exists ps b e i, covered ps i /\ ~ covered (add_part ps b e) i.
Proof.
  exists [(0, 8)], 5, 10, 2. split.
  - exists (0, 8); split; [left; auto | unfold in_range; simpl; lia].
  - rewrite <- covered_b_spec. vm_compute. discriminate.
Qed.

Lemma range_eqb_eq q p : range_eqb q p = true -> q = p.
Proof.
  destruct q, p; unfold range_eqb; simpl. rewrite andb_true_iff, !Z.eqb_eq.
  intros [-> ->]; reflexivity.
Qed.

Lemma discipline_b_spec : forall parts seen,
  discipline_b seen parts = true -> discipline seen parts.
Proof.
  induction parts as [|p rest IH]; intros seen H; simpl; auto.
  simpl in H. apply andb_true_iff in H as [H H3]. apply andb_true_iff in H as [H1 H2].
  split; [apply Z.ltb_lt; auto|]. split; [|apply IH; auto].
  apply Forall_forall. intros q Hq. rewrite forallb_forall in H2.
  specialize (H2 q Hq). apply orb_true_iff in H2 as [H2|H2]; auto.
  right; apply range_eqb_eq; auto.
Qed.

(* non-vacuity: a concrete non-trivial history satisfies the discipline *)
Example discipline_example :
  discipline [] [(4, 8); (0, 4); (4, 8); (8, 9)] /\
  complete (add_all [] [(4, 8); (0, 4); (4, 8); (8, 9)]) 9 = true.
Proof.
  split; [apply discipline_b_spec|]; vm_compute; reflexivity.
Qed.

(* ------------------------------------------------------------------ *)
(* normal form and the boolean set comparisons used by the harness     *)

Lemma insert_sorted_covered r ps i :
  covered (insert_sorted r ps) i <-> in_range r i \/ covered ps i.
Proof.
  induction ps as [|p rest IH]; simpl.
  - apply covered_cons.
  - destruct (fst r <=? fst p).
    + apply covered_cons.
    + rewrite covered_cons, IH, covered_cons. tauto.
Qed.

Lemma sort_ranges_covered ps i : covered (sort_ranges ps) i <-> covered ps i.
Proof.
  induction ps as [|p rest IH]; simpl; [tauto|].
  rewrite insert_sorted_covered, IH, covered_cons. tauto.
Qed.
