From Coq Require Import List ZArith Bool Lia Permutation.
From STS Require Import Model.Queue Model.Sender Proofs.QueueP.
Import ListNotations.
Open Scope Z_scope.

(* ------------------------------------------------------------------ *)
(* Split                                                                *)

Lemma split_at_spec k ps hd tl :
  split_at k ps = Some (hd, tl) ->
  hd ++ tl = ps /\ length hd = k /\ tl <> [] /\ hd = firstn k ps /\ tl = skipn k ps.
Proof.
  unfold split_at. destruct (Nat.ltb k 1 || Nat.leb (length ps) k) eqn:E; [discriminate|].
  intros Hs; inversion Hs; subst. apply orb_false_iff in E as [E1 E2].
  apply Nat.ltb_ge in E1. apply Nat.leb_gt in E2.
  repeat split; auto.
  - apply firstn_skipn.
  - rewrite firstn_length. lia.
  - intros Hn. assert (length (skipn k ps) = 0%nat) by (rewrite Hn; reflexivity).
    rewrite skipn_length in H. lia.
Qed.

(* ------------------------------------------------------------------ *)
(* Remove (swap with last) keeps every other part                        *)

Lemma remove_swap_perm : forall ps x,
  In x ps -> Permutation (x :: remove_swap ps x) ps.
Proof.
  intros ps x Hin. unfold remove_swap.
  assert (G : forall l, In x l -> exists l1 l2, l = l1 ++ x :: l2 /\ index_of x l = Some (length l1)).
  { induction l as [|y r IH]; intros Hi; [destruct Hi|]. simpl.
    destruct (y =? x) eqn:E.
    - apply Z.eqb_eq in E. subst. exists [], r. auto.
    - destruct Hi as [Hi|Hi]; [subst; rewrite Z.eqb_refl in E; discriminate|].
      destruct (IH Hi) as [l1 [l2 [-> Hidx]]]. rewrite Hidx. exists (y :: l1), l2. auto. }
  destruct (G ps Hin) as [l1 [l2 [-> Hidx]]]. rewrite Hidx.
  assert (S1 : forall (a : list Z) b v, set_nth (a ++ b) (length a) v = a ++ set_nth b 0 v).
  { induction a as [|h a IH]; intros b v; simpl; auto. rewrite IH. reflexivity. }
  rewrite S1. cbn [set_nth].
  destruct l2 as [|z l2'] using rev_ind.
  - (* x is the last element *)
    rewrite last_last.
    replace (l1 ++ [x]) with (l1 ++ [x]) by reflexivity.
    rewrite removelast_last. apply Permutation_cons_append.
  - clear IHl2'.
    assert (L : last (l1 ++ x :: l2' ++ [z]) 0 = z).
    { replace (l1 ++ x :: l2' ++ [z]) with ((l1 ++ x :: l2') ++ [z]) by (rewrite <- app_assoc; reflexivity).
      apply last_last. }
    rewrite L.
    replace (l1 ++ z :: l2' ++ [z]) with ((l1 ++ z :: l2') ++ [z]) by (rewrite <- app_assoc; reflexivity).
    rewrite removelast_last.
    apply Permutation_trans with (l1 ++ x :: z :: l2').
    + apply Permutation_middle.
    + apply Permutation_app_head. apply perm_skip. apply Permutation_cons_append.
Qed.

Lemma remove_swap_notin ps x : ~ In x ps -> remove_swap ps x = ps.
Proof.
  intros Hn. unfold remove_swap.
  assert (index_of x ps = None).
  { induction ps as [|y r IH]; simpl; auto. destruct (y =? x) eqn:E.
    - apply Z.eqb_eq in E. subst. exfalso. apply Hn. left; auto.
    - rewrite IH; auto. intros Hi. apply Hn. right; auto. }
  rewrite H. reflexivity.
Qed.

Definition inb (ch : list Z) (p : Z) : bool := existsb (Z.eqb p) ch.

Lemma inb_spec ch p : inb ch p = true <-> In p ch.
Proof.
  unfold inb. rewrite existsb_exists. split.
  - intros [x [Hx E]]. apply Z.eqb_eq in E. subst; auto.
  - intros Hx. exists p. split; auto. apply Z.eqb_refl.
Qed.

(* removing the changed parts one by one from the live list: what is left
   plus what was removed is what was there (ids are distinct) *)
Definition rm_changed (ch : list Z) (a : list Z) (p : Z) : list Z :=
  if existsb (Z.eqb p) ch then remove_swap a p else a.

Lemma filter_changed_perm_gen : forall ch (todo acc : list Z),
  NoDup todo -> (forall x, In x todo -> In x acc) ->
  Permutation (fold_left (rm_changed ch) todo acc ++ filter (inb ch) todo) acc.
Proof.
  intros ch. induction todo as [|p r IH]; intros acc Hnd Hsub; simpl.
  - rewrite app_nil_r. reflexivity.
  - inversion Hnd as [|y ys Hnp Hnd']; subst. unfold rm_changed at 2. fold (inb ch p).
    destruct (inb ch p) eqn:E.
    + assert (Hp : In p acc) by (apply Hsub; left; auto).
      pose proof (remove_swap_perm acc p Hp) as P.
      assert (Hsub' : forall x, In x r -> In x (remove_swap acc p)).
      { intros x Hx. assert (Hx' : In x acc) by (apply Hsub; right; auto).
        assert (Hne : x <> p) by (intros ->; contradiction).
        apply (Permutation_in _ (Permutation_sym P)) in Hx'. destruct Hx' as [Hx'|Hx']; [congruence|auto]. }
      specialize (IH (remove_swap acc p) Hnd' Hsub').
      apply Permutation_trans with (p :: remove_swap acc p); [|exact P].
      apply Permutation_sym.
      apply Permutation_trans with (p :: (fold_left (rm_changed ch) r (remove_swap acc p) ++ filter (inb ch) r)).
      * apply perm_skip. apply Permutation_sym. exact IH.
      * apply Permutation_middle.
    + apply IH; auto. intros x Hx. apply Hsub. right; auto.
Qed.

Theorem filter_changed_perm ps ch :
  NoDup ps -> Permutation (filter_changed ps ch ++ filter (inb ch) ps) ps.
Proof. intros Hnd. unfold filter_changed. apply (filter_changed_perm_gen ch ps ps); auto. Qed.

(* ------------------------------------------------------------------ *)
(* the loop accounts for every part                                      *)

Lemma NoDup_app_l {A} : forall (l l' : list A), NoDup (l ++ l') -> NoDup l.
Proof.
  induction l as [|x r IH]; intros l' Hn; [constructor|].
  simpl in Hn. inversion Hn; subst. constructor; [|eapply IH; eauto].
  intros Hi. apply H1. apply in_or_app; auto.
Qed.
Lemma NoDup_app_r {A} : forall (l l' : list A), NoDup (l ++ l') -> NoDup l'.
Proof. induction l as [|x r IH]; intros l' Hn; simpl in Hn; auto. inversion Hn; subst. eauto. Qed.

Definition accounted (r : sres) : list Z := concat (forwarded r) ++ sdropped r ++ rest r.

Lemma concat_snoc {A} (l : list (list A)) x : concat (l ++ [x]) = concat l ++ x.
Proof. rewrite concat_app. simpl. rewrite app_nil_r. reflexivity. Qed.

(* the acknowledged head and the remainder are exactly the request, in order;
   the head is the first k parts (all of them when k >= length) *)
Theorem ack_split_exact k ps fwd remain :
  ack_split k ps = (fwd, remain) ->
  concat fwd ++ remain = ps /\
  concat fwd = firstn k ps /\ remain = skipn k ps.
Proof.
  unfold ack_split. destruct (Nat.ltb 0 k) eqn:Ek.
  - destruct (split_at k ps) as [[hd tl]|] eqn:Es.
    + intros E; inversion E; subst. destruct (split_at_spec _ _ _ _ Es) as [A [_ [_ [B C]]]].
      simpl. rewrite app_nil_r. auto.
    + intros E; inversion E; subst. simpl. rewrite !app_nil_r.
      unfold split_at in Es. apply Nat.ltb_lt in Ek.
      destruct (Nat.ltb k 1 || Nat.leb (length ps) k) eqn:O; [|discriminate].
      apply orb_true_iff in O as [O|O]; [apply Nat.ltb_lt in O; lia|]. apply Nat.leb_le in O.
      rewrite firstn_all2 by exact O. rewrite skipn_all2 by exact O. auto.
  - intros E; inversion E; subst. apply Nat.ltb_ge in Ek. assert (k = 0%nat) by lia. subst.
    simpl. auto.
Qed.

(* C08: every part of the payload ends up exactly once among: acknowledged and
   forwarded to the tracker / dropped because its file changed / still to send.
   Nothing is skipped, abandoned or counted twice - for EVERY sequence of
   failures, reported counts, failed recovery requests and file changes. *)
Theorem send_loop_accounts : forall fuel ps evs acc,
  NoDup ps -> rest acc = [] ->
  Permutation (accounted (send_loop fuel ps evs acc)) (concat (forwarded acc) ++ sdropped acc ++ ps).
Proof.
  induction fuel as [|f IH]; intros ps evs acc Hnd Hr; [unfold accounted; simpl; reflexivity|].
  cbn [send_loop]. destruct evs as [|[n ok|n ok|ch] r]; try (unfold accounted; simpl; reflexivity).
  destruct ok.
  - unfold accounted; simpl. rewrite concat_snoc, app_nil_r, <- app_assoc.
    apply Permutation_app_head. apply Permutation_app_comm.
  - destruct (if Nat.eqb n 0 then recover_count r else Some (n, r)) as [[k r1]|];
      [|unfold accounted; simpl; reflexivity].
    destruct (ack_split k ps) as [fwd remain] eqn:Ea.
    destruct (ack_split_exact _ _ _ _ Ea) as [Hsum _].
    assert (Hndr : NoDup remain).
    { rewrite <- Hsum in Hnd. apply NoDup_app_r in Hnd. exact Hnd. }
    destruct remain as [|t0 tl].
    + unfold accounted; simpl. rewrite app_nil_r in Hsum. subst ps.
      rewrite concat_app, app_nil_r, <- app_assoc. apply Permutation_app_head. apply Permutation_app_comm.
    + destruct r1 as [|[n1 ok1|n1 ok1|ch] r2];
        try (unfold accounted; simpl; rewrite concat_app, <- Hsum, <- !app_assoc;
             apply Permutation_app_head; rewrite !app_assoc; apply Permutation_app_tail; apply Permutation_app_comm).
      pose proof (filter_changed_perm (t0 :: tl) ch Hndr) as P.
      fold (inb ch) in *.
      assert (Hfinal : Permutation
                (concat (forwarded acc ++ fwd) ++ (sdropped acc ++ filter (inb ch) (t0 :: tl)) ++ filter_changed (t0 :: tl) ch)
                (concat (forwarded acc) ++ sdropped acc ++ ps)).
      { rewrite concat_app, <- Hsum, <- !app_assoc. apply Permutation_app_head.
        rewrite !app_assoc. rewrite <- (app_assoc (concat fwd)). 
        apply Permutation_trans with ((sdropped acc ++ concat fwd) ++ (filter (inb ch) (t0 :: tl) ++ filter_changed (t0 :: tl) ch)).
        - rewrite <- !app_assoc. apply Permutation_trans with (sdropped acc ++ concat fwd ++ filter (inb ch) (t0 :: tl) ++ filter_changed (t0 :: tl) ch).
          + rewrite !app_assoc. apply Permutation_app_tail. apply Permutation_app_tail. apply Permutation_app_comm.
          + reflexivity.
        - rewrite <- !app_assoc. apply Permutation_app_head. apply Permutation_app_head.
          eapply Permutation_trans; [apply Permutation_app_comm|]. exact P. }
      destruct (filter_changed (t0 :: tl) ch) as [|q qs] eqn:Ef.
      * unfold accounted; simpl. simpl in Hfinal. rewrite app_nil_r in *. exact Hfinal.
      * eapply Permutation_trans; [apply IH|].
        -- assert (Hn : NoDup ((q :: qs) ++ filter (inb ch) (t0 :: tl))).
           { eapply Permutation_NoDup; [apply Permutation_sym; exact P | exact Hndr]. }
           apply NoDup_app_l in Hn. exact Hn.
        -- reflexivity.
        -- simpl. exact Hfinal.
Qed.

Theorem run_send_accounts : forall ps evs,
  NoDup ps -> Permutation (accounted (run_send ps evs)) ps.
Proof. intros. unfold run_send. apply (send_loop_accounts _ ps evs (mksres [] [] [] [] false)); auto. Qed.

(* the head that is counted as sent after a failed request is exactly the
   leading k parts the receiver reported, and the next request - if any - carries
   exactly the rest (minus parts whose file changed) *)
Theorem failed_request_step : forall f ps n r k r1 fwd remain ch r2 acc q qs,
  (if Nat.eqb n 0 then recover_count r else Some (n, r)) = Some (k, r1) ->
  ack_split k ps = (fwd, remain) -> remain <> [] ->
  r1 = EChanged ch :: r2 -> filter_changed remain ch = q :: qs ->
  send_loop (S f) ps (ETx n false :: r) acc =
  send_loop f (q :: qs) r2
    (add_drop (add_fwd (add_req acc ps) fwd) (filter (fun p => existsb (Z.eqb p) ch) remain)).
Proof.
  intros f ps n r k r1 fwd remain ch r2 acc q qs Hc Ha Hne Hr Hf.
  cbn [send_loop]. rewrite Hc, Ha. destruct remain as [|t0 tl]; [congruence|].
  subst r1. rewrite Hf. reflexivity.
Qed.

(* ------------------------------------------------------------------ *)
(* release decisions                                                    *)

Theorem release_needs_positive_answer : forall code polled attempts,
  on_poll code polled attempts = ARelease -> code = POLL_WAITING \/ code = POLL_PASSED.
Proof.
  intros code polled attempts. unfold on_poll.
  destruct (code =? POLL_NONE); [destruct (polled + 1 =? attempts); discriminate|].
  destruct (code =? POLL_FAILED); [discriminate|].
  destruct (code =? POLL_WAITING) eqn:W; [apply Z.eqb_eq in W; auto|].
  destruct (code =? POLL_PASSED) eqn:P; [apply Z.eqb_eq in P; auto|]. discriminate.
Qed.

Theorem negative_answers_never_release : forall code polled attempts,
  code = POLL_NONE \/ code = POLL_FAILED -> on_poll code polled attempts <> ARelease.
Proof.
  intros code polled attempts [-> | ->]; unfold on_poll; simpl.
  - destruct (polled + 1 =? attempts); discriminate.
  - discriminate.
Qed.

(* ------------------------------------------------------------------ *)
(* C17: what a scan returns                                              *)

Theorem scan_returns_iff : forall disabled ih hi min_age mtime f,
  scan_returns disabled ih hi min_age mtime f = true <->
  (disabled = false /\ fi_dir_skipped f = false /\
   (ih = true \/ fi_hidden f = false) /\ fi_ignored f = false /\
   (hi = false \/ fi_included f = true) /\ min_age <= fi_age f /\ fi_size f <> 0 /\
   match fi_cached f with
   | None => True
   | Some (cs, ct) => cs <> fi_size f \/ ct <> mtime
   end).
Proof.
  intros. unfold scan_returns. rewrite !andb_true_iff, !negb_true_iff, Z.leb_le, Z.eqb_neq.
  assert (A : negb ih && fi_hidden f = false <-> (ih = true \/ fi_hidden f = false))
    by (destruct ih, (fi_hidden f); simpl; split; intros; auto; try tauto; destruct H; discriminate).
  assert (B : negb hi || fi_included f = true <-> (hi = false \/ fi_included f = true))
    by (destruct hi, (fi_included f); simpl; split; intros; auto; try tauto; destruct H; discriminate).
  assert (C : match fi_cached f with None => true | Some (cs, ct) => negb (cs =? fi_size f) || negb (ct =? mtime) end = true
              <-> match fi_cached f with None => True | Some (cs, ct) => cs <> fi_size f \/ ct <> mtime end).
  { destruct (fi_cached f) as [[cs ct]|]; [|tauto].
    rewrite orb_true_iff, !negb_true_iff, !Z.eqb_neq. tauto. }
  rewrite A, B, C. tauto.
Qed.

(* an unchanged file (same size and time as its cache entry) is never picked up again *)
Theorem unchanged_not_requeued : forall disabled ih hi min_age mtime f,
  fi_cached f = Some (fi_size f, mtime) -> scan_returns disabled ih hi min_age mtime f = false.
Proof.
  intros. destruct (scan_returns disabled ih hi min_age mtime f) eqn:E; auto.
  apply scan_returns_iff in E. rewrite H in E. destruct E as [_ [_ [_ [_ [_ [_ [_ [E|E]]]]]]]]; congruence.
Qed.

(* ---- scan histories ---- *)
Lemma scan_file_split cfg now c d :
  scan_file cfg now c d = eligible cfg now d && changed_since (sc_get c (df_name d)) d.
Proof.
  unfold scan_file, eligible, scan_returns, changed_since; simpl.
  destruct (sc_get c (df_name d)) as [[s m]|]; rewrite ?andb_true_r; reflexivity.
Qed.

Lemma sc_get_fold : forall ret c n,
  sc_get (fold_left (fun c d => sc_put c (df_name d) (df_size d, df_mtime d)) ret c) n =
  fold_left (fun a d => if name_eqb (df_name d) n then Some (df_size d, df_mtime d) else a) ret (sc_get c n).
Proof.
  induction ret as [|d r IH]; intros c n; simpl; [reflexivity|].
  rewrite IH. simpl. destruct (name_eqb (df_name d) n); reflexivity.
Qed.

Lemma last_returned_app : forall o1 o2 n acc,
  last_returned (o1 ++ o2) n acc = last_returned o2 n (last_returned o1 n acc).
Proof. induction o1 as [|o r IH]; intros; simpl; [reflexivity|apply IH]. Qed.

Lemma scan_run_cons cfg now world r c :
  scan_run ((cfg, now, world) :: r) c =
  filter (scan_file cfg now c) world :: scan_run r (snd (scan_once cfg now world c)).
Proof. reflexivity. Qed.

Lemma scan_cache_cons cfg now world r c :
  scan_cache ((cfg, now, world) :: r) c = scan_cache r (snd (scan_once cfg now world c)).
Proof. reflexivity. Qed.

(* the cache always holds, for every name, the version that was returned last *)
Lemma cache_tracks : forall evs c outs,
  (forall n, sc_get c n = last_returned outs n None) ->
  forall n, sc_get (scan_cache evs c) n = last_returned (outs ++ scan_run evs c) n None.
Proof.
  induction evs as [|[[cfg now] world] r IH]; intros c outs J n.
  - simpl. rewrite app_nil_r. apply J.
  - rewrite scan_run_cons, scan_cache_cons.
    replace (outs ++ filter (scan_file cfg now c) world :: scan_run r (snd (scan_once cfg now world c)))
      with ((outs ++ [filter (scan_file cfg now c) world]) ++ scan_run r (snd (scan_once cfg now world c)))
      by (rewrite <- app_assoc; reflexivity).
    apply IH. intros m. unfold scan_once. cbn [snd]. rewrite sc_get_fold, last_returned_app.
    cbn [last_returned]. rewrite J. reflexivity.
Qed.

Lemma scan_run_app : forall pre rest c,
  scan_run (pre ++ rest) c = scan_run pre c ++ scan_run rest (scan_cache pre c).
Proof.
  induction pre as [|[[cfg now] world] r IH]; intros rest c; [reflexivity|].
  rewrite <- app_comm_cons, !scan_run_cons, scan_cache_cons, IH. reflexivity.
Qed.

Lemma scan_run_length : forall evs c, length (scan_run evs c) = length evs.
Proof.
  induction evs as [|[[cfg now] world] r IH]; intros c; [reflexivity|].
  rewrite scan_run_cons. simpl. rewrite IH. reflexivity.
Qed.

(* C17 over histories: in any history of scans (trees, clocks and the disable
   marker changing arbitrarily in between), a scan returns exactly the files that
   are eligible at that moment and whose (size, mtime) differs from the version
   of that name returned last - in either direction of time. *)
Theorem scan_history : forall pre cfg now world post,
  nth (length pre) (scan_run (pre ++ (cfg, now, world) :: post) []) [] =
  filter (fun d => eligible cfg now d &&
                   changed_since (last_returned (scan_run pre []) (df_name d) None) d) world.
Proof.
  intros. rewrite scan_run_app. rewrite app_nth2; rewrite scan_run_length; [|auto].
  rewrite Nat.sub_diag. simpl. unfold scan_once. simpl.
  apply filter_ext. intros d. rewrite scan_file_split.
  rewrite (cache_tracks pre [] [] (fun _ => eq_refl)). reflexivity.
Qed.

(* ---- finish(): a confirmation applies to the version it is about -------------------- *)
Lemma confirmation_applies_spec cached polled :
  confirmation_applies cached polled = true -> polled = [] \/ cached = polled.
Proof.
  unfold confirmation_applies. destruct polled as [|x r]; [left; reflexivity|].
  intros H. right. apply name_eqb_eq. exact H.
Qed.

(* the entry is marked confirmed by this answer only if the answer is positive and is
   about the version the entry holds: never an entry that replaced that version - hashed
   or not yet hashed *)
Theorem finish_confirms_only_the_version_asked_about :
  forall code cached polled was_done can_delete disk,
  fo_done (finish_step code cached polled was_done can_delete disk) = true ->
  was_done = true \/
  ((code = POLL_PASSED \/ code = POLL_WAITING) /\ (polled = [] \/ cached = polled)).
Proof.
  intros code cached polled was_done can_delete disk. unfold finish_step.
  destruct ((code =? POLL_WAITING) || (code =? POLL_PASSED)) eqn:Ec.
  - destruct (confirmation_applies cached polled) eqn:Ea; cbn [fo_done]; intros H.
    + right. split; [|apply confirmation_applies_spec; exact Ea].
      apply Bool.orb_true_iff in Ec. destruct Ec as [E|E]; apply Z.eqb_eq in E; auto.
    + left. exact H.
  - cbn [fo_done]. intros H. left. exact H.
Qed.

(* the source file is removed by this answer only if the answer is positive, about the
   version the entry holds, the tag says delete, and the file on disk is that version *)
Theorem finish_removes_only_the_confirmed_version :
  forall code cached polled was_done can_delete disk,
  fo_removed (finish_step code cached polled was_done can_delete disk) = true ->
  (code = POLL_PASSED \/ code = POLL_WAITING) /\ (polled = [] \/ cached = polled) /\
  can_delete = true /\ disk = 0.
Proof.
  intros code cached polled was_done can_delete disk. unfold finish_step.
  destruct ((code =? POLL_WAITING) || (code =? POLL_PASSED)) eqn:Ec; [|cbn [fo_removed]; discriminate].
  destruct (confirmation_applies cached polled) eqn:Ea; cbn [fo_removed]; [|discriminate].
  intros H. apply Bool.andb_true_iff in H. destruct H as [H Hd]. apply Bool.andb_true_iff in H. destruct H as [_ Hc].
  split; [apply Bool.orb_true_iff in Ec; destruct Ec as [E|E]; apply Z.eqb_eq in E; auto|].
  split; [apply confirmation_applies_spec; exact Ea|]. split; [exact Hc|apply Z.eqb_eq; exact Hd].
Qed.

(* a negative answer leaves entry and file alone and asks for another attempt *)
Theorem finish_negative_retries : forall code cached polled was_done can_delete disk,
  code <> POLL_PASSED -> code <> POLL_WAITING ->
  finish_step code cached polled was_done can_delete disk = mkfo was_done false true.
Proof.
  intros code cached polled was_done can_delete disk H1 H2. unfold finish_step.
  destruct (code =? POLL_WAITING) eqn:E1; [apply Z.eqb_eq in E1; contradiction|].
  destruct (code =? POLL_PASSED) eqn:E2; [apply Z.eqb_eq in E2; contradiction|]. reflexivity.
Qed.

Example finish_unhashed_replacement_not_confirmed :
  finish_step POLL_PASSED [] [1; 2] false true 0 = mkfo false false false.
Proof. reflexivity. Qed.

(* ---- the cache clean-up ------------------------------------------------------- *)
Lemma sc_present_eqb world m n : name_eqb m n = true -> sc_present world m = sc_present world n.
Proof. intros E. apply name_eqb_eq in E. subst. reflexivity. Qed.

Lemma sc_get_clean_present world c n :
  sc_present world n = true -> sc_get (sc_clean world c) n = sc_get c n.
Proof.
  intros Hp. induction c as [|[m v] r IH]; [reflexivity|].
  cbn [sc_clean filter fst]. destruct (sc_present world m) eqn:Hm.
  - cbn [sc_get]. destruct (name_eqb m n) eqn:E; [reflexivity|]. exact IH.
  - cbn [sc_get]. destruct (name_eqb m n) eqn:E.
    + rewrite (sc_present_eqb world m n E) in Hm. congruence.
    + exact IH.
Qed.

Lemma sc_get_clean_absent world c n :
  sc_present world n = false -> sc_get (sc_clean world c) n = None.
Proof.
  intros Hp. induction c as [|[m v] r IH]; [reflexivity|].
  cbn [sc_clean filter fst]. destruct (sc_present world m) eqn:Hm; [|exact IH].
  cbn [sc_get]. destruct (name_eqb m n) eqn:E; [|exact IH].
  rewrite (sc_present_eqb world m n E) in Hm. congruence.
Qed.

Lemma in_world_present world d : In d world -> sc_present world (df_name d) = true.
Proof.
  intros Hin. unfold sc_present. apply existsb_exists. exists d. split; [exact Hin|apply name_eqb_refl].
Qed.

(* the clean-up is invisible to the scan it precedes: what that scan returns is the
   same with and without it - in particular a file that is still there, unchanged,
   confirmed or not, is not handed to the sender again because the interval passed *)
Theorem clean_invisible_to_scan : forall clean cfg now world c,
  fst (scan_once_c clean cfg now world c) = fst (scan_once cfg now world c).
Proof.
  intros [|] cfg now world c; [|reflexivity].
  unfold scan_once_c, scan_once. cbn [fst]. apply filter_ext_in. intros d Hin.
  unfold scan_file. rewrite (sc_get_clean_present world c (df_name d) (in_world_present world d Hin)).
  reflexivity.
Qed.

(* what the clean-up changes: after it the cache knows a name iff it knew it before
   and the file is there - a name whose file went away is forgotten, so that a file
   created anew under it is hashed and sent whatever its size and time *)
Theorem clean_forgets_exactly_the_absent : forall world c n,
  sc_get (sc_clean world c) n = if sc_present world n then sc_get c n else None.
Proof.
  intros world c n. destruct (sc_present world n) eqn:Hp.
  - apply sc_get_clean_present; exact Hp.
  - apply sc_get_clean_absent; exact Hp.
Qed.

(* ---- histories with clean-ups: a version that was returned and stays where it is - whatever
   else happens to the tree, however many scans and clean-ups go by - is not returned again *)
Definition holds (c : scache) (d : dfile) : Prop :=
  sc_get c (df_name d) = Some (df_size d, df_mtime d).

Lemma fold_no_match : forall (r : list dfile) n acc,
  (forall x, In x r -> name_eqb (df_name x) n = false) ->
  fold_left (fun a x => if name_eqb (df_name x) n then Some (df_size x, df_mtime x) else a) r acc = acc.
Proof.
  induction r as [|x r IH]; intros n acc Hn; [reflexivity|]. cbn [fold_left].
  rewrite (Hn x (or_introl eq_refl)). apply IH. intros y Hy. apply Hn. right. exact Hy.
Qed.

Lemma fold_all_match_same : forall (r : list dfile) n v,
  (forall x, In x r -> name_eqb (df_name x) n = true -> (df_size x, df_mtime x) = v) ->
  fold_left (fun a x => if name_eqb (df_name x) n then Some (df_size x, df_mtime x) else a) r (Some v) = Some v.
Proof.
  induction r as [|x r IH]; intros n v Hs; [reflexivity|]. cbn [fold_left].
  destruct (name_eqb (df_name x) n) eqn:E.
  - rewrite (Hs x (or_introl eq_refl) E). apply IH. intros y Hy. apply Hs. right. exact Hy.
  - apply IH. intros y Hy. apply Hs. right. exact Hy.
Qed.

Lemma nodup_map_filter : forall (p : dfile -> bool) (w : list dfile),
  NoDup (map df_name w) -> NoDup (map df_name (filter p w)).
Proof.
  induction w as [|x w IH]; intros Hn; [constructor|]. cbn [map] in Hn. inversion Hn as [|a l Hx Hr]; subst.
  cbn [filter]. destruct (p x); [|apply IH; exact Hr].
  cbn [map]. constructor; [|apply IH; exact Hr].
  intros Hin. apply Hx. apply in_map_iff in Hin. destruct Hin as [y [Hy Hyin]].
  apply filter_In in Hyin. destruct Hyin as [Hyw _]. apply in_map_iff. exists y. split; assumption.
Qed.

Lemma nodup_map_same_name : forall (w : list dfile) x d,
  NoDup (map df_name w) -> In x w -> In d w -> df_name x = df_name d -> x = d.
Proof.
  induction w as [|y w IH]; intros x d Hn Hx Hd He; [destruct Hx|].
  cbn [map] in Hn. inversion Hn as [|a l Hy Hr]; subst.
  destruct Hx as [->|Hx], Hd as [->|Hd]; [reflexivity| | |apply IH; assumption].
  - exfalso. apply Hy. rewrite He. apply in_map. exact Hd.
  - exfalso. apply Hy. rewrite <- He. apply in_map. exact Hx.
Qed.

Lemma fold_put_get_in : forall (ret : list dfile) c d,
  In d ret -> NoDup (map df_name ret) ->
  sc_get (fold_left (fun c d => sc_put c (df_name d) (df_size d, df_mtime d)) ret c) (df_name d) =
  Some (df_size d, df_mtime d).
Proof.
  intros ret c d Hin Hn. rewrite sc_get_fold. generalize (sc_get c (df_name d)).
  induction ret as [|x r IH]; intros acc; [destruct Hin|].
  cbn [map] in Hn. inversion Hn as [|a l Hx Hr]; subst. cbn [fold_left].
  destruct Hin as [->|Hin].
  - rewrite name_eqb_refl. apply fold_no_match. intros y Hy.
    destruct (name_eqb (df_name y) (df_name d)) eqn:E; [|reflexivity].
    exfalso. apply Hx. apply name_eqb_eq in E. rewrite <- E. apply in_map. exact Hy.
  - apply IH; assumption.
Qed.

Lemma returned_then_holds cl cfg now world c d :
  NoDup (map df_name world) -> In d (fst (scan_once_c cl cfg now world c)) ->
  holds (snd (scan_once_c cl cfg now world c)) d.
Proof.
  intros Hn Hin. unfold holds, scan_once_c, scan_once in *. cbn [fst snd] in *.
  apply fold_put_get_in; [exact Hin|apply nodup_map_filter; exact Hn].
Qed.

Lemma holds_not_returned cl cfg now world c d :
  holds c d -> In d world -> ~ In d (fst (scan_once_c cl cfg now world c)).
Proof.
  intros Hh Hw Hin. rewrite clean_invisible_to_scan in Hin. unfold scan_once in Hin. cbn [fst] in Hin.
  apply filter_In in Hin. destruct Hin as [_ Hs]. rewrite scan_file_split in Hs.
  unfold holds in Hh. rewrite Hh in Hs. unfold changed_since in Hs. rewrite !Z.eqb_refl in Hs.
  cbn [negb orb] in Hs. rewrite andb_false_r in Hs. discriminate.
Qed.

Lemma holds_after_step cl cfg now world c d :
  holds c d -> In d world -> NoDup (map df_name world) ->
  holds (snd (scan_once_c cl cfg now world c)) d.
Proof.
  intros Hh Hw Hn. unfold holds in *.
  set (c1 := if cl then sc_clean world c else c).
  assert (H1 : sc_get c1 (df_name d) = Some (df_size d, df_mtime d)).
  { unfold c1. destruct cl; [|exact Hh]. rewrite sc_get_clean_present; [exact Hh|apply in_world_present; exact Hw]. }
  unfold scan_once_c, scan_once. fold c1. cbn [snd]. rewrite sc_get_fold, H1.
  apply fold_all_match_same. intros x Hx E. apply filter_In in Hx. destruct Hx as [Hxw _].
  apply name_eqb_eq in E. rewrite (nodup_map_same_name world x d Hn Hxw Hw E). reflexivity.
Qed.

Theorem returned_and_kept_not_requeued : forall cl cfg now world c d mid cl' cfg' now' world',
  NoDup (map df_name world) -> In d (fst (scan_once_c cl cfg now world c)) ->
  Forall (fun ev => In d (ev_world ev) /\ NoDup (map df_name (ev_world ev))) mid ->
  In d world' ->
  ~ In d (fst (scan_once_c cl' cfg' now' world' (scan_cache_c mid (snd (scan_once_c cl cfg now world c))))).
Proof.
  intros cl cfg now world c d mid cl' cfg' now' world' Hn Hret Hmid Hw'.
  apply holds_not_returned; [|exact Hw'].
  pose proof (returned_then_holds cl cfg now world c d Hn Hret) as Hh.
  revert Hh. generalize (snd (scan_once_c cl cfg now world c)). clear Hret.
  induction mid as [|[[[mcl mcfg] mnow] mworld] r IH]; intros c0 Hh; [exact Hh|].
  inversion Hmid as [|e l [Hin Hnd] Hr]; subst. cbn [ev_world snd] in Hin, Hnd.
  cbn [scan_cache_c]. apply IH; [exact Hr|]. apply holds_after_step; assumption.
Qed.

(* a file returned by one scan and unchanged at the next one is not returned again *)
Theorem returned_then_unchanged_skipped : forall pre cfg now world cfg' now' world' post d,
  In d (nth (length pre) (scan_run (pre ++ (cfg, now, world) :: (cfg', now', world') :: post) []) []) ->
  NoDup (map df_name world) ->
  ~ In d (nth (S (length pre)) (scan_run (pre ++ (cfg, now, world) :: (cfg', now', world') :: post) []) []).
Proof.
  intros pre cfg now world cfg' now' world' post d Hin Hnd Hin2.
  pose proof (scan_history (pre ++ [(cfg, now, world)]) cfg' now' world' post) as H2.
  rewrite <- app_assoc in H2. simpl in H2. rewrite app_length in H2. simpl in H2.
  rewrite Nat.add_1_r in H2. rewrite H2 in Hin2.
  apply filter_In in Hin2 as [_ Hc0]. apply andb_true_iff in Hc0 as [_ Hc].
  rewrite scan_run_app in Hc. simpl in Hc. rewrite last_returned_app in Hc. simpl in Hc.
  pose proof (scan_history pre cfg now world ((cfg', now', world') :: post)) as H1.
  rewrite H1 in Hin.
  (* the first scan's output is a sub-list of a NoDup-named world containing d:
     folding over it leaves d's version *)
  set (ret := fst (scan_once cfg now world (scan_cache pre []))) in *.
  assert (Hret : In d ret).
  { unfold ret, scan_once; simpl. apply filter_In in Hin as [Hw He]. apply filter_In. split; auto.
    rewrite scan_file_split. rewrite (cache_tracks pre [] [] (fun _ => eq_refl)). exact He. }
  assert (Hnd' : NoDup (map df_name ret)).
  { unfold ret, scan_once; simpl. clear -Hnd. induction world as [|x w IH]; simpl; [constructor|].
    inversion Hnd as [|y ys Hx Hw]; subst.
    destruct (scan_file cfg now (scan_cache pre []) x); simpl; auto.
    constructor; auto. intros Hcc. apply Hx. apply in_map_iff in Hcc as [z [Ez Hz]].
    apply filter_In in Hz as [Hz _]. apply in_map_iff. exists z; auto. }
  assert (F : forall l acc, In d l -> NoDup (map df_name l) ->
            fold_left (fun a x => if name_eqb (df_name x) (df_name d) then Some (df_size x, df_mtime x) else a) l acc
            = Some (df_size d, df_mtime d)).
  { induction l as [|x l IH]; intros acc Hi Hn; [destruct Hi|]. simpl.
    inversion Hn as [|y ys Hx Hl]; subst. destruct Hi as [->|Hi].
    - rewrite name_eqb_refl.
      assert (G : forall l0 a0, ~ In (df_name d) (map df_name l0) ->
                  fold_left (fun a x => if name_eqb (df_name x) (df_name d) then Some (df_size x, df_mtime x) else a) l0 a0 = a0).
      { induction l0 as [|z l0 IH0]; intros a0 Hni; simpl; [reflexivity|].
        destruct (name_eqb (df_name z) (df_name d)) eqn:E.
        - exfalso. apply Hni. left. apply name_eqb_eq. exact E.
        - apply IH0. intros Hcc. apply Hni. right; exact Hcc. }
      apply G. exact Hx.
    - apply IH; auto. }
  unfold ret in Hret, Hnd'. unfold scan_once in Hret, Hnd'. simpl in Hret, Hnd'.
  unfold scan_once in Hc. simpl in Hc.
  rewrite (F _ _ Hret Hnd') in Hc. unfold changed_since in Hc.
  rewrite !Z.eqb_refl in Hc. discriminate.
Qed.

(* ------------------------------------------------------------------ *)
(* C07: the restart plan                                                 *)

Theorem recover_sends_only_missing : forall done ign van chg hh m rs,
  recover_decide done ign van chg hh m = PSendRanges rs -> m = Some rs /\ rs <> [] /\ done = false /\ chg = false.
Proof.
  intros done ign van chg hh m rs. unfold recover_decide.
  destruct done; [discriminate|]. destruct ign; [discriminate|]. destruct van; [discriminate|].
  destruct chg; [discriminate|]. destruct hh; simpl; [|discriminate].
  destruct m as [[|r l]|]; try discriminate. intros E; inversion E; subst. repeat split; auto. discriminate.
Qed.

Theorem recover_never_forgets_unconfirmed : forall ign van chg hh m,
  ign = false -> van = false -> chg = false -> hh = true ->
  recover_decide false ign van chg hh m <> PSkip /\ recover_decide false ign van chg hh m <> PMarkDone.
Proof.
  intros ign van chg hh m -> -> -> ->. unfold recover_decide; simpl.
  destruct m as [[|r l]|]; split; discriminate.
Qed.

Theorem recover_poll_never_releases_on_negative : forall code,
  recover_after_poll code = QFinishAndPlaceholder -> code = POLL_WAITING \/ code = POLL_PASSED.
Proof.
  intros code. unfold recover_after_poll.
  destruct ((code =? POLL_NONE) || (code =? POLL_FAILED)); [discriminate|].
  destruct (code =? POLL_WAITING) eqn:W; [apply Z.eqb_eq in W; auto|].
  destruct (code =? POLL_PASSED) eqn:P; [apply Z.eqb_eq in P; auto|]. discriminate.
Qed.

(* C03: once failures stop, a payload is completely forwarded: nothing stays in
   the send loop *)
Theorem send_loop_finishes_when_faults_stop : forall ps n acc f,
  let r := send_loop (S f) ps [ETx n true] acc in
  finished r = true /\ rest r = [] /\ forwarded r = forwarded acc ++ [ps].
Proof. intros. simpl. auto. Qed.
