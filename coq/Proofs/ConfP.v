From Coq Require Import List ZArith Bool Lia.
From STS Require Import Model.Conf.
Import ListNotations.
Open Scope Z_scope.

(* ------------------------------------------------------------------ *)
(* plain options: omitted (zero) ones take the predecessor's value        *)

Lemma copy_plain_nth : forall t s i,
  (i < length t)%nat -> (length t <= length s)%nat ->
  nth i (copy_plain t s) 0 = if nth i t 0 =? 0 then nth i s 0 else nth i t 0.
Proof.
  induction t as [|x t IH]; intros s i Hi Hl; simpl in Hi; [lia|].
  destruct s as [|y s]; simpl in Hl; [lia|]. simpl.
  destruct i as [|j]; simpl; auto. apply IH; lia.
Qed.

Lemma copy_plain_length t s : length (copy_plain t s) = length t.
Proof. revert s. induction t as [|x t IH]; intros [|y s]; simpl; auto. Qed.

Lemma copy_plain_idem : forall t s, copy_plain (copy_plain t s) s = copy_plain t s.
Proof.
  induction t as [|x t IH]; intros [|y s]; simpl; auto.
  rewrite IH. f_equal. destruct (x =? 0) eqn:E.
  - destruct (y =? 0) eqn:E2; auto.
  - rewrite E. reflexivity.
Qed.

(* explicitly given (non-zero) values are never overridden *)
Theorem explicit_plain_kept : forall t s i,
  (i < length t)%nat -> (length t <= length s)%nat -> nth i t 0 <> 0 ->
  nth i (copy_plain t s) 0 = nth i t 0.
Proof.
  intros t s i Hi Hl Hn. rewrite copy_plain_nth by auto.
  apply Z.eqb_neq in Hn. rewrite Hn. reflexivity.
Qed.

Theorem omitted_plain_inherited : forall t s i,
  (i < length t)%nat -> (length t <= length s)%nat -> nth i t 0 = 0 ->
  nth i (copy_plain t s) 0 = nth i s 0.
Proof. intros t s i Hi Hl Hn. rewrite copy_plain_nth by auto. rewrite Hn. reflexivity. Qed.

(* ------------------------------------------------------------------ *)
(* the propagated list, element by element                               *)

Theorem propagate_step : forall prev s rest,
  propagate_from prev (s :: rest) = inherit s prev :: propagate_from (inherit s prev) rest.
Proof. reflexivity. Qed.

(* an explicit false for stat-payload (marker) survives any predecessor *)
Theorem explicit_false_stat_kept : forall d prev,
  d_stat d = T_FALSE -> c_stat (inherit (parse_src d) prev) = false.
Proof. intros d prev H. unfold inherit, parse_src; simpl. rewrite H. reflexivity. Qed.

(* an explicit error-backoff (even 0) survives any predecessor *)
Theorem explicit_backoff_kept : forall d prev v,
  d_backoff d = Some v -> c_backoff (inherit (parse_src d) prev) = v.
Proof. intros d prev v H. unfold inherit, parse_src; simpl. rewrite H. reflexivity. Qed.

(* omitted ones inherit *)
Theorem omitted_stat_inherited : forall d prev,
  d_stat d = T_ABSENT -> c_stat (inherit (parse_src d) prev) = c_stat prev.
Proof. intros d prev H. unfold inherit, parse_src; simpl. rewrite H. reflexivity. Qed.

Theorem omitted_backoff_inherited : forall d prev,
  d_backoff d = None -> c_backoff (inherit (parse_src d) prev) = c_backoff prev.
Proof. intros d prev H. unfold inherit, parse_src; simpl. rewrite H. reflexivity. Qed.

(* include-hidden has no marker: an explicit false after a true source becomes
   true - the statement "explicit false is never overridden" is REFUTED for it *)
Theorem explicit_false_hidden_refuted :
  exists d prev, d_hidden d = T_FALSE /\ c_hidden (inherit (parse_src d) prev) = true.
Proof.
  exists (mksd [] T_ABSENT T_FALSE None), (mksc [] false false true 0 false).
  split; reflexivity.
Qed.

(* a plain option cannot be given its zero value explicitly (e.g. a tag
   priority 0 after a default tag with priority 5, a target boolean false after
   true): REFUTED as well *)
Theorem explicit_zero_plain_refuted :
  exists t s, nth 0 t 0 = 0 /\ nth 0 (copy_plain t s) 0 <> 0.
Proof. exists [0], [5]. split; [reflexivity | discriminate]. Qed.

(* tags *)
Theorem explicit_false_delete_kept : forall d def,
  td_delete d = T_FALSE -> tc_delete (inherit_tag (parse_tag d) def) = false.
Proof. intros d def H. unfold inherit_tag, parse_tag; simpl. rewrite H. reflexivity. Qed.

Theorem omitted_delete_inherited : forall d def,
  td_delete d = T_ABSENT -> tc_delete (inherit_tag (parse_tag d) def) = tc_delete def.
Proof. intros d def H. unfold inherit_tag, parse_tag; simpl. rewrite H. reflexivity. Qed.

(* ------------------------------------------------------------------ *)
(* re-encoding is a fixed point                                          *)

Definition wf_conf (c : src_conf) : Prop :=
  (c_stat_set c = true -> c_stat c = false) /\ (c_backoff_set c = false -> c_backoff c = 0).

Lemma parse_wf d : wf_conf (parse_src d).
Proof.
  unfold wf_conf, parse_src; simpl. split.
  - intros H. apply Z.eqb_eq in H. rewrite H. reflexivity.
  - destruct (d_backoff d); [discriminate | reflexivity].
Qed.

Section Reencode.
Variable fmt6 : Z -> Z.
Hypothesis fmt6_exact : forall v, fmt6 v = v.    (* the value survives "%f" + ParseFloat *)

Definition pm (c : src_conf) : src_conf := parse_src (marshal_src fmt6 c).

Lemma pm_first c : wf_conf c -> pm c = c.
Proof.
  intros [W1 W2]. destruct c as [pl st ss hd bo bs]; unfold pm, parse_src, marshal_src; simpl in *.
  assert (Hb : (if bs then fmt6 bo else 0) = bo)
    by (destruct bs; [apply fmt6_exact | symmetry; apply W2; reflexivity]).
  destruct st; simpl.
  - destruct ss; [specialize (W1 eq_refl); discriminate|].
    destruct hd; destruct bs; simpl in *; rewrite ?Hb; auto.
  - destruct ss; destruct hd; destruct bs; simpl in *; rewrite ?Hb; auto.
Qed.

Lemma inherit_pm x prev : wf_conf x -> inherit (pm (inherit x prev)) prev = inherit x prev.
Proof.
  intros [W1 W2]. destruct x as [pl st ss hd bo bs]; destruct prev as [ppl pst pss phd pbo pbs].
  unfold pm, inherit, parse_src, marshal_src; simpl in *.
  rewrite copy_plain_idem.
  assert (Hst : ss = true -> st = false) by exact W1.
  destruct bs; simpl.
  - rewrite fmt6_exact.
    destruct ss; simpl.
    + rewrite (Hst eq_refl). simpl. destruct hd; destruct phd; simpl; auto.
    + destruct st; simpl; [destruct hd; destruct phd; simpl; auto|].
      destruct pst; simpl; destruct hd; destruct phd; simpl; auto.
  - rewrite (W2 eq_refl). simpl.
    destruct ss; simpl.
    + rewrite (Hst eq_refl). simpl. destruct hd; destruct phd; simpl; auto.
    + destruct st; simpl; [destruct hd; destruct phd; simpl; auto|].
      destruct pst; simpl; destruct hd; destruct phd; simpl; auto.
Qed.

Lemma propagate_from_pm : forall l prev,
  Forall wf_conf l ->
  propagate_from prev (map pm (propagate_from prev l)) = propagate_from prev l.
Proof.
  induction l as [|x r IH]; intros prev HF; simpl; auto.
  inversion HF; subst. rewrite inherit_pm by auto. f_equal. apply IH; auto.
Qed.

Lemma propagate_pm : forall l, Forall wf_conf l -> propagate (map pm (propagate l)) = propagate l.
Proof.
  intros [|x r] HF; simpl; auto. inversion HF; subst.
  rewrite pm_first by auto. f_equal. apply propagate_from_pm; auto.
Qed.

(* C19: encoding a parsed configuration and parsing it again yields the same
   effective configuration *)
Theorem reencode_fixpoint : forall docs, reencode fmt6 docs = effective docs.
Proof.
  intros docs. unfold reencode, effective. rewrite map_map.
  change (map (fun x => parse_src (marshal_src fmt6 x)) (propagate (map parse_src docs)))
    with (map pm (propagate (map parse_src docs))).
  apply propagate_pm. apply Forall_forall. intros x Hx.
  apply in_map_iff in Hx as [d' [<- _]]. apply parse_wf.
Qed.
End Reencode.

(* ... and is refuted when "%f" does not preserve the value (0.9999999 -> 1) *)
Theorem reencode_backoff_refuted :
  exists (fmt6 : Z -> Z) docs, reencode fmt6 docs <> effective docs.
Proof.
  exists (fun v => v + 1), [mksd [] T_ABSENT T_ABSENT (Some 9999999)].
  vm_compute. discriminate.
Qed.

(* ------------------------------------------------------------------ *)
(* which tag applies                                                     *)

Section Tagging.
Variable ntags : nat.
Variable has_pattern : nat -> bool.
Variable matches name_is : nat -> list Z -> bool.

Lemma tagger_from_spec : forall fuel i s k,
  tagger_from has_pattern matches name_is i fuel s = Some k ->
  (i <= k < i + fuel)%nat /\ has_pattern k = true /\ (name_is k s = true \/ matches k s = true) /\
  forall j, (i <= j < k)%nat -> has_pattern j && (name_is j s || matches j s) = false.
Proof.
  induction fuel as [|f IH]; intros i s k H; simpl in H; [discriminate|].
  destruct (has_pattern i && (name_is i s || matches i s)) eqn:E.
  - inversion H; subst. apply andb_true_iff in E as [E1 E2]. apply orb_true_iff in E2.
    repeat split; auto; try lia.
  - destruct (IH _ _ _ H) as [A [B [C D]]]. repeat split; auto; try lia.
    intros j Hj. destruct (Nat.eq_dec j i) as [->|Hne]; auto. apply D. lia.
Qed.

(* a file gets the FIRST pattern tag that matches (its group), in list order *)
Theorem tagger_first_match : forall s k,
  tagger ntags has_pattern matches name_is s = Some k ->
  (k < ntags)%nat /\ has_pattern k = true /\ (name_is k s = true \/ matches k s = true) /\
  forall j, (j < k)%nat -> has_pattern j && (name_is j s || matches j s) = false.
Proof.
  intros s k H. unfold tagger in H. destruct (tagger_from_spec _ _ _ _ H) as [A [B [C D]]].
  repeat split; auto; try lia. intros j Hj. apply D. lia.
Qed.

(* ... and the default tag's settings otherwise: no pattern tag matches *)
Theorem tagger_none_means_default : forall fuel i s,
  tagger_from has_pattern matches name_is i fuel s = None ->
  forall j, (i <= j < i + fuel)%nat -> has_pattern j && (name_is j s || matches j s) = false.
Proof.
  induction fuel as [|f IH]; intros i s H j Hj; [lia|]. simpl in H.
  destruct (has_pattern i && (name_is i s || matches i s)) eqn:E; [discriminate|].
  destruct (Nat.eq_dec j i) as [->|Hne]; auto. apply (IH (S i) s H). lia.
Qed.
End Tagging.

(* ------------------------------------------------------------------ *)
(* the chunk size of a source's queue                                     *)

Lemma queue_chunk_explicit c b : c <> 0 -> queue_chunk c b = c.
Proof. intros H. unfold queue_chunk. destruct (c =? 0) eqn:E; [apply Z.eqb_eq in E; contradiction|reflexivity]. Qed.

Lemma queue_chunk_omitted b : queue_chunk 0 b = b.
Proof. reflexivity. Qed.

Lemma tags_chunks_in : forall l x, In x (tags_chunks l) -> In x l.
Proof.
  intros [|d r] x H; [exact H|]. cbn [tags_chunks] in H. destruct H as [<-|H]; [left; reflexivity|].
  apply in_map_iff in H. destruct H as [c [Hc Hin]].
  destruct (c =? 0); subst; [left; reflexivity | right; exact Hin].
Qed.

(* every tag chunk-size written anywhere in the document *)
Definition written_chunks (l : list csrc) : list Z :=
  concat (map (fun s => match cs_tags s with Some x => x | None => [] end) l).

(* the row of source number |pre|: for some tag list T made of chunk-sizes written in the
   document (its own, or the inherited ones), and ITS OWN effective bin-size *)
Lemma chunk_row : forall pre pb pt s post,
  (forall x, In x pt -> In x (written_chunks (pre ++ s :: post)) \/ In x pt) ->
  exists T pb',
    nth (length pre) (chunk_table_from pb pt (pre ++ s :: post)) [] =
      map (fun c => queue_chunk c (let b := if cs_bin s =? 0 then pb' else cs_bin s in
                                   if b =? 0 then DEFAULT_BIN else b)) T /\
    (forall x, In x T -> In x pt \/ In x (written_chunks (pre ++ s :: post))).
Proof.
  induction pre as [|a pre IH]; intros pb pt s post Hpt.
  - cbn [app length nth chunk_table_from].
    exists (match cs_tags s with Some x => tags_chunks x | None => pt end), pb. split; [reflexivity|].
    intros x Hx. destruct (cs_tags s) as [t|] eqn:Et.
    + right. apply tags_chunks_in in Hx. unfold written_chunks. cbn [map concat]. rewrite Et.
      apply in_or_app. left. exact Hx.
    + left. exact Hx.
  - cbn [app length nth chunk_table_from].
    set (b := if cs_bin a =? 0 then pb else cs_bin a).
    set (t := match cs_tags a with Some x => tags_chunks x | None => pt end).
    destruct (IH b t s post (fun x H => or_intror H)) as [T [pb' [Hrow HT]]].
    exists T, pb'. split; [exact Hrow|].
    intros x Hx. destruct (HT x Hx) as [Hin|Hin].
    + unfold t in Hin. destruct (cs_tags a) as [ta|] eqn:Ea.
      * right. apply tags_chunks_in in Hin. unfold written_chunks. cbn [map concat]. rewrite Ea.
        apply in_or_app. left. exact Hin.
      * left. exact Hin.
    + right. unfold written_chunks in *. cbn [map concat]. apply in_or_app. right. exact Hin.
Qed.

(* C19: a source that gives a bin-size chunks every tag either with a chunk-size written
   in the document for a tag, or with ITS OWN bin-size - never with another source's *)
Theorem chunk_own_bin_or_written : forall pre s post x,
  cs_bin s <> 0 ->
  In x (nth (length pre) (chunk_table (pre ++ s :: post)) []) ->
  x = cs_bin s \/ (x <> 0 /\ In x (written_chunks (pre ++ s :: post))).
Proof.
  intros pre s post x Hb Hin. unfold chunk_table in Hin.
  destruct (chunk_row pre 0 [] s post (fun x H => or_intror H)) as [T [pb' [Hrow HT]]].
  rewrite Hrow in Hin. cbv zeta in Hin.
  destruct (cs_bin s =? 0) eqn:E; [apply Z.eqb_eq in E; contradiction|]. rewrite E in Hin.
  apply in_map_iff in Hin. destruct Hin as [c [Hc Hin]].
  destruct (Z.eq_dec c 0) as [->|Hne].
  - left. rewrite <- Hc. reflexivity.
  - right. rewrite queue_chunk_explicit in Hc by exact Hne. subst x. split; [exact Hne|].
    destruct (HT c Hin) as [[]|H]; exact H.
Qed.

(* ... and with exactly its own tags when it gives them *)
Lemma chunk_own_tags_from : forall pre pb pt s post t,
  cs_tags s = Some t ->
  exists b, nth (length pre) (chunk_table_from pb pt (pre ++ s :: post)) [] = map (fun c => queue_chunk c b) (tags_chunks t) /\
            (cs_bin s <> 0 -> b = cs_bin s).
Proof.
  induction pre as [|a pre IH]; intros pb pt s post t Ht.
  - cbn [app length nth chunk_table_from]. rewrite Ht. eexists. split; [reflexivity|].
    intros Hb. destruct (cs_bin s =? 0) eqn:E; [apply Z.eqb_eq in E; contradiction|]. rewrite E. reflexivity.
  - cbn [app length nth chunk_table_from]. apply IH. exact Ht.
Qed.

Theorem chunk_own_tags : forall pre s post t,
  cs_tags s = Some t ->
  exists b, nth (length pre) (chunk_table (pre ++ s :: post)) [] = map (fun c => queue_chunk c b) (tags_chunks t) /\
            (cs_bin s <> 0 -> b = cs_bin s).
Proof. intros. apply chunk_own_tags_from. assumption. Qed.

Example chunk_table_two_sources :
  chunk_table [mkcs 1048576 (Some [0; 0; 32768]); mkcs 65536 None; mkcs 0 (Some [0]); mkcs 0 None] =
  [[1048576; 1048576; 32768]; [65536; 65536; 32768]; [65536]; [65536]].
Proof. reflexivity. Qed.

(* ------------------------------------------------------------------ *)
(* what a source's store ignores                                          *)

Lemma ignore_row_own_from : forall pre pinc pign ptags s post inc ign t,
  is_lists s = Some (inc, ign) -> is_tags s = Some t ->
  nth (length pre) (ignore_table_from pinc pign ptags (pre ++ s :: post)) ([], []) =
  (inc, ign ++ [STD_LCK; STD_DISABLED] ++ map fst (filter snd t)).
Proof.
  induction pre as [|a pre IH]; intros pinc pign ptags s post inc ign t Hl Ht.
  - cbn [app length nth ignore_table_from]. rewrite Hl, Ht. reflexivity.
  - cbn [app length nth ignore_table_from].
    destruct (match is_lists a with Some x => x | None => (pinc, pign) end) as [ai ag].
    cbn [nth]. apply IH; assumption.
Qed.

(* C19 / C17: a source that gives its own lists and tags ignores exactly its own ignore
   patterns, the standard ones and the patterns of ITS OWN non-http tags - whatever the
   other sources of the sender say *)
Theorem ignore_row_own : forall pre s post inc ign t,
  is_lists s = Some (inc, ign) -> is_tags s = Some t ->
  nth (length pre) (ignore_table (pre ++ s :: post)) ([], []) =
  (inc, ign ++ [STD_LCK; STD_DISABLED] ++ map fst (filter snd t)).
Proof. intros. apply ignore_row_own_from; assumption. Qed.

(* ... and one that inherits the lists still gets the patterns of its own tags, not the
   predecessor's *)
Theorem ignore_row_inherited_lists : forall s0 s1 post inc ign t0 t1,
  is_lists s0 = Some (inc, ign) -> is_tags s0 = Some t0 ->
  is_lists s1 = None -> is_tags s1 = Some t1 ->
  nth 1 (ignore_table (s0 :: s1 :: post)) ([], []) =
  (inc, ign ++ [STD_LCK; STD_DISABLED] ++ map fst (filter snd t1)) /\
  nth 0 (ignore_table (s0 :: s1 :: post)) ([], []) =
  (inc, ign ++ [STD_LCK; STD_DISABLED] ++ map fst (filter snd t0)).
Proof.
  intros s0 s1 post inc ign t0 t1 H0 H0t H1 H1t.
  unfold ignore_table. cbn [ignore_table_from nth]. rewrite H0, H0t, H1, H1t. split; reflexivity.
Qed.

Example ignore_table_two_sources :
  ignore_table [mkis (Some ([1; 2], [3; 4; 5])) (Some [(200, false); (201, true)]);
                mkis None (Some [(200, false); (202, true)])] =
  [([1; 2], [3; 4; 5; 100; 101; 201]); ([1; 2], [3; 4; 5; 100; 101; 202])].
Proof. reflexivity. Qed.
