From Coq Require Import List ZArith Bool Lia.
From STS Require Import Model.Queue Model.LogM Proofs.QueueP.
Import ListNotations.
Open Scope Z_scope.
Local Arguments Z.eqb : simpl never.
Local Arguments Z.ltb : simpl never.

(* ------------------------------------------------------------------ *)
(* split / join                                                         *)

Lemma no_sep_app a b : no_sep (a ++ b) = no_sep a && no_sep b.
Proof. unfold no_sep. apply forallb_app. Qed.

Lemma split_aux_field : forall f cur rest,
  no_sep f = true -> split_aux cur (f ++ rest) = split_aux (rev f ++ cur) rest.
Proof.
  induction f as [|c f IH]; intros cur rest H; simpl; auto.
  simpl in H. apply andb_true_iff in H as [Hc Hf]. apply negb_true_iff in Hc.
  rewrite Hc. rewrite IH by auto. rewrite <- app_assoc. reflexivity.
Qed.

Lemma split_aux_last f cur : no_sep f = true -> split_aux cur f = [rev cur ++ f].
Proof.
  intros H. rewrite <- (app_nil_r f) at 1. rewrite split_aux_field by auto. simpl.
  rewrite rev_app_distr, rev_involutive. reflexivity.
Qed.

Theorem split_join : forall fields,
  fields <> [] -> Forall (fun f => no_sep f = true) fields -> split (join fields) = fields.
Proof.
  unfold split.
  assert (G : forall fields cur, fields <> [] -> Forall (fun f => no_sep f = true) fields ->
              split_aux cur (join fields) =
              match fields with [] => [] | f :: r => (rev cur ++ f) :: r end).
  { induction fields as [|f rest IH]; intros cur Hne HF; [congruence|].
    inversion HF as [|x xs Hf Hr]; subst.
    destruct rest as [|g rest'].
    - simpl. apply split_aux_last; auto.
    - cbn [join]. rewrite split_aux_field by auto. cbn [split_aux].
      unfold SEP at 1. rewrite Z.eqb_refl. rewrite rev_app_distr, rev_involutive.
      f_equal. rewrite IH; [|discriminate|auto]. reflexivity. }
  intros fields Hne HF. rewrite G by auto. destruct fields; [congruence | reflexivity].
Qed.

(* ------------------------------------------------------------------ *)
(* exact matching of the name field                                     *)

Lemma is_prefix_app p s : is_prefix p (p ++ s) = true.
Proof. induction p as [|x p IH]; simpl; auto. rewrite Z.eqb_refl. auto. Qed.

Lemma prefix_name_exact : forall n m rest,
  no_sep n = true -> no_sep m = true ->
  is_prefix (n ++ [SEP]) (m ++ SEP :: rest) = true -> n = m.
Proof.
  induction n as [|x n IH]; intros m rest Hn Hm H.
  - destruct m as [|y m]; auto. simpl in H. simpl in Hm.
    apply andb_true_iff in Hm as [Hy _]. apply negb_true_iff in Hy.
    apply andb_true_iff in H as [H _]. rewrite Z.eqb_sym in H. congruence.
  - destruct m as [|y m].
    + simpl in H. simpl in Hn. apply andb_true_iff in Hn as [Hx _]. apply negb_true_iff in Hx.
      apply andb_true_iff in H as [H _]. congruence.
    + simpl in *. apply andb_true_iff in H as [Hxy H]. apply Z.eqb_eq in Hxy. subst y.
      apply andb_true_iff in Hn as [_ Hn]. apply andb_true_iff in Hm as [_ Hm].
      f_equal. eapply IH; eauto.
Qed.

Lemma skipn_prefix {A} (p s : list A) : skipn (length p) (p ++ s) = s.
Proof. induction p; simpl; auto. Qed.

Definition clean_rec (r : rrec) : Prop :=
  no_sep (rn r) = true /\ no_sep (rr r) = true /\ no_sep (rh r) = true /\
  no_sep (rsz r) = true /\ no_sep (rtm r) = true.

Lemma line_recv_shape r : line_recv r = rn r ++ SEP :: join [rr r; rh r; rsz r; rtm r; []].
Proof. reflexivity. Qed.

(* C18 (receive log): a record answers a look-up iff it is a record of exactly
   that name, and of exactly that hash when one is given *)
Theorem line_matches_recv : forall n h r,
  n <> [] -> no_sep n = true -> clean_rec r ->
  (line_matches n h (line_recv r) = true <-> n = rn r /\ (h = [] \/ h = rh r)).
Proof.
  intros n h r Hne Hn [C1 [C2 [C3 [C4 C5]]]]. unfold line_matches.
  destruct n as [|x n']; [congruence|]. set (n := x :: n') in *.
  rewrite line_recv_shape. split.
  - destruct (is_prefix (n ++ [SEP]) (rn r ++ SEP :: join [rr r; rh r; rsz r; rtm r; []])) eqn:P; [|discriminate].
    pose proof (prefix_name_exact _ _ _ Hn C1 P) as E. intros H. split; auto.
    destruct h as [|c h']; [left; auto|]. right.
    rewrite E in H. replace (rn r ++ SEP :: join [rr r; rh r; rsz r; rtm r; []])
      with ((rn r ++ [SEP]) ++ join [rr r; rh r; rsz r; rtm r; []]) in H by (rewrite <- app_assoc; reflexivity).
    rewrite skipn_prefix in H. rewrite split_join in H; [|discriminate|repeat constructor; auto].
    simpl in H. apply name_eqb_eq in H. auto.
  - intros [E Hh]. rewrite E.
    replace (rn r ++ SEP :: join [rr r; rh r; rsz r; rtm r; []])
      with ((rn r ++ [SEP]) ++ join [rr r; rh r; rsz r; rtm r; []]) by (rewrite <- app_assoc; reflexivity).
    rewrite is_prefix_app. destruct h as [|c h']; auto.
    rewrite skipn_prefix, split_join; [|discriminate|repeat constructor; auto].
    simpl. destruct Hh as [Hh|Hh]; [discriminate|]. rewrite Hh. apply name_eqb_refl.
Qed.

(* C18 (sent log) *)
Theorem line_matches_sent : forall n h m hh sz tm ms,
  n <> [] -> no_sep n = true -> no_sep m = true -> no_sep hh = true ->
  no_sep sz = true -> no_sep tm = true -> no_sep ms = true ->
  (line_matches n h (line_sent m hh sz tm ms) = true <-> n = m /\ (h = [] \/ h = hh)).
Proof.
  intros n h m hh sz tm ms Hne Hn C1 C2 C3 C4 C5. unfold line_matches.
  destruct n as [|x n']; [congruence|]. set (n := x :: n') in *.
  assert (S : line_sent m hh sz tm ms = (m ++ [SEP]) ++ join [hh; sz; tm; ms]).
  { unfold line_sent. cbn [join]. rewrite <- app_assoc. reflexivity. }
  rewrite S. split.
  - destruct (is_prefix (n ++ [SEP]) ((m ++ [SEP]) ++ join [hh; sz; tm; ms])) eqn:P; [|discriminate].
    rewrite <- app_assoc in P. simpl in P.
    pose proof (prefix_name_exact _ _ _ Hn C1 P) as E. intros H. split; auto.
    destruct h as [|c h']; [left; auto|]. right.
    rewrite E in H. rewrite skipn_prefix in H.
    rewrite split_join in H; [|discriminate|repeat constructor; auto].
    simpl in H. apply name_eqb_eq in H. auto.
  - intros [E Hh]. rewrite E. rewrite is_prefix_app. destruct h as [|c h']; auto.
    rewrite skipn_prefix, split_join; [|discriminate|repeat constructor; auto].
    simpl. destruct Hh as [Hh|Hh]; [discriminate|]. rewrite Hh. apply name_eqb_refl.
Qed.

(* replaying the receive log yields every field as written *)
Theorem parse_roundtrip : forall r,
  clean_rec r -> parse_line (line_recv r) = Some (rn r, rr r, rh r, rsz r, rtm r).
Proof.
  intros r [C1 [C2 [C3 [C4 C5]]]]. unfold parse_line, line_recv.
  rewrite split_join; [|discriminate|repeat constructor; auto]. reflexivity.
Qed.

(* names containing the record separator defeat both (format limitation) *)
Theorem colon_name_refuted :
  exists r, no_sep (rr r) = true /\ no_sep (rh r) = true /\
    parse_line (line_recv r) <> Some (rn r, rr r, rh r, rsz r, rtm r) /\
    exists n, n <> rn r /\ line_matches n [] (line_recv r) = true.
Proof.
  exists (mkrrec [97; 58; 98] [] [104] [49] [50]). split; [reflexivity|]. split; [reflexivity|].
  split; [vm_compute; discriminate|]. exists [97]. split; [discriminate | vm_compute; reflexivity].
Qed.

(* ------------------------------------------------------------------ *)
(* the day walk                                                         *)

Lemma day_of_step t : day_of (t + DAY) = day_of t + 1.
Proof. unfold day_of, DAY. replace (t + 86400) with (t + 1 * 86400) by lia. rewrite Z.div_add; lia. Qed.

Lemma day_of_mono a b : a <= b -> day_of a <= day_of b.
Proof. intros. unfold day_of, DAY. apply Z.div_le_mono; lia. Qed.

Lemma walk_fwd_covers : forall fuel start stop d,
  stop - start + DAY < Z.of_nat fuel * DAY -> start <= stop ->
  day_of start <= d <= day_of stop -> In d (walk_fwd fuel start stop).
Proof.
  induction fuel as [|f IH]; intros start stop d Hf Hs Hd.
  - unfold DAY in *. simpl in Hf. lia.
  - cbn [walk_fwd]. destruct (Z.eq_dec d (day_of start)) as [->|Hne]; [left; auto|].
    right. assert (L : stop <? start = false) by (apply Z.ltb_ge; lia). rewrite L.
    destruct (Z_le_dec (start + DAY) stop) as [Hle|Hgt].
    + apply IH; [unfold DAY in *; lia | auto | rewrite day_of_step; lia].
    + (* next start is beyond stop: it is still visited once *)
      destruct f as [|f']; [unfold DAY in *; simpl in Hf; lia|].
      cbn [walk_fwd]. left. rewrite day_of_step.
      assert (day_of stop <= day_of (start + DAY)) by (apply day_of_mono; lia).
      rewrite day_of_step in H. lia.
Qed.

Lemma day_of_step_back t : day_of (t - DAY) = day_of t - 1.
Proof. unfold day_of, DAY. replace (t - 86400) with (t + (-1) * 86400) by lia. rewrite Z.div_add; lia. Qed.

Lemma walk_bwd_covers : forall fuel start stop d,
  start - stop + DAY < Z.of_nat fuel * DAY -> stop <= start ->
  day_of stop <= d <= day_of start -> In d (walk_bwd fuel start stop).
Proof.
  induction fuel as [|f IH]; intros start stop d Hf Hs Hd.
  - unfold DAY in *. simpl in Hf. lia.
  - cbn [walk_bwd]. destruct (Z.eq_dec d (day_of start)) as [->|Hne]; [left; auto|].
    right. assert (L : start <? stop = false) by (apply Z.ltb_ge; lia). rewrite L.
    destruct (Z_le_dec stop (start - DAY)) as [Hle|Hgt].
    + apply IH; [unfold DAY in *; lia | auto | rewrite day_of_step_back; lia].
    + destruct f as [|f']; [unfold DAY in *; simpl in Hf; lia|].
      cbn [walk_bwd]. left. rewrite day_of_step_back.
      assert (day_of (start - DAY) <= day_of stop) by (apply day_of_mono; lia).
      rewrite day_of_step_back in H. lia.
Qed.

Lemma walk_fuel_enough start stop : Z.abs (stop - start) + DAY < Z.of_nat (walk_fuel start stop) * DAY.
Proof.
  unfold walk_fuel, DAY. rewrite Z2Nat.id.
  - pose proof (Z.div_mod (Z.abs (stop - start)) 86400 ltac:(lia)).
    pose proof (Z.mod_pos_bound (Z.abs (stop - start)) 86400 ltac:(lia)). lia.
  - assert (0 <= Z.abs (stop - start) / 86400) by (apply Z.div_pos; lia). lia.
Qed.

(* every day the window touches is visited, in either direction; an empty
   window visits nothing *)
Theorem walk_covers : forall start stop d,
  start <> stop ->
  Z.min (day_of start) (day_of stop) <= d <= Z.max (day_of start) (day_of stop) ->
  In d (walk start stop).
Proof.
  intros start stop d Hne Hd. unfold walk.
  assert (E : start =? stop = false) by (apply Z.eqb_neq; auto). rewrite E.
  pose proof (walk_fuel_enough start stop) as Hf.
  destruct (stop <? start) eqn:L.
  - apply Z.ltb_lt in L. apply walk_bwd_covers; [lia|lia|].
    pose proof (day_of_mono stop start ltac:(lia)). lia.
  - apply Z.ltb_ge in L. apply walk_fwd_covers; [lia|lia|].
    pose proof (day_of_mono start stop ltac:(lia)). lia.
Qed.

Theorem walk_empty_window : forall t, walk t t = [].
Proof. intros. unfold walk. rewrite Z.eqb_refl. reflexivity. Qed.

(* ------------------------------------------------------------------ *)
(* look-ups                                                             *)

Theorem search_spec : forall lg n h start stop,
  search lg n h start stop = true <->
  exists d line, In d (walk start stop) /\ In line (lines_of d lg) /\ line_matches n h line = true.
Proof.
  intros. unfold search. rewrite existsb_exists. split.
  - intros [d [Hd H]]. apply existsb_exists in H as [line [Hl Hm]]. eauto.
  - intros [d [line [Hd [Hl Hm]]]]. exists d. split; auto. apply existsb_exists. eauto.
Qed.

(* the receive log in the property's words: for logs holding only clean
   records, a look-up answers yes iff a record for exactly that name (and hash)
   was written on a visited day; and every touched day is visited *)
Theorem search_exact_recv : forall (lg : list (Z * list rrec)) n h start stop,
  n <> [] -> no_sep n = true ->
  Forall (fun dl => Forall clean_rec (snd dl)) lg ->
  (search (map (fun dl => (fst dl, map line_recv (snd dl))) lg) n h start stop = true <->
   exists d r, In d (walk start stop) /\
     In r (flat_map (fun dl => if fst dl =? d then snd dl else []) lg) /\
     rn r = n /\ (h = [] \/ rh r = h)).
Proof.
  intros lg n h start stop Hne Hn Hclean. rewrite search_spec.
  assert (L : forall d line, In line (lines_of d (map (fun dl => (fst dl, map line_recv (snd dl))) lg)) <->
               exists r, In r (flat_map (fun dl => if fst dl =? d then snd dl else []) lg) /\ line = line_recv r).
  { intros d line. clear Hclean. induction lg as [|[d' rs] rest IH]; simpl.
    - split; [intros [] | intros [r [[] _]]].
    - destruct (d' =? d).
      + rewrite in_app_iff, IH, in_map_iff. split.
        * intros [[r [E Hr]]|[r [Hr E]]]; [exists r; split; auto; apply in_or_app; auto | exists r; split; auto; apply in_or_app; auto].
        * intros [r [Hr E]]. apply in_app_or in Hr as [Hr|Hr]; [left; exists r; auto | right; exists r; auto].
      + rewrite IH. simpl. tauto. }
  assert (C : forall d r, In r (flat_map (fun dl => if fst dl =? d then snd dl else []) lg) -> clean_rec r).
  { intros d r Hr. apply in_flat_map in Hr as [[d' rs] [Hin Hr]]. simpl in Hr.
    rewrite Forall_forall in Hclean. specialize (Hclean _ Hin). simpl in Hclean.
    destruct (d' =? d); [|destruct Hr]. rewrite Forall_forall in Hclean. auto. }
  split.
  - intros [d [line [Hd [Hl Hm]]]]. apply L in Hl as [r [Hr ->]].
    apply line_matches_recv in Hm; auto; [|eapply C; eauto].
    destruct Hm as [E Hh]. exists d, r. repeat split; auto. destruct Hh; auto.
  - intros [d [r [Hd [Hr [E Hh]]]]]. exists d, (line_recv r). split; auto. split.
    + apply L. eauto.
    + apply line_matches_recv; auto; [eapply C; eauto|]. split; auto. destruct Hh; auto.
Qed.
