(* Model of request validation and path resolution on the receiver (C14, C15).
   Code anchors: http/server.go handleValidate, isSafeSourceName, partsAreLocal,
   routeFile / sanitizeRelativePath; main/server.go standardValidator and the
   "--" mangling of source names; stage: filepath.Join(root, name).
   Paths are lists of segments (the text between separators).  Definitions only. *)
From Coq Require Import List ZArith Bool.
From STS Require Import Model.Queue.    (* name, name_eqb *)
Import ListNotations.
Open Scope Z_scope.

Definition seg := list Z.
Definition DOT : seg := [46].
Definition DOTDOT : seg := [46; 46].

Definition is_dot (s : seg) : bool := name_eqb s DOT.
Definition is_dotdot (s : seg) : bool := name_eqb s DOTDOT.
Definition is_empty (s : seg) : bool := match s with [] => true | _ => false end.

(* path.Clean on the segments of a RELATIVE path; the stack is kept reversed.
   ".." pops a plain segment, otherwise it is kept (leading "..") *)
Fixpoint clean_rel (stack : list seg) (segs : list seg) : list seg :=
  match segs with
  | [] => rev stack
  | s :: r =>
      if is_empty s || is_dot s then clean_rel stack r
      else if is_dotdot s then
        match stack with
        | top :: rest => if is_dotdot top then clean_rel (s :: stack) r else clean_rel rest r
        | [] => clean_rel [s] r
        end
      else clean_rel (s :: stack) r
  end.

(* path.Clean of an ABSOLUTE path: ".." at the root is dropped *)
Fixpoint clean_abs (stack : list seg) (segs : list seg) : list seg :=
  match segs with
  | [] => rev stack
  | s :: r =>
      if is_empty s || is_dot s then clean_abs stack r
      else if is_dotdot s then
        match stack with
        | _ :: rest => clean_abs rest r
        | [] => clean_abs [] r
        end
      else clean_abs (s :: stack) r
  end.

(* filepath.IsLocal on the segments of a name ('absolute' = it began with the
   separator; 'nonempty' = the string was not empty) *)
Definition is_local (absolute nonempty : bool) (segs : list seg) : bool :=
  nonempty && negb absolute &&
  match clean_rel [] segs with
  | top :: _ => negb (is_dotdot top)
  | [] => false          (* "." : the directory itself (refused since fix 2 of the traversal guard) *)
  end.

(* where a file name ends up: Clean(root + "/" + name) *)
Definition resolve (root name : list seg) : list seg := clean_abs [] (root ++ name).

Fixpoint has_prefix (p l : list seg) : bool :=
  match p, l with
  | [], _ => true
  | x :: p', y :: l' => name_eqb x y && has_prefix p' l'
  | _ :: _, [] => false
  end.

Definition plain_seg (s : seg) : bool := negb (is_empty s) && negb (is_dot s) && negb (is_dotdot s).

(* isSafeSourceName: no "." / ".." segment, not empty *)
Definition safe_source (nonempty : bool) (segs : list seg) : bool :=
  nonempty && forallb (fun s => negb (is_dot s) && negb (is_dotdot s)) segs.

(* ---- handleValidate + standardValidator ------------------------------------- *)
Definition ST_400 : Z := 400.
Definition ST_403 : Z := 403.
Definition ST_503 : Z := 503.
Definition ST_PASS : Z := 0.

Fixpoint smem (x : name) (l : list name) : bool :=
  match l with [] => false | y :: r => name_eqb y x || smem x r end.

(* charset_ok = the source matches ^[a-z0-9.\-/]+$ (regexp is library code) *)
Definition standard_valid (sources keys : list name) (source key : name) (charset_ok : bool) : bool :=
  (match sources with [] => true | _ => charset_ok && smem source sources end) &&
  (match keys with [] => true | _ => smem key keys end).

Definition handle_validate (sources keys : list name) (source key : name)
                           (source_segs : list seg) (charset_ok ready : bool) : Z :=
  match source with
  | [] => ST_400
  | _ =>
      if negb (safe_source true source_segs) then ST_400
      else if negb ready then ST_503
      else if negb (standard_valid sources keys source key charset_ok) then ST_403
      else ST_PASS
  end.

(* the routes behind handleValidate: names carried by the request must be local *)
Record req_names := mkrn {
  rn_name : bool * bool * list seg;      (* (absolute, nonempty, segments) *)
  rn_prev : option (bool * list seg);    (* None = empty string *)
  rn_renamed : option (bool * list seg)
}.

Definition names_local (r : req_names) : bool :=
  (let '(a, ne, s) := rn_name r in is_local a ne s) &&
  (match rn_prev r with None => true | Some (a, s) => is_local a true s end) &&
  (match rn_renamed r with None => true | Some (a, s) => is_local a true s end).
