(* Model of the transfer logs (C18).  Code anchor: log/local.go (FileIO.Sent,
   Received, wasWritten, Parse; rollingFile.getPath, each, eachLine, search).
   Lines are byte lists; numbers appear as their decimal digit strings (strconv
   is library code).  Definitions only. *)
From Coq Require Import List ZArith Bool.
From STS Require Import Model.Queue.   (* name, name_eqb *)
Import ListNotations.
Open Scope Z_scope.

Definition SEP : Z := 58.                       (* ':' *)

Definition bytes := list Z.

Fixpoint join (fields : list bytes) : bytes :=
  match fields with
  | [] => []
  | [f] => f
  | f :: rest => f ++ SEP :: join rest
  end.

(* strings.Split(s, ":") *)
Fixpoint split_aux (cur : bytes) (s : bytes) : list bytes :=
  match s with
  | [] => [rev cur]
  | c :: r => if c =? SEP then rev cur :: split_aux [] r else split_aux (c :: cur) r
  end.

Definition split (s : bytes) : list bytes := split_aux [] s.

Fixpoint is_prefix (p s : bytes) : bool :=
  match p, s with
  | [], _ => true
  | x :: p', y :: s' => (x =? y) && is_prefix p' s'
  | _ :: _, [] => false
  end.

(* records as written *)
Record rrec := mkrrec { rn : bytes; rr : bytes; rh : bytes; rsz : bytes; rtm : bytes }.

(* Received: "%s:%s:%s:%d:%d:" *)
Definition line_recv (r : rrec) : bytes := join [rn r; rr r; rh r; rsz r; rtm r; []].

(* Sent: "%s:%s:%d:%d: %d ms"   (ms = " N ms" as one opaque field) *)
Definition line_sent (n h sz tm ms : bytes) : bytes := join [n; h; sz; tm; ms].

(* does this log line answer a look-up for (name, hash)?  hash [] = any *)
Definition line_matches (n h : bytes) (line : bytes) : bool :=
  match n with
  | [] => false
  | _ =>
      let prefix := n ++ [SEP] in
      if is_prefix prefix line then
        match h with
        | [] => true
        | _ =>
            let fields := split (skipn (length prefix) line) in
            let found := if Nat.ltb 4 (length fields) then nth 1 fields [] else nth 0 fields [] in
            name_eqb found h
        end
      else false
  end.

(* Parse: strings.Split(line, ":"); < 4 parts ignored; renamed present when > 4 *)
Definition parse_line (line : bytes) : option (bytes * bytes * bytes * bytes * bytes) :=
  let parts := split line in
  if Nat.ltb (length parts) 4 then None
  else
    let nm := nth 0 parts [] in
    if Nat.ltb 4 (length parts)
    then Some (nm, nth 1 parts [], nth 2 parts [], nth 3 parts [], nth 4 parts [])
    else Some (nm, [], nth 1 parts [], nth 2 parts [], nth 3 parts []).

(* ---- day files and the day walk ------------------------------------------- *)
Definition DAY : Z := 86400.
Definition day_of (t : Z) : Z := t / DAY.       (* UTC seconds *)

(* rollingFile.each: the days whose file is handed to the handler, in order *)
Fixpoint walk_fwd (fuel : nat) (start stop : Z) : list Z :=
  match fuel with
  | O => []
  | S f => day_of start :: if stop <? start then [] else walk_fwd f (start + DAY) stop
  end.

Fixpoint walk_bwd (fuel : nat) (start stop : Z) : list Z :=
  match fuel with
  | O => []
  | S f => day_of start :: if start <? stop then [] else walk_bwd f (start - DAY) stop
  end.

Definition walk_fuel (start stop : Z) : nat := Z.to_nat (Z.abs (stop - start) / DAY + 3).

Definition walk (start stop : Z) : list Z :=
  if start =? stop then []
  else if stop <? start then walk_bwd (walk_fuel start stop) start stop
  else walk_fwd (walk_fuel start stop) start stop.

(* a log = day number -> lines of that day file, oldest first *)
Definition logfiles := list (Z * list bytes).

Fixpoint lines_of (d : Z) (lg : logfiles) : list bytes :=
  match lg with
  | [] => []
  | (d', ls) :: r => if d' =? d then ls ++ lines_of d r else lines_of d r
  end.

(* wasWritten / search *)
Definition search (lg : logfiles) (n h : bytes) (start stop : Z) : bool :=
  existsb (fun d => existsb (line_matches n h) (lines_of d lg)) (walk start stop).

Definition no_sep (f : bytes) : bool := forallb (fun c => negb (c =? SEP)) f.
