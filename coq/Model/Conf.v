(* Model of configuration inheritance and re-encoding (C19).
   Code anchor: conf.go ClientConf.propagate, SourceConf/TagConf applyAux and
   MarshalJSON, reflectutil.CopyStruct / IsZero; main/client.go tagger /
   grouper / nameToTag.  The model starts at the decoded document: every option
   is a number, 0 = the type's zero value = "omitted" as far as Go can tell.
   Definitions only. *)
From Coq Require Import List ZArith Bool.
Import ListNotations.
Open Scope Z_scope.

(* tri-state spellings of the document *)
Definition T_ABSENT : Z := 0.
Definition T_TRUE : Z := 1.
Definition T_FALSE : Z := 2.

(* a source as written: plain options (a list, position = option), and the
   three special ones *)
Record src_doc := mksd {
  d_plain : list Z;          (* threads, durations, strings, sizes, ... : 0 = omitted/zero *)
  d_stat : Z;                (* stat-payload: tri-state, HAS an is-set marker *)
  d_hidden : Z;              (* include-hidden: tri-state, NO marker *)
  d_backoff : option Z       (* error-backoff: None = absent; marker set when present (value may be 0) *)
}.

(* a parsed (and then propagated) source *)
Record src_conf := mksc {
  c_plain : list Z;
  c_stat : bool; c_stat_set : bool;
  c_hidden : bool;
  c_backoff : Z; c_backoff_set : bool
}.

Definition parse_src (d : src_doc) : src_conf :=
  mksc (d_plain d)
       (d_stat d =? T_TRUE) (d_stat d =? T_FALSE)
       (d_hidden d =? T_TRUE)
       (match d_backoff d with Some v => v | None => 0 end)
       (match d_backoff d with Some _ => true | None => false end).

(* CopyStruct on the plain fields: zero fields take the source's value *)
Fixpoint copy_plain (tgt src : list Z) : list Z :=
  match tgt, src with
  | t :: tr, s :: sr => (if t =? 0 then s else t) :: copy_plain tr sr
  | _, _ => tgt
  end.

(* one propagation step: tgt inherits from the (already propagated) src *)
Definition inherit (tgt src : src_conf) : src_conf :=
  mksc (copy_plain (c_plain tgt) (c_plain src))
       (* StatPayload: copied when false, restored when the marker is set *)
       (if c_stat_set tgt then c_stat tgt else (if c_stat tgt then true else c_stat src))
       (c_stat_set tgt)          (* unexported fields are not copied *)
       (* IncludeHidden: a plain bool - false is "zero" and is overwritten *)
       (if c_hidden tgt then true else c_hidden src)
       (if c_backoff_set tgt then c_backoff tgt else (if c_backoff tgt =? 0 then c_backoff src else c_backoff tgt))
       (c_backoff_set tgt).

Fixpoint propagate_from (prev : src_conf) (rest : list src_conf) : list src_conf :=
  match rest with
  | [] => []
  | s :: r => let s' := inherit s prev in s' :: propagate_from s' r
  end.

Definition propagate (l : list src_conf) : list src_conf :=
  match l with
  | [] => []
  | s :: r => s :: propagate_from s r
  end.

Definition effective (docs : list src_doc) : list src_conf := propagate (map parse_src docs).

(* ---- re-encoding: MarshalJSON of a propagated source, as a document ---------
   fmt6 = what "%f" + ParseFloat do to the error-backoff value *)
Section Reencode.
Variable fmt6 : Z -> Z.

Definition marshal_src (c : src_conf) : src_doc :=
  mksd (c_plain c)
       (if c_stat c then T_TRUE else if c_stat_set c then T_FALSE else T_ABSENT)
       (if c_hidden c then T_TRUE else T_FALSE)
       (if c_backoff_set c then Some (fmt6 (c_backoff c)) else None).

Definition reencode (docs : list src_doc) : list src_conf :=
  effective (map marshal_src (effective docs)).
End Reencode.

(* ---- tags: tag j > 0 inherits from tag 0 (the default tag) ------------------ *)
Record tag_doc := mktd { td_plain : list Z; td_delete : Z }.      (* delete: tri-state with marker *)
Record tag_conf := mktc { tc_plain : list Z; tc_delete : bool; tc_delete_set : bool }.

Definition parse_tag (d : tag_doc) : tag_conf :=
  mktc (td_plain d) (td_delete d =? T_TRUE) (td_delete d =? T_FALSE).

Definition inherit_tag (t def : tag_conf) : tag_conf :=
  mktc (copy_plain (tc_plain t) (tc_plain def))
       (if tc_delete_set t then tc_delete t else (if tc_delete t then true else tc_delete def))
       (tc_delete_set t).

Definition propagate_tags (l : list tag_conf) : list tag_conf :=
  match l with
  | [] => []
  | d :: r => d :: map (fun t => inherit_tag t d) r
  end.

(* ---- which tag applies to a file (main/client.go) ------------------------------
   tags are numbered; matches i s = "pattern of tag i matches string s";
   has_pattern i = tag i is not the default tag; tag_name i = its pattern text *)
Section Tagging.
Variable ntags : nat.
Variable has_pattern : nat -> bool.
Variable matches : nat -> list Z -> bool.
Variable name_is : nat -> list Z -> bool.       (* qtags[i].Name == s *)

Fixpoint tagger_from (i : nat) (fuel : nat) (s : list Z) : option nat :=
  match fuel with
  | O => None
  | S f => if has_pattern i && (name_is i s || matches i s) then Some i else tagger_from (S i) f s
  end.

Definition tagger (s : list Z) : option nat := tagger_from 0 ntags s.

(* grouper: group_of = the first submatch of group-by (None: no usable group) *)
Variable group_of : list Z -> option (list Z).

(* the tag of a file, for the queue (priority, order, chunk) and for the broker
   (delete, in-order): both go through the group *)
Definition file_tag (name : list Z) : option nat :=
  match group_of name with
  | Some g => tagger g
  | None =>
      (* the tag's own pattern text becomes the group; it then resolves to that tag *)
      tagger name
  end.
End Tagging.

(* ---- the chunk size of a source's queue, per tag (main/client.go init) ----------
   a tag without chunk-size is chunked with the bin-size of THE SOURCE the queue
   belongs to; a source without tags takes the tag list of the source before it (the
   same objects), a source without bin-size that source's bin-size; a tag j > 0
   without chunk-size takes the default tag's (propagate). 0 = omitted. *)
Definition DEFAULT_BIN : Z := 10737418240.   (* 10 GiB, when no source gives one *)

Definition queue_chunk (tag_chunk bin : Z) : Z := if tag_chunk =? 0 then bin else tag_chunk.

Definition tags_chunks (l : list Z) : list Z :=
  match l with
  | [] => []
  | d :: r => d :: map (fun c => if c =? 0 then d else c) r
  end.

Record csrc := mkcs { cs_bin : Z; cs_tags : option (list Z) }.

Fixpoint chunk_table_from (pbin : Z) (ptags : list Z) (l : list csrc) : list (list Z) :=
  match l with
  | [] => []
  | s :: r =>
      let b := if cs_bin s =? 0 then pbin else cs_bin s in
      let t := match cs_tags s with Some x => tags_chunks x | None => ptags end in
      map (fun c => queue_chunk c (if b =? 0 then DEFAULT_BIN else b)) t :: chunk_table_from b t r
  end.

Definition chunk_table (l : list csrc) : list (list Z) := chunk_table_from 0 [] l.

(* ---- what a source's store ignores (main/client.go init) ---------------------------
   the source's effective ignore list (own, or the preceding source's when it gives
   neither include nor ignore), the two standard ignores (lock files, the disable
   marker), and the patterns of ITS OWN effective tags whose method is not http.
   Patterns are numbers here (their identity is all that matters). *)
Definition STD_LCK : Z := 100.
Definition STD_DISABLED : Z := 101.

Record isrc := mkis {
  is_lists : option (list Z * list Z);     (* include, ignore - both given or both omitted *)
  is_tags : option (list (Z * bool))       (* tag pattern, method is not http; None = inherited *)
}.

Fixpoint ignore_table_from (pinc pign : list Z) (ptags : list (Z * bool)) (l : list isrc)
  : list (list Z * list Z) :=
  match l with
  | [] => []
  | s :: r =>
      let '(inc, ign) := match is_lists s with Some x => x | None => (pinc, pign) end in
      let tags := match is_tags s with Some t => t | None => ptags end in
      (inc, ign ++ [STD_LCK; STD_DISABLED] ++ map fst (filter snd tags)) :: ignore_table_from inc ign tags r
  end.

Definition ignore_table (l : list isrc) : list (list Z * list Z) := ignore_table_from [] [] [] l.
