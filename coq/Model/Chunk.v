(* Model of chunk allocation and payload packing (C11).
   Code anchors: queue/queue.go sortedFile.allocate/isAllocated (129-147),
   client/client.go recoverFile.Allocate/IsAllocated/GetSendSize (1425-1447),
   binnable (1459-1485), startBin loop (795-871), payload/bin.go NewBin /
   IsFull / Add / Split (113-221).  Definitions only. *)
From Coq Require Import List ZArith Bool.
From STS Require Import Model.Ranges.
Import ListNotations.
Open Scope Z_scope.

Definition chunk := (Z * Z)%type.          (* (offset, length) as GetSlice *)

(* ---- sortedFile.allocate for a plain file ------------------------------- *)
Definition alloc_plain (size allocated desired : Z) : chunk * Z :=
  let offset := allocated in
  let length :=
    if (desired =? 0) || (size <? offset + desired) then size - offset else desired in
  ((offset, length), allocated + length).

(* Pop keeps emitting chunks of the head file until isAllocated *)
Fixpoint chunks_plain (fuel : nat) (size desired allocated : Z) : option (list chunk) :=
  if allocated =? size then Some []
  else match fuel with
       | O => None
       | S f =>
           let '(c, a') := alloc_plain size allocated desired in
           match chunks_plain f size desired a' with
           | Some r => Some (c :: r)
           | None => None
           end
       end.

(* ---- recoverFile.Allocate: state = remaining ranges (head = left[part]) and
   bytes used of the head ---------------------------------------------------- *)
Definition alloc_rec (left : list range) (used desired : Z)
  : option (chunk * list range * Z) :=
  match left with
  | [] => None                                  (* index out of range: panic *)
  | (b, e) :: rest =>
      let offset := b + used in
      if e <=? offset + desired
      then Some ((offset, e - offset), rest, 0)
      else Some ((offset, desired), left, used + desired)
  end.

Fixpoint chunks_rec (fuel : nat) (left : list range) (used desired : Z)
  : option (list chunk) :=
  match left with
  | [] => Some []                               (* IsAllocated: part == len(left) *)
  | _ =>
      match fuel with
      | O => None
      | S f =>
          match alloc_rec left used desired with
          | None => None
          | Some (c, left', used') =>
              match chunks_rec f left' used' desired with
              | Some r => Some (c :: r)
              | None => None
              end
          end
      end
  end.

Definition send_size (left : list range) : Z :=
  fold_right (fun r acc => (snd r - fst r) + acc) 0 left.

(* ---- payload.Bin ---------------------------------------------------------- *)
Definition fluff_of (cap : Z) : Z := cap / 10.   (* int64(float64(cap)*0.1), cap < 2^53 *)

Definition part := (Z * Z * Z)%type.             (* (file id, beg, end) *)

Record bin := mkbin { bcap : Z; bfluff : Z; bbytes : Z; bparts : list part }.

Definition new_bin (cap : Z) : bin := mkbin cap (fluff_of cap) 0 [].

Definition is_full (bn : bin) : bool :=
  let space := bcap bn - bbytes bn in (space <? 0) || (space <? bfluff bn).

(* Add: what it can of [beg,end) *)
Definition bin_add (bn : bin) (id beg end_ : Z) : option (Z * bin) :=
  let space := bcap bn + bfluff bn - bbytes bn in
  let e := Z.min end_ (beg + space) in
  let n := e - beg in
  if 0 <? n
  then Some (n, mkbin (bcap bn) (bfluff bn) (bbytes bn + n) (bparts bn ++ [(id, beg, e)]))
  else None.

(* Split after k parts: (kept head, new tail) *)
Definition bytes_of (ps : list part) : Z :=
  fold_right (fun p acc => (snd p - snd (fst p)) + acc) 0 ps.

Definition bin_split (bn : bin) (k : nat) : option (bin * bin) :=
  if (Nat.ltb k 1) || (Nat.leb (length (bparts bn)) k) then None
  else
    let tail := skipn k (bparts bn) in
    let nb := bytes_of tail in
    Some (mkbin (bbytes bn - nb) (bfluff bn) (bbytes bn - nb) (firstn k (bparts bn)),
          mkbin nb (fluff_of nb) nb tail).

(* ---- the binner loop (startBin) for one chunk -----------------------------
   cur = the payload under construction (None = none yet); out = payloads
   already handed to the senders, newest first.  Returns None when out of
   fuel.  dropped = the chunk was abandoned because Add added nothing. *)
Record bstate := mkbs { cur : option bin; out : list bin; dropped : list (Z * Z * Z) }.

Fixpoint bin_chunk (fuel : nat) (cap : Z) (st : bstate) (id b n a : Z) : option bstate :=
  match fuel with
  | O => None
  | S f =>
      let bn := match cur st with Some x => x | None => new_bin cap end in
      match bin_add bn id (b + a) (b + n) with
      | None =>
          (* not added: current = nil; the bin may still be full *)
          let st' := if is_full bn
                     then mkbs None (bn :: out st) ((id, b + a, b + n) :: dropped st)
                     else mkbs (Some bn) (out st) ((id, b + a, b + n) :: dropped st) in
          Some st'
      | Some (k, bn') =>
          let a' := a + k in
          let st' := if is_full bn' then mkbs None (bn' :: out st) (dropped st)
                     else mkbs (Some bn') (out st) (dropped st) in
          if a' =? n then Some st' else bin_chunk f cap st' id b n a'
      end
  end.

(* idle flush / channel close: hand over a non-empty payload *)
Definition flush (st : bstate) : bstate :=
  match cur st with
  | Some bn => if 0 <? bbytes bn then mkbs None (bn :: out st) (dropped st) else st
  | None => st
  end.

(* events fed to the binner: a chunk (file id, offset, length) possibly
   preceded by an idle flush *)
Definition bevent := (bool * (Z * Z * Z))%type.

Definition chunk_fuel (cap n : Z) : nat := Z.to_nat (Z.max 0 (n / (cap + fluff_of cap)) + 3).

Fixpoint pack (cap : Z) (st : bstate) (evs : list bevent) : option bstate :=
  match evs with
  | [] => Some (flush st)
  | (fl, (id, b, n)) :: rest =>
      let st1 := if fl then flush st else st in
      match bin_chunk (chunk_fuel cap n) cap st1 id b n 0 with
      | None => None
      | Some st2 => pack cap st2 rest
      end
  end.

Definition init_bstate : bstate := mkbs None [] [].

(* payloads oldest first, each as its list of parts *)
Definition payloads (st : bstate) : list (list part) := map bparts (rev (out st)).

(* ---- tiling predicates (decidable forms used as oracles) ------------------ *)
Fixpoint tiles_from_b (lo hi : Z) (cs : list chunk) : bool :=
  match cs with
  | [] => lo =? hi
  | (o, l) :: r => (o =? lo) && (0 <? l) && tiles_from_b (o + l) hi r
  end.

(* chunks tile the list of ranges, in order, none crossing a range boundary *)
Fixpoint tiles_ranges_b (fuel : nat) (left : list range) (cs : list chunk) : bool :=
  match left with
  | [] => match cs with [] => true | _ => false end
  | (b, e) :: rest =>
      match fuel with
      | O => false
      | S f =>
          match cs with
          | [] => false
          | (o, l) :: r =>
              (o =? b) && (0 <? l) && (o + l <=? e) &&
              (if o + l =? e then tiles_ranges_b f rest r
               else tiles_ranges_b f ((o + l, e) :: rest) r)
          end
      end
  end.

Definition all_le_b (m : Z) (cs : list chunk) : bool :=
  forallb (fun c => snd c <=? m) cs.
