(* Model of queue.Tagged (C10, C12).  Code anchor: queue/queue.go.
   A group's linked chain is  kept ++ gfiles : [gfiles] is the sorted slice of
   pending files (q.list[g]), [kept] the one already-emitted (or skipped,
   pre-allocated) file that stays linked in front of it to provide "prev".
   headFile = first of gfiles, else kept, else nil.  Definitions only. *)
From Coq Require Import List ZArith Bool.
From STS Require Import Model.Ranges Model.Chunk.
Import ListNotations.
Open Scope Z_scope.

Definition name := list Z.

Fixpoint name_eqb (a b : name) : bool :=
  match a, b with
  | [], [] => true
  | x :: a', y :: b' => (x =? y) && name_eqb a' b'
  | _, _ => false
  end.

(* Go string comparison: bytewise lexicographic, a < b *)
Fixpoint name_ltb (a b : name) : bool :=
  match a, b with
  | [], [] => false
  | [], _ :: _ => true
  | _ :: _, [] => false
  | x :: a', y :: b' => if x <? y then true else if y <? x then false else name_ltb a' b'
  end.

(* orders *)
Definition OFIFO : Z := 0.
Definition OLIFO : Z := 1.
Definition OALPHA : Z := 2.
Definition ONONE : Z := 3.

Record tag := mktag { tprio : Z; torder : Z; tchunk : Z; tdelay : Z }.

Record qfile := mkqf {
  fname : name; ftime : Z; fsize : Z;
  falloc : Z;                 (* plain: bytes allocated so far *)
  frec : bool;                (* implements sts.Recovered *)
  fprev : name;               (* Recovered: the predecessor it announced before *)
  fleft : list range;         (* Recovered: ranges still to allocate (head = left[part]) *)
  fused : Z;                  (* Recovered: bytes used of the head range *)
  fsend : Z                   (* GetSendSize *)
}.

Definition is_alloc (f : qfile) : bool :=
  if frec f then match fleft f with [] => true | _ => false end
  else falloc f =? fsize f.

(* allocate one chunk; None = the code would index out of range (never for a
   file that is not yet allocated) *)
Definition allocate (f : qfile) (desired : Z) : option (Z * Z * qfile) :=
  if frec f then
    match alloc_rec (fleft f) (fused f) desired with
    | None => None
    | Some ((o, l), left', used') =>
        Some (o, l, mkqf (fname f) (ftime f) (fsize f) (falloc f) true (fprev f) left' used' (fsend f))
    end
  else
    let '((o, l), a') := alloc_plain (fsize f) (falloc f) desired in
    Some (o, l, mkqf (fname f) (ftime f) (fsize f) a' false (fprev f) (fleft f) (fused f) (fsend f)).

Record group := mkgroup {
  gname : name; gtag : tag;
  kept : option qfile;
  gfiles : list qfile;
  gdone : list name            (* ghost: names completed / skipped, newest first *)
}.

Definition queue := list group.

(* ---- insertion position: "list[i] sorts after file" ---------------------- *)
Definition after_b (order : Z) (f0 f1 : qfile) : bool :=
  if order =? OALPHA then name_ltb (fname f1) (fname f0)
  else if (order =? OFIFO) || (order =? OLIFO) then
    if ftime f0 =? ftime f1 then name_ltb (fname f1) (fname f0)
    else if order =? OFIFO then ftime f1 <? ftime f0 else ftime f0 <? ftime f1
  else false.

(* sort.Search on a list that is sorted for the predicate = first index where
   it holds (library specification; validated by the differential run) *)
Fixpoint insert_file (order : Z) (f : qfile) (l : list qfile) : list qfile :=
  match l with
  | [] => [f]
  | x :: r => if after_b order x f then f :: x :: r else x :: insert_file order f r
  end.

Fixpoint remove_name (n : name) (l : list qfile) : list qfile :=
  match l with
  | [] => []
  | x :: r => if name_eqb (fname x) n then r else x :: remove_name n r
  end.

Definition has_name (n : name) (l : list qfile) : bool :=
  existsb (fun x => name_eqb (fname x) n) l.

(* Push of one file into its group *)
Definition group_push (g : group) (f : qfile) : group :=
  let '(k, fs) :=
    if has_name (fname f) (gfiles g) then
      let fs' := remove_name (fname f) (gfiles g) in
      (* removeFile: headFile = orig.next; when orig was the only pending file
         the head becomes nil and the kept predecessor is forgotten *)
      match fs' with [] => (None, fs') | _ => (kept g, fs') end
    else (kept g, gfiles g) in
  mkgroup (gname g) (gtag g) k (insert_file (torder (gtag g)) f fs) (gdone g).

(* addGroup: before the first group of strictly lower priority, else last *)
Fixpoint add_group (g : group) (q : queue) : queue :=
  match q with
  | [] => [g]
  | h :: r => if tprio (gtag h) <? tprio (gtag g) then g :: h :: r else h :: add_group g r
  end.

Fixpoint find_group (n : name) (q : queue) : option group :=
  match q with
  | [] => None
  | h :: r => if name_eqb (gname h) n then Some h else find_group n r
  end.

Fixpoint replace_group (g : group) (q : queue) : queue :=
  match q with
  | [] => []
  | h :: r => if name_eqb (gname h) (gname g) then g :: r else h :: replace_group g r
  end.

(* one pushed item: the file, its group name and the tag the tagger resolves
   for that group (None = no matching tag: the file is ignored) *)
Definition pushitem := (qfile * name * option tag)%type.

Definition push_one (q : queue) (it : pushitem) : queue :=
  let '(f, gn, ot) := it in
  match find_group gn q with
  | Some g => replace_group (group_push g f) q
  | None =>
      match ot with
      | None => q
      | Some t => add_group (group_push (mkgroup gn t None [] []) f) q
      end
  end.

Definition push (q : queue) (batch : list pushitem) : queue := fold_left push_one batch q.

(* ---- Pop ------------------------------------------------------------------ *)
(* leading allocated files are removed as long as another file follows *)
Fixpoint skip_alloc (k : option qfile) (fs : list qfile) (dn : list name)
  : option qfile * list qfile * list name :=
  match fs with
  | f :: ((_ :: _) as rest) =>
      if is_alloc f then skip_alloc (Some f) rest (fname f :: dn) else (k, fs, dn)
  | _ => (k, fs, dn)
  end.

Record popped := mkpop { pname : name; poff : Z; plen : Z; pprev : name; psend : Z }.

(* try to serve one group at time [now]; always returns the (possibly
   cleaned-up) group *)
Definition group_pop (g : group) (now : Z) : group * option popped :=
  let '(k, fs, dn) := skip_alloc (kept g) (gfiles g) (gdone g) in
  let g1 := mkgroup (gname g) (gtag g) k fs dn in
  match fs with
  | [] => (g1, None)
  | f :: rest =>
      if is_alloc f then (g1, None)
      else if (0 <? tdelay (gtag g)) && (match rest with [] => true | _ => false end)
              && (now - ftime f <? tdelay (gtag g)) then (g1, None)
      else
        match allocate f (tchunk (gtag g)) with
        | None => (g1, None)
        | Some (o, l, f') =>
            let pv0 := if torder (gtag g) =? ONONE then []
                       else if frec f then fprev f
                       else match k with Some kf => fname kf | None => [] end in
            let pv := if name_eqb pv0 (fname f) then [] else pv0 in
            let out := mkpop (fname f) o l pv (fsend f) in
            if is_alloc f'
            then (mkgroup (gname g) (gtag g) (Some f') rest (fname f :: dn), Some out)
            else (mkgroup (gname g) (gtag g) k (f' :: rest) dn, Some out)
        end
  end.

(* delayGroup: move the served group behind the last following group of the
   same priority *)
Fixpoint delay_insert (g : group) (q : queue) : queue :=
  match q with
  | h :: r => if tprio (gtag h) =? tprio (gtag g) then h :: delay_insert g r else g :: h :: r
  | [] => [g]
  end.

Fixpoint pop_aux (q : queue) (now : Z) : queue * option popped :=
  match q with
  | [] => ([], None)
  | g :: r =>
      match group_pop g now with
      | (g', Some out) => (delay_insert g' r, Some out)
      | (g', None) => let '(r', o) := pop_aux r now in (g' :: r', o)
      end
  end.

Definition pop (q : queue) (now : Z) : queue * option popped := pop_aux q now.

(* ---- spec-level notions used by theorems and oracles ----------------------- *)
(* would this group emit something at [now]? *)
Definition group_ready (g : group) (now : Z) : bool :=
  match snd (group_pop g now) with Some _ => true | None => false end.

Fixpoint prio_sorted (q : queue) : bool :=
  match q with
  | [] => true
  | g :: r => match r with
              | [] => true
              | h :: _ => (tprio (gtag h) <=? tprio (gtag g)) && prio_sorted r
              end
  end.

(* f0 may stand before f1 in the configured order *)
Definition le_order (order : Z) (f0 f1 : qfile) : bool := negb (after_b order f0 f1).

Fixpoint files_sorted (order : Z) (l : list qfile) : bool :=
  match l with
  | [] => true
  | x :: r => forallb (fun y => le_order order x y) r && files_sorted order r
  end.

(* operations of a history *)
Inductive qop := QPush (batch : list pushitem) | QPop (now : Z).

Definition qstep (q : queue) (op : qop) : queue * option popped :=
  match op with
  | QPush b => (push q b, None)
  | QPop now => pop q now
  end.

Fixpoint qrun (q : queue) (ops : list qop) : queue * list (option popped) :=
  match ops with
  | [] => (q, [])
  | op :: r => let '(q1, o) := qstep q op in
               let '(q2, os) := qrun q1 r in (q2, o :: os)
  end.
