(* Model of the receiver's staging state machine (C01 C04 C05 C06 C20, parts of
   C02 C09 C15).  Code anchor: stage/local.go (entire), stage/companion.go,
   fileutil.Move, log.FileIO as used by the stage.

   Durable state: the stage area (<n>.part / .full / .wait / .cmp), the final
   directory, the receive log.  Volatile state: a heap of finalFile OBJECTS (the
   cache, the wait lists and both channels hold pointers), path locks, the two
   channels, cacheTime.  Asynchronous work (validators, finalize handler) is the
   explicit [settle] function.  Times are unix seconds.  Definitions only. *)
From Coq Require Import List ZArith Bool.
From STS Require Import Model.Ranges Model.Queue Model.LogM.
Import ListNotations.
Open Scope Z_scope.

(* ---- association lists keyed by names ------------------------------------- *)
Fixpoint alookup {A} (k : name) (l : list (name * A)) : option A :=
  match l with
  | [] => None
  | (k', v) :: r => if name_eqb k' k then Some v else alookup k r
  end.

Fixpoint aset {A} (k : name) (v : A) (l : list (name * A)) : list (name * A) :=
  match l with
  | [] => [(k, v)]
  | (k', v') :: r => if name_eqb k' k then (k, v) :: r else (k', v') :: aset k v r
  end.

Fixpoint aremove {A} (k : name) (l : list (name * A)) : list (name * A) :=
  match l with
  | [] => []
  | (k', v') :: r => if name_eqb k' k then r else (k', v') :: aremove k r
  end.

Definition ahas {A} (k : name) (l : list (name * A)) : bool :=
  match alookup k l with Some _ => true | None => false end.

Fixpoint nmem (k : name) (l : list name) : bool :=
  match l with [] => false | x :: r => name_eqb x k || nmem k r end.
Definition nadd (k : name) (l : list name) : list name := if nmem k l then l else l ++ [k].
Fixpoint nremove (k : name) (l : list name) : list name :=
  match l with [] => [] | x :: r => if name_eqb x k then nremove k r else x :: nremove k r end.

(* ---- records --------------------------------------------------------------- *)
Record comp := mkcomp {
  c_renamed : name; c_prev : name; c_size : Z; c_hash : name; c_parts : list range }.

Record sfile := mksf { sf_data : list Z; sf_old : bool }.

Definition ST_UNKNOWN : Z := -1.
Definition ST_RECEIVED : Z := 0.
Definition ST_VALIDATED : Z := 1.
Definition ST_FAILED : Z := 2.
Definition ST_FINALIZED : Z := 3.
Definition ST_LOGGED : Z := 4.

Record ffile := mkff {
  f_name : name; f_renamed : name; f_prev : name; f_size : Z; f_hash : name;
  f_state : Z; f_logged : Z; f_timer : bool; f_next : bool;
  f_batch : Z               (* > 0: loaded from the log by that buildCache batch and not re-cached since *) }.

Record lrec := mklr { l_name : name; l_renamed : name; l_hash : name; l_size : Z; l_time : Z }.

Record stage := mkst {
  parts : list (name * sfile);
  fulls : list (name * list Z);
  waits : list (name * list Z);
  cmps : list (name * comp);
  finals : list (name * list Z);
  rlog : list lrec;
  heap : list ffile;
  cache : list (name * nat);
  wait : list (name * list nat);
  locks : list name;
  vq : list nat;
  fq : list nat;
  ctime : Z;
  ready : bool;
  flcks : list (name * list Z);    (* <target>.lck left in the final directory by a crash inside fileutil.Move *)
  ctimes : list (Z * Z);           (* cacheTimes: (batch id, time) of every buildCache that visited a record *)
  nbatch : Z
}.

Definition init_stage : stage := mkst [] [] [] [] [] [] [] [] [] [] [] [] 0 true [] [] 0.

(* field setters *)
Definition set_parts v s := mkst v (fulls s) (waits s) (cmps s) (finals s) (rlog s) (heap s) (cache s) (wait s) (locks s) (vq s) (fq s) (ctime s) (ready s) (flcks s) (ctimes s) (nbatch s).
Definition set_fulls v s := mkst (parts s) v (waits s) (cmps s) (finals s) (rlog s) (heap s) (cache s) (wait s) (locks s) (vq s) (fq s) (ctime s) (ready s) (flcks s) (ctimes s) (nbatch s).
Definition set_waits v s := mkst (parts s) (fulls s) v (cmps s) (finals s) (rlog s) (heap s) (cache s) (wait s) (locks s) (vq s) (fq s) (ctime s) (ready s) (flcks s) (ctimes s) (nbatch s).
Definition set_cmps v s := mkst (parts s) (fulls s) (waits s) v (finals s) (rlog s) (heap s) (cache s) (wait s) (locks s) (vq s) (fq s) (ctime s) (ready s) (flcks s) (ctimes s) (nbatch s).
Definition set_finals v s := mkst (parts s) (fulls s) (waits s) (cmps s) v (rlog s) (heap s) (cache s) (wait s) (locks s) (vq s) (fq s) (ctime s) (ready s) (flcks s) (ctimes s) (nbatch s).
Definition set_rlog v s := mkst (parts s) (fulls s) (waits s) (cmps s) (finals s) v (heap s) (cache s) (wait s) (locks s) (vq s) (fq s) (ctime s) (ready s) (flcks s) (ctimes s) (nbatch s).
Definition set_heap v s := mkst (parts s) (fulls s) (waits s) (cmps s) (finals s) (rlog s) v (cache s) (wait s) (locks s) (vq s) (fq s) (ctime s) (ready s) (flcks s) (ctimes s) (nbatch s).
Definition set_cache v s := mkst (parts s) (fulls s) (waits s) (cmps s) (finals s) (rlog s) (heap s) v (wait s) (locks s) (vq s) (fq s) (ctime s) (ready s) (flcks s) (ctimes s) (nbatch s).
Definition set_wait v s := mkst (parts s) (fulls s) (waits s) (cmps s) (finals s) (rlog s) (heap s) (cache s) v (locks s) (vq s) (fq s) (ctime s) (ready s) (flcks s) (ctimes s) (nbatch s).
Definition set_locks v s := mkst (parts s) (fulls s) (waits s) (cmps s) (finals s) (rlog s) (heap s) (cache s) (wait s) v (vq s) (fq s) (ctime s) (ready s) (flcks s) (ctimes s) (nbatch s).
Definition set_vq v s := mkst (parts s) (fulls s) (waits s) (cmps s) (finals s) (rlog s) (heap s) (cache s) (wait s) (locks s) v (fq s) (ctime s) (ready s) (flcks s) (ctimes s) (nbatch s).
Definition set_fq v s := mkst (parts s) (fulls s) (waits s) (cmps s) (finals s) (rlog s) (heap s) (cache s) (wait s) (locks s) (vq s) v (ctime s) (ready s) (flcks s) (ctimes s) (nbatch s).
Definition set_ctime v s := mkst (parts s) (fulls s) (waits s) (cmps s) (finals s) (rlog s) (heap s) (cache s) (wait s) (locks s) (vq s) (fq s) v (ready s) (flcks s) (ctimes s) (nbatch s).
Definition set_ready v s := mkst (parts s) (fulls s) (waits s) (cmps s) (finals s) (rlog s) (heap s) (cache s) (wait s) (locks s) (vq s) (fq s) (ctime s) v (flcks s) (ctimes s) (nbatch s).
Definition set_flcks v s := mkst (parts s) (fulls s) (waits s) (cmps s) (finals s) (rlog s) (heap s) (cache s) (wait s) (locks s) (vq s) (fq s) (ctime s) (ready s) v (ctimes s) (nbatch s).
Definition set_ctimes v s := mkst (parts s) (fulls s) (waits s) (cmps s) (finals s) (rlog s) (heap s) (cache s) (wait s) (locks s) (vq s) (fq s) (ctime s) (ready s) (flcks s) v (nbatch s).
Definition set_nbatch v s := mkst (parts s) (fulls s) (waits s) (cmps s) (finals s) (rlog s) (heap s) (cache s) (wait s) (locks s) (vq s) (fq s) (ctime s) (ready s) (flcks s) (ctimes s) v.

Definition dflt_ff : ffile := mkff [] [] [] 0 [] ST_UNKNOWN 0 false false 0.
Definition obj (s : stage) (o : nat) : ffile := nth o (heap s) dflt_ff.

Fixpoint list_set {A} (l : list A) (i : nat) (v : A) : list A :=
  match l, i with
  | [], _ => []
  | _ :: r, O => v :: r
  | x :: r, S j => x :: list_set r j v
  end.

Definition set_obj (s : stage) (o : nat) (f : ffile) : stage := set_heap (list_set (heap s) o f) s.

Definition with_state (f : ffile) (st : Z) : ffile :=
  mkff (f_name f) (f_renamed f) (f_prev f) (f_size f) (f_hash f) st (f_logged f) (f_timer f) (f_next f) (f_batch f).
Definition with_logged (f : ffile) (t : Z) : ffile :=
  mkff (f_name f) (f_renamed f) (f_prev f) (f_size f) (f_hash f) (f_state f) t (f_timer f) (f_next f) (f_batch f).
Definition with_timer (f : ffile) (b : bool) : ffile :=
  mkff (f_name f) (f_renamed f) (f_prev f) (f_size f) (f_hash f) (f_state f) (f_logged f) b (f_next f) (f_batch f).
Definition with_next (f : ffile) (b : bool) : ffile :=
  mkff (f_name f) (f_renamed f) (f_prev f) (f_size f) (f_hash f) (f_state f) (f_logged f) (f_timer f) b (f_batch f).
Definition with_prev (f : ffile) (p : name) : ffile :=
  mkff (f_name f) (f_renamed f) p (f_size f) (f_hash f) (f_state f) (f_logged f) (f_timer f) (f_next f) (f_batch f).
Definition with_batch (f : ffile) (b : Z) : ffile :=
  mkff (f_name f) (f_renamed f) (f_prev f) (f_size f) (f_hash f) (f_state f) (f_logged f) (f_timer f) (f_next f) b.

Definition cache_obj (s : stage) (n : name) : option nat := alookup n (cache s).
Definition cache_state (s : stage) (n : name) : Z :=
  match cache_obj s n with Some o => f_state (obj s o) | None => ST_UNKNOWN end.
Definition cache_hash (s : stage) (n : name) : name :=
  match cache_obj s n with Some o => f_hash (obj s o) | None => [] end.

(* toCache(file, state): the object gets the state and becomes THE cache entry
   of its path; cacheTime is initialised from the first logged file; a
   finalized file marks its predecessor's entry *)
Definition to_cache (s : stage) (o : nat) (st : Z) : stage :=
  let f := with_batch (with_state (obj s o) st) 0 in
  let s1 := set_obj s o f in
  let s2 := if negb (f_logged f =? 0) && (ctime s1 =? 0) then set_ctime (f_logged f) s1 else s1 in
  let s3 := set_cache (aset (f_name f) o (cache s2)) s2 in
  if negb (match f_prev f with [] => true | _ => false end) && (st =? ST_FINALIZED) then
    match cache_obj s3 (f_prev f) with
    | Some p => set_obj s3 p (with_next (obj s3 p) true)
    | None => s3
    end
  else s3.

Definition lock (n : name) (s : stage) : stage := set_locks (nadd n (locks s)) s.
Definition unlock (n : name) (s : stage) : stage := set_locks (nremove n (locks s)) s.

(* ---- log -------------------------------------------------------------------- *)
Definition log_has (s : stage) (n h : name) : bool :=
  existsb (fun r => name_eqb (l_name r) n &&
                    (match h with [] => true | _ => name_eqb (l_hash r) h end)) (rlog s).

(* buildCache(from): load log records of the days from [from] on, in order, up
   to the first record later than the current cacheTime *)
Fixpoint load_records (s : stage) (recs : list lrec) (from ct : Z) (bid : Z) : stage :=
  match recs with
  | [] => s
  | r :: rest =>
      if ct <? l_time r then s
      else
        (* a name that is already cached is skipped - unless the entry is an older
           record of that name loaded from the log (fix: remember the version put away last) *)
        let superseded :=
          match alookup (l_name r) (cache s) with
          | Some o0 => (f_state (obj s o0) =? ST_LOGGED) && (f_logged (obj s o0) <=? l_time r)
          | None => true
          end in
        let s' :=
          if (day_of (l_time r) <? day_of from) || negb superseded then s
          else
            let o := length (heap s) in
            let f := mkff (l_name r) (l_renamed r) [] (l_size r) (l_hash r) ST_LOGGED (l_time r) false false bid in
            set_cache (aset (l_name r) o (cache s)) (set_heap (heap s ++ [f]) s) in
        load_records s' rest from ct bid
  end.

(* did Parse hand a record to the callback at all (first record of a day inside the
   window that is not later than the cache time)? *)
Fixpoint visited_any (recs : list lrec) (from ct : Z) : bool :=
  match recs with
  | [] => false
  | r :: rest =>
      if ct <? l_time r then false
      else if day_of (l_time r) <? day_of from then visited_any rest from ct
      else true
  end.

Definition build_cache (s : stage) (now from : Z) : stage :=
  if from =? 0 then s
  else if negb (ctime s =? 0) && (ctime s <=? from) then s
  else
    let ct := if ctime s =? 0 then now else ctime s in
    let bid := nbatch s + 1 in
    let s1 := load_records s (rlog s) from ct bid in
    let s2 := if visited_any (rlog s) from ct
              then set_nbatch bid (set_ctimes (ctimes s1 ++ [(bid, now)]) s1) else s1 in
    set_ctime from s2.

(* cleanCache: batches loaded from the log more than an hour ago expire in order;
   an entry that is put away (and whose successor, if it names one, is too) and was
   logged more than a day ago leaves the cache - when batches expire, only the
   entries those batches loaded; cacheTime becomes the earliest logged time of the
   entries that stay *)
Definition CACHE_AGE_LOADED : Z := 3600.
Definition CACHE_AGE_LOGGED : Z := 86400.

Fixpoint expired_batches (l : list (Z * Z)) (now : Z) : list (Z * Z) * list (Z * Z) :=
  match l with
  | [] => ([], [])
  | (b, t) :: r =>
      if now - t <? CACHE_AGE_LOADED then ([], l)
      else let '(e, k) := expired_batches r now in ((b, t) :: e, k)
  end.

Definition clean_cache_entry (now : Z) (batches : list (Z * Z)) (acc : stage) (kv : name * nat) : stage :=
  let f := obj acc (snd kv) in
  if f_state f <? ST_FINALIZED then acc
  else if negb (match f_prev f with [] => true | _ => false end) && negb (f_next f) then acc
  else
    let old := CACHE_AGE_LOGGED <? now - f_logged f in
    let drop := old &&
                (match batches with
                 | [] => true
                 | _ => existsb (fun bt => fst bt =? f_batch f) batches && (f_state f =? ST_LOGGED)
                 end) in
    if drop then set_cache (aremove (fst kv) (cache acc)) acc
    else if f_logged f <? ctime acc then set_ctime (f_logged f) acc else acc.

Definition clean_cache (s : stage) (now : Z) : stage :=
  let '(batches, keep) := expired_batches (ctimes s) now in
  let s1 := set_ctime now (set_ctimes keep s) in
  fold_left (clean_cache_entry now batches) (cache s) s1.

(* the harness's "d seconds pass" (d a multiple of a day): every time the receiver
   remembers or has written moves d into the past *)
Definition shift_rec (d : Z) (r : lrec) : lrec := mklr (l_name r) (l_renamed r) (l_hash r) (l_size r) (l_time r - d).
Definition shift_obj (d : Z) (f : ffile) : ffile :=
  if f_logged f =? 0 then f else with_logged f (f_logged f - d).
Definition age_all (s : stage) (d : Z) : stage :=
  let s1 := set_rlog (map (shift_rec d) (rlog s)) s in
  let s2 := set_heap (map (shift_obj d) (heap s1)) s1 in
  let s3 := if ctime s2 =? 0 then s2 else set_ctime (ctime s2 - d) s2 in
  set_ctimes (map (fun bt => (fst bt, snd bt - d)) (ctimes s3)) s3.

(* ---- Prepare ---------------------------------------------------------------- *)
Fixpoint zeros (n : nat) : list Z := match n with O => [] | S k => 0 :: zeros k end.

Definition prepare (s : stage) (n : name) (size : Z) : stage :=
  let s := lock n s in
  let same := match alookup n (parts s) with
              | Some sf => Z.of_nat (length (sf_data sf)) =? size
              | None => false end in
  if same then s
  else
    let st := cache_state s n in
    let s1 := if ahas n (cmps s) && ((st =? ST_UNKNOWN) || (st =? ST_FAILED))
              then set_cmps (aremove n (cmps s)) s else s in
    set_parts (aset n (mksf (zeros (Z.to_nat size)) false) (parts s1)) s1.

(* ---- Receive ---------------------------------------------------------------- *)
Fixpoint write_at (d : list Z) (off : nat) (data : list Z) : list Z :=
  match off with
  | O => data ++ skipn (length data) d
  | S k => match d with
           | [] => 0 :: write_at [] k data
           | x :: r => x :: write_at r k data
           end
  end.

Record part_req := mkpr {
  p_name : name; p_renamed : name; p_prev : name; p_size : Z; p_hash : name;
  p_beg : Z; p_end : Z; p_time : Z }.

(* data = the bytes the reader delivered; rerr = the reader ended with an error *)
Definition receive (s : stage) (p : part_req) (data : list Z) (rerr : bool) : stage * bool :=
  let n := p_name p in
  match alookup n (parts s) with
  | None => (s, false)
  | Some sf =>
      let d' := write_at (sf_data sf) (Z.to_nat (p_beg p)) data in
      let s1 := set_parts (aset n (mksf d' false) (parts s)) s in
      (* a failing reader, or (after fix c.f. known_findings C09-X1) a stream that
         ends before the announced number of bytes: nothing is recorded *)
      if rerr || negb (Z.of_nat (length data) =? p_end p - p_beg p) then (s1, false)
      else
        let s2 := lock n s1 in
        let c0 := match alookup n (cmps s2) with
                  | Some c => if name_eqb (c_hash c) (p_hash p)
                              then mkcomp (c_renamed c) (p_prev p) (c_size c) (c_hash c) (c_parts c)
                              else mkcomp (p_renamed p) (p_prev p) (p_size p) (p_hash p) []
                  | None => mkcomp (p_renamed p) (p_prev p) (p_size p) (p_hash p) []
                  end in
        let c1 := mkcomp (c_renamed c0) (c_prev c0) (c_size c0) (c_hash c0)
                         (add_part (c_parts c0) (p_beg p) (p_end p)) in
        let s3 := set_cmps (aset n c1 (cmps s2)) s2 in
        if complete (c_parts c1) (c_size c1) then
          let dup := match cache_obj s3 n with
                     | Some o => negb (f_state (obj s3 o) =? ST_FAILED) && name_eqb (f_hash (obj s3 o)) (p_hash p)
                     | None => false end in
          if dup then
            let s4 := set_parts (aremove n (parts s3)) s3 in
            let s5 := if ST_FINALIZED <=? cache_state s4 n
                      then unlock n (set_cmps (aremove n (cmps s4)) s4) else s4 in
            (s5, true)
          else
            let s4 := set_fulls (aset n d' (fulls s3)) (set_parts (aremove n (parts s3)) s3) in
            let o := length (heap s4) in
            let f := mkff n (p_renamed p) (p_prev p) (p_size p) (p_hash p) ST_RECEIVED 0 false false 0 in
            let s5 := to_cache (set_heap (heap s4 ++ [f]) s4) o ST_RECEIVED in
            (set_vq (vq s5 ++ [o]) s5, true)
        else (s3, true)
  end.

(* ---- validation, finalisation ----------------------------------------------- *)
Section WithHash.
Variable H : list Z -> name.

Definition process (s : stage) (o : nat) : stage :=
  match nth_error (heap s) o with None => s | Some f =>
  let n := f_name f in
  let s := lock n s in
  if negb (cache_state s n =? ST_RECEIVED) then s
  else
    match alookup n (fulls s) with
    | None => to_cache (set_cmps (aremove n (cmps s)) s) o ST_FAILED
    | Some body =>
        if name_eqb (H body) (f_hash f) then
          let s1 := set_waits (aset n body (waits s)) (set_fulls (aremove n (fulls s)) s) in
          let s2 := to_cache s1 o ST_VALIDATED in
          set_fq (fq s2 ++ [o]) s2
        else to_cache s o ST_FAILED
    end
  end.

(* toWait: one waiter per path *)
Definition to_wait (s : stage) (prev : name) (o : nat) (timer : bool) : stage :=
  let s1 := set_obj s o (with_timer (obj s o) timer) in
  let cur := match alookup prev (wait s1) with Some l => l | None => [] end in
  (* a waiter of the same path is REPLACED by the newer object (fix: the staged
     file is the newer version's by now) *)
  if existsb (fun w => name_eqb (f_name (obj s1 w)) (f_name (obj s1 o))) cur
  then set_wait (aset prev (map (fun w => if name_eqb (f_name (obj s1 w)) (f_name (obj s1 o)) then o else w) cur) (wait s1)) s1
  else set_wait (aset prev (cur ++ [o]) (wait s1)) s1.

Definition is_waiting (s : stage) (n : name) : bool :=
  existsb (fun kv => existsb (fun w => name_eqb (f_name (obj s w)) n) (snd kv)) (wait s).

Definition target_of (f : ffile) : name :=
  match f_renamed f with [] => f_name f | r => r end.

Definition finalize (s : stage) (now : Z) (o : nat) : stage :=
  match nth_error (heap s) o with None => s | Some f0 =>
  let n := f_name f0 in
  let s := lock n s in
  (* not validated (any more), or the staged file belongs to another version of
     the path announced since (fix: compare the hash of the cache entry) *)
  if negb (cache_state s n =? ST_VALIDATED) || negb (name_eqb (cache_hash s n) (f_hash f0)) then unlock n s
  else
    let s1 := set_obj s o (with_timer (obj s o) false) in
    let f := obj s1 o in
    let s2 := set_rlog (rlog s1 ++ [mklr (f_name f) (f_renamed f) (f_hash f) (f_size f) now]) s1 in
    let s3 := set_obj s2 o (with_logged (obj s2 o) now) in
    match alookup n (waits s3) with
    | None => unlock n s3
    | Some body =>
        let s4 := set_finals (aset (target_of f) body (finals s3)) (set_waits (aremove n (waits s3)) s3) in
        let s5 := to_cache s4 o ST_FINALIZED in
        let s6 := unlock n (set_cmps (aremove n (cmps s5)) s5) in
        let waiters := match alookup n (wait s6) with Some l => l | None => [] end in
        set_fq (fq s6 ++ waiters) (set_wait (aremove n (wait s6)) s6)
    end
  end.

Definition handle_final (s : stage) (now : Z) (o : nat) : stage :=
  let f := obj s o in
  if negb (cache_state s (f_name f) =? ST_VALIDATED) then s
  else
    let pv := f_prev f in
    if (match pv with [] => true | _ => false end) || name_eqb pv (f_name f) then finalize s now o
    else
      let pst := cache_state s pv in
      if pst =? ST_UNKNOWN then
        if nmem pv (locks s) then to_wait s pv o false
        else if log_has s pv [] then finalize s now o
        else to_wait s pv o true
      else if (pst =? ST_RECEIVED) || (pst =? ST_FAILED) || (pst =? ST_VALIDATED) then to_wait s pv o false
      else finalize s now o.

Fixpoint settle (fuel : nat) (s : stage) (now : Z) : stage :=
  match fuel with
  | O => s
  | S k =>
      match vq s with
      | o :: r => settle k (process (set_vq r s) o) now
      | [] =>
          match fq s with
          | o :: r => settle k (handle_final (set_fq r s) now o) now
          | [] => s
          end
      end
  end.

(* ---- queries ---------------------------------------------------------------- *)
Definition part_received (s : stage) (now : Z) (p : part_req) : stage * bool :=
  let monthago := now - 30 * 86400 in
  let when := if now <? p_time p then now else if p_time p <? monthago then monthago else p_time p in
  let s := lock (p_name p) (build_cache s now when) in
  let n := p_name p in
  match cache_obj s n with
  | None =>
      match alookup n (cmps s) with
      | Some c =>
          if negb (name_eqb (p_renamed p) (c_renamed c)) || negb (name_eqb (p_hash p) (c_hash c))
             || negb (name_eqb (p_prev p) (c_prev c)) then (s, false)
          else (s, part_exists (c_parts c) (p_beg p) (p_end p))
      | None => (unlock n s, false)
      end
  | Some o =>
      let f := obj s o in
      if negb (f_state f =? ST_FAILED) && name_eqb (f_hash f) (p_hash p) && name_eqb (f_renamed f) (p_renamed p)
      then ((if ST_FINALIZED <=? f_state f then unlock n s else s), true)
      else (s, false)
  end.

Fixpoint received_q (s : stage) (now : Z) (ps : list part_req) : stage * Z :=
  match ps with
  | [] => (s, 0)
  | p :: r =>
      let '(s1, ok) := part_received s now p in
      if ok then let '(s2, k) := received_q s1 now r in (s2, k + 1) else (s1, 0)
  end.

Definition CONFIRM_NONE : Z := 0.
Definition CONFIRM_FAILED : Z := 1.
Definition CONFIRM_PASSED : Z := 2.
Definition CONFIRM_WAITING : Z := 3.

(* GetVersionStatus (fix "status polls say which version"): the sender names the
   hash it asks about ([] = any version, the old by-name question); what the cache
   knows about ANOTHER version of the name is answered "unknown" *)
Definition is_nil (h : name) : bool := match h with [] => true | _ => false end.

Definition other_version (s : stage) (n h : name) : bool :=
  negb (is_nil h) && negb (is_nil (cache_hash s n)) && negb (name_eqb (cache_hash s n) h).

Definition status_q (s : stage) (now : Z) (n h : name) (sent : Z) : stage * Z :=
  let s := build_cache s now sent in
  let st := cache_state s n in
  (s,
   if other_version s n h then CONFIRM_NONE
   else if st =? ST_RECEIVED then CONFIRM_NONE
   else if st =? ST_FAILED then CONFIRM_FAILED
   else if st =? ST_VALIDATED then (if is_waiting s n then CONFIRM_WAITING else CONFIRM_PASSED)
   else if (st =? ST_LOGGED) || (st =? ST_FINALIZED) then CONFIRM_PASSED
   else CONFIRM_NONE).

Definition scan_q (s : stage) : stage * list (name * comp) :=
  (fold_left (fun acc kv => lock (fst kv) acc) (cmps s) s, cmps s).

(* ---- cleaning ---------------------------------------------------------------- *)
Definition clean_stray (s : stage) (n : name) : stage :=
  match alookup n (parts s) with
  | None => s
  | Some sf =>
      if negb (sf_old sf) then s
      else
        let oc := alookup n (cmps s) in
        let st := cache_state s n in
        let '(del, delc) :=
          if (0 <? st) && negb (st =? ST_FAILED) then
            (* known as validated (held), put away or logged: a left-over only if it is that very
               version; the companion goes with its partial, never alone (fix "cleanStrays: a failed
               version is not a delivered one; a companion is removed only with its partial") *)
            let del := match oc with None => true | Some c => name_eqb (c_hash c) (cache_hash s n) end in
            (del, del && (match oc with None => false | Some _ => st =? ST_LOGGED end))
          else
            let h := match oc with Some c => c_hash c | None => [] end in
            if log_has s n h then (true, match oc with None => false | Some _ => true end)
            else (false, false) in
        let s1 := if del then set_parts (aremove n (parts s)) s else s in
        if delc then set_cmps (aremove n (cmps s1)) s1 else s1
  end.

Definition clean_strays (s : stage) : stage :=
  fold_left (fun acc kv => clean_stray acc (fst kv)) (parts s) s.

(* detectWaitLoop: is [start] reachable from itself through "waits for" edges *)
Fixpoint detect_loop (fuel : nat) (s : stage) (start : name) (frontier seen : list name) : bool :=
  match fuel with
  | O => false
  | S k =>
      let waiters := flat_map (fun p => match alookup p (wait s) with
                                        | Some l => map (fun w => f_name (obj s w)) l
                                        | None => [] end) frontier in
      if nmem start waiters then true
      else
        let fresh := filter (fun w => negb (nmem w seen)) waiters in
        match fresh with
        | [] => false
        | _ => detect_loop k s start fresh (seen ++ fresh)
        end
  end.

Definition clean_waiting_one (s : stage) (o : nat) : stage :=
  let f := obj s o in
  if negb ((f_state f =? ST_VALIDATED) && negb (match f_prev f with [] => true | _ => false end)) then s
  else
    let pv := f_prev f in
    if negb (is_waiting s pv) then s
    else if negb (detect_loop (S (length (heap s))) s pv [pv] []) then s
    else
      let ws := match alookup pv (wait s) with Some l => l | None => [] end in
      let s1 := set_wait (aremove pv (wait s)) s in
      fold_left (fun acc w =>
        match cache_obj acc (f_name (obj acc w)) with
        | Some c =>
            if f_state (obj acc c) =? ST_VALIDATED then
              let acc1 := set_obj acc c (with_prev (with_timer (obj acc c) false) []) in
              set_fq (fq acc1 ++ [c]) acc1
            else acc
        | None => acc
        end) ws s1.

Definition clean_waiting (s : stage) : stage :=
  fold_left (fun acc kv => clean_waiting_one acc (snd kv)) (cache s) s.

Definition clean (s : stage) : stage := clean_waiting (clean_strays s).

(* the 10 s / retry timers fire *)
Definition timers_fire (s : stage) : stage :=
  let idx := seq 0 (length (heap s)) in
  fold_left (fun acc o =>
    if f_timer (obj acc o) then set_fq (fq (set_obj acc o (with_timer (obj acc o) false)) ++ [o])
                                      (set_obj acc o (with_timer (obj acc o) false))
    else acc) idx s.

(* ---- restart: process death at quiescence, New, Recover ----------------------- *)
Definition crash (s : stage) : stage :=
  mkst (parts s) (fulls s) (waits s) (cmps s) (finals s) (rlog s) [] [] [] [] [] [] 0 true (flcks s) [] 0.

Definition comp_to_obj (n : name) (c : comp) (st : Z) : ffile :=
  mkff n (c_renamed c) (c_prev c) (c_size c) (c_hash c) st 0 false false 0.

(* the companion of a name with no held (.wait) body: complete body -> validate;
   complete partial -> rename and validate; nothing staged -> orphaned companion *)
Definition recover_rest (s : stage) (fin val : list nat) (n : name) (c : comp)
  : stage * list nat * list nat :=
  if ahas n (fulls s) then
    let o := length (heap s) in
    (set_heap (heap s ++ [comp_to_obj n c ST_RECEIVED]) s, fin, val ++ [o])
  else match alookup n (parts s) with
       | Some sf =>
           if complete (c_parts c) (c_size c) then
             let o := length (heap s) in
             let s1 := set_fulls (aset n (sf_data sf) (fulls s)) (set_parts (aremove n (parts s)) s) in
             (set_heap (heap s1 ++ [comp_to_obj n c ST_RECEIVED]) s1, fin, val ++ [o])
           else (s, fin, val)
       | None =>
           (* orphaned companion; after fix (Recover finishes an interrupted
              fileutil.Move) a <target>.lck in the final directory is renamed first *)
           let tgt := match c_renamed c with [] => n | r => r end in
           let s1 := match alookup tgt (flcks s) with
                     | Some body => set_flcks (aremove tgt (flcks s)) (set_finals (aset tgt body (finals s)) s)
                     | None => s end in
           (set_cmps (aremove n (cmps s1)) s1, fin, val)
       end.

(* a held (.wait) body is put away under the companion's identity only if it hashes
   to the companion's hash (fix "Recover checks the held file against its companion":
   the first part of a newer version of the name rewrites the companion); a body
   that does not match is removed and the companion is treated as above *)
Definition recover_one (acc : stage * list nat * list nat) (kv : name * comp)
  : stage * list nat * list nat :=
  let '(s, fin, val) := acc in
  let '(n, c) := kv in
  match alookup n (waits s) with
  | Some b =>
      if name_eqb (H b) (c_hash c) then
        let o := length (heap s) in
        (set_heap (heap s ++ [comp_to_obj n c ST_VALIDATED]) s, fin ++ [o], val)
      else recover_rest (set_waits (aremove n (waits s)) s) fin val n c
  | None => recover_rest s fin val n c
  end.

(* a complete, not yet validated body whose version the log (loaded into the
   cache) knows as put away is a retransmission that was in flight when the
   process stopped: dropped (fix "ignore duplicate in Recover") *)
Definition recover_validate (s : stage) (o : nat) : stage :=
  let f := obj s o in
  let n := f_name f in
  if (ST_FINALIZED <=? cache_state s n) && name_eqb (cache_hash s n) (f_hash f)
  then set_cmps (aremove n (cmps s)) (set_fulls (aremove n (fulls s)) s)
  else process (to_cache s o ST_RECEIVED) o.

(* [oldest] = how far back the companions found on the stage reach: the oldest
   modification time of a companion, or the oldest (sender-side) time of a file a
   companion stands for, whichever is earlier (an input: the model keeps no file
   times; [now] when there is none).  The receive log is read back to a day before
   it, so that a retransmission that was in flight when the process stopped - however
   long ago it stopped, and however long after the delivery the retransmission came -
   is compared with the record of its delivery *)
Definition recover (s : stage) (now oldest : Z) : stage :=
  let '(s1, fin, val) := fold_left recover_one (cmps s) (s, [], []) in
  let s2 := build_cache s1 now (Z.min now oldest - 86400) in
  let s3 := fold_left (fun acc o => let a := to_cache acc o ST_VALIDATED in set_fq (fq a ++ [o]) a) fin s2 in
  fold_left recover_validate val s3.

Definition restart (s : stage) (now oldest : Z) : stage := recover (crash s) now oldest.

End WithHash.

(* ---- operations of a history --------------------------------------------------- *)
Inductive sop :=
| OPrepare (n : name) (size : Z)
| OReceive (p : part_req) (data : list Z) (rerr : bool)
| OSettle (now : Z)
| OReceivedQ (now : Z) (ps : list part_req)
| OStatusQ (now : Z) (n h : name) (sent : Z)
| OScanQ
| OClean
| OTimers
| ORestart (now oldest : Z)
| OAge (n : name)                       (* the partial's mtime becomes older than the cleaning age *)
| OTamper (n : name) (ext : Z) (data : list Z)   (* overwrite a staged body: 0 part 1 full 2 wait *)
| OImage (img : stage)                          (* process death: the durable state found on disk, volatile state gone *)
| OCleanCache (now : Z)                         (* cleanCache (runs after every 1000th cache entry) *)
| OAgeAll (d : Z)                               (* d seconds pass *)
| OBuildCache (now from : Z).                   (* the receive log is read back to [from] (Receive does it before
                                                   its duplicate check, fix "Receive reads the log back": the
                                                   driver issues it before every part) *)

Inductive sout :=
| RNone | RBool (b : bool) | RNum (z : Z) | RScan (l : list (name * comp)).

Definition SETTLE_FUEL : nat := 4000.

Definition sstep (H : list Z -> name) (s : stage) (op : sop) : stage * sout :=
  match op with
  | OPrepare n size => (prepare s n size, RNone)
  | OReceive p d e => let '(s', ok) := receive s p d e in (s', RBool ok)
  | OSettle now => (settle H SETTLE_FUEL s now, RNone)
  | OReceivedQ now ps => let '(s', k) := received_q s now ps in (s', RNum k)
  | OStatusQ now n h sent => let '(s', c) := status_q s now n h sent in (s', RNum c)
  | OScanQ => let '(s', l) := scan_q s in (s', RScan l)
  | OClean => (clean s, RNone)
  | OTimers => (timers_fire s, RNone)
  | ORestart now oldest => (restart H s now oldest, RNone)
  | OAge n => (match alookup n (parts s) with
               | Some sf => set_parts (aset n (mksf (sf_data sf) true) (parts s)) s
               | None => s end, RNone)
  | OTamper n ext d =>
      ((if ext =? 0 then
          match alookup n (parts s) with Some sf => set_parts (aset n (mksf d (sf_old sf)) (parts s)) s | None => s end
        else if ext =? 1 then
          (if ahas n (fulls s) then set_fulls (aset n d (fulls s)) s else s)
        else (if ahas n (waits s) then set_waits (aset n d (waits s)) s else s)), RNone)
  | OImage img => (crash img, RNone)
  | OCleanCache now => (clean_cache s now, RNone)
  | OAgeAll d => (age_all s d, RNone)
  | OBuildCache now from => (build_cache s now from, RNone)
  end.
