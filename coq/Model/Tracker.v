(* Model of the sender's tracker (client/client.go startTrack): per file name, how many
   acknowledged bytes have come in; a file is written to the "sent" log when the count
   reaches its send size and is handed to the poller at the next turn of the loop.
   C08, second sentence.  Definitions only. *)
From Coq Require Import List ZArith Bool.
From STS Require Import Model.Queue.
Import ListNotations.
Open Scope Z_scope.

(* one acknowledged part, as the tracker sees it *)
Record tpart := mktp { tp_name : name; tp_hash : name; tp_send : Z (* bytes of the file to be sent in all *); tp_len : Z }.

Record tentry := mkte { te_sent : Z; te_size : Z; te_hash : name }.

Definition tprog := list (name * tentry).

Fixpoint tget (k : name) (m : tprog) : option tentry :=
  match m with
  | [] => None
  | (k', v) :: r => if name_eqb k' k then Some v else tget k r
  end.

Fixpoint tset (k : name) (v : tentry) (m : tprog) : tprog :=
  match m with
  | [] => [(k, v)]
  | (k', v') :: r => if name_eqb k' k then (k, v) :: r else (k', v') :: tset k v r
  end.

Inductive tev :=
| TLogged (n : name) (h : name)      (* Logger.Sent *)
| THanded (n : name) (h : name).     (* put on the poller's channel, entry forgotten *)

(* one part of a forwarded payload *)
Definition track_part (st : tprog * list tev) (p : tpart) : tprog * list tev :=
  let '(m, evs) := st in
  let e0 := match tget (tp_name p) m with
            | None => mkte 0 (tp_send p) (tp_hash p)
            | Some e => if name_eqb (te_hash e) (tp_hash p) then e
                        else mkte 0 (tp_send p) (tp_hash p)      (* another version: start over *)
            end in
  let e1 := mkte (te_sent e0 + tp_len p) (te_size e0) (te_hash e0) in
  (tset (tp_name p) e1 m,
   if te_size e1 <=? te_sent e1 then evs ++ [TLogged (tp_name p) (te_hash e1)] else evs).

(* top of the loop: everything that is complete goes to the poller *)
Definition hand_off (st : tprog * list tev) : tprog * list tev :=
  let '(m, evs) := st in
  (filter (fun kv => negb (te_size (snd kv) <=? te_sent (snd kv))) m,
   evs ++ map (fun kv => THanded (fst kv) (te_hash (snd kv)))
              (filter (fun kv => te_size (snd kv) <=? te_sent (snd kv)) m)).

Definition track_payload (st : tprog * list tev) (parts : list tpart) : tprog * list tev :=
  fold_left track_part parts (hand_off st).

Definition track_run (payloads : list (list tpart)) : tprog * list tev :=
  hand_off (fold_left track_payload payloads ([], [])).
