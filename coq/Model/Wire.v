(* Model of the payload wire format (C13).
   Code anchors: payload/bin.go  EncodeHeader / fileMeta (json tags n r p f t s b e),
   Encoder.Read, NewDecoder, Decoder.Next, PartDecoder.Read;
   marshal/types.go NanoTime ("sec+nsec"); http/client.go Transmit (header bytes
   followed by the part bytes, X-STS-MetaLen = len(header), X-STS-Sep);
   http/server.go routeData (Next / Receive loop).
   Strings are lists of BYTES (Go strings); encoding/json is modelled at the byte
   level on valid UTF-8 (what it does with invalid UTF-8 - replacing it by U+FFFD -
   is outside the model: the driver does not generate such names).
   gzip and net/http are library code: the model is the uncompressed byte stream.
   Definitions only. *)
From Coq Require Import List ZArith Bool.
From STS Require Import Model.Queue Model.Auth.
Import ListNotations.
Open Scope Z_scope.

Notation wbytes := (list Z).

(* ---- decimal integers (strconv / encoding/json) ---------------------------- *)
Fixpoint dec_aux (fuel : nat) (n : Z) (acc : wbytes) : wbytes :=
  match fuel with
  | O => acc
  | S f => if n <? 10 then (48 + n) :: acc
           else dec_aux f (n / 10) ((48 + n mod 10) :: acc)
  end.
Definition DEC_FUEL : nat := 20%nat.
Definition dec_nat (n : Z) : wbytes := dec_aux DEC_FUEL n [].
Definition dec (z : Z) : wbytes := if z <? 0 then 45 :: dec_nat (- z) else dec_nat z.

Definition is_digit (c : Z) : bool := (48 <=? c) && (c <=? 57).

(* value of a run of leading digits; returns (value, number of digits, rest) *)
Fixpoint span_digits (s : wbytes) (acc : Z) (n : nat) : Z * nat * wbytes :=
  match s with
  | c :: r => if is_digit c then span_digits r (acc * 10 + (c - 48)) (S n) else (acc, n, s)
  | [] => (acc, n, s)
  end.

Definition parse_nat (s : wbytes) : option (Z * wbytes) :=
  match span_digits s 0 O with
  | (_, O, _) => None
  | (v, _, r) => Some (v, r)
  end.

Definition parse_int (s : wbytes) : option (Z * wbytes) :=
  match s with
  | c :: r =>
      if c =? 45 then match parse_nat r with Some (v, r') => Some (- v, r') | None => None end
      else parse_nat s
  | [] => None
  end.

(* ---- JSON strings ------------------------------------------------------------ *)
Definition hexd (n : Z) : Z := if n <? 10 then 48 + n else 87 + n.
Definition unhex (c : Z) : option Z :=
  if is_digit c then Some (c - 48)
  else if (97 <=? c) && (c <=? 102) then Some (c - 87)
  else if (65 <=? c) && (c <=? 70) then Some (c - 55)
  else None.

Definition u00 (b : Z) : wbytes := [92; 117; 48; 48; hexd (b / 16); hexd (b mod 16)].

(* one ASCII byte, as encoding/json's appendString with escapeHTML writes it *)
Definition esc1 (b : Z) : wbytes :=
  if b =? 34 then [92; 34]
  else if b =? 92 then [92; 92]
  else if b =? 8 then [92; 98]
  else if b =? 12 then [92; 102]
  else if b =? 10 then [92; 110]
  else if b =? 13 then [92; 114]
  else if b =? 9 then [92; 116]
  else if (b <? 32) || (b =? 60) || (b =? 62) || (b =? 38) then u00 b
  else [b].

(* U+2028 / U+2029 (E2 80 A8 / E2 80 A9) are written as \u2028 / \u2029 *)
Definition is_ls (a b c : Z) : bool := (a =? 226) && (b =? 128) && ((c =? 168) || (c =? 169)).

Fixpoint esc (s : wbytes) : wbytes :=
  match s with
  | [] => []
  | a :: t =>
      match t with
      | b :: c :: r =>
          if is_ls a b c
          then [92; 117; 50; 48; 50; hexd (c - 160)] ++ esc r
          else esc1 a ++ esc t
      | _ => esc1 a ++ esc t
      end
  end.

Definition enc_str (s : wbytes) : wbytes := 34 :: esc s ++ [34].

(* UTF-8 of a code point below 65536 *)
Definition utf8 (c : Z) : wbytes :=
  if c <? 128 then [c]
  else if c <? 2048 then [192 + c / 64; 128 + c mod 64]
  else [224 + c / 4096; 128 + (c / 64) mod 64; 128 + c mod 64].

Definition hex4 (a b c d : Z) : option Z :=
  match unhex a, unhex b, unhex c, unhex d with
  | Some x, Some y, Some z, Some w => Some (((x * 16 + y) * 16 + z) * 16 + w)
  | _, _, _, _ => None
  end.

(* the body of a string literal after the opening quote: (content, rest after the
   closing quote).  Surrogate escapes are not produced by the sender: refused. *)
Fixpoint unesc (s : wbytes) (acc : wbytes) : option (wbytes * wbytes) :=
  match s with
  | [] => None
  | c :: r =>
      if c =? 34 then Some (rev acc, r)
      else if c =? 92 then
        match r with
        | e :: r2 =>
            if e =? 117 then
              match r2 with
              | h1 :: h2 :: h3 :: h4 :: r3 =>
                  match hex4 h1 h2 h3 h4 with
                  | Some cp => if (55296 <=? cp) && (cp <=? 57343) then None
                               else unesc r3 (rev (utf8 cp) ++ acc)
                  | None => None
                  end
              | _ => None
              end
            else if e =? 34 then unesc r2 (34 :: acc)
            else if e =? 92 then unesc r2 (92 :: acc)
            else if e =? 47 then unesc r2 (47 :: acc)
            else if e =? 98 then unesc r2 (8 :: acc)
            else if e =? 102 then unesc r2 (12 :: acc)
            else if e =? 110 then unesc r2 (10 :: acc)
            else if e =? 114 then unesc r2 (13 :: acc)
            else if e =? 116 then unesc r2 (9 :: acc)
            else None
        | [] => None
        end
      else if c <? 32 then None
      else unesc r (c :: acc)
  end.

Definition parse_str (s : wbytes) : option (wbytes * wbytes) :=
  match s with
  | 34 :: r => unesc r []
  | _ => None
  end.

(* ---- part descriptors ----------------------------------------------------------- *)
Record desc := mkdesc {
  d_name : wbytes; d_ren : wbytes; d_prev : wbytes; d_hash : wbytes;
  d_sec : Z; d_nsec : Z;           (* modification time: Unix seconds, nanoseconds *)
  d_size : Z; d_beg : Z; d_end : Z
}.

Definition key (k : Z) : wbytes := [34; k; 34; 58].          (* "k": *)

Definition enc_time (sec nsec : Z) : wbytes := 34 :: dec sec ++ 43 :: dec nsec ++ [34].

Definition enc_desc (d : desc) : wbytes :=
  123 :: key 110 ++ enc_str (d_name d) ++
  44 :: key 114 ++ enc_str (d_ren d) ++
  44 :: key 112 ++ enc_str (d_prev d) ++
  44 :: key 102 ++ enc_str (d_hash d) ++
  44 :: key 116 ++ enc_time (d_sec d) (d_nsec d) ++
  44 :: key 115 ++ dec (d_size d) ++
  44 :: key 98 ++ dec (d_beg d) ++
  44 :: key 101 ++ dec (d_end d) ++ [125].

Fixpoint enc_descs (ds : list desc) : wbytes :=
  match ds with
  | [] => []
  | [d] => enc_desc d
  | d :: r => enc_desc d ++ 44 :: enc_descs r
  end.

Definition enc_header (ds : list desc) : wbytes := 91 :: enc_descs ds ++ [93].

Fixpoint eat (p s : wbytes) : option wbytes :=
  match p, s with
  | [], _ => Some s
  | x :: p', y :: s' => if x =? y then eat p' s' else None
  | _ :: _, [] => None
  end.

(* NanoTime.UnmarshalJSON on the unescaped string: "sec+nsec" *)
Definition parse_time (t : wbytes) : option (Z * Z) :=
  match parse_int t with
  | Some (sec, 43 :: r) =>
      match parse_int r with
      | Some (ns, []) => Some (sec, ns)
      | _ => None
      end
  | _ => None
  end.

Definition parse_desc (s : wbytes) : option (desc * wbytes) :=
  match eat (123 :: key 110) s with None => None | Some s =>
  match parse_str s with None => None | Some (n, s) =>
  match eat (44 :: key 114) s with None => None | Some s =>
  match parse_str s with None => None | Some (r, s) =>
  match eat (44 :: key 112) s with None => None | Some s =>
  match parse_str s with None => None | Some (p, s) =>
  match eat (44 :: key 102) s with None => None | Some s =>
  match parse_str s with None => None | Some (f, s) =>
  match eat (44 :: key 116) s with None => None | Some s =>
  match parse_str s with None => None | Some (t, s) =>
  match parse_time t with None => None | Some (sec, ns) =>
  match eat (44 :: key 115) s with None => None | Some s =>
  match parse_int s with None => None | Some (sz, s) =>
  match eat (44 :: key 98) s with None => None | Some s =>
  match parse_int s with None => None | Some (b, s) =>
  match eat (44 :: key 101) s with None => None | Some s =>
  match parse_int s with None => None | Some (e, s) =>
  match eat [125] s with None => None | Some s =>
    Some (mkdesc n r p f sec ns sz b e, s)
  end end end end end end end end end end end end end end end end end end.

(* objects separated by ',' up to the closing ']' *)
Fixpoint parse_descs (fuel : nat) (s : wbytes) : option (list desc * wbytes) :=
  match fuel with
  | O => None
  | S f =>
      match parse_desc s with
      | None => None
      | Some (d, s1) =>
          match s1 with
          | 93 :: rest => Some ([d], rest)
          | 44 :: s2 =>
              match parse_descs f s2 with
              | Some (ds, rest) => Some (d :: ds, rest)
              | None => None
              end
          | _ => None
          end
      end
  end.

Definition parse_header (s : wbytes) : option (list desc * wbytes) :=
  match s with
  | 91 :: 93 :: rest => Some ([], rest)
  | 91 :: r => parse_descs (length r) r
  | _ => None
  end.

Definition is_ws (c : Z) : bool := (c =? 32) || (c =? 9) || (c =? 10) || (c =? 13).

(* ---- separator translation (NewDecoder: Join(Split(name, sep)...)) ---------------- *)
Fixpoint wsplit (sep : Z) (s : wbytes) (cur : wbytes) : list wbytes :=
  match s with
  | [] => [rev cur]
  | c :: r => if c =? sep then rev cur :: wsplit sep r [] else wsplit sep r (c :: cur)
  end.

Fixpoint wjoin (sep : Z) (l : list wbytes) : wbytes :=
  match l with
  | [] => []
  | [x] => x
  | x :: r => x ++ sep :: wjoin sep r
  end.

(* filepath.Clean on Linux *)
Definition clean_path (p : wbytes) : wbytes :=
  match p with
  | [] => [46]
  | c :: _ =>
      let segs := wsplit 47 p [] in
      if c =? 47 then 47 :: wjoin 47 (clean_abs [] segs)
      else match clean_rel [] segs with
           | [] => [46]
           | out => wjoin 47 out
           end
  end.

(* filepath.Join(strings.Split(name, sep)...) ; sep = 0 : no header, no translation *)
Definition translate (sep : Z) (s : wbytes) : wbytes :=
  if sep =? 0 then s
  else match filter (fun e => negb (is_empty e)) (wsplit sep s []) with
       | [] => []
       | els => clean_path (wjoin 47 els)
       end.

Definition translate_desc (sep : Z) (d : desc) : desc :=
  mkdesc (translate sep (d_name d)) (d_ren d) (translate sep (d_prev d)) (d_hash d)
         (d_sec d) (d_nsec d) (d_size d) (d_beg d) (d_end d).

(* ---- framing --------------------------------------------------------------------- *)
Definition wire_of (ds : list desc) (bodies : list wbytes) : wbytes :=
  enc_header ds ++ concat bodies.

(* NewDecoder: the first n bytes are the header (n <= 0: the whole stream is);
   a stream shorter than n, a header that does not parse and anything but white
   space after the JSON value are refused *)
Definition decode_header (n : Z) (sep : Z) (w : wbytes) : option (list desc * wbytes) :=
  let hn := if n <=? 0 then length w else Z.to_nat n in
  if (length w <? hn)%nat then None
  else match parse_header (firstn hn w) with
       | Some (ds, trailing) =>
           if forallb is_ws trailing then Some (map (translate_desc sep) ds, skipn hn w) else None
       | None => None
       end.

Definition part_len (d : desc) : nat := Z.to_nat (d_end d - d_beg d).

(* PartDecoder.Read with a buffer of req bytes while the underlying stream hands
   out at most grant bytes at a time: (bytes returned, new position, stream left,
   end-of-part-or-stream signalled) *)
Definition pd_read (total pos : nat) (stream : wbytes) (req grant : nat)
  : wbytes * nat * wbytes * bool :=
  let want := Nat.min (Nat.min (total - pos) req) grant in
  let got := firstn want stream in
  let k := length got in
  let pos' := (pos + k)%nat in
  (got, pos', skipn k stream,
   (pos' =? total)%nat || (match stream with [] => true | _ => false end)).

(* the consumer (io.Copy in Stage.Receive): read until the part reader signals the end.
   i counts the reads (the grant schedule is a function of it). *)
Fixpoint copy_part (fuel : nat) (total pos : nat) (stream : wbytes) (req : nat)
                   (g : nat -> nat) (i : nat) (acc : wbytes) : wbytes * nat * wbytes :=
  match fuel with
  | O => (acc, pos, stream)
  | S f =>
      let '(got, pos', stream', fin) := pd_read total pos stream req (g i) in
      if fin then (acc ++ got, pos', stream')
      else copy_part f total pos' stream' req g (S i) (acc ++ got)
  end.

(* routeData: parts in header order; the first short part ends the request *)
Fixpoint decode_body (ds : list desc) (stream : wbytes) (req : nat) (g : nat -> nat)
  : list (desc * wbytes * bool) :=
  match ds with
  | [] => []
  | d :: r =>
      let total := part_len d in
      let '(got, pos, stream') := copy_part (S total) total 0 stream req g 0%nat [] in
      if (pos =? total)%nat then (d, got, true) :: decode_body r stream' req g
      else [(d, got, false)]
  end.

Definition decode (n sep : Z) (w : wbytes) (req : nat) (g : nat -> nat)
  : option (list (desc * wbytes * bool)) :=
  match decode_header n sep w with
  | Some (ds, body) => Some (decode_body ds body req g)
  | None => None
  end.

(* the specification the operational reader refines: cut the stream at the
   announced lengths *)
Fixpoint split_spec (ds : list desc) (stream : wbytes) : list (desc * wbytes * bool) :=
  match ds with
  | [] => []
  | d :: r =>
      let t := part_len d in
      if (t <=? length stream)%nat
      then (d, firstn t stream, true) :: split_spec r (skipn t stream)
      else [(d, stream, false)]
  end.

(* the sender's side: Encoder.Read with a buffer of req bytes walks the parts in
   order; the concatenation of what it returns *)
Definition encode_body (bodies : list wbytes) : wbytes := concat bodies.

(* domain predicates *)
Definition byte_ok (c : Z) : bool := (0 <=? c) && (c <? 256).
Definition str_ok (s : wbytes) : bool := forallb byte_ok s.
Definition LIM : Z := 10000000000000000000.     (* 10^19 > 2^63 *)
Definition int_ok (z : Z) : bool := (- LIM <? z) && (z <? LIM).
Definition desc_ok (d : desc) : bool :=
  str_ok (d_name d) && str_ok (d_ren d) && str_ok (d_prev d) && str_ok (d_hash d) &&
  int_ok (d_sec d) && int_ok (d_nsec d) && int_ok (d_size d) && int_ok (d_beg d) && int_ok (d_end d).
