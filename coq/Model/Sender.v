(* Model of the sender's send loop, tracker and release decisions
   (C08, C02, C07).  Code anchor: client/client.go startSend, handleSendError
   (after fix 3574b5d), payload.Bin.Split / Remove, startTrack, startValidate,
   finish, recover().  Definitions only. *)
From Coq Require Import List ZArith Bool.
From STS Require Import Model.Queue.   (* name, name_eqb *)
Import ListNotations.
Open Scope Z_scope.

(* ---- the send loop for ONE payload ------------------------------------------
   parts are identified by numbers; the network / receiver is an event list *)
Inductive sev :=
| ETx (n : nat) (ok : bool)        (* Transmitter returned (n, err == nil) *)
| ERec (n : nat) (ok : bool)       (* TxRecoverer returned (n, err == nil) *)
| EChanged (ids : list Z).         (* parts whose file changed / vanished (checked after a failure) *)

(* Bin.Split(n): nil unless 1 <= n < len *)
Definition split_at (k : nat) (ps : list Z) : option (list Z * list Z) :=
  if (Nat.ltb k 1) || (Nat.leb (length ps) k) then None
  else Some (firstn k ps, skipn k ps).

(* Bin.Remove: swap with the last element, drop it *)
Fixpoint index_of (x : Z) (l : list Z) : option nat :=
  match l with
  | [] => None
  | y :: r => if y =? x then Some O else match index_of x r with Some i => Some (S i) | None => None end
  end.

Fixpoint set_nth (l : list Z) (i : nat) (v : Z) : list Z :=
  match l, i with
  | [], _ => []
  | _ :: r, O => v :: r
  | y :: r, S j => y :: set_nth r j v
  end.

Definition remove_swap (ps : list Z) (x : Z) : list Z :=
  match index_of x ps with
  | None => ps
  | Some i => removelast (set_nth ps i (last ps 0))
  end.

Definition filter_changed (ps changed : list Z) : list Z :=
  fold_left (fun acc p => if existsb (Z.eqb p) changed then remove_swap acc p else acc) ps ps.

Record sres := mksres {
  requests : list (list Z);      (* what each Transmit call carried, oldest first *)
  forwarded : list (list Z);     (* groups handed to the tracker (chTransmitted), oldest first *)
  sdropped : list Z;             (* parts removed because their file changed *)
  rest : list Z;                 (* still to send when the events ran out *)
  finished : bool
}.

(* handleSendError's inner loop: ask /data-recovery until it answers *)
Fixpoint recover_count (evs : list sev) : option (nat * list sev) :=
  match evs with
  | ERec n true :: r => Some (n, r)
  | ERec _ false :: r => recover_count r
  | _ => None
  end.

(* how many leading parts of a failed request count as sent, and what remains *)
Definition ack_split (k : nat) (ps : list Z) : list (list Z) * list Z :=
  if Nat.ltb 0 k then
    match split_at k ps with
    | Some (hd, tl) => ([hd], tl)
    | None => ([ps], [])          (* Split refused (k >= len): the whole payload is forwarded *)
    end
  else ([], ps).

Definition add_req (acc : sres) (ps : list Z) : sres :=
  mksres (requests acc ++ [ps]) (forwarded acc) (sdropped acc) [] false.
Definition add_fwd (acc : sres) (g : list (list Z)) : sres :=
  mksres (requests acc) (forwarded acc ++ g) (sdropped acc) [] false.
Definition add_drop (acc : sres) (d : list Z) : sres :=
  mksres (requests acc) (forwarded acc) (sdropped acc ++ d) [] false.
Definition stop_with (acc : sres) (ps : list Z) (fin : bool) : sres :=
  mksres (requests acc) (forwarded acc) (sdropped acc) ps fin.

Fixpoint send_loop (fuel : nat) (ps : list Z) (evs : list sev) (acc : sres) : sres :=
  match fuel with
  | O => stop_with acc ps false
  | S f =>
      match evs with
      | ETx n ok :: r =>
          let acc1 := add_req acc ps in
          if ok then stop_with (add_fwd acc1 [ps]) [] true
          else
            (* handleSendError(payload, n) *)
            match (if Nat.eqb n 0 then recover_count r else Some (n, r)) with
            | None => stop_with acc1 ps false
            | Some (k, r1) =>
                let '(fwd, remain) := ack_split k ps in
                let acc2 := add_fwd acc1 fwd in
                match remain with
                | [] => stop_with acc2 [] true
                | _ =>
                    match r1 with
                    | EChanged ch :: r2 =>
                        let acc3 := add_drop acc2 (filter (fun p => existsb (Z.eqb p) ch) remain) in
                        match filter_changed remain ch with
                        | [] => stop_with acc3 [] true
                        | remain' => send_loop f remain' r2 acc3
                        end
                    | _ => stop_with acc2 remain false
                    end
                end
            end
      | _ => stop_with acc ps false
      end
  end.

Definition run_send (ps : list Z) (evs : list sev) : sres :=
  send_loop (S (length evs)) ps evs (mksres [] [] [] [] false).

(* ---- the tracker: when is a file logged as sent and handed to the poller ----
   progress per file: (sent so far, send size); a part adds its length *)
Definition track_add (sent size len : Z) : Z * bool := (sent + len, size <=? sent + len).

(* ---- release decision (finish / startValidate / recover poll) --------------- *)
Definition POLL_NONE : Z := 0.
Definition POLL_FAILED : Z := 1.
Definition POLL_PASSED : Z := 2.
Definition POLL_WAITING : Z := 3.

Inductive action := ARelease | ARetry | AKeepPolling.

(* startValidate: what happens to a polled file with answer [code] after
   [polled] earlier not-found answers, with [attempts] = PollAttempts *)
Definition on_poll (code : Z) (polled attempts : Z) : action :=
  if code =? POLL_NONE then (if polled + 1 =? attempts then ARetry else AKeepPolling)
  else if code =? POLL_FAILED then ARetry
  else if (code =? POLL_WAITING) || (code =? POLL_PASSED) then ARelease
  else AKeepPolling.

(* ---- finish(): what ONE poll answer does to the cache entry of that name and to the
   source file.  cached = hash of the cache entry as it is now ([] = the entry is a new
   version that could not be hashed yet), polled = hash of the version the answer is
   about ([] = not given); can_delete = the tag says delete (and the delay has passed);
   disk: 0 = the file is the cached version, 1 = it changed since, 2 = it is gone *)
Definition confirmation_applies (cached polled : name) : bool :=
  match polled with [] => true | _ => name_eqb cached polled end.

Record fin_out := mkfo { fo_done : bool; fo_removed : bool; fo_retry : bool }.

Definition finish_step (code : Z) (cached polled : name) (was_done can_delete : bool) (disk : Z) : fin_out :=
  if (code =? POLL_WAITING) || (code =? POLL_PASSED) then
    if confirmation_applies cached polled then
      mkfo true (negb was_done && can_delete && (disk =? 0)) false
    else mkfo was_done false false
  else mkfo was_done false true.

(* ---- which files a scan hands to the sender (C17) ------------------------------
   store/local.go handleNode + shouldIgnore, client.go includeScannedFile.
   Pattern matching is regexp (library): its verdicts are inputs. *)
Record finfo := mkfinfo {
  fi_size : Z;
  fi_age : Z;              (* scan start - mtime *)
  fi_hidden : bool;        (* the base name starts with '.' *)
  fi_dir_skipped : bool;   (* an ancestor directory is hidden (and hidden files are off) or matches an ignore pattern *)
  fi_ignored : bool;       (* an ignore pattern (incl. the standard .lck / .disabled ones, or a non-HTTP tag pattern) matches *)
  fi_included : bool;      (* some include pattern matches *)
  fi_cached : option (Z * Z)  (* (size, mtime) of the cache entry of that name *)
}.

Definition scan_returns (disabled include_hidden has_include : bool) (min_age mtime : Z) (f : finfo) : bool :=
  negb disabled &&
  negb (fi_dir_skipped f) &&
  negb (negb include_hidden && fi_hidden f) &&
  negb (fi_ignored f) &&
  (negb has_include || fi_included f) &&
  (min_age <=? fi_age f) &&
  (* includeScannedFile *)
  negb (fi_size f =? 0) &&
  match fi_cached f with
  | None => true
  | Some (csize, ctime) => negb (csize =? fi_size f) || negb (ctime =? mtime)
  end.

(* ---- scan histories (C17): the cache is what makes a scan depend on the past ------
   Broker.scan: every file the scan returns is hashed and cache.Add'ed with the
   size and modification time it had when it was scanned. *)
Record dfile := mkdfile {
  df_name : name; df_size : Z; df_mtime : Z;
  df_hidden : bool; df_skipped : bool; df_ignored : bool; df_included : bool
}.

Definition scache := list (name * (Z * Z)).

Fixpoint sc_get (c : scache) (n : name) : option (Z * Z) :=
  match c with
  | [] => None
  | (m, v) :: r => if name_eqb m n then Some v else sc_get r n
  end.

Definition sc_put (c : scache) (n : name) (v : Z * Z) : scache := (n, v) :: c.

Record scan_cfg := mkscfg { sc_disabled : bool; sc_hidden : bool; sc_hasinc : bool; sc_minage : Z }.

Definition scan_file (cfg : scan_cfg) (now : Z) (c : scache) (d : dfile) : bool :=
  scan_returns (sc_disabled cfg) (sc_hidden cfg) (sc_hasinc cfg) (sc_minage cfg) (df_mtime d)
    (mkfinfo (df_size d) (now - df_mtime d) (df_hidden d) (df_skipped d) (df_ignored d) (df_included d)
             (sc_get c (df_name d))).

Definition scan_once (cfg : scan_cfg) (now : Z) (world : list dfile) (c : scache) : list dfile * scache :=
  let ret := filter (scan_file cfg now c) world in
  (ret, fold_left (fun c d => sc_put c (df_name d) (df_size d, df_mtime d)) ret c).

(* the periodic clean-up at the head of Broker.scan (once per cache-age interval):
   every entry whose file is no longer in the outgoing directory is dropped - and
   nothing else, whether the entry is confirmed or not *)
Definition sc_present (world : list dfile) (n : name) : bool :=
  existsb (fun d => name_eqb (df_name d) n) world.

Definition sc_clean (world : list dfile) (c : scache) : scache :=
  filter (fun e => sc_present world (fst e)) c.

Definition scan_once_c (clean : bool) (cfg : scan_cfg) (now : Z) (world : list dfile) (c : scache)
  : list dfile * scache :=
  scan_once cfg now world (if clean then sc_clean world c else c).

(* histories of scans some of which begin with the clean-up *)
Definition scan_ev := (bool * scan_cfg * Z * list dfile)%type.
Definition ev_world (e : scan_ev) : list dfile := snd e.

Fixpoint scan_cache_c (evs : list scan_ev) (c : scache) : scache :=
  match evs with
  | [] => c
  | (cl, cfg, now, world) :: r => scan_cache_c r (snd (scan_once_c cl cfg now world c))
  end.

(* a history: each scan sees the configuration (the disable marker can come and go),
   the clock and the directory tree of its moment *)
Fixpoint scan_run (evs : list (scan_cfg * Z * list dfile)) (c : scache) : list (list dfile) :=
  match evs with
  | [] => []
  | (cfg, now, world) :: r =>
      let '(ret, c') := scan_once cfg now world c in ret :: scan_run r c'
  end.

(* the version of a name that was returned last, by the outputs so far (oldest first) *)
Fixpoint last_returned (outs : list (list dfile)) (n : name) (acc : option (Z * Z)) : option (Z * Z) :=
  match outs with
  | [] => acc
  | o :: r =>
      last_returned r n
        (fold_left (fun a d => if name_eqb (df_name d) n then Some (df_size d, df_mtime d) else a) o acc)
  end.

(* the cache after a history *)
Fixpoint scan_cache (evs : list (scan_cfg * Z * list dfile)) (c : scache) : scache :=
  match evs with
  | [] => c
  | (cfg, now, world) :: r => scan_cache r (snd (scan_once cfg now world c))
  end.

(* eligibility without the cache, and "differs from the version returned last" *)
Definition eligible (cfg : scan_cfg) (now : Z) (d : dfile) : bool :=
  scan_returns (sc_disabled cfg) (sc_hidden cfg) (sc_hasinc cfg) (sc_minage cfg) (df_mtime d)
    (mkfinfo (df_size d) (now - df_mtime d) (df_hidden d) (df_skipped d) (df_ignored d) (df_included d) None).

Definition changed_since (last : option (Z * Z)) (d : dfile) : bool :=
  match last with
  | None => true
  | Some (s, m) => negb (s =? df_size d) || negb (m =? df_mtime d)
  end.

(* ---- the restart plan (C07): what recover() does with one cached file ------------ *)
Inductive plan :=
| PSkip                         (* done before, ignored now, changed (the scanner owns it), no hash yet *)
| PMarkDone                     (* the source file vanished *)
| PSendRanges (rs : list (Z * Z))  (* partly received: send exactly the missing ranges, keeping the announced predecessor *)
| PPoll.                        (* fully sent or not at all: ask the receiver *)

Definition recover_decide (done ignored vanished changed has_hash : bool)
                          (missing : option (list (Z * Z))) : plan :=
  if done then PSkip
  else if ignored then PSkip
  else if vanished then PMarkDone
  else if changed then PSkip
  else if negb has_hash then PSkip
  else match missing with
       | Some (r :: rs) => PSendRanges (r :: rs)
       | _ => PPoll
       end.

Inductive after_poll := QSendWhole | QFinishAndPlaceholder | QNothing.
Definition recover_after_poll (code : Z) : after_poll :=
  if (code =? POLL_NONE) || (code =? POLL_FAILED) then QSendWhole
  else if (code =? POLL_WAITING) || (code =? POLL_PASSED) then QFinishAndPlaceholder
  else QNothing.
