(* Model of Stage.Prune / pruneTree (C20, second clause): empty directories that are
   old enough are removed, deepest first; a directory that becomes empty because its
   (old, empty) subdirectories were just removed goes too, if it is old itself.
   Code anchor: stage/local.go pruneTree.  Definitions only. *)
From Coq Require Import List ZArith Bool.
From STS Require Import Model.Queue.
Import ListNotations.
Open Scope Z_scope.

Definition ppath := list name.       (* segments below the pruned root; [] = the root itself *)

Record pnode := mkpnode { pn_path : ppath; pn_dir : bool; pn_old : bool }.

Fixpoint ppath_eqb (a b : ppath) : bool :=
  match a, b with
  | [], [] => true
  | x :: a', y :: b' => name_eqb x y && ppath_eqb a' b'
  | _, _ => false
  end.

(* c is an entry of directory d: path(c) = path(d) ++ [one segment] *)
Fixpoint child_path (d c : ppath) : bool :=
  match d, c with
  | [], [_] => true
  | x :: d', y :: c' => name_eqb x y && child_path d' c'
  | _, _ => false
  end.

(* the walk lists the directories older than minAge; going through that list
   backwards (children before parents) a directory is removed iff it is empty
   then - i.e. iff every entry it had is a directory that was removed before it *)
Fixpoint removable (fuel : nat) (t : list pnode) (d : pnode) : bool :=
  match fuel with
  | O => false
  | S f =>
      pn_dir d && pn_old d &&
      forallb (fun c => if child_path (pn_path d) (pn_path c) then pn_dir c && removable f t c else true) t
  end.

(* deepest listed entry: the recursion above follows entries of entries, each one
   segment longer, so this many rounds are always enough (PruneP.fuel_sufficient) *)
Definition maxdepth (t : list pnode) : nat :=
  fold_right (fun n m => Nat.max (length (pn_path n)) m) O t.

Definition prune_fuel (t : list pnode) : nat := S (maxdepth t).

Definition prune (t : list pnode) : list pnode :=
  filter (fun n => negb (removable (prune_fuel t) t n)) t.
