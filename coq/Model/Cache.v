(* Model of the sender's queue cache (cache/local.go: JSON.add / Done / Reset / Remove /
   Persist, and NewJSON = load what was persisted): the record of which version of
   which file the sender knows, and whether the receiver confirmed it.  C17 rests on
   "the cache remembers exactly the version returned last", C02 on "a confirmation
   does not carry over to another version", C07 on "what a restarted sender finds is
   what was persisted last".  Definitions only. *)
From Coq Require Import List ZArith Bool.
From STS Require Import Model.Queue.
Import ListNotations.
Open Scope Z_scope.

Record centry := mkce {
  ce_size : Z;
  ce_time : Z;            (* mtime, nanoseconds *)
  ce_meta : list Z;       (* the store's private data (link target), bytes *)
  ce_hash : name;         (* [] = not hashed yet *)
  ce_done : bool
}.

Definition cmap := list (name * centry).

Fixpoint cget (k : name) (m : cmap) : option centry :=
  match m with
  | [] => None
  | (k', v) :: r => if name_eqb k' k then Some v else cget k r
  end.

Fixpoint cset (k : name) (v : centry) (m : cmap) : cmap :=
  match m with
  | [] => [(k, v)]
  | (k', v') :: r => if name_eqb k' k then (k, v) :: r else (k', v') :: cset k v r
  end.

Fixpoint cdel (k : name) (m : cmap) : cmap :=
  match m with
  | [] => []
  | (k', v') :: r => if name_eqb k' k then cdel k r else (k', v') :: cdel k r
  end.

(* in memory, on disk, and whether memory has changed since the last write *)
Record cache := mkcache { c_mem : cmap; c_disk : cmap; c_dirty : bool }.

Definition empty_cache : cache := mkcache [] [] false.

Definition c_is_empty (h : name) : bool := match h with [] => true | _ => false end.

(* a different version: size or mtime differ, or both are hashed and the hashes differ *)
Definition c_other_version (e : centry) (size time : Z) (hash : name) : bool :=
  negb (ce_size e =? size) || negb (ce_time e =? time) ||
  (negb (c_is_empty hash) && negb (name_eqb (ce_hash e) hash)).

Definition cadd (c : cache) (n : name) (size time : Z) (meta : list Z) (hash : name) : cache :=
  let e' := match cget n (c_mem c) with
            | Some e => mkce size time meta hash (ce_done e && negb (c_other_version e size time hash))
            | None => mkce size time meta hash false
            end in
  mkcache (cset n e' (c_mem c)) (c_disk c) true.

Definition cdone (c : cache) (n : name) : cache :=
  match cget n (c_mem c) with
  | Some e => if ce_done e then c
              else mkcache (cset n (mkce (ce_size e) (ce_time e) (ce_meta e) (ce_hash e) true) (c_mem c)) (c_disk c) true
  | None => c
  end.

Definition creset (c : cache) (n : name) : cache :=
  match cget n (c_mem c) with
  | Some e => mkcache (cset n (mkce (ce_size e) (ce_time e) (ce_meta e) [] (ce_done e)) (c_mem c)) (c_disk c) true
  | None => c
  end.

Definition cremove (c : cache) (n : name) : cache :=
  match cget n (c_mem c) with
  | Some _ => mkcache (cdel n (c_mem c)) (c_disk c) true
  | None => c
  end.

Definition cpersist (c : cache) : cache :=
  if c_dirty c then mkcache (c_mem c) (c_mem c) false else c.

(* the process dies and a new one loads the file *)
Definition crestart (c : cache) : cache := mkcache (c_disk c) (c_disk c) false.

Inductive cop :=
| CAdd (n : name) (size time : Z) (meta : list Z) (hash : name)
| CDone (n : name)
| CReset (n : name)
| CRemove (n : name)
| CPersist
| CRestart.

Definition cstep (c : cache) (op : cop) : cache :=
  match op with
  | CAdd n s t m h => cadd c n s t m h
  | CDone n => cdone c n
  | CReset n => creset c n
  | CRemove n => cremove c n
  | CPersist => cpersist c
  | CRestart => crestart c
  end.

Definition crun (c : cache) (ops : list cop) : cache := fold_left cstep ops c.
