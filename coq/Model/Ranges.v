(* Model of the receiver's byte-range bookkeeping.
   Code anchors: stage/companion.go addCompanionPart, companionPartExists,
   isCompanionComplete; client/client.go recover() "missing" computation.
   Definitions only - proofs live in Proofs/RangesP.v. *)
From Coq Require Import List ZArith Bool.
Import ListNotations.
Open Scope Z_scope.

Definition range := (Z * Z)%type.

(* addCompanionPart: walk the list; skip parts that end at or before beg;
   insert before the first part that starts at or after end; otherwise the
   first overlapping part is REPLACED by the new one. *)
Fixpoint add_part (ps : list range) (b e : Z) : list range :=
  match ps with
  | [] => [(b, e)]
  | (pb, pe) :: rest =>
      if pe <=? b then (pb, pe) :: add_part rest b e
      else if e <=? pb then (b, e) :: (pb, pe) :: rest
      else (b, e) :: rest
  end.

(* The range that addCompanionPart reports as replaced (None = plain insert). *)
Fixpoint add_part_replaced (ps : list range) (b e : Z) : option range :=
  match ps with
  | [] => None
  | (pb, pe) :: rest =>
      if pe <=? b then add_part_replaced rest b e
      else if e <=? pb then None
      else Some (pb, pe)
  end.

(* companionPartExists: sum of positive overlaps, early exit on equality. *)
Fixpoint part_exists_aux (ps : list range) (b e ov : Z) : bool :=
  match ps with
  | [] => ov =? e - b
  | (pb, pe) :: rest =>
      let n := Z.min e pe - Z.max b pb in
      if 0 <? n then
        (if ov + n =? e - b then true else part_exists_aux rest b e (ov + n))
      else part_exists_aux rest b e ov
  end.

Definition part_exists (ps : list range) (b e : Z) : bool :=
  part_exists_aux ps b e 0.

(* isCompanionComplete *)
Fixpoint no_gap (prev_end : Z) (ps : list range) : bool :=
  match ps with
  | [] => true
  | (pb, pe) :: rest => if prev_end <? pb then false else no_gap pe rest
  end.

Fixpoint last_end (ps : list range) (d : Z) : Z :=
  match ps with
  | [] => d
  | (_, pe) :: rest => last_end rest pe
  end.

(* (for a single part this is Beg = 0 && End = size, the code's special case) *)
Definition complete (ps : list range) (size : Z) : bool :=
  match ps with
  | [] => false
  | (pb, pe) :: rest =>
      (pb =? 0) && (last_end rest pe =? size) && no_gap pe rest
  end.

(* What a record claims. *)
Definition in_range (r : range) (i : Z) : Prop := fst r <= i < snd r.
Definition covered (ps : list range) (i : Z) : Prop :=
  exists r, In r ps /\ in_range r i.

Definition in_range_b (r : range) (i : Z) : bool :=
  (fst r <=? i) && (i <? snd r).
Definition covered_b (ps : list range) (i : Z) : bool :=
  existsb (fun r => in_range_b r i) ps.

(* ---- interval normal form (used for projected comparison and oracles) ---- *)

Fixpoint insert_sorted (r : range) (ps : list range) : list range :=
  match ps with
  | [] => [r]
  | p :: rest => if fst r <=? fst p then r :: p :: rest
                 else p :: insert_sorted r rest
  end.

Definition sort_ranges (ps : list range) : list range :=
  fold_right insert_sorted [] ps.

(* merge a list sorted by beg; empty / negative ranges are dropped first *)
Fixpoint merge_sorted (cur : range) (ps : list range) : list range :=
  match ps with
  | [] => [cur]
  | (pb, pe) :: rest =>
      if pb <=? snd cur then merge_sorted (fst cur, Z.max (snd cur) pe) rest
      else cur :: merge_sorted (pb, pe) rest
  end.

Definition nonempty_b (r : range) : bool := fst r <? snd r.

Definition norm (ps : list range) : list range :=
  match sort_ranges (filter nonempty_b ps) with
  | [] => []
  | p :: rest => merge_sorted p rest
  end.

(* [b,e) is inside the set described by a NORMALISED list *)
Definition range_in_norm (ns : list range) (b e : Z) : bool :=
  (e <=? b) || existsb (fun r => (fst r <=? b) && (e <=? snd r)) ns.

(* every range of xs lies inside norm ys *)
Definition subset_b (xs ys : list range) : bool :=
  let ny := norm ys in
  forallb (fun r => range_in_norm ny (fst r) (snd r)) (norm xs).

Definition same_set_b (xs ys : list range) : bool :=
  subset_b xs ys && subset_b ys xs.

(* pairwise: the new part is disjoint from or identical to every recorded one *)
Definition disjoint_b (r s : range) : bool :=
  (snd r <=? fst s) || (snd s <=? fst r).
Definition range_eqb (r s : range) : bool :=
  (fst r =? fst s) && (snd r =? snd s).
Definition compatible_b (ps : list range) (b e : Z) : bool :=
  forallb (fun p => disjoint_b p (b, e) || range_eqb p (b, e)) ps.

(* history discipline D, decidable form: every part non-empty and disjoint
   from or identical to every earlier part *)
Fixpoint discipline_b (seen parts : list range) : bool :=
  match parts with
  | [] => true
  | p :: rest =>
      (fst p <? snd p) &&
      forallb (fun q => disjoint_b q p || range_eqb q p) seen &&
      discipline_b (p :: seen) rest
  end.

Fixpoint sorted_disjoint_b (ps : list range) : bool :=
  match ps with
  | [] => true
  | (pb, pe) :: rest =>
      (pb <? pe) &&
      match rest with
      | [] => true
      | (qb, _) :: _ => (pe <=? qb) && sorted_disjoint_b rest
      end
  end.

(* ---- sender side: which byte ranges are still missing (client.go:367-388)
   parts are first sorted by Beg (sort.Sort, not stable - ties arbitrary but
   the result below does not depend on the order among equal Beg when the
   record is disjoint). *)
Fixpoint missing_aux (parts : list range) (beg : Z) : list range * Z :=
  match parts with
  | [] => ([], beg)
  | (pb, pe) :: rest =>
      let '(m, last) := missing_aux rest pe in
      if beg =? pb then (m, last) else ((beg, pb) :: m, last)
  end.

Definition missing (parts : list range) (size : Z) : list range :=
  let '(m, last) := missing_aux (sort_ranges parts) 0 in
  if last <? size then m ++ [(last, size)] else m.
