(* Extraction of the executable models (ExtrOcamlBasic only: bool, option,
   list, prod, unit, sumbool map to OCaml's; Z/N/positive stay inductive). *)
From Coq Require Import Extraction ExtrOcamlBasic.
From STS Require Import Model.Ranges.
Extraction Language OCaml.
Set Extraction Optimize.
Extraction "model.ml"
  add_part add_part_replaced part_exists complete covered_b norm subset_b
  same_set_b compatible_b discipline_b sorted_disjoint_b missing sort_ranges.
