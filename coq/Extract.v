(* Extraction of the executable models (ExtrOcamlBasic only: bool, option,
   list, prod, unit, sumbool map to OCaml's; Z/N/positive stay inductive). *)
From Coq Require Import Extraction ExtrOcamlBasic.
From STS Require Import Model.Ranges Model.Chunk Model.Queue Model.LogM Model.Stage Model.Sender Model.Conf Model.Auth Model.Wire Model.Prune Model.Cache Model.Tracker.
Extraction Language OCaml.
Set Extraction Optimize.
Extraction "model.ml"
  add_part add_part_replaced part_exists complete covered_b norm subset_b
  same_set_b compatible_b discipline_b sorted_disjoint_b missing sort_ranges
  chunks_plain chunks_rec send_size fluff_of pack init_bstate payloads dropped
  tiles_from_b tiles_ranges_b all_le_b bin_split new_bin is_full
  push pop group_ready has_name find_group is_alloc le_order name_eqb name_ltb
  OFIFO OLIFO OALPHA ONONE prio_sorted files_sorted qrun
  search line_matches parse_line line_recv line_sent walk no_sep split join
  init_stage sstep prepare receive settle restart clean timers_fire received_q status_q scan_q
  ahas alookup log_has SETTLE_FUEL
  run_send on_poll finish_step track_add scan_once scan_once_c sc_clean
  effective reencode parse_tag propagate_tags file_tag chunk_table ignore_table
  handle_validate is_local clean_rel clean_abs resolve names_local
  enc_header decode decode_header split_spec translate
  prune
  cadd cdone creset cremove cpersist crestart cget empty_cache cstep c_other_version
  track_run track_payload hand_off.
