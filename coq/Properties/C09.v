(* C09 - the receiver's record of partly received files is sound.
   Only statements, closed by [exact], each followed by Print Assumptions. *)
From Coq Require Import List ZArith Bool.
From STS Require Import Model.Ranges Proofs.RangesP.
Import ListNotations.
Open Scope Z_scope.

(* A file is treated as complete only when the recorded ranges cover it from
   the first to the last byte - for EVERY record, in any order, with any
   overlaps. *)
Theorem C09_complete_only_if_covered : forall ps size,
  complete ps size = true -> forall i, 0 <= i < size -> covered ps i.
Proof. exact complete_sound. Qed.
Print Assumptions C09_complete_only_if_covered.

(* Whatever parts arrive (disjoint, adjacent, identical, nested, overlapping,
   empty, inverted; any order), the record never claims a byte that was not
   in an acknowledged part. *)
Theorem C09_record_claims_only_received : forall parts ps i,
  covered (add_all ps parts) i -> covered ps i \/ covered parts i.
Proof. exact record_sound_all. Qed.
Print Assumptions C09_record_claims_only_received.

(* On D (each part non-empty and disjoint from or identical to every earlier
   part - the discipline C11 proves of the sender): the record stays sorted and
   disjoint and claims EXACTLY the union of the acknowledged parts: nothing
   acknowledged is ever dropped. *)
Theorem C09_record_exact_on_D : forall parts,
  discipline [] parts ->
  sorted_disjoint_b (add_all [] parts) = true /\
  (forall i, covered (add_all [] parts) i <-> covered parts i).
Proof.
  intros parts Hd.
  destruct (record_invariant parts [] [] eq_refl (fun _ H => H) (fun _ => conj (fun H => H) (fun H => H)) Hd) as [Hs Hc].
  split; [exact Hs|]. intros i. rewrite Hc, app_nil_r.
  unfold covered. split; intros [r [Hin Hr]]; exists r; split; auto;
    [apply in_rev; auto | apply in_rev in Hin; auto].
Qed.
Print Assumptions C09_record_exact_on_D.

(* "how many of these parts did you receive": a positive answer is sound for
   every sorted, disjoint record (all records reachable on D). *)
Theorem C09_exists_sound_on_D : forall ps b e,
  sorted_disjoint_b ps = true -> part_exists ps b e = true ->
  forall i, b <= i < e -> covered ps i.
Proof. exact part_exists_sound. Qed.
Print Assumptions C09_exists_sound_on_D.

(* Full statement refuted outside D - these are the recorded findings. *)
Theorem C09_exists_overlap_refuted :
  exists parts b e i,
    part_exists (add_all [] parts) b e = true /\ b <= i < e /\
    ~ covered (add_all [] parts) i.
Proof. exact part_exists_overlap_refuted. Qed.
Print Assumptions C09_exists_overlap_refuted.

Theorem C09_retention_overlap_refuted :
  exists ps b e i, covered ps i /\ ~ covered (add_part ps b e) i.
Proof. exact retention_overlap_refuted. Qed.
Print Assumptions C09_retention_overlap_refuted.

(* ---- the answer to "how many of these parts did you receive" (stage/local.go Received) ---- *)
From STS Require Import Model.Queue Model.Stage Proofs.StageP.

(* it is the length of the leading run of parts on record: it stops at the first part
   that is not, whatever lies behind it *)
Theorem C09_received_counts_leading_run : forall ps s now,
  counted s now ps (snd (received_q s now ps)).
Proof. exact received_q_counts_leading_run. Qed.
Print Assumptions C09_received_counts_leading_run.

(* and a part counts only when the companion of exactly that version records the range
   (soundness of that look-up: C09_exists_sound_on_D) or the file is known completely
   received, validated, held or put away as that version - never "failed" *)
Theorem C09_counted_part_is_on_record : forall s now p,
  snd (part_received s now p) = true ->
  let monthago := now - 30 * 86400 in
  let when := if now <? p_time p then now else if p_time p <? monthago then monthago else p_time p in
  let s0 := lock (p_name p) (build_cache s now when) in
  (cache_obj s0 (p_name p) = None /\
   exists c, alookup (p_name p) (cmps s0) = Some c /\
     name_eqb (p_renamed p) (c_renamed c) = true /\ name_eqb (p_hash p) (c_hash c) = true /\
     name_eqb (p_prev p) (c_prev c) = true /\
     part_exists (c_parts c) (p_beg p) (p_end p) = true) \/
  (exists o, cache_obj s0 (p_name p) = Some o /\
     (f_state (obj s0 o) =? ST_FAILED) = false /\
     name_eqb (f_hash (obj s0 o)) (p_hash p) = true /\
     name_eqb (f_renamed (obj s0 o)) (p_renamed p) = true).
Proof. exact part_received_true_on_record. Qed.
Print Assumptions C09_counted_part_is_on_record.
