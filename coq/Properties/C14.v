(* C14 - requests cannot touch files outside the configured directories. *)
From Coq Require Import List ZArith Bool.
From STS Require Import Model.Queue Model.Auth Proofs.AuthP.
Import ListNotations.
Open Scope Z_scope.

(* Every name the routes let through (filepath.IsLocal and not the directory
   itself, after fixes 4218bba / e1a422a) resolves - by the lexical Clean+Join
   the stage uses - to a path that has the root it is joined to as a prefix:
   resolve root name = root ++ (the cleaned name).  For every root without dot
   segments and every name: parent-directory segments, repeated separators,
   dot segments, any length. *)
Theorem C14_local_name_stays_under_root : forall root a ne name,
  plain_list root -> is_local a ne name = true ->
  resolve root name = root ++ clean_rel [] name /\ has_prefix root (resolve root name) = true.
Proof. exact local_resolves_under_root. Qed.
Print Assumptions C14_local_name_stays_under_root.

(* names that would escape are refused: a clean form starting with "..",
   an absolute path, the empty string *)
Theorem C14_escaping_name_refused : forall a ne name top rest,
  clean_rel [] name = top :: rest -> is_dotdot top = true -> is_local a ne name = false.
Proof. exact escaping_name_refused. Qed.
Print Assumptions C14_escaping_name_refused.

Theorem C14_absolute_or_empty_refused : forall ne name,
  is_local true ne name = false /\ is_local false false name = false.
Proof. exact absolute_or_empty_refused. Qed.
Print Assumptions C14_absolute_or_empty_refused.

(* names made of plain segments only - what the scanner produces and what the
   static route's sanitiser lets through - are accepted *)
Theorem C14_plain_names_accepted : forall name,
  plain_list name -> name <> [] -> is_local false true name = true.
Proof. exact plain_name_is_local. Qed.
Print Assumptions C14_plain_names_accepted.
