(* C15 - unauthorised or premature requests are refused without any effect. *)
From Coq Require Import List ZArith Bool.
From STS Require Import Model.Queue Model.Auth Proofs.AuthP.
Import ListNotations.
Open Scope Z_scope.

(* a request reaches a wrapped route iff it names a (safe) source, the source's
   gate keeper is ready, the source is on the list (and matches the allowed
   character set) when a list is configured, and the key is on the key list when
   one is configured *)
Theorem C15_validate_decision : forall sources keys source key segs cs ready,
  handle_validate sources keys source key segs cs ready = ST_PASS <->
  (source <> [] /\ safe_source true segs = true /\ ready = true /\
   (sources = [] \/ (cs = true /\ smem source sources = true)) /\
   (keys = [] \/ smem key keys = true)).
Proof. exact validate_decision. Qed.
Print Assumptions C15_validate_decision.

(* otherwise it is answered 400 (no / unsafe source), 503 (still recovering) or
   403 (not allowed), in that order, and the route is not entered *)
Theorem C15_refusal_codes : forall sources keys source key segs cs ready,
  (source = [] -> handle_validate sources keys source key segs cs ready = ST_400) /\
  (source <> [] -> safe_source true segs = false -> handle_validate sources keys source key segs cs ready = ST_400) /\
  (source <> [] -> safe_source true segs = true -> ready = false ->
     handle_validate sources keys source key segs cs ready = ST_503) /\
  (source <> [] -> safe_source true segs = true -> ready = true ->
     standard_valid sources keys source key cs = false ->
     handle_validate sources keys source key segs cs ready = ST_403).
Proof. exact refusal_codes. Qed.
Print Assumptions C15_refusal_codes.
