(* C04 - files of a group are delivered in order; none before its predecessor
   (receiver side; the sender-side half is C10). *)
From Coq Require Import List ZArith Bool.
From STS Require Import Model.Ranges Model.Queue Model.LogM Model.Stage Proofs.StageP.
Import ListNotations.
Open Scope Z_scope.

(* The finalize handler delivers (logs) a file only when its predecessor
   reference is empty, the file itself, found in the receive log (exact name,
   after fix 88c8cb3), or known to the cache as delivered (finalized / logged).
   A reference cleared by the periodic cleaner (cycle) is the "empty" case. *)
Theorem C04_no_overtake_step : forall s now o,
  rlog (handle_final s now o) <> rlog s ->
  let f := obj s o in
  let pst := cache_state s (f_prev f) in
  f_prev f = [] \/ f_prev f = f_name f \/
  (pst = ST_UNKNOWN /\ log_has s (f_prev f) [] = true) \/
  (pst <> ST_UNKNOWN /\ pst <> ST_RECEIVED /\ pst <> ST_FAILED /\ pst <> ST_VALIDATED).
Proof. exact no_overtake_step. Qed.
Print Assumptions C04_no_overtake_step.

(* a validated file whose predecessor is received / failed / validated but not
   delivered is held: parked on the wait list, body and log untouched *)
Theorem C04_held_is_waiting : forall s now o,
  let f := obj s o in
  cache_state s (f_name f) = ST_VALIDATED ->
  f_prev f <> [] -> f_prev f <> f_name f ->
  (cache_state s (f_prev f) = ST_RECEIVED \/ cache_state s (f_prev f) = ST_FAILED \/
   cache_state s (f_prev f) = ST_VALIDATED) ->
  handle_final s now o = to_wait s (f_prev f) o false /\
  rlog (handle_final s now o) = rlog s /\ waits (handle_final s now o) = waits s.
Proof. exact held_is_waiting. Qed.
Print Assumptions C04_held_is_waiting.

(* delivery = one log record first, then the move; nothing else appends *)
Theorem C04_finalize_logs_first : forall s now o,
  (rlog (finalize s now o) = rlog s /\ finals (finalize s now o) = finals s) \/
  (exists f, nth_error (heap s) o = Some f /\
     rlog (finalize s now o) = rlog s ++ [mklr (f_name f) (f_renamed f) (f_hash f) (f_size f) now]).
Proof. exact finalize_logs_first. Qed.
Print Assumptions C04_finalize_logs_first.

(* ---- over every reachable state (no restriction on the history) -------------- *)
From STS Require Import Proofs.StageKP.

(* in every state the receiver can reach - by any sequence of announcements, parts,
   duplicates, corruption, tampering, queries, cleaning, timers, cache ageing,
   crashes with any image, restarts - whatever the cache knows as put away
   (finalized in this run or loaded from the log) has a record in the receive log *)
Theorem C04_put_away_means_logged : forall H ops n o,
  In (n, o) (cache (srun H init_stage ops)) ->
  ST_FINALIZED <= ostate (srun H init_stage ops) o -> logged (srun H init_stage ops) n.
Proof.
  intros H ops n o Hin Hst.
  destruct (k_cache _ (KR_run H ops init_stage KR_init) n o Hin) as [_ [_ A]]. exact (A Hst).
Qed.
Print Assumptions C04_put_away_means_logged.

(* hence, in every reachable state, the finalize handler logs and delivers a file
   only if its predecessor reference is empty, the file itself, or a name that has
   a record in the receive log ALREADY: no file is delivered before its predecessor *)
Theorem C04_no_overtake_reachable : forall H ops now o,
  let s := srun H init_stage ops in
  rlog (handle_final s now o) <> rlog s ->
  let f := obj s o in
  f_prev f = [] \/ f_prev f = f_name f \/ logged s (f_prev f).
Proof. exact no_overtake_reachable. Qed.
Print Assumptions C04_no_overtake_reachable.
