(* C17 - only eligible files are sent, each version once, changed files again. *)
From Coq Require Import List ZArith Bool.
From STS Require Import Model.Queue Model.Sender Proofs.SenderP.
Import ListNotations.
Open Scope Z_scope.

(* a scan hands a file to the sender if and only if: the directory is not
   disabled, no ancestor directory is skipped, it is not hidden (unless hidden
   files are enabled), no ignore pattern (incl. lock files, the disable marker
   and non-HTTP tags) matches, an include pattern matches when any is
   configured, it is at least the minimum age old, it is not empty, and it is
   new or differs in size or modification time from its cache entry *)
Theorem C17_scan_returns_iff : forall disabled ih hi min_age mtime f,
  scan_returns disabled ih hi min_age mtime f = true <->
  (disabled = false /\ fi_dir_skipped f = false /\
   (ih = true \/ fi_hidden f = false) /\ fi_ignored f = false /\
   (hi = false \/ fi_included f = true) /\ min_age <= fi_age f /\ fi_size f <> 0 /\
   match fi_cached f with
   | None => True
   | Some (cs, ct) => cs <> fi_size f \/ ct <> mtime
   end).
Proof. exact scan_returns_iff. Qed.
Print Assumptions C17_scan_returns_iff.

Theorem C17_unchanged_not_requeued : forall disabled ih hi min_age mtime f,
  fi_cached f = Some (fi_size f, mtime) -> scan_returns disabled ih hi min_age mtime f = false.
Proof. exact unchanged_not_requeued. Qed.
Print Assumptions C17_unchanged_not_requeued.

(* over histories: whatever happened before (any sequence of scans over any
   trees, clocks, disable-marker states), a scan returns exactly the files that
   are eligible now and whose (size, mtime) differs from the version of that name
   that was returned last - older, newer, larger or smaller *)
Theorem C17_scan_history : forall pre cfg now world post,
  nth (length pre) (scan_run (pre ++ (cfg, now, world) :: post) []) [] =
  filter (fun d => eligible cfg now d &&
                   changed_since (last_returned (scan_run pre []) (df_name d) None) d) world.
Proof. exact scan_history. Qed.
Print Assumptions C17_scan_history.

Theorem C17_returned_then_unchanged_skipped : forall pre cfg now world cfg' now' world' post d,
  In d (nth (length pre) (scan_run (pre ++ (cfg, now, world) :: (cfg', now', world') :: post) []) []) ->
  NoDup (map df_name world) ->
  ~ In d (nth (S (length pre)) (scan_run (pre ++ (cfg, now, world) :: (cfg', now', world') :: post) []) []).
Proof. exact returned_then_unchanged_skipped. Qed.
Print Assumptions C17_returned_then_unchanged_skipped.

(* the periodic cache clean-up (once per cache-age interval, at the head of a scan)
   changes nothing about what that scan returns: an unchanged file that is still
   there is not sent again because time passed ... *)
Theorem C17_cache_cleanup_invisible_to_scan : forall clean cfg now world c,
  fst (scan_once_c clean cfg now world c) = fst (scan_once cfg now world c).
Proof. exact clean_invisible_to_scan. Qed.
Print Assumptions C17_cache_cleanup_invisible_to_scan.

(* ... and all it forgets are names whose file is gone *)
Theorem C17_cache_cleanup_forgets_exactly_the_absent : forall world c n,
  sc_get (sc_clean world c) n = if sc_present world n then sc_get c n else None.
Proof. exact clean_forgets_exactly_the_absent. Qed.
Print Assumptions C17_cache_cleanup_forgets_exactly_the_absent.

(* over histories WITH clean-ups: a version that a scan returned and that stays where it is,
   unchanged, through any number of further scans - each with or without the cache clean-up,
   over trees that change arbitrarily otherwise - is never returned again *)
Theorem C17_returned_and_kept_never_requeued : forall cl cfg now world c d mid cl' cfg' now' world',
  NoDup (map df_name world) -> In d (fst (scan_once_c cl cfg now world c)) ->
  Forall (fun ev => In d (ev_world ev) /\ NoDup (map df_name (ev_world ev))) mid ->
  In d world' ->
  ~ In d (fst (scan_once_c cl' cfg' now' world' (scan_cache_c mid (snd (scan_once_c cl cfg now world c))))).
Proof. exact returned_and_kept_not_requeued. Qed.
Print Assumptions C17_returned_and_kept_never_requeued.

(* the premises are met by a concrete history: returned once, then a clean-up scan, then not returned *)
Example C17_kept_example :
  let d := mkdfile [97] 5 (-100) false false false false in
  let cfg := mkscfg false false false 0 in
  fst (scan_once_c false cfg 0 [d] []) = [d] /\
  fst (scan_once_c true cfg 0 [d] (scan_cache_c [(true, cfg, 0, [d])] (snd (scan_once_c false cfg 0 [d] [])))) = [].
Proof. vm_compute. split; reflexivity. Qed.
Print Assumptions C17_kept_example.

(* ---- the queue cache (cache/local.go) is where "the version returned last" lives ---- *)
From STS Require Import Model.Cache Proofs.CacheP.

(* after Add the entry IS the version that was added - size, mtime, the store's private
   data (link target) and hash - and it counts as confirmed only if the entry it replaces
   was confirmed and is the same version *)
Theorem C17_cache_records_the_version_added : forall c n size time meta hash,
  exists d, cget n (c_mem (cadd c n size time meta hash)) = Some (mkce size time meta hash d) /\
    (d = true <->
     exists e, cget n (c_mem c) = Some e /\ ce_done e = true /\
       ce_size e = size /\ ce_time e = time /\ (hash = [] \/ ce_hash e = hash)).
Proof. exact add_records_version. Qed.
Print Assumptions C17_cache_records_the_version_added.

Theorem C17_cache_add_touches_one_entry : forall c n size time meta hash n0,
  n0 <> n -> cget n0 (c_mem (cadd c n size time meta hash)) = cget n0 (c_mem c).
Proof. exact add_other_untouched. Qed.
Print Assumptions C17_cache_add_touches_one_entry.
