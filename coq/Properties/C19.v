(* C19 - configuration means what it says, also after inheritance and
   re-encoding. *)
From Coq Require Import List ZArith Bool.
From STS Require Import Model.Conf Proofs.ConfP.
Import ListNotations.
Open Scope Z_scope.

(* options omitted for a source take the value of the preceding source, given
   (non-zero) values are never overridden *)
Theorem C19_omitted_inherits : forall t s i,
  (i < length t)%nat -> (length t <= length s)%nat -> nth i t 0 = 0 ->
  nth i (copy_plain t s) 0 = nth i s 0.
Proof. exact omitted_plain_inherited. Qed.
Print Assumptions C19_omitted_inherits.

Theorem C19_explicit_kept : forall t s i,
  (i < length t)%nat -> (length t <= length s)%nat -> nth i t 0 <> 0 ->
  nth i (copy_plain t s) 0 = nth i t 0.
Proof. exact explicit_plain_kept. Qed.
Print Assumptions C19_explicit_kept.

(* an explicit false is kept where the option has an is-set marker:
   stat-payload, error-backoff (any explicit value, 0 included), a tag's delete *)
Theorem C19_explicit_false_stat_kept : forall d prev,
  d_stat d = T_FALSE -> c_stat (inherit (parse_src d) prev) = false.
Proof. exact explicit_false_stat_kept. Qed.
Print Assumptions C19_explicit_false_stat_kept.

Theorem C19_explicit_backoff_kept : forall d prev v,
  d_backoff d = Some v -> c_backoff (inherit (parse_src d) prev) = v.
Proof. exact explicit_backoff_kept. Qed.
Print Assumptions C19_explicit_backoff_kept.

Theorem C19_explicit_false_delete_kept : forall d def,
  td_delete d = T_FALSE -> tc_delete (inherit_tag (parse_tag d) def) = false.
Proof. exact explicit_false_delete_kept. Qed.
Print Assumptions C19_explicit_false_delete_kept.

Theorem C19_omitted_marker_options_inherit : forall d prev,
  (d_stat d = T_ABSENT -> c_stat (inherit (parse_src d) prev) = c_stat prev) /\
  (d_backoff d = None -> c_backoff (inherit (parse_src d) prev) = c_backoff prev).
Proof. intros; split; [apply omitted_stat_inherited | apply omitted_backoff_inherited]. Qed.
Print Assumptions C19_omitted_marker_options_inherit.

(* encoding a parsed sender configuration to JSON and parsing it again yields
   the same effective configuration - provided "%f" preserves error-backoff *)
Theorem C19_reencode_fixpoint : forall (fmt6 : Z -> Z),
  (forall v, fmt6 v = v) -> forall docs, reencode fmt6 docs = effective docs.
Proof. exact reencode_fixpoint. Qed.
Print Assumptions C19_reencode_fixpoint.

(* each file gets the FIRST pattern tag (in list order) whose pattern matches
   its group, and the default tag's settings when none does *)
Theorem C19_first_matching_tag : forall ntags has_pattern matches name_is s k,
  tagger ntags has_pattern matches name_is s = Some k ->
  (k < ntags)%nat /\ has_pattern k = true /\ (name_is k s = true \/ matches k s = true) /\
  forall j, (j < k)%nat -> has_pattern j && (name_is j s || matches j s) = false.
Proof. exact tagger_first_match. Qed.
Print Assumptions C19_first_matching_tag.

(* Refuted (recorded findings): options WITHOUT a marker cannot be given their
   zero value explicitly - include-hidden: false after a true source becomes
   true; a tag priority 0 / a target boolean false inherit the predecessor's;
   and 7 decimals of error-backoff do not survive re-encoding. *)
Theorem C19_explicit_false_hidden_refuted :
  exists d prev, d_hidden d = T_FALSE /\ c_hidden (inherit (parse_src d) prev) = true.
Proof. exact explicit_false_hidden_refuted. Qed.
Print Assumptions C19_explicit_false_hidden_refuted.

Theorem C19_explicit_zero_refuted :
  exists t s, nth 0 t 0 = 0 /\ nth 0 (copy_plain t s) 0 <> 0.
Proof. exact explicit_zero_plain_refuted. Qed.
Print Assumptions C19_explicit_zero_refuted.

Theorem C19_reencode_backoff_refuted :
  exists (fmt6 : Z -> Z) docs, reencode fmt6 docs <> effective docs.
Proof. exact reencode_backoff_refuted. Qed.
Print Assumptions C19_reencode_backoff_refuted.

(* ---- chunk size of a source's queue (main/client.go init) after inheritance of tags
   and bin-size between the sources of one sender ------------------------------------ *)
Theorem C19_chunk_is_own_bin_or_written : forall pre s post x,
  cs_bin s <> 0 ->
  In x (nth (length pre) (chunk_table (pre ++ s :: post)) []) ->
  x = cs_bin s \/ (x <> 0 /\ In x (written_chunks (pre ++ s :: post))).
Proof. exact chunk_own_bin_or_written. Qed.
Print Assumptions C19_chunk_is_own_bin_or_written.

Theorem C19_chunk_own_tags : forall pre s post t,
  cs_tags s = Some t ->
  exists b, nth (length pre) (chunk_table (pre ++ s :: post)) [] = map (fun c => queue_chunk c b) (tags_chunks t) /\
            (cs_bin s <> 0 -> b = cs_bin s).
Proof. exact chunk_own_tags. Qed.
Print Assumptions C19_chunk_own_tags.

(* ---- what a source's store ignores: its own (or inherited) ignore list, the standard
   ignores, and the patterns of ITS OWN tags whose method is not http ----------------- *)
Theorem C19_store_ignores_own_lists_and_tags : forall pre s post inc ign t,
  is_lists s = Some (inc, ign) -> is_tags s = Some t ->
  nth (length pre) (ignore_table (pre ++ s :: post)) ([], []) =
  (inc, ign ++ [STD_LCK; STD_DISABLED] ++ map fst (filter snd t)).
Proof. exact ignore_row_own. Qed.
Print Assumptions C19_store_ignores_own_lists_and_tags.

Theorem C19_inherited_lists_own_tags : forall s0 s1 post inc ign t0 t1,
  is_lists s0 = Some (inc, ign) -> is_tags s0 = Some t0 ->
  is_lists s1 = None -> is_tags s1 = Some t1 ->
  nth 1 (ignore_table (s0 :: s1 :: post)) ([], []) =
  (inc, ign ++ [STD_LCK; STD_DISABLED] ++ map fst (filter snd t1)) /\
  nth 0 (ignore_table (s0 :: s1 :: post)) ([], []) =
  (inc, ign ++ [STD_LCK; STD_DISABLED] ++ map fst (filter snd t0)).
Proof. exact ignore_row_inherited_lists. Qed.
Print Assumptions C19_inherited_lists_own_tags.
