(* C13 - the payload wire format round-trips. *)
From Coq Require Import List ZArith Bool.
From STS Require Import Model.Queue Model.Auth Model.Wire Proofs.AuthP Proofs.WireP.
Import ListNotations.
Open Scope Z_scope.

(* the header: any list of descriptors - names, rename targets, predecessors and
   hashes any byte strings (quotes, backslashes, control characters, <, >, &,
   U+2028/9, multi-byte sequences), times any (seconds, nanoseconds), sizes and
   byte ranges any integers within +-10^19 - is decoded to exactly the same list *)
Theorem C13_header_roundtrip : forall ds, descs_ok ds -> parse_header (enc_header ds) = Some (ds, []).
Proof. exact parse_header_enc. Qed.
Print Assumptions C13_header_roundtrip.

(* the whole payload: for every number of parts, all part lengths (0 included),
   every separator convention, every chunking of the incoming stream (g) and
   every buffer size of the consumer (req): the same ordered descriptors and,
   for each part, exactly its bytes *)
Theorem C13_wire_roundtrip : forall ds bodies sep req g,
  descs_ok ds -> lens_ok ds bodies -> (1 <= req)%nat -> grants_ok g ->
  decode (Z.of_nat (length (enc_header ds))) sep (wire_of ds bodies) req g
  = Some (complete_parts (map (translate_desc sep) ds) bodies).
Proof. exact wire_roundtrip. Qed.
Print Assumptions C13_wire_roundtrip.

(* every truncation point inside the header: refused *)
Theorem C13_truncated_header_refused : forall ds bodies sep req g k,
  (k < length (enc_header ds))%nat ->
  decode (Z.of_nat (length (enc_header ds))) sep (firstn k (wire_of ds bodies)) req g = None.
Proof. exact wire_truncated_header. Qed.
Print Assumptions C13_truncated_header_refused.

(* every truncation point inside the body: the parts that arrived in full are
   reported unchanged; the part in which the stream ends is flagged short and
   holds a strict prefix of its own bytes - never a byte of its neighbour; no
   later part is reported *)
Theorem C13_truncated_body_flagged : forall ds bodies sep req g k,
  descs_ok ds -> lens_ok ds bodies -> (1 <= req)%nat -> grants_ok g ->
  (length (enc_header ds) <= k < length (wire_of ds bodies))%nat ->
  let kb := (k - length (enc_header ds))%nat in
  exists j d b rest,
    nth_error (map (translate_desc sep) ds) j = Some d /\ nth_error bodies j = Some b /\
    b = firstn (kb - length (concat (firstn j bodies))) b ++ rest /\ rest <> [] /\
    decode (Z.of_nat (length (enc_header ds))) sep (firstn k (wire_of ds bodies)) req g =
      Some (complete_parts (firstn j (map (translate_desc sep) ds)) (firstn j bodies) ++
            [(d, firstn (kb - length (concat (firstn j bodies))) b, false)]).
Proof. exact wire_truncated_body. Qed.
Print Assumptions C13_truncated_body_flagged.

(* the operational reader (PartDecoder.Read driven by the consumer's loop) cuts the
   stream exactly at the announced lengths, whatever the chunking *)
Theorem C13_reader_refines_spec : forall ds stream req g,
  (1 <= req)%nat -> grants_ok g -> decode_body ds stream req g = split_spec ds stream.
Proof. exact decode_body_spec. Qed.
Print Assumptions C13_reader_refines_spec.

(* either separator convention: plain segments joined by the sender's separator
   arrive as the same segments joined by '/' *)
Theorem C13_separator_translation : forall sep segs,
  sep <> 0 -> segs <> [] -> plain_list segs ->
  Forall (no_char sep) segs -> Forall (no_char 47) segs ->
  translate sep (wjoin sep segs) = wjoin 47 segs.
Proof. exact translate_plain. Qed.
Print Assumptions C13_separator_translation.

(* the hypotheses are satisfiable by a non-trivial payload (two parts, a name
   with a quote, U+2028 and a backslash separator, a negative time) *)
Example C13_nonvacuous :
  let d1 := mkdesc [100; 92; 34; 226; 128; 168; 1] [] [] [97] (-5) 999999999 10 2 5 in
  let d2 := mkdesc [195; 169] [114] [100] [98] 1700000000 0 3 0 3 in
  forallb desc_ok [d1; d2] = true /\
  decode (Z.of_nat (length (enc_header [d1; d2]))) 92 (wire_of [d1; d2] [[7; 8; 9]; [1; 2; 3]]) 2 (fun _ => 1%nat)
  = Some [(translate_desc 92 d1, [7; 8; 9], true); (translate_desc 92 d2, [1; 2; 3], true)].
Proof. vm_compute. split; reflexivity. Qed.
Print Assumptions C13_nonvacuous.
