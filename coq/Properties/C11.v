(* C11 - chunks and payload parts tile every file exactly. *)
From Coq Require Import List ZArith Bool Lia.
From STS Require Import Model.Ranges Model.Chunk Proofs.RangesP Proofs.ChunkP.
Import ListNotations.
Open Scope Z_scope.

(* The chunks emitted for a new file are non-empty, ascending, contiguous,
   cover exactly [0,size) and none exceeds the configured chunk size
   (desired = 0 means "whole file"). *)
Theorem C11_chunks_tile_file : forall fuel size desired cs,
  0 <= desired -> 0 <= size ->
  chunks_plain fuel size desired 0 = Some cs ->
  tiles_from 0 size cs /\ (0 < desired -> Forall (fun c => snd c <= desired) cs).
Proof. intros; eapply chunks_plain_tile; eauto; lia. Qed.
Print Assumptions C11_chunks_tile_file.

(* ... and the emission loop always terminates (enough fuel exists). *)
Theorem C11_chunks_terminate : forall fuel size desired,
  0 < desired -> 0 <= size -> size <= Z.of_nat fuel * desired ->
  exists cs, chunks_plain fuel size desired 0 = Some cs.
Proof. intros; eapply chunks_plain_total; eauto; lia. Qed.
Print Assumptions C11_chunks_terminate.

(* For a file being resumed the chunks tile exactly the ranges reported
   missing, range after range, never crossing a range boundary. *)
Theorem C11_resumed_chunks_tile_missing : forall fuel b e rest desired cs,
  0 < desired -> wf_left ((b, e) :: rest) ->
  chunks_rec fuel ((b, e) :: rest) 0 desired = Some cs ->
  tiles_list ((b, e) :: rest) cs /\ Forall (fun c => snd c <= desired) cs.
Proof.
  intros fuel b e rest desired cs Hd Hwf H.
  assert (Hu : 0 <= 0 < e - b) by (inversion Hwf; subst; simpl in *; lia).
  destruct (chunks_rec_tile fuel ((b, e) :: rest) 0 desired cs Hd Hwf Hu H) as [T1 T2].
  rewrite Z.add_0_r in T1. split; auto.
Qed.
Print Assumptions C11_resumed_chunks_tile_missing.

(* The ranges sent again are exactly the bytes the receiver does not report
   holding, whenever its record (in any listing order) is non-empty-ranged,
   disjoint and inside the file - which C09 proves of every record built on D. *)
Theorem C11_missing_is_complement : forall ps size,
  0 <= size ->
  sorted_disjoint_b (sort_ranges ps) = true ->
  lower_bounded 0 (sort_ranges ps) ->
  (forall i, covered ps i -> i < size) ->
  forall i, covered (missing ps size) i <-> (0 <= i < size /\ ~ covered ps i).
Proof. exact missing_complement. Qed.
Print Assumptions C11_missing_is_complement.

Theorem C11_send_size_is_missing_bytes : forall left cs,
  tiles_list left cs -> sum_len cs = send_size left.
Proof. exact send_size_is_sum. Qed.
Print Assumptions C11_send_size_is_missing_bytes.

(* The binner: for every sequence of chunks and idle flushes, with a payload
   size of at least 10 bytes (so that the 10% slack is >= 1), the parts cut
   from each chunk tile that chunk in transmission order, nothing is dropped,
   and no payload exceeds capacity + slack. *)
Theorem C11_parts_tile_chunks : forall evs cap st',
  1 <= fluff_of cap ->
  Forall (fun ev => 0 < snd (snd ev)) evs ->
  pack cap init_bstate evs = Some st' ->
  dropped st' = [] /\
  Forall (fun bn => bbytes bn <= cap + fluff_of cap) (out st') /\
  exists pss, all_parts st' = concat pss /\
              Forall2 (fun ev ps => let '(_, (id, b, n)) := ev in ptiles id b (b + n) ps) evs pss.
Proof.
  intros evs cap st' Hfl Hwf H.
  destruct (pack_tiles evs cap init_bstate st' Hfl (init_inv cap) Hwf H) as [[_ HO] [HD [pss [HP HT]]]].
  split; [exact HD|]. split; [exact HO|]. exists pss. split; auto.
Qed.
Print Assumptions C11_parts_tile_chunks.

Theorem C11_split_preserves : forall bn k hd tl,
  bin_split bn k = Some (hd, tl) ->
  bparts hd ++ bparts tl = bparts bn /\ bbytes hd + bbytes tl = bbytes bn /\
  bbytes tl = bytes_of (bparts tl).
Proof. exact split_preserves. Qed.
Print Assumptions C11_split_preserves.

(* Full statement refuted - recorded findings. *)
Theorem C11_zero_slack_drop_refuted :
  exists cap evs st', pack cap init_bstate evs = Some st' /\ dropped st' <> [].
Proof. exact pack_drop_refuted. Qed.
Print Assumptions C11_zero_slack_drop_refuted.

Theorem C11_missing_overlap_refuted :
  exists ps size r, In r (missing ps size) /\ snd r < fst r.
Proof. exact missing_overlap_refuted. Qed.
Print Assumptions C11_missing_overlap_refuted.
