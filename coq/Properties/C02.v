(* C02 - source files are released only after validated receipt. *)
From Coq Require Import List ZArith Bool.
From STS Require Import Model.Ranges Model.Queue Model.LogM Model.Stage Model.Sender Proofs.StageP Proofs.SenderP.
Import ListNotations.
Open Scope Z_scope.

(* sender: the poll loop releases a file only on a positive answer; a failed,
   unknown ("none") or exhausted answer leads to a retry, never to a release *)
Theorem C02_release_needs_positive_answer : forall code polled attempts,
  on_poll code polled attempts = ARelease -> code = POLL_WAITING \/ code = POLL_PASSED.
Proof. exact release_needs_positive_answer. Qed.
Print Assumptions C02_release_needs_positive_answer.

Theorem C02_negative_answers_never_release : forall code polled attempts,
  code = POLL_NONE \/ code = POLL_FAILED -> on_poll code polled attempts <> ARelease.
Proof. exact negative_answers_never_release. Qed.
Print Assumptions C02_negative_answers_never_release.

(* the same at restart: the recovery poll finishes a file only on a positive answer *)
Theorem C02_recovery_poll_releases_only_on_positive : forall code,
  recover_after_poll code = QFinishAndPlaceholder -> code = POLL_WAITING \/ code = POLL_PASSED.
Proof. exact recover_poll_never_releases_on_negative. Qed.
Print Assumptions C02_recovery_poll_releases_only_on_positive.

(* receiver: a positive answer is given only for a file whose cache entry is
   validated (body held in .wait), finalized or known from the receive log;
   failed, unknown and merely received files are answered failed / none *)
Theorem C02_positive_answer_state : forall s now n h sent s' code,
  status_q s now n h sent = (s', code) ->
  code = CONFIRM_PASSED \/ code = CONFIRM_WAITING ->
  (cache_state s' n = ST_VALIDATED \/ cache_state s' n = ST_FINALIZED \/ cache_state s' n = ST_LOGGED) /\
  (h = [] \/ cache_hash s' n = [] \/ cache_hash s' n = h).
Proof. exact status_positive_state. Qed.
Print Assumptions C02_positive_answer_state.

Theorem C02_negative_states_answered_negatively : forall s now n h sent,
  let st := cache_state (build_cache s now sent) n in
  (st = ST_FAILED -> snd (status_q s now n h sent) = CONFIRM_FAILED \/ snd (status_q s now n h sent) = CONFIRM_NONE) /\
  (st = ST_RECEIVED -> snd (status_q s now n h sent) = CONFIRM_NONE) /\
  (st = ST_UNKNOWN -> snd (status_q s now n h sent) = CONFIRM_NONE).
Proof. exact status_negative_states. Qed.

(* names are used again: a poll that names the hash of the version that was sent is
   never answered on the strength of ANOTHER version held under that name (fix
   "status polls say which version") *)
Theorem C02_other_version_is_unknown : forall s now n h sent,
  h <> [] -> cache_hash (build_cache s now sent) n <> [] ->
  cache_hash (build_cache s now sent) n <> h ->
  snd (status_q s now n h sent) = CONFIRM_NONE.
Proof. exact status_other_version_unknown. Qed.
Print Assumptions C02_other_version_is_unknown.
Print Assumptions C02_negative_states_answered_negatively.

(* ---- the queue cache: a confirmation does not carry over to another version ---- *)
From STS Require Import Model.Cache Proofs.CacheP.

Theorem C02_confirmation_not_carried_over : forall c n size time meta hash e e',
  cget n (c_mem c) = Some e ->
  (ce_size e <> size \/ ce_time e <> time \/ (hash <> [] /\ ce_hash e <> hash)) ->
  cget n (c_mem (cadd c n size time meta hash)) = Some e' -> ce_done e' = false.
Proof. exact add_other_version_not_done. Qed.
Print Assumptions C02_confirmation_not_carried_over.

(* ---- finish(): what one poll answer does to the cache entry and the source file ---- *)
Theorem C02_finish_confirms_only_the_version_asked_about :
  forall code cached polled was_done can_delete disk,
  fo_done (finish_step code cached polled was_done can_delete disk) = true ->
  was_done = true \/
  ((code = POLL_PASSED \/ code = POLL_WAITING) /\ (polled = [] \/ cached = polled)).
Proof. exact finish_confirms_only_the_version_asked_about. Qed.
Print Assumptions C02_finish_confirms_only_the_version_asked_about.

Theorem C02_finish_removes_only_the_confirmed_version :
  forall code cached polled was_done can_delete disk,
  fo_removed (finish_step code cached polled was_done can_delete disk) = true ->
  (code = POLL_PASSED \/ code = POLL_WAITING) /\ (polled = [] \/ cached = polled) /\
  can_delete = true /\ disk = 0.
Proof. exact finish_removes_only_the_confirmed_version. Qed.
Print Assumptions C02_finish_removes_only_the_confirmed_version.
