(* C01 - only hash-validated, byte-identical files reach the final directory. *)
From Coq Require Import List ZArith Bool.
From STS Require Import Model.Ranges Model.Queue Model.LogM Model.Stage Proofs.StageP.
Import ListNotations.
Open Scope Z_scope.

Section C01.
Variable H : list Z -> name.          (* MD5 *)
Variable ver : name -> name.          (* the hash announced for each name *)

(* For EVERY history of receiver operations - any grouping and order of parts,
   duplicates and retransmissions, bytes flipped in transit, short or failing
   readers, overwritten partials and complete-but-unvalidated files, queries,
   cleaning, timer firings, restarts at quiescence - in which each name is
   announced with one hash (D), every file in the final directory hashes to the
   hash announced for its name, and that hash is the one in its log record. *)
Theorem C01_delivered_valid_on_D : forall ops t body,
  Forall (op_in_D H ver) ops ->
  In (t, body) (finals (srun H init_stage ops)) ->
  exists r, In r (rlog (srun H init_stage ops)) /\ rec_target r = t /\
            H body = l_hash r /\ l_hash r = ver (l_name r).
Proof. exact (delivered_valid_on_D H ver). Qed.

(* with a collision-free hash the delivered bytes ARE an announced version *)
Corollary C01_byte_identical_on_D : forall (content : name -> list Z) ops t body,
  (forall n, H (content n) = ver n) ->
  (forall a b, H a = H b -> a = b) ->            (* md5_collision_free, a premise *)
  Forall (op_in_D H ver) ops ->
  In (t, body) (finals (srun H init_stage ops)) ->
  exists r, In r (rlog (srun H init_stage ops)) /\ rec_target r = t /\ body = content (l_name r).
Proof.
  intros content ops t body Hc Hinj HD Hin.
  destruct (delivered_valid_on_D H ver ops t body HD Hin) as [r [R1 [R2 [R3 R4]]]].
  exists r. repeat split; auto. apply Hinj. rewrite R3, R4, Hc. reflexivity.
Qed.

(* validation itself, unconditionally: a body becomes a held (.wait) body only
   if it hashes to the announced hash of the object being validated ... *)
Theorem C01_validation_checks_hash : forall s o n b,
  In (n, b) (waits (process H s o)) ->
  In (n, b) (waits s) \/
  (exists f, nth_error (heap s) o = Some f /\ n = f_name f /\ H b = f_hash f /\ In (n, b) (fulls s)).
Proof. exact (process_validates H). Qed.

(* ... content that does not match is reported failed, nothing is delivered *)
Theorem C01_mismatch_reported_failed : forall s o f body,
  nth_error (heap s) o = Some f ->
  cache_state (lock (f_name f) s) (f_name f) = ST_RECEIVED ->
  alookup (f_name f) (fulls s) = Some body -> H body <> f_hash f ->
  process H s o = to_cache (lock (f_name f) s) o ST_FAILED.
Proof. exact (mismatch_fails H). Qed.

Theorem C01_validation_delivers_nothing : forall s o,
  finals (process H s o) = finals s /\ rlog (process H s o) = rlog s.
Proof. exact (process_delivers_nothing H). Qed.

(* across a restart, with several versions of a name around: Recover hands a held
   (.wait) body to finalisation under the identity written in the companion only if
   the body hashes to that companion's hash (fix "Recover checks the held file
   against its companion"); otherwise nothing is put away for this companion *)
Theorem C01_recover_finalizes_only_checked : forall s fin val n c s' fin' val',
  recover_one H (s, fin, val) (n, c) = (s', fin', val') -> fin' <> fin ->
  exists b, alookup n (waits s) = Some b /\ H b = c_hash c /\ waits s' = waits s.
Proof. exact (recover_one_finalizes_checked H). Qed.

End C01.
Print Assumptions C01_delivered_valid_on_D.
Print Assumptions C01_byte_identical_on_D.
Print Assumptions C01_validation_checks_hash.
Print Assumptions C01_mismatch_reported_failed.
Print Assumptions C01_validation_delivers_nothing.
Print Assumptions C01_recover_finalizes_only_checked.

(* Outside D (several versions of one name) the invariant is not proved. The
   history stale_ops (Proofs/StageP.v) - version 1 validated and held for a
   missing predecessor, version 2 arrives and validates, the predecessor arrives -
   used to deliver version 2's bytes under version 1's hash (former finding
   C01-F1); after the fix (the newer object replaces the waiter, finalisation
   checks the hash of the cache entry) every delivered file of that history
   carries the hash of its own log record *)
Theorem C01_stale_waiter_repaired :
  forall t body, In (t, body) (finals stale_end) ->
    exists r, In r (rlog stale_end) /\ rec_target r = t /\ toyH body = l_hash r.
Proof. exact stale_waiter_repaired. Qed.
Print Assumptions C01_stale_waiter_repaired.
