(* C08 - the sender never counts a part as sent unless the receiver recorded
   it; only the remainder is sent again; nothing is skipped or abandoned. *)
From Coq Require Import List ZArith Bool Permutation.
From STS Require Import Model.Sender Proofs.SenderP.
Import ListNotations.
Open Scope Z_scope.

(* For EVERY sequence of request failures (error status, partial-content answer
   with a count, failed recovery requests any number of times) and file changes:
   every part of the payload ends up exactly once among - acknowledged and
   forwarded to the tracker / dropped because its file changed / still to be
   sent.  Nothing is skipped, abandoned or counted twice. *)
Theorem C08_no_part_lost_or_counted_twice : forall ps evs,
  NoDup ps -> Permutation (accounted (run_send ps evs)) ps.
Proof. exact run_send_accounts. Qed.
Print Assumptions C08_no_part_lost_or_counted_twice.

(* What is counted as sent after a failed request is exactly the leading k parts
   the receiver reported (all of them when k >= the number of parts), in order,
   and the remainder is exactly the rest. *)
Theorem C08_only_reported_head_counts : forall k ps fwd remain,
  ack_split k ps = (fwd, remain) ->
  concat fwd ++ remain = ps /\ concat fwd = firstn k ps /\ remain = skipn k ps.
Proof. exact ack_split_exact. Qed.
Print Assumptions C08_only_reported_head_counts.

(* ... and the next request carries exactly that remainder (minus parts whose
   file changed meanwhile) - the acknowledged head is not transmitted again. *)
Theorem C08_only_remainder_resent : forall f ps n r k r1 fwd remain ch r2 acc q qs,
  (if Nat.eqb n 0 then recover_count r else Some (n, r)) = Some (k, r1) ->
  ack_split k ps = (fwd, remain) -> remain <> [] ->
  r1 = EChanged ch :: r2 -> filter_changed remain ch = q :: qs ->
  send_loop (S f) ps (ETx n false :: r) acc =
  send_loop f (q :: qs) r2
    (add_drop (add_fwd (add_req acc ps) fwd) (filter (fun p => existsb (Z.eqb p) ch) remain)).
Proof. exact failed_request_step. Qed.
Print Assumptions C08_only_remainder_resent.

(* removing the parts of changed files keeps every other part *)
Theorem C08_filter_keeps_unchanged_parts : forall ps ch,
  NoDup ps -> Permutation (filter_changed ps ch ++ filter (inb ch) ps) ps.
Proof. exact filter_changed_perm. Qed.
Print Assumptions C08_filter_keeps_unchanged_parts.

(* ---- the tracker (startTrack): "a file is written to the sent log and polled only once
   every one of its bytes has been acknowledged" ---- *)
From STS Require Import Model.Tracker Proofs.TrackerP.

(* for EVERY sequence of forwarded payloads (any grouping and order of parts, several files
   interleaved, versions of a name replacing one another): whatever the tracker writes to
   the sent log or hands to the poller, the lengths of the parts acknowledged for that very
   version of that name add up to at least the send size announced for it *)
Theorem C08_logged_only_when_fully_acknowledged : forall pls ev,
  Forall (Forall (fun q => 0 <= tp_len q)) pls ->
  In ev (snd (track_run pls)) ->
  match ev with
  | TLogged n h | THanded n h =>
      exists p, In p (concat pls) /\ tp_name p = n /\ tp_hash p = h /\ tp_send p <= acked n h (concat pls)
  end.
Proof.
  intros pls ev Hp Hin. pose proof (tracker_logs_only_fully_acknowledged pls ev Hp Hin) as G.
  destruct ev; exact G.
Qed.
Print Assumptions C08_logged_only_when_fully_acknowledged.

(* ... and a byte count is enough: pairwise disjoint ranges inside [0, size) whose lengths
   add up to size leave out no byte (the send loop forwards every part exactly once,
   C08_no_part_lost_or_counted_twice; the chunks of a file are disjoint, C11) *)
Theorem C08_count_means_every_byte : forall size l x,
  Forall (within 0 size) l -> ForallOrdPairs disj l -> size <= total l ->
  0 <= x < size -> exists i, In i l /\ fst i <= x < snd i.
Proof. exact disjoint_ranges_adding_up_cover. Qed.
Print Assumptions C08_count_means_every_byte.

(* whatever is complete is handed on: nothing complete stays in the tracker *)
Theorem C08_tracker_keeps_only_incomplete : forall pls n e,
  In (n, e) (fst (track_run pls)) -> te_sent e < te_size e.
Proof. exact tracker_leaves_only_incomplete. Qed.
Print Assumptions C08_tracker_keeps_only_incomplete.
