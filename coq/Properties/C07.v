(* C07 - a sender crash at any point loses nothing and re-sends only what is
   missing. *)
From Coq Require Import List ZArith Bool.
From STS Require Import Model.Ranges Model.Chunk Model.Sender Proofs.RangesP Proofs.ChunkP Proofs.SenderP.
Import ListNotations.
Open Scope Z_scope.

(* the restart plan sends ranges only for a file that is not done, unchanged and
   partly received - and then exactly the ranges computed as missing *)
Theorem C07_resume_sends_only_missing : forall done ign van chg hh m rs,
  recover_decide done ign van chg hh m = PSendRanges rs -> m = Some rs /\ rs <> [] /\ done = false /\ chg = false.
Proof. exact recover_sends_only_missing. Qed.
Print Assumptions C07_resume_sends_only_missing.

(* ... and the missing ranges are exactly the bytes the receiver does not list
   as held (for a record that is disjoint and inside the file) *)
Theorem C07_missing_is_complement_of_listing : forall ps size,
  0 <= size ->
  sorted_disjoint_b (sort_ranges ps) = true ->
  lower_bounded 0 (sort_ranges ps) ->
  (forall i, covered ps i -> i < size) ->
  forall i, covered (missing ps size) i <-> (0 <= i < size /\ ~ covered ps i).
Proof. exact missing_complement. Qed.
Print Assumptions C07_missing_is_complement_of_listing.

(* no file that is still unconfirmed (not done, present, unchanged, hashed) is
   forgotten: it is either resumed or polled *)
Theorem C07_unconfirmed_never_forgotten : forall ign van chg hh m,
  ign = false -> van = false -> chg = false -> hh = true ->
  recover_decide false ign van chg hh m <> PSkip /\ recover_decide false ign van chg hh m <> PMarkDone.
Proof. exact recover_never_forgets_unconfirmed. Qed.
Print Assumptions C07_unconfirmed_never_forgotten.

(* ... and none is finished (and deleted) at restart without a positive answer *)
Theorem C07_restart_releases_only_confirmed : forall code,
  recover_after_poll code = QFinishAndPlaceholder -> code = POLL_WAITING \/ code = POLL_PASSED.
Proof. exact recover_poll_never_releases_on_negative. Qed.
Print Assumptions C07_restart_releases_only_confirmed.

(* ---- the persisted queue cache (cache/local.go): what a restarted sender starts from ---- *)
From STS Require Import Model.Cache Proofs.CacheP.

(* after any history of cache operations (adds, confirmations, resets, removals, writes,
   earlier restarts): writing the cache and restarting loses nothing - every entry with
   every field, the store's private data included *)
Theorem C07_persisted_cache_is_what_restart_finds : forall ops,
  let c := crun empty_cache ops in
  c_mem (crestart (cpersist c)) = c_mem c.
Proof. exact persist_then_restart_loses_nothing. Qed.
Print Assumptions C07_persisted_cache_is_what_restart_finds.

(* a crash between two writes: the file on disk is the one written last, whatever
   happened in memory since *)
Theorem C07_cache_file_changes_only_when_written : forall c op,
  op <> CPersist -> c_disk (cstep c op) = c_disk c.
Proof. exact disk_changes_only_on_persist. Qed.
Print Assumptions C07_cache_file_changes_only_when_written.
