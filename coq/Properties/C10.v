(* C10 - files leave the queue in configured order with a consistent
   predecessor chain. *)
From Coq Require Import List ZArith Bool.
From STS Require Import Model.Ranges Model.Chunk Model.Queue Proofs.QueueP.
Import ListNotations.
Open Scope Z_scope.

(* The pending files of every group stay sorted in the tag's order through
   every Push (incl. files older than ones already emitted, equal timestamps,
   names pushed again) and Pop. *)
Theorem C10_push_keeps_order : forall g f, group_sorted g -> group_sorted (group_push g f).
Proof. exact group_push_sorted. Qed.
Print Assumptions C10_push_keeps_order.

Theorem C10_pop_keeps_order : forall g now g' o,
  group_sorted g -> group_pop g now = (g', o) -> group_sorted g'.
Proof. exact group_pop_sorted. Qed.
Print Assumptions C10_pop_keeps_order.

(* Whatever chunk a group emits belongs to its pending file that comes first
   in the configured order (oldest / newest / alphabetical) ... *)
Theorem C10_emits_least_pending : forall g now g' out,
  group_sorted g -> ordered (torder (gtag g)) ->
  group_pop g now = (g', Some out) ->
  exists f, In f (gfiles g) /\ fname f = pname out /\ is_alloc f = false /\
            forall y, In y (gfiles g) -> is_alloc y = false -> le_order (torder (gtag g)) f y = true.
Proof. exact group_pop_is_min. Qed.
Print Assumptions C10_emits_least_pending.

(* ... and for unordered tags to the first pending file in order of arrival. *)
Theorem C10_emits_first_arrived : forall g now g' out,
  group_pop g now = (g', Some out) ->
  exists pre f post, gfiles g = pre ++ f :: post /\ fname f = pname out /\ is_alloc f = false /\
                     Forall (fun y => is_alloc y = true) pre.
Proof. exact group_pop_arrival. Qed.
Print Assumptions C10_emits_first_arrived.

(* The announced predecessor, exactly: none for unordered tags; a resumed file
   keeps its own; otherwise the file of the group completed (or skipped as
   already sent) most recently; never the file itself. *)
Theorem C10_predecessor_exact : forall g now g' out,
  kept_exact g -> group_pop g now = (g', Some out) ->
  kept_exact g' /\
  exists skipped f rest,
    gfiles g = skipped ++ f :: rest /\ fname f = pname out /\
    Forall (fun x => is_alloc x = true) skipped /\ is_alloc f = false /\
    pprev out =
      guard_self
        (if torder (gtag g) =? ONONE then []
         else if frec f then fprev f
         else hd [] (rev (map fname skipped) ++ gdone g))
        (fname f) /\
    (gdone g' = rev (map fname skipped) ++ gdone g \/
     gdone g' = fname f :: rev (map fname skipped) ++ gdone g).
Proof. exact group_pop_prev_exact. Qed.
Print Assumptions C10_predecessor_exact.

Theorem C10_never_names_itself : forall g now g' out,
  kept_exact g -> group_pop g now = (g', Some out) ->
  pprev out = [] \/ pprev out <> pname out.
Proof. exact prev_never_self. Qed.
Print Assumptions C10_never_names_itself.

Theorem C10_none_for_unordered : forall g now g' out,
  kept_exact g -> torder (gtag g) = ONONE -> group_pop g now = (g', Some out) -> pprev out = [].
Proof. exact prev_none_for_unordered. Qed.
Print Assumptions C10_none_for_unordered.

Theorem C10_none_for_first : forall g now g' out,
  kept_exact g -> gdone g = [] -> group_pop g now = (g', Some out) ->
  (forall x, In x (gfiles g) -> is_alloc x = false) ->
  (forall x, In x (gfiles g) -> frec x = false) ->
  pprev out = [].
Proof. exact prev_none_for_first. Qed.
Print Assumptions C10_none_for_first.

(* acyclicity step: a non-empty predecessor of a non-resumed file was
   completed strictly before this chunk was emitted, so "announced predecessor"
   follows completion order and cannot cycle while names are queued once *)
Theorem C10_predecessor_completed_before : forall g now g' out,
  kept_exact g -> group_pop g now = (g', Some out) ->
  forall f, In f (gfiles g) -> fname f = pname out ->
  (forall x y, In x (gfiles g) -> In y (gfiles g) -> fname x = fname y -> x = y) ->
  frec f = false -> pprev out <> [] ->
  exists skipped, Forall (fun x => is_alloc x = true /\ In x (gfiles g)) skipped /\
    In (pprev out) (rev (map fname skipped) ++ gdone g).
Proof. exact prev_is_done_before. Qed.
Print Assumptions C10_predecessor_completed_before.

Theorem C10_resumed_keeps_predecessor : forall g now g' out,
  kept_exact g -> torder (gtag g) <> ONONE -> group_pop g now = (g', Some out) ->
  forall f, In f (gfiles g) -> fname f = pname out ->
  (forall x y, In x (gfiles g) -> In y (gfiles g) -> fname x = fname y -> x = y) ->
  frec f = true -> pprev out = guard_self (fprev f) (fname f).
Proof. exact recovered_keeps_prev. Qed.
Print Assumptions C10_resumed_keeps_predecessor.

(* the hypothesis kept_exact holds in every state of every history whose
   pushes are benign (no push replaces the ONLY pending file of a group that
   has already completed one) *)
Theorem C10_chain_invariant_over_histories : forall ops outs q',
  benign_history [] ops -> qrun [] ops = (q', outs) -> Forall kept_exact q'.
Proof. intros. eapply qrun_kept_exact; eauto. Qed.
Print Assumptions C10_chain_invariant_over_histories.

(* ... and is refuted without it: the recorded finding *)
Theorem C10_repush_loses_chain_refuted :
  exists (t : tag) q0 ops outs q',
    q0 = [] /\ qrun q0 ops = (q', outs) /\
    exists o1 o2, outs = [None; Some o1; None; None; Some o2] /\
      torder t = OFIFO /\ pname o1 <> pname o2 /\ pprev o2 = [].
Proof. exact repush_loses_chain_refuted. Qed.
Print Assumptions C10_repush_loses_chain_refuted.
