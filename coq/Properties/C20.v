(* C20 - staging clean-up removes only what is already delivered. *)
From Coq Require Import List ZArith Bool.
From STS Require Import Model.Ranges Model.Queue Model.LogM Model.Stage Proofs.StageP.
Import ListNotations.
Open Scope Z_scope.

(* cleanStrays (after fix d299eeb): never touches complete (.full) or validated
   (.wait) bodies, delivered files, the log or the cache; only removes partials
   and companions; and removes a partial only if it is older than the cleaning
   age AND (the cache knows the file beyond "received" with the companion's hash
   - or there is no companion) or the log holds a record of exactly that name
   and the companion's hash *)
Theorem C20_clean_stray_safe : forall s n,
  fulls (clean_stray s n) = fulls s /\ waits (clean_stray s n) = waits s /\
  finals (clean_stray s n) = finals s /\ rlog (clean_stray s n) = rlog s /\
  heap (clean_stray s n) = heap s /\ cache (clean_stray s n) = cache s /\
  (forall k v, In (k, v) (parts (clean_stray s n)) -> In (k, v) (parts s)) /\
  (forall k v, In (k, v) (cmps (clean_stray s n)) -> In (k, v) (cmps s)) /\
  (parts (clean_stray s n) <> parts s ->
     exists sf, alookup n (parts s) = Some sf /\ sf_old sf = true /\
       ((0 < cache_state s n /\
         match alookup n (cmps s) with None => True | Some c => c_hash c = cache_hash s n end) \/
        log_has s n (match alookup n (cmps s) with Some c => c_hash c | None => [] end) = true)).
Proof. exact clean_stray_safe. Qed.
Print Assumptions C20_clean_stray_safe.
