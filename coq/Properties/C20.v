(* C20 - staging clean-up removes only what is already delivered. *)
From Coq Require Import List ZArith Bool.
From STS Require Import Model.Ranges Model.Queue Model.LogM Model.Stage Proofs.StageP.
Import ListNotations.
Open Scope Z_scope.

(* cleanStrays (after fixes d299eeb and "a failed version is not a delivered one"):
   never touches complete (.full) or validated (.wait) bodies, delivered files, the
   log or the cache; only removes partials and companions; and removes a partial OR
   a companion only if the partial is older than the cleaning age AND (the cache knows
   the name as validated (held), put away or logged - NOT failed - with the companion's
   hash, or there is no companion) or the log holds a record of exactly that name and
   the companion's hash. A companion never goes without its partial. *)
Theorem C20_clean_stray_safe : forall s n,
  fulls (clean_stray s n) = fulls s /\ waits (clean_stray s n) = waits s /\
  finals (clean_stray s n) = finals s /\ rlog (clean_stray s n) = rlog s /\
  heap (clean_stray s n) = heap s /\ cache (clean_stray s n) = cache s /\
  (forall k v, In (k, v) (parts (clean_stray s n)) -> In (k, v) (parts s)) /\
  (forall k v, In (k, v) (cmps (clean_stray s n)) -> In (k, v) (cmps s)) /\
  (parts (clean_stray s n) <> parts s \/ cmps (clean_stray s n) <> cmps s ->
     exists sf, alookup n (parts s) = Some sf /\ sf_old sf = true /\
       ((ST_RECEIVED < cache_state s n /\ cache_state s n <> ST_FAILED /\
         match alookup n (cmps s) with None => True | Some c => c_hash c = cache_hash s n end) \/
        log_has s n (match alookup n (cmps s) with Some c => c_hash c | None => [] end) = true)).
Proof. exact clean_stray_safe. Qed.
Print Assumptions C20_clean_stray_safe.

(* ---- Prune (second clause): only directories that are empty and old enough go ---- *)
From STS Require Import Model.Prune Proofs.PruneP.

Theorem C20_prune_removes_only_old_dirs : forall t n,
  In n t -> ~ In n (prune t) -> pn_dir n = true /\ pn_old n = true.
Proof. exact prune_removes_only_old_dirs. Qed.
Print Assumptions C20_prune_removes_only_old_dirs.

Theorem C20_prune_keeps_files_and_young : forall t n,
  In n t -> (pn_dir n = false \/ pn_old n = false) -> In n (prune t).
Proof. exact prune_keeps_files_and_young. Qed.
Print Assumptions C20_prune_keeps_files_and_young.

(* nothing that stays lies directly inside a directory that went: a removed directory was empty *)
Theorem C20_prune_leaves_no_orphans : forall t d c,
  In d t -> ~ In d (prune t) -> In c t -> child_path (pn_path d) (pn_path c) = true -> ~ In c (prune t).
Proof. exact prune_leaves_no_orphans. Qed.
Print Assumptions C20_prune_leaves_no_orphans.

(* exact characterisation, for every tree *)
Theorem C20_prune_spec : forall t d, In d t ->
  (~ In d (prune t) <->
   pn_dir d = true /\ pn_old d = true /\
   forall c, In c t -> child_path (pn_path d) (pn_path c) = true -> ~ In c (prune t)).
Proof. exact prune_spec. Qed.
Print Assumptions C20_prune_spec.

(* the recursion bound of the model never decides the answer *)
Theorem C20_prune_fuel_sufficient : forall t d k,
  removable (prune_fuel t + k) t d = removable (prune_fuel t) t d.
Proof. exact fuel_sufficient. Qed.
Print Assumptions C20_prune_fuel_sufficient.

(* non-vacuity: a young directory holding an old empty one keeps only itself; an old chain collapses *)
Example C20_prune_example :
  prune [mkpnode [[1]] true false; mkpnode [[1]; [2]] true true] = [mkpnode [[1]] true false] /\
  prune [mkpnode [[1]] true true; mkpnode [[1]; [2]] true true; mkpnode [[3]] true true; mkpnode [[3]; [4]] false true]
    = [mkpnode [[3]] true true; mkpnode [[3]; [4]] false true].
Proof. vm_compute. split; reflexivity. Qed.
Print Assumptions C20_prune_example.
