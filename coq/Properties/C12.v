(* C12 - strict priority between tags, round-robin among equal-priority
   groups. *)
From Coq Require Import List ZArith Bool.
From STS Require Import Model.Ranges Model.Chunk Model.Queue Proofs.QueueP.
Import ListNotations.
Open Scope Z_scope.

(* groups stay sorted by priority in every reachable state *)
Theorem C12_groups_sorted_over_histories : forall ops q' outs,
  qrun [] ops = (q', outs) -> prio_sorted q' = true.
Proof. intros. eapply qrun_sorted; eauto. reflexivity. Qed.
Print Assumptions C12_groups_sorted_over_histories.

(* the queue never emits a chunk of a lower-priority group while a
   higher-priority group has a chunk ready *)
Theorem C12_strict_priority : forall q now q' out,
  prio_sorted q = true -> pop q now = (q', Some out) ->
  exists g, In g q /\ snd (group_pop g now) = Some out /\
            forall h, In h q -> group_ready h now = true -> prio h <= prio g.
Proof. exact strict_priority. Qed.
Print Assumptions C12_strict_priority.

(* ... and it is never idle while some group is ready *)
Theorem C12_not_idle_while_ready : forall q now,
  snd (pop_aux q now) = None <-> Forall (fun h => group_ready h now = false) q.
Proof. exact pop_none_iff_none_ready. Qed.
Print Assumptions C12_not_idle_while_ready.

(* the group served is the first ready one in list order; every group in
   front of it was passed over because it is not ready *)
Theorem C12_serves_first_ready : forall q now q' out,
  pop_aux q now = (q', Some out) ->
  exists pre g post, q = pre ++ g :: post /\
    Forall (fun h => group_ready h now = false) pre /\
    snd (group_pop g now) = Some out.
Proof. exact pop_serves_first_ready. Qed.
Print Assumptions C12_serves_first_ready.

(* a group whose only remaining file is younger than the last-file delay is
   not ready - so by the two theorems above it is passed over without blocking *)
Theorem C12_last_delay_skips : forall g f now,
  gfiles g = [f] -> is_alloc f = false ->
  0 < tdelay (gtag g) -> now - ftime f < tdelay (gtag g) ->
  group_ready g now = false.
Proof. exact last_delay_skips. Qed.
Print Assumptions C12_last_delay_skips.
