(* C12 - strict priority between tags, round-robin among equal-priority
   groups. *)
From Coq Require Import List ZArith Bool.
From STS Require Import Model.Ranges Model.Chunk Model.Queue Proofs.QueueP.
Import ListNotations.
Open Scope Z_scope.

(* groups stay sorted by priority in every reachable state *)
Theorem C12_groups_sorted_over_histories : forall ops q' outs,
  qrun [] ops = (q', outs) -> prio_sorted q' = true.
Proof. intros. eapply qrun_sorted; eauto. reflexivity. Qed.
Print Assumptions C12_groups_sorted_over_histories.

(* the queue never emits a chunk of a lower-priority group while a
   higher-priority group has a chunk ready *)
Theorem C12_strict_priority : forall q now q' out,
  prio_sorted q = true -> pop q now = (q', Some out) ->
  exists g, In g q /\ snd (group_pop g now) = Some out /\
            forall h, In h q -> group_ready h now = true -> prio h <= prio g.
Proof. exact strict_priority. Qed.
Print Assumptions C12_strict_priority.

(* ... and it is never idle while some group is ready *)
Theorem C12_not_idle_while_ready : forall q now,
  snd (pop_aux q now) = None <-> Forall (fun h => group_ready h now = false) q.
Proof. exact pop_none_iff_none_ready. Qed.
Print Assumptions C12_not_idle_while_ready.

(* the group served is the first ready one in list order; every group in
   front of it was passed over because it is not ready *)
Theorem C12_serves_first_ready : forall q now q' out,
  pop_aux q now = (q', Some out) ->
  exists pre g post, q = pre ++ g :: post /\
    Forall (fun h => group_ready h now = false) pre /\
    snd (group_pop g now) = Some out.
Proof. exact pop_serves_first_ready. Qed.
Print Assumptions C12_serves_first_ready.

(* a group whose only remaining file is younger than the last-file delay is
   not ready - so by the two theorems above it is passed over without blocking *)
Theorem C12_last_delay_skips : forall g f now,
  gfiles g = [f] -> is_alloc f = false ->
  0 < tdelay (gtag g) -> now - ftime f < tdelay (gtag g) ->
  group_ready g now = false.
Proof. exact last_delay_skips. Qed.
Print Assumptions C12_last_delay_skips.

(* ---- the rotation clause (round robin among equal priorities) ---------------- *)
From STS Require Import Proofs.QueueRotP.

(* one Pop: either the ready group hn is the one served, or the group served
   instead goes behind it: the number of groups of hn's priority in front of hn
   drops by one when the served group has that priority and is unchanged otherwise *)
Theorem C12_rotation_step : forall q now q' out hn p h,
  psorted (map prio q) -> NoDup (map gname q) ->
  pop_aux q now = (q', Some out) ->
  In h q -> gname h = hn -> prio h = p -> group_ready h now = true ->
  exists g, first_ready q now = Some g /\
    (gname g = hn \/
     (gname g <> hn /\
      (rank hn p q' + (if (prio g =? p)%Z then 1 else 0))%nat = rank hn p q)).
Proof. exact rotation_step. Qed.
Print Assumptions C12_rotation_step.

(* bounded bypass over any run of Pops: a group that stays ready is passed over by
   groups of its own priority at most as many times as there are such groups in
   front of it (so at most (size of its priority class - 1) times) *)
Theorem C12_bounded_bypass : forall nows q hn p,
  psorted (map prio q) -> NoDup (map gname q) -> stays_ready hn p q nows ->
  (bypassed hn p q nows <= rank hn p q)%nat.
Proof. exact bounded_bypass. Qed.
Print Assumptions C12_bounded_bypass.

Theorem C12_rank_below_class_size : forall q hn p, (rank hn p q <= countp p q)%nat.
Proof. exact rank_le_countp. Qed.
Print Assumptions C12_rank_below_class_size.

Theorem C12_front_of_class_is_served : forall q now q' out hn p h,
  psorted (map prio q) -> NoDup (map gname q) ->
  pop_aux q now = (q', Some out) ->
  In h q -> gname h = hn -> prio h = p -> group_ready h now = true ->
  rank hn p q = 0%nat ->
  exists g, first_ready q now = Some g /\ (gname g = hn \/ prio g <> p).
Proof. exact front_of_class_is_served. Qed.
Print Assumptions C12_front_of_class_is_served.

(* three groups of one priority, each with a file of several chunks: served in
   rotation; the third group is passed over exactly twice = its rank (the bound is tight) *)
Example C12_rotation_example :
  let tg := mktag 1 OFIFO 10 0 in
  let f := fun n : Z => mkqf [n] 50 25 0 false [] [] 0 25 in
  let q0 := push [] [(f 1, [1], Some tg); (f 2, [2], Some tg); (f 3, [3], Some tg)] in
  map (fun n => match first_ready (fst (fold_left (fun '(q, _) now => pop q now) (repeat 100 n) (q0, None))) 100 with
                | Some g => gname g | None => [] end) [0; 1; 2; 3; 4; 5]%nat
    = [[1]; [2]; [3]; [1]; [2]; [3]]
  /\ rank [3] 1 q0 = 2%nat /\ bypassed [3] 1 q0 [100; 100; 100; 100] = 2%nat.
Proof. vm_compute. repeat split; reflexivity. Qed.
Print Assumptions C12_rotation_example.
