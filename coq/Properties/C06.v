(* C06 - a receiver crash at any point loses nothing and delivers nothing
   unvalidated. *)
From Coq Require Import List ZArith Bool.
From STS Require Import Model.Ranges Model.Queue Model.LogM Model.Stage Proofs.StageP.
Import ListNotations.
Open Scope Z_scope.

Section C06.
Variable H : list Z -> name.
Variable ver : name -> name.

(* Crash-closure of the integrity invariant: if the durable state found on disk
   after a process death satisfies the invariant (every held body hashes to the
   announced hash, every delivered or lock-named file is covered by a log record
   of its hash, companions carry the announced hash), then so does every state
   of every continuation - Recover, re-validation, finalisation, resumed
   reception, further crashes.  Nothing unvalidated is ever delivered. *)
Theorem C06_nothing_unvalidated_after_crash : forall img ops t body,
  Inv H ver img -> Forall (op_in_D H ver) ops ->
  In (t, body) (finals (srun H init_stage (OImage img :: ORestart 0 0 :: ops))) ->
  exists r, In r (rlog (srun H init_stage (OImage img :: ORestart 0 0 :: ops))) /\
            rec_target r = t /\ H body = l_hash r /\ l_hash r = ver (l_name r).
Proof.
  intros img ops t body Himg HD Hin.
  apply (delivered_valid_on_D H ver (OImage img :: ORestart 0 0 :: ops)); auto.
  constructor; [exact Himg|]. constructor; [exact I|]. exact HD.
Qed.

(* Recover's scan loses nothing: log untouched; validated bodies untouched except
   the one body that does not hash to the hash in its own companion (validated as
   another version of the name; removed, fix "Recover checks the held file");
   complete bodies kept, delivered files kept (or replaced by the finished move). *)
Theorem C06_recover_scan_keeps_data : forall s fin val kv s' fin' val',
  recover_one H (s, fin, val) kv = (s', fin', val') ->
  rlog s' = rlog s /\
  (waits s' = waits s \/
   exists b, alookup (fst kv) (waits s) = Some b /\ H b <> c_hash (snd kv) /\
             waits s' = aremove (fst kv) (waits s)) /\
  (forall n b, alookup n (fulls s) = Some b -> alookup n (fulls s') = Some b) /\
  (forall t b, alookup t (finals s) = Some b ->
               alookup t (finals s') = Some b \/ ahas t (flcks s) = true).
Proof. exact (recover_one_keeps_data H). Qed.

(* the one window in which validated data was neither staged nor delivered
   under its name - between the two renames of fileutil.Move - is closed by
   Recover (fix c24e975) *)
Theorem C06_interrupted_move_finished : forall s fin val n c body,
  alookup n (waits s) = None -> ahas n (fulls s) = false -> alookup n (parts s) = None ->
  alookup (match c_renamed c with [] => n | r => r end) (flcks s) = Some body ->
  alookup (match c_renamed c with [] => n | r => r end)
          (finals (fst (fst (recover_one H (s, fin, val) (n, c))))) = Some body.
Proof. exact (recover_one_finishes_move H). Qed.

End C06.
Print Assumptions C06_nothing_unvalidated_after_crash.
Print Assumptions C06_recover_scan_keeps_data.
Print Assumptions C06_interrupted_move_finished.
