(* C05 - each validated file version is delivered exactly once. *)
From Coq Require Import List ZArith Bool.
From STS Require Import Model.Ranges Model.Queue Model.LogM Model.Stage Proofs.StageP.
Import ListNotations.
Open Scope Z_scope.

(* one finalisation = at most one log record, and the final directory changes
   only together with that record; a finalisation whose file is not (or no
   longer) in the validated state changes neither *)
Theorem C05_one_record_per_finalisation : forall s now o,
  (rlog (finalize s now o) = rlog s /\ finals (finalize s now o) = finals s) \/
  (exists f, nth_error (heap s) o = Some f /\
     rlog (finalize s now o) = rlog s ++ [mklr (f_name f) (f_renamed f) (f_hash f) (f_size f) now]).
Proof. exact finalize_logs_first. Qed.
Print Assumptions C05_one_record_per_finalisation.
