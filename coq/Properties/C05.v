(* C05 - each validated file version is delivered exactly once. *)
From Coq Require Import List ZArith Bool.
From STS Require Import Model.Ranges Model.Queue Model.LogM Model.Stage Proofs.StageP.
Import ListNotations.
Open Scope Z_scope.

(* one finalisation = at most one log record, and the final directory changes
   only together with that record; a finalisation whose file is not (or no
   longer) in the validated state changes neither *)
Theorem C05_one_record_per_finalisation : forall s now o,
  (rlog (finalize s now o) = rlog s /\ finals (finalize s now o) = finals s) \/
  (exists f, nth_error (heap s) o = Some f /\
     rlog (finalize s now o) = rlog s ++ [mklr (f_name f) (f_renamed f) (f_hash f) (f_size f) now]).
Proof. exact finalize_logs_first. Qed.
Print Assumptions C05_one_record_per_finalisation.

(* a file whose cache entry is not "validated" - in particular one that is already
   put away (finalized / loaded from the log) or failed - is never logged or
   delivered by a finalisation *)
Theorem C05_known_version_not_logged_again : forall s now o f0,
  nth_error (heap s) o = Some f0 ->
  cache_state (lock (f_name f0) s) (f_name f0) <> ST_VALIDATED ->
  rlog (finalize s now o) = rlog s /\ finals (finalize s now o) = finals s /\ waits (finalize s now o) = waits s.
Proof. exact finalize_needs_validated. Qed.
Print Assumptions C05_known_version_not_logged_again.

(* a part that completes a file whose version (hash) the cache knows - held, put
   away, or still being processed; anything but failed - is recognised as a
   retransmission: acknowledged, and nothing is queued for validation, staged as a
   complete body, logged or delivered *)
Theorem C05_retransmission_discarded : forall s p d sf o,
  alookup (p_name p) (parts s) = Some sf ->
  Z.of_nat (length d) = p_end p - p_beg p ->
  let n := p_name p in
  let c0 := match alookup n (cmps s) with
            | Some c => if name_eqb (c_hash c) (p_hash p)
                        then mkcomp (c_renamed c) (p_prev p) (c_size c) (c_hash c) (c_parts c)
                        else mkcomp (p_renamed p) (p_prev p) (p_size p) (p_hash p) []
            | None => mkcomp (p_renamed p) (p_prev p) (p_size p) (p_hash p) [] end in
  complete (add_part (c_parts c0) (p_beg p) (p_end p)) (c_size c0) = true ->
  cache_obj s n = Some o -> f_state (obj s o) <> ST_FAILED -> f_hash (obj s o) = p_hash p ->
  snd (receive s p d false) = true /\
  vq (fst (receive s p d false)) = vq s /\ fulls (fst (receive s p d false)) = fulls s /\
  heap (fst (receive s p d false)) = heap s /\ rlog (fst (receive s p d false)) = rlog s /\
  finals (fst (receive s p d false)) = finals s.
Proof. exact receive_duplicate_discarded. Qed.
Print Assumptions C05_retransmission_discarded.
