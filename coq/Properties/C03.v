(* C03 - every eligible file is eventually delivered; nothing gets stuck.
   Partial: the protocol-level pieces below are theorems; goroutine scheduling,
   channels and timers are explored by the end-to-end fault scripts. *)
From Coq Require Import List ZArith Bool Permutation.
From STS Require Import Model.Sender Proofs.SenderP.
Import ListNotations.
Open Scope Z_scope.

(* whatever failures came before, once a request is answered successfully the
   payload is completely forwarded: nothing stays in the send loop *)
Theorem C03_send_loop_drains_when_faults_stop : forall ps n acc f,
  let r := send_loop (S f) ps [ETx n true] acc in
  finished r = true /\ rest r = [] /\ forwarded r = forwarded acc ++ [ps].
Proof. exact send_loop_finishes_when_faults_stop. Qed.
Print Assumptions C03_send_loop_drains_when_faults_stop.

(* and through any sequence of failures no part is lost on the way *)
Theorem C03_no_part_lost_by_failures : forall ps evs,
  NoDup ps -> Permutation (accounted (run_send ps evs)) ps.
Proof. exact run_send_accounts. Qed.
Print Assumptions C03_no_part_lost_by_failures.

(* a negative or missing poll answer always leads to another attempt: the
   sender never gives up *)
Theorem C03_never_gives_up : forall code polled attempts,
  code = POLL_NONE \/ code = POLL_FAILED ->
  on_poll code polled attempts = ARetry \/ on_poll code polled attempts = AKeepPolling.
Proof.
  intros code polled attempts [-> | ->]; unfold on_poll; simpl.
  - destruct (polled + 1 =? attempts); auto.
  - auto.
Qed.
Print Assumptions C03_never_gives_up.
