(* C16 - one-shot and graceful stops finish the work; every stop terminates.
   Partial: the verdict-handling core is a theorem; the shutdown order of the
   goroutine pipeline is explored by injecting both kinds of stop at every
   interface event index of generated runs. *)
From Coq Require Import List ZArith Bool.
From STS Require Import Model.Sender Proofs.SenderP.
Import ListNotations.
Open Scope Z_scope.

(* every poll answer resolves the polled file one way or another - released,
   sent to the retry path, or kept for the next poll - and a file is only ever
   released on a positive answer: a graceful stop that waits for the validator
   to empty its backlog records only confirmed files as done *)
Theorem C16_verdicts_resolve : forall code polled attempts,
  on_poll code polled attempts = ARelease \/ on_poll code polled attempts = ARetry \/
  on_poll code polled attempts = AKeepPolling.
Proof. intros. destruct (on_poll code polled attempts); auto. Qed.
Print Assumptions C16_verdicts_resolve.

Theorem C16_recorded_done_only_if_confirmed : forall code polled attempts,
  on_poll code polled attempts = ARelease -> code = POLL_WAITING \/ code = POLL_PASSED.
Proof. exact release_needs_positive_answer. Qed.
Print Assumptions C16_recorded_done_only_if_confirmed.
