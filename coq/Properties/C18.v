(* C18 - transfer logs answer "was this file sent/received" exactly. *)
From Coq Require Import List ZArith Bool.
From STS Require Import Model.Queue Model.LogM Proofs.LogP.
Import ListNotations.
Open Scope Z_scope.

(* A receive-log record answers a look-up iff it is a record of exactly that
   name - and of exactly that hash when one is given; never a record of another
   file whose name merely contains the name, nor the same name with another
   hash.  (names and fields without the separator ':') *)
Theorem C18_record_matches_exactly_recv : forall n h r,
  n <> [] -> no_sep n = true -> clean_rec r ->
  (line_matches n h (line_recv r) = true <-> n = rn r /\ (h = [] \/ h = rh r)).
Proof. exact line_matches_recv. Qed.
Print Assumptions C18_record_matches_exactly_recv.

Theorem C18_record_matches_exactly_sent : forall n h m hh sz tm ms,
  n <> [] -> no_sep n = true -> no_sep m = true -> no_sep hh = true ->
  no_sep sz = true -> no_sep tm = true -> no_sep ms = true ->
  (line_matches n h (line_sent m hh sz tm ms) = true <-> n = m /\ (h = [] \/ h = hh)).
Proof. exact line_matches_sent. Qed.
Print Assumptions C18_record_matches_exactly_sent.

(* Every day the window touches is visited - same day, across midnight and
   month boundaries (days are consecutive integers), reversed windows; an empty
   window visits nothing. *)
Theorem C18_window_days_visited : forall start stop d,
  start <> stop ->
  Z.min (day_of start) (day_of stop) <= d <= Z.max (day_of start) (day_of stop) ->
  In d (walk start stop).
Proof. exact walk_covers. Qed.
Print Assumptions C18_window_days_visited.

Theorem C18_empty_window : forall t, walk t t = [].
Proof. exact walk_empty_window. Qed.
Print Assumptions C18_empty_window.

(* The look-up over a whole log: yes iff a record of exactly that name (and
   hash) lies in a visited day file - EVERY record of every visited day is
   examined, so the same name logged several times with different hashes is
   found. *)
Theorem C18_lookup_exact : forall (lg : list (Z * list rrec)) n h start stop,
  n <> [] -> no_sep n = true ->
  Forall (fun dl => Forall clean_rec (snd dl)) lg ->
  (search (map (fun dl => (fst dl, map line_recv (snd dl))) lg) n h start stop = true <->
   exists d r, In d (walk start stop) /\
     In r (flat_map (fun dl => if fst dl =? d then snd dl else []) lg) /\
     rn r = n /\ (h = [] \/ rh r = h)).
Proof. exact search_exact_recv. Qed.
Print Assumptions C18_lookup_exact.

(* Replaying the receive log yields every field as written. *)
Theorem C18_replay_roundtrip : forall r,
  clean_rec r -> parse_line (line_recv r) = Some (rn r, rr r, rh r, rsz r, rtm r).
Proof. exact parse_roundtrip. Qed.
Print Assumptions C18_replay_roundtrip.

(* Refuted for names containing the record separator: a limitation of the log
   format (recorded finding). *)
Theorem C18_colon_name_refuted :
  exists r, no_sep (rr r) = true /\ no_sep (rh r) = true /\
    parse_line (line_recv r) <> Some (rn r, rr r, rh r, rsz r, rtm r) /\
    exists n, n <> rn r /\ line_matches n [] (line_recv r) = true.
Proof. exact colon_name_refuted. Qed.
Print Assumptions C18_colon_name_refuted.
