(* modelrun: replays trace files written by the Go drivers through the
   extracted Coq model, compares projected observables and evaluates the
   extracted oracles on what the IMPLEMENTATION did.

   usage: modelrun <trace-file>      (one verdict line per trace line)
   output line:  <lineno> TAB <AGREE|DIFF:what> TAB <oracle failures|-> TAB <nontrivial 0/1> TAB <class>
   oracle failure = name:P (the model predicts exactly this failure on this
   input) or name:U (it does not).  *)

module M = Model

(* ---------- conversions between OCaml/Zarith numbers and extracted Z ------ *)
let rec pos_of_zt (n : Z.t) : M.positive =
  if Z.equal n Z.one then M.XH
  else if Z.is_even n then M.XO (pos_of_zt (Z.shift_right n 1))
  else M.XI (pos_of_zt (Z.shift_right n 1))

let z_of_zt (n : Z.t) : M.z =
  if Z.sign n = 0 then M.Z0
  else if Z.sign n > 0 then M.Zpos (pos_of_zt n)
  else M.Zneg (pos_of_zt (Z.neg n))

let rec zt_of_pos (p : M.positive) : Z.t =
  match p with
  | M.XH -> Z.one
  | M.XO q -> Z.shift_left (zt_of_pos q) 1
  | M.XI q -> Z.succ (Z.shift_left (zt_of_pos q) 1)

let zt_of_z (z : M.z) : Z.t =
  match z with M.Z0 -> Z.zero | M.Zpos p -> zt_of_pos p | M.Zneg p -> Z.neg (zt_of_pos p)

let z_of_string s = z_of_zt (Z.of_string s)
let z_of_int i = z_of_zt (Z.of_int i)
let string_of_z z = Z.to_string (zt_of_z z)
let int_of_z z = Z.to_int (zt_of_z z)

(* ---------- token stream ---------------------------------------------------- *)
type toks = { a : string array; mutable i : int }
let mk line = { a = Array.of_list (List.filter (fun s -> s <> "") (String.split_on_char ' ' line)); i = 0 }
exception Malformed of string
let next t = if t.i >= Array.length t.a then raise (Malformed "eol") else (let s = t.a.(t.i) in t.i <- t.i + 1; s)
let peek t = if t.i >= Array.length t.a then "" else t.a.(t.i)
let eol t = t.i >= Array.length t.a
let nz t = z_of_string (next t)
let ni t = int_of_string (next t)
let nb t = (ni t) <> 0
let expect t s = let x = next t in if x <> s then raise (Malformed ("expected " ^ s ^ " got " ^ x))
let rec times n f = if n <= 0 then [] else let x = f () in x :: times (n - 1) f

(* hex string token ("-" = empty) <-> list of byte values as extracted Z *)
let bytes_of_hex s =
  if s = "-" then [] else
  List.init (String.length s / 2) (fun k -> z_of_int (int_of_string ("0x" ^ String.sub s (2 * k) 2)))
let hex_of_bytes l =
  if l = [] then "-" else String.concat "" (List.map (fun z -> Printf.sprintf "%02x" (int_of_z z)) l)
let str_of_hex s =
  if s = "-" then "" else
  String.init (String.length s / 2) (fun k -> Char.chr (int_of_string ("0x" ^ String.sub s (2 * k) 2)))

(* ---------- verdict accumulation ------------------------------------------- *)
type verdict = {
  mutable diffs : string list;
  mutable oracles : string list;
  mutable nontrivial : bool;
  mutable cls : string;
}
let fresh () = { diffs = []; oracles = []; nontrivial = false; cls = "-" }
let diff v s = if not (List.mem s v.diffs) then v.diffs <- s :: v.diffs
let oracle v name predicted =
  let s = name ^ (if predicted then ":P" else ":U") in
  if not (List.mem s v.oracles) then v.oracles <- s :: v.oracles

(* ============================ suite R : ranges (C09) ======================== *)
let suite_ranges t v =
  let size = nz t in
  let n = ni t in
  let parts = times n (fun () -> let b = nz t in let e = nz t in (b, e)) in
  let nq = ni t in
  let qs = times nq (fun () -> let b = nz t in let e = nz t in (b, e)) in
  expect t "=";
  let steps = times n (fun () ->
    let len = ni t in
    let rec_ = times len (fun () -> let b = nz t in let e = nz t in (b, e)) in
    let c = nb t in (rec_, c)) in
  let answers = times nq (fun () -> nb t) in
  let m = ref [] and iprev = ref [] and seen = ref [] in
  let all_d = ref true in
  List.iteri (fun k ((b, e), (irec, ic)) ->
    let ks = string_of_int k in
    let m' = M.add_part !m b e in
    if not (M.same_set_b m' irec) then diff v ("claimed@" ^ ks);
    let mc = M.complete m' size in
    if mc <> ic then diff v ("complete@" ^ ks);
    (* oracle: nothing claimed that was not on record or in this part *)
    if not (M.subset_b irec (!iprev @ [(b, e)])) then
      oracle v "claims_unreceived" (not (M.subset_b m' (!m @ [(b, e)])));
    (* oracle: retention; on D it must hold, outside D only the model's own loss is known *)
    let in_d = M.discipline_b (List.rev !seen) [(b, e)] in
    if not in_d then all_d := false;
    let well_formed = M.Z.ltb b e in
    if well_formed && not (M.subset_b (!iprev @ [(b, e)]) irec) then begin
      let model_drops = not (M.subset_b (!m @ [(b, e)]) m') && M.same_set_b m' irec in
      if in_d && !all_d then oracle v "drops_acknowledged" false
      else oracle v "drops_acknowledged_overlap" model_drops
    end;
    (* oracle: complete only with full coverage *)
    if ic && not (M.subset_b [(M.Z0, size)] irec) then
      oracle v "complete_with_gap" (mc && not (M.subset_b [(M.Z0, size)] m'));
    m := m'; iprev := irec; seen := (b, e) :: !seen) (List.combine parts steps);
  List.iteri (fun k ((qb, qe), ia) ->
    let ma = M.part_exists !m qb qe in
    if ma <> ia then diff v ("exists@" ^ string_of_int k);
    if ia && not (M.subset_b [(qb, qe)] !iprev) then
      oracle v "exists_unreceived" (ma && not (M.subset_b [(qb, qe)] !m) && M.same_set_b !m !iprev))
    (List.combine qs answers);
  v.cls <- (if !all_d then "D" else "F");
  (* non-trivial: at least two parts and two of them touch, overlap or coincide *)
  let touches (b1, e1) (b2, e2) = not (M.Z.ltb e1 b2 || M.Z.ltb e2 b1) in
  let rec anyp = function [] -> false | p :: r -> List.exists (touches p) r || anyp r in
  v.nontrivial <- n >= 2 && anyp parts

(* ============================ dispatch ====================================== *)
let run_line line =
  let t = mk line in
  let v = fresh () in
  (try
     (match next t with
      | "R" -> suite_ranges t v
      | s -> raise (Malformed ("unknown suite " ^ s)))
   with
   | Malformed s -> diff v ("malformed:" ^ s)
   | Failure s -> diff v ("malformed:" ^ s)
   | Invalid_argument s -> diff v ("malformed:" ^ s));
  v

let () =
  let ic = open_in Sys.argv.(1) in
  let k = ref 0 in
  (try
     while true do
       let line = input_line ic in
       incr k;
       if String.length line > 0 && line.[0] <> '#' then begin
         let v = run_line line in
         Printf.printf "%d\t%s\t%s\t%d\t%s\n" !k
           (if v.diffs = [] then "AGREE" else "DIFF:" ^ String.concat "," (List.rev v.diffs))
           (if v.oracles = [] then "-" else String.concat "," (List.rev v.oracles))
           (if v.nontrivial then 1 else 0) v.cls
       end
     done
   with End_of_file -> ());
  close_in ic
